------------------------------- MODULE Lattice -------------------------------
(***************************************************************************)
(* Unit-cell geometry (crystal/unit_cell.py) in exact arithmetic.          *)
(*                                                                         *)
(* A cell is given by an integer lattice matrix L (rows = lattice vectors, *)
(* det L > 0) or by an integer Gram matrix G (dot products of the lattice  *)
(* vectors), together with a rational length scale s = sn/sd.  Everything  *)
(* the property talks about is a rational function of G and s:             *)
(*     metric           s^2 G            volume^2      s^6 det G           *)
(*     length_i^2       s^2 G_ii         cos^2(ang_ij) G_ij^2/(G_ii G_jj)  *)
(*     reciprocal Gram  adj(G)/(s^2 det G)   (starred lengths and angles)  *)
(*     inverse          adj(L)/(s det L)                                   *)
(* All of these are rotation independent, so the two construction routes   *)
(* (vectors / lengths+angles), which embed the cell differently in         *)
(* Cartesian space, are comparable.                                        *)
(*                                                                         *)
(* Magnitudes: |L_ij| <= 20 or |G_ij| <= 400, so G, adj(G), det(G) and     *)
(* G11 G22 G33 stay below 2^31 as plain TLC integers (InRange is checked   *)
(* first by every user); observed floats arrive as BigInt round(x * 2^K).  *)
(***************************************************************************)
EXTENDS Rat

(* ---- 3x3 integer matrices: <<row1, row2, row3>>, 1-based ----------------- *)
Ix == 1..3
Nx(i) == (i % 3) + 1                      \* cyclic successor 1->2->3->1
M3Id == << <<1,0,0>>, <<0,1,0>>, <<0,0,1>> >>
M3T(A) == [i \in Ix |-> [j \in Ix |-> A[j][i]]]
M3Mul(A, B) == [i \in Ix |-> [j \in Ix |-> A[i][1]*B[1][j] + A[i][2]*B[2][j] + A[i][3]*B[3][j]]]
M3Scale(k, A) == [i \in Ix |-> [j \in Ix |-> k * A[i][j]]]
(* cofactor of entry (i,j); the cyclic form carries the sign *)
M3Cof(A, i, j) == A[Nx(i)][Nx(j)] * A[Nx(Nx(i))][Nx(Nx(j))] - A[Nx(i)][Nx(Nx(j))] * A[Nx(Nx(i))][Nx(j)]
M3Adj(A) == [i \in Ix |-> [j \in Ix |-> M3Cof(A, j, i)]]          \* adjugate: A adj(A) = det(A) I
M3Det(A) == A[1][1]*M3Cof(A,1,1) + A[1][2]*M3Cof(A,1,2) + A[1][3]*M3Cof(A,1,3)
M3Tr(A) == A[1][1] + A[2][2] + A[3][3]
AbsI(x) == IF x < 0 THEN -x ELSE x
SgnI(x) == IF x < 0 THEN -1 ELSE IF x > 0 THEN 1 ELSE 0
MaxI2(a, b) == IF a > b THEN a ELSE b

Gram(L) == M3Mul(L, M3T(L))

(* ---- the exact cell ------------------------------------------------------ *)
InRangeL(L) == \A i \in Ix : \A j \in Ix : L[i][j] \in -20..20
InRangeG(G) == \A i \in Ix : \A j \in Ix : G[i][j] \in -400..400
Symmetric(G) == \A i \in Ix : \A j \in Ix : G[i][j] = G[j][i]
(* Sylvester: leading principal minors positive *)
PosDef(G) == G[1][1] > 0 /\ M3Cof(G, 3, 3) > 0 /\ M3Det(G) > 0

(* the angle between lattice vectors j and k is named after the third index i:   *)
(* alpha = angle(b,c) -> 1, beta = angle(a,c) -> 2, gamma = angle(a,b) -> 3.     *)
Oj(i) == Nx(i)
Ok(i) == Nx(Nx(i))

(* squares of the cell parameters, as pairs <<numerator, denominator>> of ints:  *)
Len2(G, i) == G[i][i]                                   \* times s^2
Cos2Num(G, i) == G[Oj(i)][Ok(i)] * G[Oj(i)][Ok(i)]      \* cos^2 = Cos2Num / Cos2Den, sign CosSign
Cos2Den(G, i) == G[Oj(i)][Oj(i)] * G[Ok(i)][Ok(i)]
CosSign(G, i) == SgnI(G[Oj(i)][Ok(i)])
Volume2(G) == M3Det(G)                                  \* times s^6
(* reciprocal metric: RecipGram = adj(G) / det(G), divided by s^2 *)
RecipNum(G) == M3Adj(G)
RecipDen(G) == M3Det(G)
(* condition of the cell (abc/V)^2 >= 1: how much a relative rounding error of   *)
(* the inputs is amplified by the closed forms (1 for orthogonal cells).         *)
CondNum(G) == G[1][1] * G[2][2] * G[3][3]
CondDen(G) == M3Det(G)

(* ---- the closed forms used by the code, as polynomial identities --------- *)
(* volume():  V^2 = a^2 b^2 c^2 (1 - ca^2 - cb^2 - cg^2 + 2 ca cb cg)           *)
VolumeClosedForm(G) ==
  G[1][1]*G[2][2]*G[3][3] - G[1][1]*G[2][3]*G[2][3] - G[2][2]*G[1][3]*G[1][3]
  - G[3][3]*G[1][2]*G[1][2] + 2*G[1][2]*G[1][3]*G[2][3]
(* a_star = b c sin(alpha) / V  ->  a_star^2 = (G_jj G_kk - G_jk^2) / det G      *)
StarLen2Num(G, i) == G[Oj(i)][Oj(i)] * G[Ok(i)][Ok(i)] - G[Oj(i)][Ok(i)] * G[Oj(i)][Ok(i)]
(* cos(alpha_star) = (cos b cos g - cos a)/(sin b sin g); multiplied through by  *)
(* a^2 b c: numerator G_ij G_ik - G_ii G_jk, denominator^2 = (G_ii G_kk - G_ik^2)(G_ii G_jj - G_ij^2) *)
StarCosNum(G, i) == G[i][Oj(i)] * G[i][Ok(i)] - G[i][i] * G[Oj(i)][Ok(i)]
StarCosDen2(G, i) == (G[i][i]*G[Ok(i)][Ok(i)] - G[i][Ok(i)]*G[i][Ok(i)]) * (G[i][i]*G[Oj(i)][Oj(i)] - G[i][Oj(i)]*G[i][Oj(i)])
StarFormulasAgreeA(G, A) ==            \* A = adj(G)
  \A i \in Ix : /\ StarLen2Num(G, i) = A[i][i]
                /\ StarCosNum(G, i) = A[Oj(i)][Ok(i)]
                /\ StarCosDen2(G, i) = A[Oj(i)][Oj(i)] * A[Ok(i)][Ok(i)]
StarFormulasAgree(G) == StarFormulasAgreeA(G, M3Adj(G))

(* set_lengths_and_angles builds the lower triangular T with T T^T = s^2 G and   *)
(* its inverse in closed form.  With a^2 = G11, q^2 = adj33 = G11 G22 - G12^2    *)
(* (q = a b sin gamma) and v^2 = det G the entries are (unit_cell.py:96-109)     *)
(*   T   = [ a, 0, 0 ; G12/a, q/a, 0 ; G13/a, (G11 G23 - G12 G13)/(a q), v/q ]   *)
(*   Inv = [ 1/a, 0, 0 ; -G12/(a q), a/q, 0 ; adj31/(v q), adj32/(v q), q/v ]    *)
(* so that T T^T = G and T Inv = I reduce to these polynomial identities:       *)
CholeskyIdentitiesA(G, A, D) ==        \* A = adj(G), D = det(G)
  LET w == G[1][1]*G[2][3] - G[1][2]*G[1][3]
  IN /\ G[1][2]*G[1][2] + A[3][3] = G[1][1]*G[2][2]                              \* (T T^T)22
     /\ G[1][3]*G[1][2] + w = G[1][1]*G[2][3]                                    \* (T T^T)32
     /\ G[1][3]*G[1][3]*A[3][3] + w*w + G[1][1]*D = G[3][3]*G[1][1]*A[3][3]       \* (T T^T)33
     /\ G[1][3]*A[3][3] - G[1][2]*w + G[1][1]*A[3][1] = 0                         \* (T Inv)31
     /\ w + A[3][2] = 0                                                          \* (T Inv)32
CholeskyIdentities(G) == CholeskyIdentitiesA(G, M3Adj(G), M3Det(G))
(* signed squares t|t| of the entries of T (divided by s^2), as exact rationals *)
CholSq(G, i, j) ==
  LET A == M3Adj(G)
      w == G[1][1]*G[2][3] - G[1][2]*G[1][3]
      Q(sg, n1, n2, d1, d2) == [n |-> BMulInt(BMul(BFromInt(n1), BFromInt(n2)), sg),
                                d |-> BMul(BFromInt(d1), BFromInt(d2))]
  IN CASE i = 1 /\ j = 1 -> Q(1, G[1][1], 1, 1, 1)
       [] i = 2 /\ j = 1 -> Q(SgnI(G[1][2]), G[1][2], G[1][2], G[1][1], 1)
       [] i = 2 /\ j = 2 -> Q(1, A[3][3], 1, G[1][1], 1)
       [] i = 3 /\ j = 1 -> Q(SgnI(G[1][3]), G[1][3], G[1][3], G[1][1], 1)
       [] i = 3 /\ j = 2 -> Q(SgnI(w), w, w, G[1][1], A[3][3])
       [] i = 3 /\ j = 3 -> Q(1, M3Det(G), 1, A[3][3], 1)
       [] OTHER -> Q(0, 0, 0, 1, 1)

(* ---- the two construction routes lead to the same metric ----------------- *)
(* FromVectors keeps L; FromParams sees only lengths^2 and signed cos^2 and      *)
(* rebuilds G_ij = sign * sqrt(cos^2 len_i^2 len_j^2), an exact integer root.    *)
ISqrtExact(n) == CHOOSE r \in 0..n : r * r = n
Params2(G) == [len2 |-> [i \in Ix |-> Len2(G, i)],
               cnum |-> [i \in Ix |-> Cos2Num(G, i)], cden |-> [i \in Ix |-> Cos2Den(G, i)],
               csgn |-> [i \in Ix |-> CosSign(G, i)]]
Third(i, j) == CHOOSE k \in Ix : k # i /\ k # j
GramFromParams2(p) ==
  [i \in Ix |-> [j \in Ix |->
     IF i = j THEN p.len2[i]
     ELSE LET k == Third(i, j)
          IN p.csgn[k] * ISqrtExact((p.cnum[k] * p.len2[i] * p.len2[j]) \div p.cden[k])]]

(* ---- crystal-system families of the named constructors ------------------- *)
OffDiagZero(G) == G[1][2] = 0 /\ G[1][3] = 0 /\ G[2][3] = 0
InFamily(fam, G) ==
  CASE fam = "cubic" -> OffDiagZero(G) /\ G[1][1] = G[2][2] /\ G[2][2] = G[3][3]
    [] fam = "tetragonal" -> OffDiagZero(G) /\ G[1][1] = G[2][2]
    [] fam = "orthorhombic" -> OffDiagZero(G)
    [] fam = "hexagonal" -> G[1][1] = G[2][2] /\ 2*G[1][2] = -G[1][1] /\ G[1][3] = 0 /\ G[2][3] = 0
    [] fam = "rhombohedral" -> G[1][1] = G[2][2] /\ G[2][2] = G[3][3] /\ G[1][2] = G[1][3] /\ G[1][3] = G[2][3]
    [] fam = "monoclinic" -> G[1][2] = 0 /\ G[2][3] = 0
    [] fam = "triclinic" -> TRUE
    [] OTHER -> FALSE
(* the metric a named constructor can produce from the unique parameters it takes *)
FamilyGram(fam, G) ==
  LET a == G[1][1]  b == G[2][2]  c == G[3][3]
  IN CASE fam = "cubic" -> << <<a,0,0>>, <<0,a,0>>, <<0,0,a>> >>
       [] fam = "tetragonal" -> << <<a,0,0>>, <<0,a,0>>, <<0,0,c>> >>
       [] fam = "orthorhombic" -> << <<a,0,0>>, <<0,b,0>>, <<0,0,c>> >>
       [] fam = "hexagonal" -> << <<a, -(a \div 2), 0>>, <<-(a \div 2), a, 0>>, <<0,0,c>> >>
       [] fam = "rhombohedral" -> << <<a, G[2][3], G[2][3]>>, <<G[2][3], a, G[2][3]>>, <<G[2][3], G[2][3], a>> >>
       [] fam = "monoclinic" -> << <<a, 0, G[1][3]>>, <<0, b, 0>>, <<G[1][3], 0, c>> >>
       [] OTHER -> G
Families == {"cubic", "tetragonal", "orthorhombic", "hexagonal", "rhombohedral", "monoclinic", "triclinic"}
RouteFamily(route) ==
  CASE route \in {"cubic", "unique_cubic"} -> "cubic"
    [] route \in {"tetragonal_rad", "tetragonal_deg", "unique_tetragonal"} -> "tetragonal"
    [] route \in {"orthorhombic", "orthorhombic_deg", "unique_orthorhombic"} -> "orthorhombic"
    [] route \in {"hexagonal", "hexagonal_deg", "unique_hexagonal"} -> "hexagonal"
    [] route \in {"rhombohedral_rad", "rhombohedral_deg", "unique_rhombohedral"} -> "rhombohedral"
    [] route \in {"monoclinic_rad", "monoclinic_deg", "unique_monoclinic"} -> "monoclinic"
    \* respec_*: an existing, already used cell re-specified in place (set_vectors / set_lengths_and_angles)
    [] route \in {"vectors", "params_rad", "params_deg", "triclinic_rad", "triclinic_deg", "unique_triclinic",
                  "respec_vectors", "respec_params", "params_rad_np", "params_deg_np",
                  \* *_rt: the unit keyword is a string made at run time; nudged_* / twin_*: a cell differing in the 7th digit was
                  \* used first (and re-specified in place, or left alone next to a second object)
                  "params_rad_rt", "params_deg_rt", "triclinic_rad_rt", "nudged_vectors", "nudged_params",
                  "twin_vectors", "twin_params", "vectors_fortran", "vectors_colT"} -> "triclinic"
    [] OTHER -> "unknown"
(* routes that go through set_lengths_and_angles (lower triangular embedding) *)
ParamsRoute(route) == route \notin {"vectors", "respec_vectors", "nudged_vectors", "twin_vectors", "vectors_fortran", "vectors_colT", "cubic", "orthorhombic", "orthorhombic_deg", "unique_cubic", "unique_orthorhombic"}

(* ---- BigInt 3x3 (observed matrices, entries scaled by 2^K) ---------------- *)
B3Mul(A, B) == [i \in Ix |-> [j \in Ix |->
   BAdd(BAdd(BMul(A[i][1], B[1][j]), BMul(A[i][2], B[2][j])), BMul(A[i][3], B[3][j]))]]
B3T(A) == [i \in Ix |-> [j \in Ix |-> A[j][i]]]
B3Cof(A, i, j) == BSub(BMul(A[Nx(i)][Nx(j)], A[Nx(Nx(i))][Nx(Nx(j))]), BMul(A[Nx(i)][Nx(Nx(j))], A[Nx(Nx(i))][Nx(j)]))
B3Det(A) == BAdd(BAdd(BMul(A[1][1], B3Cof(A,1,1)), BMul(A[1][2], B3Cof(A,1,2))), BMul(A[1][3], B3Cof(A,1,3)))
B3Adj(A) == [i \in Ix |-> [j \in Ix |-> B3Cof(A, j, i)]]
B3FromInt(A) == [i \in Ix |-> [j \in Ix |-> BFromInt(A[i][j])]]
B3Eq(A, B) == \A i \in Ix : \A j \in Ix : BEq(A[i][j], B[i][j])
RECURSIVE BPow2(_)
BPow2(k) == IF k = 0 THEN BFromInt(1) ELSE IF k >= 12 THEN BMulInt(BPow2(k - 12), 4096) ELSE BMulInt(BPow2(k - 1), 2)
IsB3(A) == Len(A) = 3 /\ \A i \in Ix : Len(A[i]) = 3 /\ \A j \in Ix : BWellFormed(A[i][j])
IsBVec(v, n) == Len(v) = n /\ \A i \in 1..n : BWellFormed(v[i])

(* ---- comparison of an observed scaled value with an exact rational -------- *)
(* |X/P - r| <= T     X, P BigInt (P > 0), r and T rationals, T >= 0 *)
CloseTo(X, P, r, T) ==
  BLe(BMul(BAbs(BSub(BMul(X, r.d), BMul(r.n, P))), T.d), BMul(T.n, BMul(P, r.d)))
RInt(n) == RFromInt(n)
RQ(n, d) == RFromInts(n, d)
(* The form used on traces: all arguments BigInt, d, wd > 0, W >= 0:              *)
(*     |X/P - n/d| <= (W/P) (wn/wd)                                               *)
(* W is the tolerance already on the scale P of the observation, wn/wd the       *)
(* magnitude the relative slack refers to.                                       *)
Within(X, P, n, d, W, wn, wd) ==
  BLe(BMul(BAbs(BSub(BMul(X, d), BMul(n, P))), wd), BMul(BMul(W, wn), d))
(* two observations on the same scale: |X - Y| <= W wn/wd *)
WithinObs(X, Y, W, wn, wd) == BLe(BMul(BAbs(BSub(X, Y)), wd), BMul(W, wn))
(* x |x| for a scaled observation (scale doubles) *)
BSignedSq(X) == BMulInt(BMul(X, X), BSign(X))
BI(n) == BFromInt(n)
BOne == BFromInt(1)
=============================================================================
