-------------------------------- MODULE Cif --------------------------------
(***************************************************************************)
(* CIF text <-> typed data, as written and read by chmpy/fmt/cif.py.       *)
(*                                                                         *)
(*  1. data model      ordered blocks -> ordered items -> Scalar | Column   *)
(*                     of values Int | Dec | Str (exact digit sequences)    *)
(*  2. text helpers    text is Seq(0..255); strip / split / tokenise        *)
(*  3. ParseValue      NUM_ERR_REGEX, uncertainty stripping, quote removal  *)
(*  4. serialiser      Cif.to_string as operators (scalars first, columns   *)
(*                     grouped by name prefix then length, 20.12f, quoting) *)
(*  5. parser          Cif.parse as a state machine over lines, one action  *)
(*                     per kind of line                                     *)
(*  6. comparison      what "parses back to the same data" means            *)
(*  7. domain          which data the property statement quantifies over    *)
(*                                                                         *)
(* Deviations of the code at the pinned commit from this specification are  *)
(* written next to the corrected operator and are named ...AsBuilt:         *)
(*   IsDataLineAsBuilt   a loop row test that does not stop at `data_`      *)
(*   TypeAsBuilt         int/float decided by value, not by spelling        *)
(*   ItemTextAsBuilt     scalar value re-joined from blank-separated tokens *)
(* No verdict of the check depends on an AsBuilt operator.                  *)
(***************************************************************************)
EXTENDS Integers, Sequences, FiniteSets, FiniteSetsExt, SequencesExt, TLC

(* ======================= 1. data model ================================= *)
(* Value == [k : {"int","dec","str"}, neg : BOOLEAN, a : Seq(Nat), b : Seq(Nat)]        *)
(*   int: a = decimal digits, most significant first, no leading zero (zero = <<0>>)     *)
(*   dec: a = integer digits (as for int), b = fraction digits without trailing zeros    *)
(*   str: a = bytes                                                                      *)
(* Item  == [name : bytes, col : BOOLEAN, v : Seq(Value)]   (a scalar has Len(v) = 1)    *)
(* Block == [name : bytes, items : Seq(Item)]      Data == Seq(Block)                    *)

Zeros(n) == [i \in 1..n |-> 0]

RECURSIVE StripLead(_)
StripLead(ds) == IF Len(ds) <= 1 THEN (IF ds = <<>> THEN <<0>> ELSE ds)
                 ELSE IF ds[1] = 0 THEN StripLead(Tail(ds)) ELSE ds
RECURSIVE StripTrail(_)
StripTrail(ds) == IF ds = <<>> THEN ds
                  ELSE IF ds[Len(ds)] = 0 THEN StripTrail(SubSeq(ds, 1, Len(ds) - 1)) ELSE ds

IntV(neg, ds) == LET i == StripLead(ds)
                 IN [k |-> "int", neg |-> neg /\ i # <<0>>, a |-> i, b |-> <<>>]
DecV(neg, ip, fp) == LET i == StripLead(ip)
                         f == StripTrail(fp)
                     IN [k |-> "dec", neg |-> neg /\ ~(i = <<0>> /\ f = <<>>), a |-> i, b |-> f]
StrV(bytes) == [k |-> "str", neg |-> FALSE, a |-> bytes, b |-> <<>>]
ErrV(what) == [k |-> "err:" \o what, neg |-> FALSE, a |-> <<>>, b |-> <<>>]   \* the call raises

Scalar(name, v) == [name |-> name, col |-> FALSE, v |-> <<v>>]
Column(name, vs) == [name |-> name, col |-> TRUE, v |-> vs]

(* ---- exact arithmetic on digit sequences (TLC integers are 32 bit) ---- *)
RECURSIVE AddLE(_, _, _)              \* little-endian operands, carry
AddLE(x, y, c) ==
  IF x = <<>> /\ y = <<>> THEN (IF c = 0 THEN <<>> ELSE <<c>>)
  ELSE LET s == (IF x = <<>> THEN 0 ELSE Head(x)) + (IF y = <<>> THEN 0 ELSE Head(y)) + c
       IN <<s % 10>> \o AddLE(IF x = <<>> THEN x ELSE Tail(x), IF y = <<>> THEN y ELSE Tail(y), s \div 10)
RECURSIVE SubLE(_, _, _)              \* requires x >= y
SubLE(x, y, br) ==
  IF x = <<>> THEN <<>>
  ELSE LET s == Head(x) - (IF y = <<>> THEN 0 ELSE Head(y)) - br
       IN <<IF s < 0 THEN s + 10 ELSE s>> \o SubLE(Tail(x), IF y = <<>> THEN y ELSE Tail(y), IF s < 0 THEN 1 ELSE 0)
DAdd(x, y) == StripLead(Reverse(AddLE(Reverse(x), Reverse(y), 0)))
DSub(x, y) == StripLead(Reverse(SubLE(Reverse(x), Reverse(y), 0)))
DCmp(x, y) ==                         \* operands without leading zeros
  IF Len(x) # Len(y) THEN (IF Len(x) < Len(y) THEN -1 ELSE 1)
  ELSE LET i == SelectInSeq([j \in DOMAIN x |-> x[j] # y[j]], LAMBDA df : df)
       IN IF i = 0 THEN 0 ELSE IF x[i] < y[i] THEN -1 ELSE 1

IsNum(v) == v.k \in {"int", "dec"}
Scaled(v, F) == StripLead(v.a \o v.b \o Zeros(F - Len(v.b)))        \* |v| * 10^F, F >= Len(v.b)
AbsDiff(x, y, F) ==
  LET X == Scaled(x, F)
      Y == Scaled(y, F)
  IN IF x.neg = y.neg THEN (IF DCmp(X, Y) >= 0 THEN DSub(X, Y) ELSE DSub(Y, X)) ELSE DAdd(X, Y)
(* |x - y| <= (5e-13 if half12) + 1e-15 * |y| : equality to the precision of the *)
(* 12-decimal fixed-point format, with room for the last bit of a double.          *)
NumClose(x, y, half12) ==
  LET F == Max({Len(x.b), Len(y.b)})
      lhs == StripLead(AbsDiff(x, y, F) \o Zeros(15))
      rhs == DAdd(Scaled(y, F), IF half12 THEN <<5>> \o Zeros(F + 2) ELSE <<0>>)
  IN DCmp(lhs, rhs) <= 0
IntegerValued(v) == v.b = <<>>
(* possibly integer-valued once rounded to 12 decimals: |frac| <= 5e-13 or >= 1 - 5e-13 (ties included: *)
(* which way a tie goes depends on the last bit of the double)                                         *)
IntegerValued12(v) ==
  LET head == StripLead(SubSeq(v.b \o Zeros(13 - Len(v.b)), 1, 13))
  IN \/ v.b = <<>>
     \/ DCmp(head, <<5>>) <= 0
     \/ DCmp(head, <<9,9,9,9,9,9,9,9,9,9,9,9,5>>) >= 0
TwoTo53 == <<9,0,0,7,1,9,9,2,5,4,7,4,0,9,9,2>>

(* ======================= 2. text ======================================= *)
LF == 10
SPC == 32
HASH == 35
USCORE == 95
SQ == 39
DQ == 34
SEMI == 59
DATA_ == <<100, 97, 116, 97, 95>>                 \* "data_"
LOOP_ == <<108, 111, 111, 112, 95>>               \* "loop_"
END_LINE == <<35, 69, 78, 68>>                    \* "#END"

(* str.isspace() on the latin-1 range: what strip(), split() and \s use *)
IsSpace(c) == c \in {9, 10, 11, 12, 13, 28, 29, 30, 31, 32, 133, 160}
NotSpace(c) == ~IsSpace(c)
IsDigit(c) == c \in 48..57
At(s, i) == IF i \in DOMAIN s THEN s[i] ELSE -1
Lower(c) == IF c \in 65..90 THEN c + 32 ELSE c

(* SelectInSeq / SelectInSubSeq / SelectLastInSeq (SequencesExt): lowest / highest index whose *)
(* element satisfies the test, 0 when there is none                                            *)
Strip(s) == LET i == SelectInSeq(s, NotSpace)
            IN IF i = 0 THEN <<>> ELSE SubSeq(s, i, SelectLastInSeq(s, NotSpace))
(* last index of the run of characters satisfying P that starts at i (i-1: empty run) *)
RunEnd(s, i, P(_)) ==
  IF i > Len(s) THEN i - 1
  ELSE LET j == SelectInSubSeq(s, i, Len(s), LAMBDA c : ~P(c)) IN IF j = 0 THEN Len(s) ELSE j - 1
(* str.split(): maximal runs of non-blank characters *)
RECURSIVE SplitFrom(_, _)
SplitFrom(s, i) ==
  LET b == IF i > Len(s) THEN 0 ELSE SelectInSubSeq(s, i, Len(s), NotSpace)
  IN IF b = 0 THEN <<>> ELSE <<SubSeq(s, b, RunEnd(s, b, NotSpace))>> \o SplitFrom(s, RunEnd(s, b, NotSpace) + 1)
SplitWS(s) == SplitFrom(s, 1)
FirstTok(s) == LET b == SelectInSeq(s, NotSpace) IN IF b = 0 THEN <<>> ELSE SubSeq(s, b, RunEnd(s, b, NotSpace))
(* str.split("\n"): n line feeds give n + 1 lines *)
SplitLines(t) ==
  LET r == FoldLeft(LAMBDA acc, c : IF c = LF THEN <<Append(acc[1], acc[2]), <<>>>> ELSE <<acc[1], Append(acc[2], c)>>,
                    <<<<>>, <<>>>>, t)
  IN Append(r[1], r[2])
RECURSIVE JoinWith(_, _)
JoinWith(seqs, sep) == IF seqs = <<>> THEN <<>>
                       ELSE IF Len(seqs) = 1 THEN seqs[1] ELSE seqs[1] \o sep \o JoinWith(Tail(seqs), sep)

\* VALUES_REGEX.findall on a loop row: a '..' or ".." or ;..; group (shortest), else a run of non-blanks
RECURSIVE RowTokens(_, _)
RowTokens(s, p) ==
  IF p > Len(s) THEN <<>>
  ELSE LET c == s[p]
           close == IF p = Len(s) THEN 0 ELSE SelectInSubSeq(s, p + 1, Len(s), LAMBDA x : x = c)
       IN IF c \in {SQ, DQ, SEMI} /\ close # 0
            THEN <<SubSeq(s, p, close)>> \o RowTokens(s, close + 1)
          ELSE IF NotSpace(c)
            THEN <<SubSeq(s, p, RunEnd(s, p, NotSpace))>> \o RowTokens(s, RunEnd(s, p, NotSpace) + 1)
          ELSE RowTokens(s, p + 1)

(* ======================= 3. ParseValue ================================= *)
DigVals(s, i, j) == [n \in 1..(j - i + 1) |-> s[i + n - 1] - 48]
RECURSIVE DigitsToNat(_)              \* at most 4 digits are ever converted
DigitsToNat(ds) == IF ds = <<>> THEN 0 ELSE 10 * DigitsToNat(SubSeq(ds, 1, Len(ds) - 1)) + ds[Len(ds)]

\* NUM_ERR_REGEX must span the string:  sign?  (digits [.,digits?]? | [.,]digits)  ([eE] sign? digits)?  ( "(" digits ")" )?
ScanNumber(s) ==
  LET p0 == IF At(s, 1) \in {43, 45} THEN 2 ELSE 1
      e1 == RunEnd(s, p0, IsDigit)                      \* integer digits p0..e1
      hasInt == e1 >= p0
      hasSep == At(s, e1 + 1) \in {46, 44}
      e2 == IF hasSep THEN RunEnd(s, e1 + 2, IsDigit) ELSE e1
      nfrac == IF hasSep THEN e2 - e1 - 1 ELSE 0
      pm == e2 + 1
      q == IF At(s, pm + 1) \in {43, 45} THEN pm + 2 ELSE pm + 1
      e3 == RunEnd(s, q, IsDigit)
      hasExp == At(s, pm) \in {101, 69} /\ e3 >= q
      pu == IF hasExp THEN e3 + 1 ELSE pm
      e4 == RunEnd(s, pu + 1, IsDigit)
      hasUnc == At(s, pu) = 40 /\ e4 >= pu + 1 /\ At(s, e4 + 1) = 41
      pend == IF hasUnc THEN e4 + 2 ELSE pu
  IN [ok |-> (hasInt \/ (hasSep /\ nfrac >= 1)) /\ pend = Len(s) + 1,
      neg |-> At(s, 1) = 45,
      ip |-> IF hasInt THEN DigVals(s, p0, e1) ELSE <<>>,
      fp |-> IF hasSep THEN DigVals(s, e1 + 2, e2) ELSE <<>>,
      point |-> hasSep, comma |-> hasSep /\ At(s, e1 + 1) = 44,
      hasExp |-> hasExp, eneg |-> hasExp /\ At(s, pm + 1) = 45,
      ed |-> IF hasExp THEN DigVals(s, q, e3) ELSE <<>>,
      hasUnc |-> hasUnc, unc |-> IF hasUnc THEN DigVals(s, pu + 1, e4) ELSE <<>>]
NumberLike(s) == ScanNumber(s).ok

ShiftPoint(ip, fp, e) ==              \* (ip.fp) * 10^e
  LET all == ip \o fp
      pt == Len(ip) + e
  IN IF pt <= 0 THEN <<<<0>>, Zeros(-pt) \o all>>
     ELSE IF pt >= Len(all) THEN <<all \o Zeros(pt - Len(all)), <<>>>>
     ELSE <<SubSeq(all, 1, pt), SubSeq(all, pt + 1, Len(all))>>

(* The type of a number is decided by how it is spelled: digits only -> Int;  *)
(* a decimal point or an exponent -> Dec.                                     *)
TypeBySpelling(n, dec) == IF n.point \/ n.hasExp THEN dec ELSE IntV(n.neg, n.ip)
(* DEVIATION (pinned commit): float(text) and then int() when .is_integer(),  *)
(* so 2.000000000000 comes back as the integer 2 (and integers above 2^53 are *)
(* rounded on the way, which this operator does not model).                   *)
TypeAsBuilt(n, dec) == IF IntegerValued(dec) THEN IntV(dec.neg, dec.a) ELSE dec

NumberValue(n, Type(_, _)) ==
  IF n.comma THEN ErrV("ValueError")                    \* float("1,5") raises
  ELSE IF Len(n.ed) > 3 THEN ErrV("range")
  ELSE LET e == IF n.eneg THEN -DigitsToNat(n.ed) ELSE DigitsToNat(n.ed)
           sh == ShiftPoint(n.ip, n.fp, e)
       IN Type(n, DecV(n.neg, sh[1], sh[2]))

\* parse_quote: at the start of s the delimiter d, blanks, a run of non-d characters, d
ParseQuote(s, d) ==
  IF Len(s) < 2 \/ s[1] # d THEN s
  ELSE LET b == RunEnd(s, 2, IsSpace) + 1
           e == RunEnd(s, b, LAMBDA c : c # d)
       IN IF e + 1 <= Len(s) THEN SubSeq(s, b, e) ELSE s

ParseValueWith(s, Type(_, _)) ==
  LET n == ScanNumber(s)
      st == Strip(s)
  IN IF n.ok THEN NumberValue(n, Type)
     ELSE IF st = <<>> THEN ErrV("IndexError")
     ELSE IF st[1] = st[Len(st)] /\ st[1] \in {SQ, SEMI, DQ} THEN StrV(ParseQuote(s, st[1]))
     ELSE StrV(s)
ParseValue(s) == ParseValueWith(s, TypeBySpelling)
ParseValueAsBuilt(s) == ParseValueWith(s, TypeAsBuilt)
Uncertainty(s) == LET n == ScanNumber(s) IN IF n.ok /\ n.hasUnc THEN StripLead(n.unc) ELSE <<0>>

(* ======================= 4. serialiser ================================= *)
Digits(ds) == [i \in DOMAIN ds |-> ds[i] + 48]
Sign(v) == IF v.neg THEN <<45>> ELSE <<>>
PadLeft(s, w) == IF Len(s) >= w THEN s ELSE [i \in 1..(w - Len(s)) |-> SPC] \o s
(* a string with a blank needs delimiters; so does the empty string (written bare, the next token would be read in its place) *)
NeedsQuote(v) == v.k = "str" /\ (v.a = <<>> \/ (Contains(v.a, SPC) /\ ~(Contains(v.a, SQ) \/ Contains(v.a, DQ))))
Quoted(v) == IF NeedsQuote(v) THEN <<SQ>> \o v.a \o <<SQ>> ELSE v.a

IntText(v) == Sign(v) \o Digits(v.a)
(* "%.12f": round half to even on the decimal digits of the value *)
Fixed12(v) ==
  LET keep == [i \in 1..12 |-> IF i <= Len(v.b) THEN v.b[i] ELSE 0]
      rest == IF Len(v.b) > 12 THEN SubSeq(v.b, 13, Len(v.b)) ELSE <<>>
      up == rest # <<>> /\ (rest[1] > 5 \/ (rest[1] = 5 /\ (Len(rest) > 1 \/ keep[12] % 2 = 1)))
      m0 == v.a \o keep
      m1 == IF up THEN DAdd(m0, <<1>>) ELSE m0
      m == Zeros(13 - Len(m1)) \o m1                     \* at least one integer digit
  IN Sign(v) \o Digits(SubSeq(m, 1, Len(m) - 12)) \o <<46>> \o Digits(SubSeq(m, Len(m) - 11, Len(m)))
(* repr(float): shortest digits; positional for 1e-4 <= |x| < 1e16, else d.ddde[+-]XX *)
ReprDec(v) ==
  LET lead == IF v.a # <<0>> THEN Len(v.a)                                   \* decimal exponent + 1
              ELSE IF v.b = <<>> THEN 1 ELSE 1 - SelectInSeq(v.b, LAMBDA x : x # 0)
      sig == StripTrail(IF v.a # <<0>> THEN v.a \o v.b
                        ELSE IF v.b = <<>> THEN <<>> ELSE SubSeq(v.b, 1 - lead, Len(v.b)))
      ex == lead - 1
      exd == IF ex < 0 THEN -ex ELSE ex
      exdig == IF exd < 10 THEN <<0, exd>> ELSE IF exd < 100 THEN <<exd \div 10, exd % 10>>
               ELSE <<exd \div 100, (exd \div 10) % 10, exd % 10>>
  IN IF lead > 16 \/ lead < -3
       THEN Sign(v) \o Digits(<<sig[1]>>) \o (IF Len(sig) > 1 THEN <<46>> \o Digits(Tail(sig)) ELSE <<>>)
            \o <<101, IF ex < 0 THEN 45 ELSE 43>> \o Digits(exdig)
       ELSE Sign(v) \o Digits(v.a) \o <<46>> \o Digits(IF v.b = <<>> THEN <<0>> ELSE v.b)

(* str(value) used for scalars, format_field used for loop cells *)
ScalarText(v) == IF v.k = "int" THEN IntText(v) ELSE IF v.k = "dec" THEN ReprDec(v) ELSE Quoted(v)
FormatField(v) == IF v.k = "int" THEN PadLeft(IntText(v), 20)
                  ELSE IF v.k = "dec" THEN PadLeft(Fixed12(v), 20) ELSE Quoted(v)

NamePrefix(name) == LET u == SelectInSeq(name, LAMBDA c : c = USCORE)
                    IN IF u = 0 THEN name ELSE SubSeq(name, 1, u - 1)
(* itertools.groupby(names, prefix) and inside it groupby(names, len(column)): a new loop *)
(* starts whenever the prefix changes, or the length changes inside a prefix run          *)
SameLoop(x, y) == NamePrefix(x.name) = NamePrefix(y.name) /\ Len(x.v) = Len(y.v)
RECURSIVE LoopGroups(_)
LoopGroups(cols) ==
  IF cols = <<>> THEN <<>>
  ELSE LET brk == {i \in 2..Len(cols) : ~SameLoop(cols[i-1], cols[i])}
           n == IF brk = {} THEN Len(cols) ELSE Min(brk) - 1
       IN <<SubSeq(cols, 1, n)>> \o LoopGroups(SubSeq(cols, n + 1, Len(cols)))
LoopLinesWith(g, FF(_)) ==
  <<LOOP_>> \o [i \in DOMAIN g |-> <<USCORE>> \o g[i].name]
  \o [r \in 1..Len(g[1].v) |-> JoinWith([i \in DOMAIN g |-> FF(g[i].v[r])], <<SPC>>)]
BlockLinesWith(b, ST(_), FF(_)) ==
  LET sc == SelectSeq(b.items, LAMBDA it : ~it.col)
      cl == SelectSeq(b.items, LAMBDA it : it.col)
      gs == LoopGroups(cl)
  IN <<DATA_ \o b.name>>
     \o [i \in DOMAIN sc |-> <<USCORE>> \o sc[i].name \o <<SPC>> \o ST(sc[i].v[1])]
     \o FlattenSeq([i \in DOMAIN gs |-> LoopLinesWith(gs[i], FF)])
(* ST: how a scalar is written, FF: how a loop cell is written *)
SerLinesWith(d, ST(_), FF(_)) == FlattenSeq([i \in DOMAIN d |-> BlockLinesWith(d[i], ST, FF)]) \o <<END_LINE>>
SerLines(d) == SerLinesWith(d, ScalarText, FormatField)
SerText(d) == JoinWith(SerLines(d), <<LF>>)

(* ======================= 5. parser (Cif.parse) ========================= *)
VARIABLES lines,     \* content_lines
          pos,       \* line_index + 1
          block,     \* current_data_block_name
          mode,      \* "top" | "names" | "rows" (inside parse_loop_block) | "done" | "error" | "unsupported"
          parsed,    \* self.data, in insertion order
          keys,      \* names of the loop being read
          rows       \* its rows (stripped lines)
pvars == <<lines, pos, block, mode, parsed, keys, rows>>

UNKNOWN == <<117, 110, 107, 110, 111, 119, 110>>       \* "unknown"
ParserIdle == /\ lines = <<>> /\ pos = 0 /\ block = <<>> /\ mode = "idle"
              /\ parsed = <<>> /\ keys = <<>> /\ rows = <<>>
ParserStart(ls) == /\ lines' = ls /\ pos' = 1 /\ block' = UNKNOWN /\ mode' = "top"
                   /\ parsed' = <<>> /\ keys' = <<>> /\ rows' = <<>>

BlockIdx(dt, bn) == {i \in DOMAIN dt : dt[i].name = bn}
PutItem(dt, bn, it) ==                \* self.current_data_block[k] = ...
  LET d1 == IF BlockIdx(dt, bn) = {} THEN Append(dt, [name |-> bn, items |-> <<>>]) ELSE dt
      bi == CHOOSE i \in BlockIdx(d1, bn) : TRUE
      its == d1[bi].items
      ii == {j \in DOMAIN its : its[j].name = it.name}
  IN [d1 EXCEPT ![bi].items = IF ii = {} THEN Append(its, it) ELSE [its EXCEPT ![CHOOSE j \in ii : TRUE] = it]]

Cur == lines[pos]
TopKind(l) ==
  LET s == Strip(l)
      tk == FirstTok(s)
  IN IF s = <<>> THEN "blank"
     ELSE IF tk = <<HASH>> THEN "comment"
     ELSE IF tk = LOOP_ THEN "loop"
     ELSE IF tk[1] = USCORE THEN "item"
     ELSE IF IsPrefix(DATA_, tk) THEN "data"
     ELSE "other"
AtTop(kind) == mode = "top" /\ pos <= Len(lines) /\ TopKind(Cur) = kind
Skip == pos' = pos + 1 /\ UNCHANGED <<lines, block, mode, parsed, keys, rows>>

ParseBlank == AtTop("blank") /\ Skip
ParseComment == AtTop("comment") /\ Skip               \* parse_comment_line
ParseOther == AtTop("other") /\ Skip                   \* "Skipping unknown line" (e.g. #END)
ParseDataHeader ==                                      \* parse_data_block_name: line[5:].strip()
  /\ AtTop("data")
  /\ block' = Strip(SubSeq(Cur, 6, Len(Cur))) /\ pos' = pos + 1
  /\ UNCHANGED <<lines, mode, parsed, keys, rows>>

(* the value text of `_name value ...` *)
ItemText(s) == LET r == SubSeq(s, 2, Len(s))            \* rest of the line after the name, spacing kept
                   e == RunEnd(r, 1, NotSpace)
               IN Strip(SubSeq(r, e + 1, Len(r)))
(* DEVIATION (pinned commit): " ".join(tokens[1:]) collapses runs of blanks inside a quoted value *)
ItemTextAsBuilt(s) == JoinWith(Tail(SplitWS(SubSeq(s, 2, Len(s)))), <<SPC>>)
ParseItemWith(Text(_), PV(_)) ==                        \* parse_data_name
  /\ AtTop("item")
  /\ LET s == Strip(Cur)
         tk == SplitWS(SubSeq(s, 2, Len(s)))
     IN IF Len(tk) = 0 THEN mode' = "error" /\ UNCHANGED <<pos, parsed>>             \* tokens[0]: IndexError
        ELSE IF Len(tk) = 1 THEN mode' = "unsupported" /\ UNCHANGED <<pos, parsed>>  \* value on following lines:
                                                         \* never written by the serialiser for data in the domain
        ELSE /\ parsed' = PutItem(parsed, block, Scalar(tk[1], PV(Text(s))))
             /\ pos' = pos + 1 /\ mode' = mode
  /\ UNCHANGED <<lines, block, keys, rows>>

ParseLoopHeader ==                                      \* parse_loop_block, first line
  /\ AtTop("loop")
  /\ pos' = pos + 1 /\ keys' = <<>> /\ rows' = <<>>
  /\ mode' = IF pos + 1 > Len(lines) THEN "error" ELSE "names"
  /\ UNCHANGED <<lines, block, parsed>>
IsNameLine(l) == At(Strip(l), 1) = USCORE
ParseLoopName ==
  /\ mode = "names" /\ IsNameLine(Cur)
  /\ keys' = Append(keys, Tail(Strip(Cur))) /\ pos' = pos + 1
  /\ mode' = IF pos + 1 > Len(lines) THEN "error" ELSE mode
  /\ UNCHANGED <<lines, block, parsed, rows>>
ParseLoopNamesEnd ==
  /\ mode = "names" /\ ~IsNameLine(Cur)
  /\ mode' = "rows" /\ UNCHANGED <<lines, pos, block, parsed, keys, rows>>

(* is_data_line.  DEVIATION (pinned commit): the test knows `#`, `_name` and `loop_` but not *)
(* `data_`, so the header of the next block is read as one more row of the loop and every   *)
(* item of that block lands in the block before it.                                         *)
IsDataLineAsBuilt(l) ==
  LET s == Strip(l)
  IN s # <<>> /\ s[1] # HASH /\ s[1] # USCORE /\ FirstTok(s) \notin {<<HASH>>, LOOP_}
IsDataLine(l) == IsDataLineAsBuilt(l) /\ ~IsPrefix(DATA_, FirstTok(Strip(l)))

ParseLoopRowWith(DL(_)) ==
  /\ mode = "rows" /\ pos <= Len(lines) /\ DL(Cur)
  /\ rows' = Append(rows, Strip(Cur)) /\ pos' = pos + 1
  /\ UNCHANGED <<lines, block, mode, parsed, keys>>
(* columns: for every row zip(keys, tokens) and append parse_value(token) *)
ColumnOf(j, PV(_)) ==
  LET tk == [r \in DOMAIN rows |-> RowTokens(rows[r], 1)]
      has == SelectSeq([r \in DOMAIN rows |-> r], LAMBDA r : j <= Len(tk[r]))
  IN [i \in DOMAIN has |-> PV(tk[has[i]][j])]
PutColumns(dt, PV(_)) ==
  FoldLeft(LAMBDA acc, j : PutItem(acc, block, Column(keys[j], ColumnOf(j, PV))), dt, [j \in DOMAIN keys |-> j])
ParseLoopEndWith(DL(_), PV(_)) ==
  /\ mode = "rows" /\ (pos > Len(lines) \/ ~DL(Cur))
  /\ parsed' = PutColumns(parsed, PV) /\ mode' = "top"
  /\ UNCHANGED <<lines, pos, block, keys, rows>>
ParseEof == mode = "top" /\ pos > Len(lines) /\ mode' = "done"
            /\ UNCHANGED <<lines, pos, block, parsed, keys, rows>>

ParserNextWith(DL(_), PV(_), Text(_)) ==
  \/ ParseBlank \/ ParseComment \/ ParseOther \/ ParseDataHeader
  \/ ParseItemWith(Text, PV)
  \/ ParseLoopHeader \/ ParseLoopName \/ ParseLoopNamesEnd
  \/ ParseLoopRowWith(DL) \/ ParseLoopEndWith(DL, PV)
  \/ ParseEof
ParserNext == ParserNextWith(IsDataLine, ParseValue, ItemText)
ParserNextAsBuilt == ParserNextWith(IsDataLineAsBuilt, ParseValueAsBuilt, ItemTextAsBuilt)
ParserRunning == mode \in {"top", "names", "rows"}

(* ======================= 6. same data ================================== *)
(* A Python dict compares by key, not by position: blocks and items are compared as maps. *)
Names(seq) == {seq[i].name : i \in DOMAIN seq}
ByName(seq, n) == seq[CHOOSE i \in DOMAIN seq : seq[i].name = n]
CellsOf(d) == UNION {UNION {{<<d[i].name, d[i].items[j].name, r>> : r \in DOMAIN d[i].items[j].v}
                             : j \in DOMAIN d[i].items} : i \in DOMAIN d}
CellAt(d, c) == ByName(ByName(d, c[1]).items, c[2]).v[c[3]]
IsColumn(d, c) == ByName(ByName(d, c[1]).items, c[2]).col

SameBlockNames(x, y) == Names(x) = Names(y) /\ Len(x) = Len(y)
SameItemNames(x, y) == \A bn \in Names(y) :
   LET p == ByName(x, bn).items
       q == ByName(y, bn).items
   IN Names(p) = Names(q) /\ Len(p) = Len(q)
SameShapes(x, y) == \A bn \in Names(y) : \A n \in Names(ByName(y, bn).items) :
   LET p == ByName(ByName(x, bn).items, n)
       q == ByName(ByName(y, bn).items, n)
   IN p.col = q.col /\ Len(p.v) = Len(q.v)
TypeDiff(x, y) == {c \in CellsOf(y) : CellAt(x, c).k # CellAt(y, c).k}
(* x: what came back, y: what was given; loop cells to the precision of the format *)
ValueOK(p, q, half12) == IF q.k = "dec" /\ IsNum(p) THEN NumClose(p, q, half12) ELSE p = q   \* ints and strings exactly
ValueDiff(x, y, fmt) == {c \in CellsOf(y) : ~ValueOK(CellAt(x, c), CellAt(y, c), fmt /\ IsColumn(y, c))}
SameData(x, y) == /\ SameBlockNames(x, y) /\ SameItemNames(x, y) /\ SameShapes(x, y)
                  /\ TypeDiff(x, y) = {} /\ ValueDiff(x, y, FALSE) = {}

(* ======================= 7. domain of the property ===================== *)
Printable(s) == \A i \in DOMAIN s : s[i] \in 32..126
NameOK(s) == s # <<>> /\ \A i \in DOMAIN s : s[i] \in 33..126
ReservedWords == {DATA_, LOOP_, <<115,97,118,101,95>>, <<103,108,111,98,97,108,95>>, <<115,116,111,112,95>>}
ReservedStr(s) == \/ s[1] \in {USCORE, HASH, 36, SEMI, 91, 93}
                  \/ LET tk == [i \in DOMAIN FirstTok(s) |-> Lower(FirstTok(s)[i])]
                     IN \E w \in ReservedWords : IsPrefix(w, tk)
HasBlank(s) == Contains(s, SPC)
HasQuote(s) == Contains(s, SQ) \/ Contains(s, DQ)
(* why a string is outside the quantifier of the statement ("" = inside) *)
StrOutside(s) ==
  IF s = <<>> THEN ""                           \* the empty string is a string CIF expresses ('')
  ELSE IF ~Printable(s) THEN "unprintable"
  ELSE IF s[1] = SPC \/ s[Len(s)] = SPC THEN "outer-blank"
  ELSE IF NumberLike(s) THEN "number-like-string"
  ELSE IF ReservedStr(s) THEN "reserved-word"
  ELSE IF HasBlank(s) /\ HasQuote(s) THEN "nested-quote"
  ELSE IF s[1] \in {SQ, DQ} THEN "nested-quote"
  ELSE ""
DigitsOK(ds) == \A i \in DOMAIN ds : ds[i] \in 0..9
ValueOutside(v) ==
  IF v.k = "str" THEN StrOutside(v.a)
  ELSE IF v.k = "int" THEN
     (IF ~(DigitsOK(v.a) /\ v.a = StripLead(v.a)) THEN "malformed"
      ELSE IF Len(v.a) + (IF v.neg THEN 1 ELSE 0) > 20 THEN "wider-than-format" ELSE "")
  ELSE IF v.k = "dec" THEN
     (IF ~(DigitsOK(v.a) /\ DigitsOK(v.b) /\ v.a = StripLead(v.a) /\ v.b = StripTrail(v.b)) THEN "malformed"
      ELSE IF Len(v.a) + (IF v.neg THEN 1 ELSE 0) > 7 THEN "wider-than-format"
      ELSE IF Len(v.b) > 40 THEN "wider-than-format" ELSE "")
  ELSE "not-int-float-str"
NoDupNames(seq) == Cardinality(Names(seq)) = Len(seq)
Outside(d) ==
  IF d = <<>> THEN "no-block"
  ELSE IF ~(\A i \in DOMAIN d : NameOK(d[i].name)) \/ ~NoDupNames(d) THEN "block-name"
  ELSE IF \E i \in DOMAIN d : d[i].items = <<>> THEN "empty-block"
  ELSE IF \E i \in DOMAIN d : ~(\A j \in DOMAIN d[i].items : NameOK(d[i].items[j].name)) \/ ~NoDupNames(d[i].items)
    THEN "item-name"
  ELSE IF \E i \in DOMAIN d : \E j \in DOMAIN d[i].items : ~d[i].items[j].col /\ Len(d[i].items[j].v) # 1
    THEN "malformed"
  ELSE LET bad == {c \in CellsOf(d) : ValueOutside(CellAt(d, c)) # ""}
       IN IF bad = {} THEN "" ELSE ValueOutside(CellAt(d, CHOOSE c \in bad : TRUE))
=============================================================================
