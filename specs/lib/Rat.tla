-------------------------------- MODULE Rat --------------------------------
(***************************************************************************)
(* Exact rationals over BigInt: [n |-> BigInt, d |-> BigInt > 0].          *)
(* Not normalised (no gcd); comparison is by cross multiplication.          *)
(***************************************************************************)
EXTENDS BigInt

RMk(n, d) == IF BSign(d) < 0 THEN [n |-> BNeg(n), d |-> BNeg(d)] ELSE [n |-> n, d |-> d]
RFromInts(n, d) == RMk(BFromInt(n), BFromInt(d))
RFromInt(n) == [n |-> BFromInt(n), d |-> BFromInt(1)]
RZero == RFromInt(0)
RAdd(x, y) == [n |-> BAdd(BMul(x.n, y.d), BMul(y.n, x.d)), d |-> BMul(x.d, y.d)]
RNeg(x) == [n |-> BNeg(x.n), d |-> x.d]
RSub(x, y) == RAdd(x, RNeg(y))
RMul(x, y) == [n |-> BMul(x.n, y.n), d |-> BMul(x.d, y.d)]
RDiv(x, y) == RMk(BMul(x.n, y.d), BMul(x.d, y.n))        \* y # 0
RCmp(x, y) == BCmp(BMul(x.n, y.d), BMul(y.n, x.d))
RLt(x, y) == RCmp(x, y) < 0
RLe(x, y) == RCmp(x, y) <= 0
REq(x, y) == RCmp(x, y) = 0
RSign(x) == BSign(x.n)
RAbs(x) == [n |-> BAbs(x.n), d |-> x.d]
RWellFormed(x) == BWellFormed(x.n) /\ BWellFormed(x.d) /\ BSign(x.d) > 0
=============================================================================
