------------------------------- MODULE BigInt -------------------------------
(***************************************************************************)
(* Exact integers beyond TLC's 32 bits: sign + little-endian base-10^4     *)
(* limbs, no leading zero limb; zero is [s |-> 0, d |-> <<>>].             *)
(* Magnitude bound: at most 16 limbs per operand of Mul (64 decimal        *)
(* digits), so that a column sum of 16 products < 16*10^8 fits in 31 bits. *)
(***************************************************************************)
EXTENDS Integers, Sequences

LOCAL B == 10000
BZero == [s |-> 0, d |-> <<>>]

LOCAL MaxI(a, b) == IF a > b THEN a ELSE b
LOCAL Limb(d, i) == IF i <= Len(d) THEN d[i] ELSE 0

RECURSIVE BTrim(_)
BTrim(d) == IF d = <<>> THEN d ELSE IF d[Len(d)] = 0 THEN BTrim(SubSeq(d, 1, Len(d)-1)) ELSE d

LOCAL Mk(s, d) == LET t == BTrim(d) IN IF t = <<>> THEN BZero ELSE [s |-> s, d |-> t]

(* from a TLC integer |n| < 2^31 *)
BFromInt(n) == LET a == IF n < 0 THEN -n ELSE n
               IN Mk(IF n < 0 THEN -1 ELSE 1, <<a % B, (a \div B) % B, a \div (B*B)>>)

(* ---- magnitudes -------------------------------------------------------- *)
RECURSIVE CmpMagR(_, _, _)
CmpMagR(a, b, i) == IF i = 0 THEN 0
                    ELSE IF a[i] > b[i] THEN 1 ELSE IF a[i] < b[i] THEN -1 ELSE CmpMagR(a, b, i-1)
CmpMag(a, b) == IF Len(a) > Len(b) THEN 1 ELSE IF Len(a) < Len(b) THEN -1 ELSE CmpMagR(a, b, Len(a))

RECURSIVE AddMagR(_, _, _, _, _)
AddMagR(a, b, i, n, c) == IF i > n THEN (IF c = 0 THEN <<>> ELSE <<c>>)
                          ELSE LET v == Limb(a, i) + Limb(b, i) + c
                               IN <<v % B>> \o AddMagR(a, b, i+1, n, v \div B)
AddMag(a, b) == AddMagR(a, b, 1, MaxI(Len(a), Len(b)), 0)

RECURSIVE SubMagR(_, _, _, _, _)     \* requires a >= b
SubMagR(a, b, i, n, br) == IF i > n THEN <<>>
                           ELSE LET v == Limb(a, i) - Limb(b, i) - br
                                IN <<(v + B) % B>> \o SubMagR(a, b, i+1, n, IF v < 0 THEN 1 ELSE 0)
SubMag(a, b) == BTrim(SubMagR(a, b, 1, Len(a), 0))

LOCAL Col(a, b, k) == \* sum of a_i * b_j with i + j = k + 1
  LET lo == MaxI(1, k + 1 - Len(b))
      hi == IF k < Len(a) THEN k ELSE Len(a)
      RECURSIVE S(_)
      S(i) == IF i > hi THEN 0 ELSE a[i] * b[k + 1 - i] + S(i + 1)
  IN S(lo)
RECURSIVE MulMagR(_, _, _, _, _)
MulMagR(a, b, k, n, c) == IF k > n THEN (IF c = 0 THEN <<>> ELSE <<c % B>> \o (IF c \div B = 0 THEN <<>> ELSE <<c \div B>>))
                          ELSE LET v == Col(a, b, k) + c
                               IN <<v % B>> \o MulMagR(a, b, k+1, n, v \div B)
MulMag(a, b) == IF a = <<>> \/ b = <<>> THEN <<>> ELSE BTrim(MulMagR(a, b, 1, Len(a) + Len(b) - 1, 0))

(* ---- signed ------------------------------------------------------------ *)
BNeg(x) == [s |-> -x.s, d |-> x.d]
BAbs(x) == [s |-> IF x.s = 0 THEN 0 ELSE 1, d |-> x.d]
BSign(x) == x.s
BAdd(x, y) ==
  IF x.s = 0 THEN y ELSE IF y.s = 0 THEN x
  ELSE IF x.s = y.s THEN [s |-> x.s, d |-> AddMag(x.d, y.d)]
  ELSE LET c == CmpMag(x.d, y.d)
       IN IF c = 0 THEN BZero
          ELSE IF c > 0 THEN [s |-> x.s, d |-> SubMag(x.d, y.d)]
          ELSE [s |-> y.s, d |-> SubMag(y.d, x.d)]
BSub(x, y) == BAdd(x, BNeg(y))
BMul(x, y) == IF x.s = 0 \/ y.s = 0 THEN BZero ELSE [s |-> x.s * y.s, d |-> MulMag(x.d, y.d)]
BMulInt(x, n) == BMul(x, BFromInt(n))
BCmp(x, y) == IF x.s # y.s THEN (IF x.s > y.s THEN 1 ELSE -1)
              ELSE IF x.s = 0 THEN 0 ELSE x.s * CmpMag(x.d, y.d)
BLt(x, y) == BCmp(x, y) < 0
BLe(x, y) == BCmp(x, y) <= 0
BEq(x, y) == BCmp(x, y) = 0
BMax(x, y) == IF BLt(x, y) THEN y ELSE x

(* from a record shipped by the harness: [s |-> -1|0|1, d |-> limbs] is already a BigInt;  *)
(* BWellFormed guards deserialised data.                                                     *)
BWellFormed(x) == /\ x.s \in {-1, 0, 1}
                  /\ (x.s = 0) = (x.d = <<>>)
                  /\ \A i \in DOMAIN x.d : x.d[i] \in 0..(B-1)
                  /\ (x.d # <<>> => x.d[Len(x.d)] # 0)

(* |x - y| * den <= num * max(|x|,|y|) + abs   (relative comparison with slack) *)
BClose(x, y, num, den, abs) ==
  BLe(BMulInt(BAbs(BSub(x, y)), den), BAdd(BMulInt(BMax(BAbs(x), BAbs(y)), num), abs))
=============================================================================
