------------------------------ MODULE Invariants ------------------------------
(***************************************************************************)
(* Rotation invariants of chmpy/shape/shape_descriptors.py                 *)
(* (make_N_invariants, make_invariants), _invariants.pyx (p_invariants_c)  *)
(* and SHT.power_spectrum, on exact coefficient vectors in the complex     *)
(* layout l(l+1)+m of module SHT (Gaussian integers).                      *)
(*                                                                         *)
(* Computed exactly here: N2(l) = sum_m |c_lm|^2 (so N_l = sqrt N2(l)),    *)
(* Power(l) = N2(l)/(2l+1), the list of (l2,l1,l) triples of the P         *)
(* invariants with its order, two exact rotations RotZ4 and FlipY and the  *)
(* group they generate.  N2AsBuilt is the slice found in the code at the   *)
(* pinned commit (one coefficient of degree l+1 included) - a deviation.   *)
(* Values of P (Clebsch-Gordan sums) are not computed: relational only.    *)
(***************************************************************************)
EXTENDS SHT

(* ---- sizes --------------------------------------------------------------- *)
NCount(c) == ISqrt(Len(c))                  \* size = int(np.sqrt(len(coefficients)))
DegOf(c) == NCount(c) - 1
SquareLen(c) == NCount(c) * NCount(c) = Len(c)

(* ---- N ------------------------------------------------------------------- *)
N2(c, l) == P2Cplx(c, l)                                         \* sum over -l <= m <= l of |c_lm|^2
(* as built: coefficients[lower : upper + 1] with lower = l^2, upper = (l+1)^2 (0-based, clipped) *)
N2AsBuilt(c, l) ==
  LET lo == l * l + 1
      hi == IF (l + 1) * (l + 1) + 1 <= Len(c) THEN (l + 1) * (l + 1) + 1 ELSE Len(c)
  IN ISum([j \in 1..(hi - lo + 1) |-> GNorm2(c[lo + j - 1])])
(* the coefficient that leaks into N_l: c_{l+1,-(l+1)} *)
Leak(c, l) == IF (l + 1) * (l + 1) + 1 <= Len(c) THEN GNorm2(c[(l + 1) * (l + 1) + 1]) ELSE 0
HasLeak(c) == \E l \in 0..DegOf(c) : Leak(c, l) # 0
MaxN2(c) == IMax([l1 \in 1..NCount(c) |-> N2(c, l1 - 1)])

(* ---- P: which triples, in which order (p_invariants_c) -------------------- *)
TripleRule(l2, l1, l) ==
  /\ ~(l1 - l2 > l \/ l1 + l2 < l)
  /\ (l % 2 = 0 \/ l2 # l1)
  /\ (l2 % 2 = 0 \/ l1 # l)
(* algorithm-shaped: for l2 in 1..L: for l1 in l2..L: for l in l1..L *)
LoopTriples(L) ==
  FlattenSeq([a \in 1..L |->
    FlattenSeq([b \in 1..(L - a + 1) |->
      SelectSeq([d \in 1..(L - (a + b - 1) + 1) |-> <<a, a + b - 1, a + b + d - 2>>],
                LAMBDA tr : TripleRule(tr[1], tr[2], tr[3]))])])
(* declarative *)
TripleSet(L) == {tr \in (1..L) \X (1..L) \X (1..L) :
                   /\ tr[1] <= tr[2] /\ tr[2] <= tr[3] /\ tr[3] <= tr[1] + tr[2]
                   /\ (tr[3] % 2 = 0 \/ tr[1] # tr[2])
                   /\ (tr[1] % 2 = 0 \/ tr[2] # tr[3])}
EvenTriple(tr) == (tr[1] + tr[2] + tr[3]) % 2 = 0
(* output order: real parts of the even-sum triples, then imaginary parts of the odd-sum ones *)
POrder(L) == SelectSeq(LoopTriples(L), EvenTriple) \o SelectSeq(LoopTriples(L), LAMBDA tr : ~EvenTriple(tr))
PCount(L) == Len(LoopTriples(L))
(* make_invariants: "P restricted to l_max <= 23" is coded as coefficients[:23*23], i.e. degree 22 *)
PDegreeAsBuilt(L) == IF L > 23 THEN 22 ELSE L
PDegreeDeclared(L) == IF L > 23 THEN 23 ELSE L
LexLess(x, y) == \/ x[1] < y[1]
                 \/ x[1] = y[1] /\ x[2] < y[2]
                 \/ x[1] = y[1] /\ x[2] = y[2] /\ x[3] < y[3]

(* ---- exact rotations -------------------------------------------------------- *)
(* RotZ4: rotation by +90 degrees about z, c_lm -> i^(-m) c_lm *)
MulIPow(r, a) == CASE r = 0 -> a
                   [] r = 1 -> <<-a[2], a[1]>>
                   [] r = 2 -> <<-a[1], -a[2]>>
                   [] r = 3 -> <<a[2], -a[1]>>
RotZ4(c) ==
  LET co == CplxOrder(DegOf(c))
  IN SubSeq([i \in 1..Len(c) |-> MulIPow((-co[i][2]) % 4, c[i])], 1, Len(c))
(* FlipY: rotation by 180 degrees about y, c_lm -> (-1)^(l+m) c_(l,-m) *)
FlipY(c) ==
  LET co == CplxOrder(DegOf(c))
  IN SubSeq([i \in 1..Len(c) |-> GScale(ParitySign(co[i][1] + co[i][2]), c[IdxCplx(co[i][1], -co[i][2])])], 1, Len(c))
(* a word is a sequence over {0 = RotZ4, 1 = FlipY}, applied left to right *)
ApplyWord(c, w) == FoldLeft(LAMBDA x, s : IF s = 0 THEN RotZ4(x) ELSE FlipY(x), c, w)
SameExceptDegree(c, c2, l) == /\ Len(c) = Len(c2)
                              /\ \A i \in DOMAIN c : c[i] = c2[i] \/ (i > l * l /\ i <= (l + 1) * (l + 1))

(* ---- quantised vectors (general rotations): flat 2^-40 fixed point ----------- *)
B2p80 == BMul(B2p40, B2p40)
N2Q(cq, l) == BSum([j \in 1..(2 * l + 1) |-> ObsNorm2Big(cq[l * l + j])])           \* scale 2^80
LeakQ(cq, l) == IF (l + 1) * (l + 1) + 1 <= Len(cq) THEN ObsNorm2Big(cq[(l + 1) * (l + 1) + 1]) ELSE BZero
N2QAsBuilt(cq, l) == BAdd(N2Q(cq, l), LeakQ(cq, l))
Embed(c) == [i \in DOMAIN c |-> <<c[i][1], 0, 0, c[i][2], 0, 0>>]
IntBig80(n) == BMul(BFromInt(n), B2p80)
(* |x - y| * 2^bits <= max(|x|,|y|) + absq *)
CloseBig(x, y, bits, absq) ==
  LET p == IF bits = 28 THEN BFromInt(268435456) ELSE B2p30
  IN BLe(BMul(BAbs(BSub(x, y)), p), BAdd(BMax(BAbs(x), BAbs(y)), absq))
B2p48 == BMul(BFromInt(16777216), BFromInt(16777216))
(* observed N_l (fixed point) against an exact square at scale 2^80: 2^-28 on the squares *)
NSquareIs(nfx, target) == LET n == FxBig(nfx) IN nfx[1] >= 0 /\ CloseBig(BMul(n, n), target, 28, B2p48)
(* observed (2l+1) * power[l] against N2(l) at scale 2^80: 2^-30 *)
PowerIs(pfx, l, target) == CloseBig(BMul(BMul(FxBig(pfx), BFromInt(2 * l + 1)), B2p40), target, 30, B2p48)
(* the rotated vector has the norms of the original (guard on the harness's rotation, 2^-28) *)
RotationGuard(c, cq) == /\ Len(cq) = Len(c)
                        /\ \A l \in 0..DegOf(c) : CloseBig(N2Q(cq, l), IntBig80(N2(c, l)), 28, B2p48)

(* ---- P values: relational, on the cubes (the cube root amplifies noise near 0) -- *)
(* |bispectrum(l2,l1,l)| <= |c_l2| |c_l1| |c_l| <= s^3 with s = ceil(sqrt(max N2))  *)
CeilSqrt(n) == LET s == ISqrt(n) IN IF s * s = n THEN s ELSE s + 1
Cube(x) == BMul(BMul(x, x), x)
PCubeClose(p, q, s) ==           \* |p^3 - q^3| <= 2^-30 s^3 + 2^-60, at scale 2^120
  BLe(BMul(BAbs(BSub(Cube(FxBig(p)), Cube(FxBig(q)))), B2p30),
      BAdd(BMul(BFromInt(s * s * s), B2p120), BMul(B2p30, B2p30)))
=============================================================================
