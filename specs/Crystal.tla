------------------------------- MODULE Crystal -------------------------------
(***************************************************************************)
(* A crystal on an exact grid: fractional coordinates are p/N (N a         *)
(* multiple of 12 so every tabulated translation keeps points on the       *)
(* grid), the metric is an integer Gram matrix G (dot products of lattice  *)
(* vectors in units u^2), the space group is a sequence of packed          *)
(* operations, the asymmetric unit a sequence of sites                     *)
(*      [z |-> atomic number, p |-> <<p1,p2,p3>>, occ |-> k (occupancy in  *)
(*       twelfths), label |-> string].                                     *)
(*                                                                         *)
(* Declarative part: Orbit, Mult, ExpectedCell.                            *)
(* Algorithm-shaped part: the three steps of Crystal.unit_cell_atoms       *)
(* (crystal.py:158-235): ApplyOps (space_group.apply_all_symops, identity  *)
(* first), Wrap (fmod(x+7,1)), Merge (coincident rows collapse into the    *)
(* first, occupancies add); and Crystal.slab.                              *)
(*                                                                         *)
(* Magnitudes: |p| <= 8N <= 384, |G_ij| <= 4000: p^T G q < 2^31.           *)
(***************************************************************************)
EXTENDS SpaceGroup

Sum(seq) == FoldLeft(LAMBDA a, b : a + b, 0, seq)

(* ---- declarative ------------------------------------------------------- *)
Force(seq) == seq \o <<>>          \* TLC: turn a lazily evaluated function into an explicit tuple
Img(code, p, N) == ApplyGrid(Dec(code), p, N)
(* table of all images: tab[s][k] = image of site s under ops[k] (decoded once) *)
ImgTable(ops, asym, N) == Force([s \in DOMAIN asym |-> Force([k \in DOMAIN ops |-> Img(ops[k], asym[s].p, N)])])
OrbitT(tab, s) == {tab[s][k] : k \in DOMAIN tab[s]}
MultT(tab, s, q) == Cardinality({k \in DOMAIN tab[s] : tab[s][k] = q})
ExpectedCellT(tab) == UNION {{[asym |-> s, p |-> q] : q \in OrbitT(tab, s)} : s \in DOMAIN tab}
OrbitsDisjointT(tab) == \A s \in DOMAIN tab : \A r \in DOMAIN tab : s < r => OrbitT(tab, s) \cap OrbitT(tab, r) = {}
OrbitSet(ops, p, N) == {Img(o, p, N) : o \in CodeSet(ops)}
Mult(ops, p, q, N) == Cardinality({o \in CodeSet(ops) : Img(o, p, N) = q})
ExpectedCell(ops, asym, N) == UNION {{[asym |-> s, p |-> q] : q \in OrbitSet(ops, asym[s].p, N)} : s \in DOMAIN asym}
(* the expected answer is unambiguous only if distinct sites have disjoint orbits *)
OrbitsDisjoint(ops, asym, N) ==
  \A s \in DOMAIN asym : \A r \in DOMAIN asym : s < r => OrbitSet(ops, asym[s].p, N) \cap OrbitSet(ops, asym[r].p, N) = {}
Dot(G, p, q) == p[1]*(G[1][1]*q[1] + G[1][2]*q[2] + G[1][3]*q[3])
              + p[2]*(G[2][1]*q[1] + G[2][2]*q[2] + G[2][3]*q[3])
              + p[3]*(G[3][1]*q[1] + G[3][2]*q[2] + G[3][3]*q[3])
(* the metric is compatible with the group: every rotation part is an isometry of G *)
MetricCompatible(ops, G) ==
  \A o \in CodeSet(ops) : LET R == RotOf(o) IN
    \A i \in Idx : \A j \in Idx :
      Dot(G, [k \in Idx |-> R[k][i]], [k \in Idx |-> R[k][j]]) = G[i][j]

(* ---- unit_cell_atoms, step by step ------------------------------------- *)
OrderedOps(ops) ==      \* identity first, the others in list order
  <<IdentityCode>> \o SelectSeq(ops, LAMBDA c : c # IdentityCode)
ApplyOps(ops, asym, N) ==
  LET oo == OrderedOps(ops)
  IN FlattenSeq([k \in DOMAIN oo |->
        [s \in DOMAIN asym |-> [asym |-> s, op |-> oo[k], raw |-> ApplyRaw(Dec(oo[k]), asym[s].p, N)]]])
Wrap(rows, N) ==
  Force([i \in DOMAIN rows |-> [asym |-> rows[i].asym, op |-> rows[i].op, p |-> [c \in Idx |-> rows[i].raw[c] % N]]])
(* the implementation wraps with fmod(x + 7, 1): correct only for x > -7 *)
WrapDomain(rows, N) == \A i \in DOMAIN rows : \A c \in Idx : rows[i].raw[c] > -7 * N
Merge(rows, asym) ==
  LET keep == SelectSeq([i \in DOMAIN rows |-> i], LAMBDA i : \A j \in 1..(i-1) : rows[j].p # rows[i].p)
  IN [k \in DOMAIN keep |->
        LET i == keep[k] IN
        [asym |-> rows[i].asym, op |-> rows[i].op, p |-> rows[i].p,
         occ |-> Sum([j \in DOMAIN rows |-> IF rows[j].p = rows[i].p THEN asym[rows[j].asym].occ ELSE 0])]]
UnitCellAtoms(ops, asym, N) == Merge(Wrap(ApplyOps(ops, asym, N), N), asym)

(* the algorithm yields exactly the orbit, each image once, occupancy conserved *)
AlgorithmMeetsSpec(ops, asym, N) ==
  LET uc == Force(UnitCellAtoms(ops, asym, N))
      tab == ImgTable(ops, asym, N)
      pts == {[asym |-> uc[i].asym, p |-> uc[i].p] : i \in DOMAIN uc}
  IN /\ pts = ExpectedCellT(tab)
     /\ Cardinality({uc[i].p : i \in DOMAIN uc}) = Len(uc)
     /\ \A i \in DOMAIN uc : /\ \A c \in Idx : uc[i].p[c] \in 0..(N-1)
                            /\ Img(uc[i].op, asym[uc[i].asym].p, N) = uc[i].p
                            /\ uc[i].occ = MultT(tab, uc[i].asym, uc[i].p) * asym[uc[i].asym].occ
     /\ Sum([i \in DOMAIN uc |-> uc[i].occ]) = Len(ops) * Sum([s \in DOMAIN asym |-> asym[s].occ])

(* ---- slab -------------------------------------------------------------- *)
Box(lo, hi) == {<<h, k, l>> : h \in lo[1]..hi[1], k \in lo[2]..hi[2], l \in lo[3]..hi[3]}
SlabRows(ucpts, lo, hi, N) ==     \* ucpts: set of [asym, p]; result: set of [asym, p, cell]
  {[asym |-> a.asym, p |-> [c \in Idx |-> a.p[c] + N * h[c]], cell |-> h] : a \in ucpts, h \in Box(lo, hi)}
=============================================================================
