---------------------------- MODULE QuasiRandom ----------------------------
(***************************************************************************)
(* chmpy.sampling: the Sobol sequence (sampling/_sobol.pyx, Joe-Kuo        *)
(* direction numbers of _sobol_parameters.npz, Gray-code order) as a state *)
(* machine over exact integers, the net properties the statement of C20    *)
(* demands of it, and the observation register that makes "a point depends *)
(* only on (method, seed, dimension)" a checkable statement for both the   *)
(* Sobol and the Korobov (sampling/_lds.pyx) generators.                   *)
(*                                                                         *)
(* Fixed-point convention: a coordinate x in [0,1) is the integer          *)
(* X = x * 2^Bits.  Every index handled is < 2^Bits, so only the direction *)
(* numbers V[1..Bits] are ever used and all integers stay below 2^Bits     *)
(* (Bits <= 20 here; TLC integers are 32 bit).                             *)
(*                                                                         *)
(* Seed convention of the code (read from _sobol.pyx, not assumed):        *)
(* seed N >= 1 is point number N-1 of the sequence, and point number 0 is  *)
(* the origin -- the first point is NOT skipped.  quasirandom_sobol(1, D)  *)
(* is the zero vector.                                                     *)
(***************************************************************************)
EXTENDS Integers, Sequences, FiniteSets, Bitwise, TLC

CONSTANT Bits                      \* resolution: coordinates are multiples of 2^-Bits

Pow2(k) == 2^k

(* ---- one row of the parameter table ------------------------------------ *)
(* [a |-> packed inner coefficients a_1..a_{s-1} of the primitive          *)
(*  polynomial (a_1 is the most significant bit), m |-> <<m_1..m_s>>].     *)
(* Dimension 1 has no row in the table: m = <<>> stands for "all m_i = 1"  *)
(* (van der Corput).                                                       *)
Degree(row) == Len(row.m)
ABit(row, k) == (row.a \div Pow2(Degree(row) - 1 - k)) % 2        \* a_k, 1 <= k <= s-1

RowWellFormed(row) ==
  /\ row.a >= 0
  /\ (Degree(row) >= 1 => row.a < Pow2(Degree(row) - 1))
  /\ \A i \in DOMAIN row.m : row.m[i] % 2 = 1 /\ row.m[i] > 0 /\ row.m[i] < Pow2(i)

(* ---- direction numbers: the recurrence in exact integers ---------------- *)
(* m_i = 2 a_1 m_{i-1} xor 4 a_2 m_{i-2} xor ... xor 2^{s-1} a_{s-1} m_{i-s+1}   *)
(*       xor 2^s m_{i-s} xor m_{i-s}            (i > s);   m_i < 2^i       *)
RECURSIVE InnerTerms(_, _, _, _)
InnerTerms(row, ms, i, k) ==
  IF k >= Degree(row) THEN 0
  ELSE (IF ABit(row, k) = 1 THEN Pow2(k) * ms[i - k] ELSE 0) ^^ InnerTerms(row, ms, i, k + 1)

NextM(row, ms) ==
  LET s == Degree(row)
      i == Len(ms) + 1
  IN ((Pow2(s) * ms[i - s]) ^^ ms[i - s]) ^^ InnerTerms(row, ms, i, 1)

RECURSIVE MExtend(_, _, _)
MExtend(row, ms, nbits) == IF Len(ms) >= nbits THEN ms
                           ELSE MExtend(row, Append(ms, NextM(row, ms)), nbits)

MSeq(row, nbits) ==
  IF Degree(row) = 0 THEN [i \in 1..nbits |-> 1]
  ELSE IF nbits <= Degree(row) THEN SubSeq(row.m, 1, nbits)
  ELSE MExtend(row, row.m, nbits)

(* V[i] = m_i / 2^i as an integer at resolution 2^-Bits *)
VSeq(row) == LET ms == MSeq(row, Bits) IN [i \in 1..Bits |-> ms[i] * Pow2(Bits - i)]

(* ---- the Gray-code generator -------------------------------------------- *)
(* State: n = number of the current point (0 = origin), X[c] = its c-th    *)
(* coordinate.  Moving from point n to point n+1 flips direction number    *)
(* Ruler(n+1) = 1 + (number of trailing zero bits of n+1)                  *)
(*            = 1 + (number of trailing one bits of n)  [C[] in the code]. *)
RECURSIVE Ruler(_)
Ruler(k) == IF k % 2 = 1 THEN 1 ELSE 1 + Ruler(k \div 2)          \* k >= 1

StepX(V, i, Y) == LET r == Ruler(i + 1) IN [c \in DOMAIN Y |-> Y[c] ^^ V[c][r]]

(* Closed form, used to enter the sequence at an arbitrary index:          *)
(* X_n = xor of V[i] over the set bits i-1 of the Gray code n xor (n>>1).  *)
Gray(i) == i ^^ (i \div 2)
RECURSIVE XorBits(_, _, _)
XorBits(Vc, g, i) == IF g = 0 THEN 0
                     ELSE (IF g % 2 = 1 THEN Vc[i] ELSE 0) ^^ XorBits(Vc, g \div 2, i + 1)
Direct(Vc, i) == XorBits(Vc, Gray(i), 1)
SeekX(V, i) == [c \in DOMAIN V |-> Direct(V[c], i)]
(* The same points in their natural order (the original definition: xor of V over the set bits of n itself).  The first 2^m   *)
(* points are the same set for every m, so every demand of the statement holds for either enumeration.                     *)
NaturalX(V, i) == [c \in DOMAIN V |-> XorBits(V[c], i, 1)]

IndexOfSeed(seed) == seed - 1                \* as built: see the header
InIndexRange(i) == i >= 0 /\ i < Pow2(Bits)

(* The generator as actions.  V = direction numbers of the coordinates     *)
(* being walked (a sequence of VSeq rows), fixed for one walk.             *)
VARIABLES n, X
Reset(V) == n' = 0 /\ X' = [c \in DOMAIN V |-> 0]
Step(V) == n' = n + 1 /\ X' = StepX(V, n, X)
Seek(V, i) == n' = i /\ X' = SeekX(V, i)

(* ---- what the statement demands of the Sobol points --------------------- *)
(* H = <<X_0, ..., X_{2^m - 1}>> of one coordinate.                         *)
Top(x, k) == x \div Pow2(Bits - k)                                \* leading k bits
Stratified(H, m) == {Top(H[i], m) : i \in 1..Pow2(m)} = 0..(Pow2(m) - 1)

(* (0,m,2)-net: every elementary box [i/2^a,(i+1)/2^a) x [j/2^b,(j+1)/2^b), *)
(* a + b = m, holds exactly one of the first 2^m points.                   *)
BoxOf(x1, x2, a, b) == Top(x1, a) * Pow2(b) + Top(x2, b)
Net2Split(H1, H2, a, b) == {BoxOf(H1[i], H2[i], a, b) : i \in 1..Pow2(a + b)} = 0..(Pow2(a + b) - 1)
Net2(H1, H2, m) == \A a \in 0..m : Net2Split(H1, H2, a, m - a)

InUnit(x) == x >= 0 /\ x < Pow2(Bits)

(* ---- the calls of the public API and the keys they observe -------------- *)
(* A call is a record [route, method, a, b, c]:                             *)
(*   single : method(N = a, D = b)              -> one point, 1-d array     *)
(*   batch  : method_batch(start = a, end = b, D = c) -> (b-a+1) x c array  *)
(*   front  : quasirandom(d1 = a, d2 = b or 0 for None, method, seed = c)   *)
(*            d2 = None: the point of seed c in a dimensions (1-d array);   *)
(*            otherwise a points, seeds c .. c+a-1, in b dimensions.        *)
FirstSeed(call) == CASE call.route = "single" -> call.a
                     [] call.route = "batch" -> call.a
                     [] call.route = "front" -> call.c
NumPoints(call) == CASE call.route = "single" -> 1
                     [] call.route = "batch" -> call.b - call.a + 1
                     [] call.route = "front" -> IF call.b = 0 THEN 1 ELSE call.a
DimOf(call) == CASE call.route = "single" -> call.b
                 [] call.route = "batch" -> call.c
                 [] call.route = "front" -> IF call.b = 0 THEN call.a ELSE call.b
OneDimensional(call) == call.route = "single" \/ (call.route = "front" /\ call.b = 0)
\* Sobol seeds start at 1 (seed N is point number N-1); the Korobov sequence also has a point of seed 0
CallInDomain(call) == FirstSeed(call) >= (IF call.method = "kgf" THEN 0 ELSE 1) /\ NumPoints(call) >= 1 /\ DimOf(call) >= 1

(* observation register: <<method, seed, dimension>> -> the point observed  *)
KeyOf(call, r) == <<call.method, FirstSeed(call) + r - 1, DimOf(call)>>
Consistent(memo, key, point) == key \in DOMAIN memo => memo[key] = point
Remember(memo, key, point) == IF key \in DOMAIN memo THEN memo ELSE memo @@ (key :> point)
=============================================================================
