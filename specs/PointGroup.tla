----------------------------- MODULE PointGroup -----------------------------
(***************************************************************************)
(* Crystallographic point groups (crystal/point_group.py) and the way a    *)
(* space-group setting is assigned one (SpaceGroup.point_group,            *)
(* crystal_system, laue_class in crystal/space_group.py).                  *)
(*                                                                         *)
(* A point group is a set of packed operations with zero translation; the  *)
(* table gives generators only, the group is their closure.  What a group  *)
(* IS, independently of the axes it is written in, is decided by the       *)
(* census of (determinant, trace) pairs of its matrices: the 32 geometric  *)
(* crystal classes have 32 different censuses.  Crystal system and Laue    *)
(* class follow from the proper parts det(W) W of the matrices:            *)
(*   trace  3 identity, -1 two-fold, 0 three-fold, 1 four-fold, 2 six-fold *)
(*   eight three-fold rotations -> cubic; a six-fold -> hexagonal; a       *)
(*   four-fold -> tetragonal; a three-fold -> trigonal; three two-folds    *)
(*   -> orthorhombic; one -> monoclinic; none -> triclinic.                *)
(* The Laue class is the class of the group with the inversion added.      *)
(***************************************************************************)
EXTENDS SpaceGroup

RotPart(c) == c % NRot                       \* the operation with its translation dropped
RotSet(S) == {RotPart(c) : c \in S}

RECURSIVE CloseUnder(_)
CloseUnder(S) == LET S2 == S \cup {ComposeCode(a, b) : a \in S, b \in S}
                 IN IF S2 = S THEN S ELSE CloseUnder(S2)
Generated(gens) == CloseUnder(RotSet(gens) \cup {IdentityCode})

TraceM(m) == m[1][1] + m[2][2] + m[3][3]
(* census: how many matrices of each (determinant, trace) kind; traces lie in -3..3 *)
Census(G) == [d \in {-1, 1} |-> [t \in -3..3 |-> Cardinality({c \in G : Det(RotOf(c)) = d /\ TraceM(RotOf(c)) = t})]]
(* the proper rotation behind an operation: det(W) W, identified by its packed code *)
ProperOf(c) == LET m == RotOf(c) IN IF Det(m) = 1 THEN RotPart(c) ELSE RotCode(NegMat(m))
ProperSet(G) == {ProperOf(c) : c \in G}
NFold(G, tr) == Cardinality({c \in ProperSet(G) : TraceM(RotOf(c)) = tr})

SystemOf(G) ==
  IF NFold(G, 0) = 8 THEN "cubic"
  ELSE IF NFold(G, 2) > 0 THEN "hexagonal"
  ELSE IF NFold(G, 1) > 0 THEN "tetragonal"
  ELSE IF NFold(G, 0) > 0 THEN "trigonal"
  ELSE IF NFold(G, -1) = 3 THEN "orthorhombic"
  ELSE IF NFold(G, -1) = 1 THEN "monoclinic"
  ELSE "triclinic"

LaueGroup(G) == CloseUnder(G \cup {InversionCode})
(* names as the library spells them *)
LaueOf(G) ==
  LET s == SystemOf(G)
      n == Cardinality(LaueGroup(G))
  IN CASE s = "triclinic" -> "-1"
       [] s = "monoclinic" -> "2/m"
       [] s = "orthorhombic" -> "mmm"
       [] s = "tetragonal" -> IF n = 8 THEN "4/m" ELSE "4/mmm"
       [] s = "trigonal" -> IF n = 6 THEN "-3" ELSE "-3m"
       [] s = "hexagonal" -> IF n = 12 THEN "6/m" ELSE "6/mmm"
       [] s = "cubic" -> IF n = 24 THEN "m3" ELSE "m3m"

(* orders of the 32 crystal classes in the numbering of International Tables (1 = 1 ... 32 = m-3m) *)
StdOrder == <<1, 2, 2, 2, 4, 4, 4, 8, 4, 4, 8, 8, 8, 8, 16, 3, 6, 6, 6, 12, 6, 6, 12, 12, 12, 12, 24, 12, 24, 24, 24, 48>>
(* crystal system by space-group number (International Tables ranges) *)
SystemOfNumber(n) ==
  IF n <= 2 THEN "triclinic" ELSE IF n <= 15 THEN "monoclinic" ELSE IF n <= 74 THEN "orthorhombic"
  ELSE IF n <= 142 THEN "tetragonal" ELSE IF n <= 167 THEN "trigonal" ELSE IF n <= 194 THEN "hexagonal" ELSE "cubic"

(* ---- one row of the point-group table: [number, gens, system, laue] ---------------------------- *)
IsGroupOfRotations(G) == IsGroup(G) /\ Unimodular(G) /\ \A c \in G : TrOf(c) = <<0, 0, 0>>
PGRowOK(pg) ==
  LET G == Generated(CodeSet(pg.gens)) IN
  /\ pg.number \in 1..32
  /\ IsGroupOfRotations(G)
  /\ Cardinality(G) = StdOrder[pg.number]
  /\ SystemOf(G) = pg.system
  /\ LaueOf(G) = pg.laue
(* rows of one number are the same crystal class written on other axes; different numbers are different classes *)
PGTableOK(PG) ==
  /\ {PG[i].number : i \in DOMAIN PG} = 1..32
  /\ \A i \in DOMAIN PG : \A j \in DOMAIN PG :
        (PG[i].number = PG[j].number) <=> (Census(Generated(CodeSet(PG[i].gens))) = Census(Generated(CodeSet(PG[j].gens))))

(* ---- a space-group setting and what its object reports ------------------------------------------ *)
(* ops: the setting's operations; rep: [pg (row of the point-group table), system, laue] as reported *)
SettingReportOK(number, ops, rep, PG) ==
  LET R == RotSet(CodeSet(ops))
      G == Generated(CodeSet(PG[rep.pg].gens))
  IN /\ rep.pg \in DOMAIN PG
     /\ Census(R) = Census(G)                 \* the reported point group is the crystal class of the setting
     /\ rep.system = SystemOf(R)
     /\ rep.system = SystemOfNumber(number)
     /\ rep.laue = LaueOf(R)
     /\ PG[rep.pg].system = rep.system /\ PG[rep.pg].laue = rep.laue
=============================================================================
