----------------------------- MODULE Neighbours -----------------------------
(***************************************************************************)
(* Periodic neighbourhood queries of a crystal on an exact grid            *)
(* (crystal.py: atoms_in_radius, atomic_surroundings, molecule_environment,*)
(* atom_group_surroundings).                                               *)
(*                                                                         *)
(* Squared distances are integers:  Dist2N(p, q) = (p-q)^T G (p-q)  in     *)
(* units u^2/N^2.  A radius is given by an integer k:  R^2 = (k + 1/2)     *)
(* u^2/N^2, so  "within the radius"  is  Dist2N <= k  and no atom is ever  *)
(* exactly on the query sphere.                                            *)
(*                                                                         *)
(* Declarative: Within, Expected (brute force over the cells of Box(K))    *)
(* with BoxCertificate proving that Box(K) contains the query ball.        *)
(* Algorithm-shaped: the search box of the implementation                  *)
(* (BoundsRecip = radius x reciprocal lengths; BoundsAsBuilt = radius /    *)
(* cell lengths, the deviation found at the pinned commit), BuildSlab,     *)
(* BallQuery, ExcludeCentre.                                               *)
(*                                                                         *)
(* Magnitudes: |coordinates| <= 8N <= 192, |G_ij| <= 400  =>  Dist2N <     *)
(* 192^2 * 9 * 400 < 2^31.  The box certificate uses BigInt.               *)
(***************************************************************************)
EXTENDS Crystal, BigInt

Diff(p, q) == [c \in Idx |-> p[c] - q[c]]
Dist2N(G, p, q) == LET d == Diff(p, q) IN Dot(G, d, d)
(* distance from a point to a set of centre points *)
MinDist2N(G, centre, p) == CHOOSE m \in {Dist2N(G, c, p) : c \in centre} : \A c \in centre : m <= Dist2N(G, c, p)
Within(G, centre, p, k) == \E c \in centre : Dist2N(G, c, p) <= k

(* all periodic images of unit-cell points (set of [asym, p]) in the cells -K..K *)
Images(ucpts, K, N) == SlabRows(ucpts, <<-K, -K, -K>>, <<K, K, K>>, N)
(* Expected answer: images within the radius, the centre's own points excluded when asked *)
Expected(G, ucpts, centre, k, K, N, excl) ==
  {a \in Images(ucpts, K, N) : Within(G, centre, a.p, k) /\ (excl => a.p \notin centre)}

(* ---- completeness of the brute force: the ball lies inside Box(K) -------- *)
(* adj(G)_ii / det(G) = |a*_i|^2.  An atom of cell h_i has fractional coordinate in     *)
(* [h_i, h_i+1); it can be within R of a centre with fractional coordinate c_i/N only if *)
(* |x_i - c_i/N| <= R |a*_i|.  So cells |h_i| <= K suffice when                          *)
(*   (K*N - |c_i|)^2 * det(G) * 2  >=  (2k+1) * adj(G)_ii   and  K*N > |c_i|.            *)
AdjDiag(G, i) == CASE i = 1 -> G[2][2]*G[3][3] - G[2][3]*G[3][2]
                   [] i = 2 -> G[1][1]*G[3][3] - G[1][3]*G[3][1]
                   [] i = 3 -> G[1][1]*G[2][2] - G[1][2]*G[2][1]
DetG(G) == G[1][1]*(G[2][2]*G[3][3]-G[2][3]*G[3][2]) - G[1][2]*(G[2][1]*G[3][3]-G[2][3]*G[3][1])
         + G[1][3]*(G[2][1]*G[3][2]-G[2][2]*G[3][1])
DetBig(G) ==
  LET b(x) == BFromInt(x)
      m(x, y) == BMul(b(x), b(y))
  IN BAdd(BSub(BMul(b(G[1][1]), BSub(m(G[2][2], G[3][3]), m(G[2][3], G[3][2]))),
               BMul(b(G[1][2]), BSub(m(G[2][1], G[3][3]), m(G[2][3], G[3][1])))),
          BMul(b(G[1][3]), BSub(m(G[2][1], G[3][2]), m(G[2][2], G[3][1]))))
AbsI(x) == IF x < 0 THEN -x ELSE x
BoxCertificate(G, centre, k, K, N) ==
  \A c \in centre : \A i \in Idx :
     /\ K * N > AbsI(c[i]) + N
     /\ LET m == K * N - AbsI(c[i]) - N     \* margin: cells -K..K cover fractional [-K, K+1)
        IN BLe(BMulInt(BFromInt(AdjDiag(G, i)), 2*k + 1),
               BMulInt(BMul(BFromInt(m * m), DetBig(G)), 2))

(* ---- the implementation's search box ------------------------------------ *)
(* ceil / floor of  c/N +- sqrt(w)  with w = num/den rational, in integers:  *)
(*   CeilPlus  = least h  with h >= c/N + sqrt(w);  FloorMinus = greatest h with h <= c/N - sqrt(w) *)
GeSqrt(x, num, den) == x >= 0 /\ x * x * den >= num          \* x >= sqrt(num/den), den > 0
(* grid units: x = h*N - c; the half-width in grid units is sqrt(num/den).  Bound: x^2 * den < 2^31. *)
CeilPlus(c, N, num, den, H) == CHOOSE h \in -H..H : GeSqrt(h * N - c, num, den) /\ ~GeSqrt((h-1) * N - c, num, den)
FloorMinus(c, N, num, den, H) == CHOOSE h \in -H..H : GeSqrt(c - h * N, num, den) /\ ~GeSqrt(c - (h+1) * N, num, den)
(* specification: half-width of the ball along axis i is R |a*_i| = sqrt((2k+1) adj_ii / (2 det)) grid units *)
BoundsRecip(G, c, k, N, H) ==
  [lo |-> [i \in Idx |-> FloorMinus(c[i], N, (2*k+1) * AdjDiag(G, i), 2 * DetG(G), H)],
   hi |-> [i \in Idx |-> CeilPlus(c[i], N, (2*k+1) * AdjDiag(G, i), 2 * DetG(G), H)]]
(* as built at the pinned commit: half-width R / |a_i| = sqrt((2k+1) / (2 G_ii)) grid units -- too small on oblique cells *)
BoundsAsBuilt(G, c, k, N, H) ==
  [lo |-> [i \in Idx |-> FloorMinus(c[i], N, 2*k+1, 2 * G[i][i], H)],
   hi |-> [i \in Idx |-> CeilPlus(c[i], N, 2*k+1, 2 * G[i][i], H)]]
BuildSlab(ucpts, b, N) == SlabRows(ucpts, b.lo, b.hi, N)
BallQuery(G, slab, c, k) == {a \in slab : Dist2N(G, c, a.p) <= k}
(* query with the implementation's algorithm for a single centre point *)
QueryVia(G, ucpts, c, k, N, b) == BallQuery(G, BuildSlab(ucpts, b, N), c, k)
=============================================================================
