------------------------------- MODULE CubeFile -------------------------------
(***************************************************************************)
(* Gaussian cube files and the object read from them (fmt/cube.py,         *)
(* CubeData).  Lengths are integers in 10^-6 bohr, as the format writes    *)
(* them (six decimals); volume data are integers in 10^-5 units.           *)
(*                                                                         *)
(* The file:  two title lines; "natom ox oy oz"; three axis lines          *)
(* "n vx vy vz"; one line "Z charge x y z" per atom; the values, x         *)
(* slowest and z fastest, six to a line, a new line after every run in z.  *)
(*                                                                         *)
(* The object: [origin, axes (n and step vector of each), atoms, data].    *)
(* Its only state change, shift_origin_to(o), moves the frame: the grid    *)
(* and the atoms move together, so every atom keeps its place relative to  *)
(* the grid (RelGeometry); nothing else changes.  AsBuilt = TRUE gives the *)
(* operation as found (atoms moved the opposite way).                      *)
(***************************************************************************)
EXTENDS MolFormats

CONSTANT AsBuiltShift
Idx3 == 1..3
VAdd(a, b) == [k \in Idx3 |-> a[k] + b[k]]
VSub(a, b) == [k \in Idx3 |-> a[k] - b[k]]
VScale(n, a) == [k \in Idx3 |-> n * a[k]]

(* ---- the text ---------------------------------------------------------------------------------- *)
Fix(v, dec, pow) ==                       \* integer v = value * 10^dec (pow = 10^dec), written with dec decimals
  LET a == IF v < 0 THEN -v ELSE v
      fr == UIntDigits(a % pow)
  IN (IF v < 0 THEN <<45>> ELSE <<>>) \o UIntDigits(a \div pow) \o <<46>> \o [i \in 1..(dec - Len(fr)) |-> 48] \o fr
F6(v) == PadL(Fix(v, 6, 1000000), 12)
F5(v) == PadL(Fix(v, 5, 100000), 13)
I5(n) == PadL(UIntDigits(n), 5)
Vec6(v) == F6(v[1]) \o F6(v[2]) \o F6(v[3])
RECURSIVE JoinF5(_, _, _)
JoinF5(vals, a, b) == IF a > b THEN <<>> ELSE F5(vals[a]) \o JoinF5(vals, a + 1, b)
(* the values of one run in z (nz of them starting at index a), six to a line *)
RunLines(vals, a, nz) == [q \in 1..((nz + 5) \div 6) |-> JoinF5(vals, a + 6 * (q - 1), a + (IF 6 * q < nz THEN 6 * q ELSE nz) - 1)]
RECURSIVE DataLines(_, _, _, _)
DataLines(vals, run, nruns, nz) == IF run > nruns THEN <<>> ELSE RunLines(vals, (run - 1) * nz + 1, nz) \o DataLines(vals, run + 1, nruns, nz)
AtomLine(a) == I5(a.zel) \o F6(a.zel * 1000000) \o Vec6(a.p)
CubeText(c) ==
  <<c.title, c.subtitle, I5(Len(c.atoms)) \o Vec6(c.origin)>>
  \o [k \in Idx3 |-> I5(c.axes[k].n) \o Vec6(c.axes[k].v)]
  \o [i \in DOMAIN c.atoms |-> AtomLine(c.atoms[i])]
  \o DataLines(c.data, 1, c.axes[1].n * c.axes[2].n, c.axes[3].n)
CubeOK(c) == /\ Len(c.atoms) >= 1 /\ \A k \in Idx3 : c.axes[k].n >= 1
             /\ Len(c.data) = c.axes[1].n * c.axes[2].n * c.axes[3].n
             /\ c.title = StripB(c.title) /\ c.subtitle = StripB(c.subtitle)

(* ---- the object -------------------------------------------------------------------------------- *)
StateOf(c) == [origin |-> c.origin, axes |-> c.axes, atoms |-> c.atoms, data |-> c.data]
FlatIndex(s, i, j, k) == (i * s.axes[2].n + j) * s.axes[3].n + k + 1                      \* i, j, k from 0
GridPoint(s, i, j, k) == VAdd(s.origin, VAdd(VScale(i, s.axes[1].v), VAdd(VScale(j, s.axes[2].v), VScale(k, s.axes[3].v))))
Shift(s, o) ==
  LET d == VSub(o, s.origin) IN
  [s EXCEPT !.origin = o,
            !.atoms = [i \in DOMAIN s.atoms |-> [s.atoms[i] EXCEPT !.p = IF AsBuiltShift THEN VSub(@, d) ELSE VAdd(@, d)]]]
RelGeometry(s) == [i \in DOMAIN s.atoms |-> VSub(s.atoms[i].p, s.origin)]
=============================================================================
