------------------------------ MODULE Descriptor ------------------------------
(***************************************************************************)
(* Shape descriptors of a molecule / a molecule in its environment         *)
(* (shape/shape_descriptors.py, Molecule.shape_descriptors,                *)
(* Crystal.*_shape_descriptors) must not depend on the pose or on the atom *)
(* order (C09).                                                            *)
(*                                                                         *)
(* The pose is modelled exactly: atoms have integer coordinates (unit       *)
(* 1/16200 Angstrom); a word of actions moves them:                        *)
(*    <<"T", k>>  translation by Trans[k] (integer vector)                 *)
(*    <<"C", k>>  one of the 24 proper cube rotations (signed permutation) *)
(*    <<"Q", k>>  a rational rotation R9[k]/9 from an integer quaternion    *)
(*                with |q|^2 = 9 (needs coordinates divisible by 9)         *)
(*    <<"P", i>>  swap atoms i and i+1 of the interior list                *)
(*    <<"E", i>>  swap atoms i and i+1 of the exterior (environment) list  *)
(* ApplyWord is the group action; the trace spec certifies that the         *)
(* coordinates the real code was given are exactly ApplyWord(word, base).  *)
(*                                                                         *)
(* The descriptor itself has no closed form here (discretised isosurface,  *)
(* Clebsch-Gordan sums): the specification is relational.  Describe at any *)
(* pose must return the vector observed at the identity pose within        *)
(* Tol(class of word, l_max), relative to the largest component:           *)
(*   - words of translations / permutations only: the computation is the   *)
(*     same up to float32 rounding of the origin          -> TolExact      *)
(*   - words containing a rotation: the truncated expansion of a           *)
(*     non-band-limited radial function is only approximately invariant;   *)
(*     TolRot(l_max) is non-increasing in l_max (calibrated, see DESIGN)   *)
(* Radial clause: the returned radii solve the isovalue equation in every  *)
(* sampled direction and lie inside the search bounds; a surface that       *)
(* cannot be inside the bounds must be reported as an error.               *)
(***************************************************************************)
EXTENDS Integers, Sequences, FiniteSets

Idx == 1..3
Scale == 1048576                    \* 2^20: descriptor components are shipped as round(d / max|d_ref| * 2^20)

MatVec(a, v) == [i \in Idx |-> a[i][1]*v[1] + a[i][2]*v[2] + a[i][3]*v[3]]
MatMul(a, b) == [i \in Idx |-> [j \in Idx |-> a[i][1]*b[1][j] + a[i][2]*b[2][j] + a[i][3]*b[3][j]]]
Transp(a) == [i \in Idx |-> [j \in Idx |-> a[j][i]]]
Det3(a) == a[1][1]*(a[2][2]*a[3][3]-a[2][3]*a[3][2]) - a[1][2]*(a[2][1]*a[3][3]-a[2][3]*a[3][1])
         + a[1][3]*(a[2][1]*a[3][2]-a[2][2]*a[3][1])
Ident(k) == [i \in Idx |-> [j \in Idx |-> IF i = j THEN k ELSE 0]]

(* rotation from an integer quaternion (a,b,c,d): |q|^2 R is an integer matrix *)
QuatMat(a, b, c, d) ==
  << << a*a+b*b-c*c-d*d, 2*(b*c-a*d),     2*(b*d+a*c)     >>,
     << 2*(b*c+a*d),     a*a-b*b+c*c-d*d, 2*(c*d-a*b)     >>,
     << 2*(b*d-a*c),     2*(c*d+a*b),     a*a-b*b-c*c+d*d >> >>
R9 == << QuatMat(1,2,2,0), QuatMat(2,1,0,2), QuatMat(0,2,1,2), QuatMat(2,2,0,1), QuatMat(2,0,2,1), QuatMat(1,0,2,2) >>
(* the 24 proper rotations of the cube: signed permutation matrices of determinant +1 *)
SignedPerms == { m \in [Idx -> [Idx -> -1..1]] :
                   /\ \A i \in Idx : Cardinality({j \in Idx : m[i][j] # 0}) = 1
                   /\ \A j \in Idx : Cardinality({i \in Idx : m[i][j] # 0}) = 1
                   /\ Det3(m) = 1 }
Trans == << <<16200, 0, 0>>, <<0, -48600, 0>>, <<0, 0, 810000>>, <<-405000, 243000, 81000>>, <<8100, 8100, -8100>>, <<-729, 6561, 59049>> >>

Swap(s, i) == [k \in DOMAIN s |-> IF k = i THEN s[i+1] ELSE IF k = i + 1 THEN s[i] ELSE s[k]]
MoveAll(atoms, f(_)) == [k \in DOMAIN atoms |-> [z |-> atoms[k].z, p |-> f(atoms[k].p)]]
DivisibleBy9(atoms) == \A k \in DOMAIN atoms : \A c \in Idx : atoms[k].p[c] % 9 = 0

(* a configuration: interior atoms, exterior atoms; cube rotations are passed as matrices in the word *)
ActOK(cfg, a) ==
  CASE a[1] = "T" -> a[2] \in DOMAIN Trans
    [] a[1] = "C" -> a[2] \in SignedPerms
    [] a[1] = "Q" -> a[2] \in DOMAIN R9 /\ DivisibleBy9(cfg.inner) /\ DivisibleBy9(cfg.outer)
    [] a[1] = "P" -> a[2] \in 1..(Len(cfg.inner) - 1)
    [] a[1] = "E" -> a[2] \in 1..(Len(cfg.outer) - 1)
    [] OTHER -> FALSE
Act(cfg, a) ==
  CASE a[1] = "T" -> [inner |-> MoveAll(cfg.inner, LAMBDA p : [c \in Idx |-> p[c] + Trans[a[2]][c]]),
                      outer |-> MoveAll(cfg.outer, LAMBDA p : [c \in Idx |-> p[c] + Trans[a[2]][c]])]
    [] a[1] = "C" -> [inner |-> MoveAll(cfg.inner, LAMBDA p : MatVec(a[2], p)),
                      outer |-> MoveAll(cfg.outer, LAMBDA p : MatVec(a[2], p))]
    [] a[1] = "Q" -> [inner |-> MoveAll(cfg.inner, LAMBDA p : [c \in Idx |-> MatVec(R9[a[2]], p)[c] \div 9]),
                      outer |-> MoveAll(cfg.outer, LAMBDA p : [c \in Idx |-> MatVec(R9[a[2]], p)[c] \div 9])]
    [] a[1] = "P" -> [inner |-> Swap(cfg.inner, a[2]), outer |-> cfg.outer]
    [] a[1] = "E" -> [inner |-> cfg.inner, outer |-> Swap(cfg.outer, a[2])]
RECURSIVE ApplyWord(_, _)
ApplyWord(cfg, w) == IF w = <<>> THEN cfg ELSE ApplyWord(Act(cfg, w[1]), Tail(w))
RECURSIVE WordOK(_, _)
WordOK(cfg, w) == w = <<>> \/ (ActOK(cfg, w[1]) /\ WordOK(Act(cfg, w[1]), Tail(w)))
HasRotation(w) == \E i \in DOMAIN w : w[i][1] \in {"C", "Q"}

(* squared distance (integers; |coordinates| < 2^20 keeps differences^2 sums below 2^31 only for small sets:
   used in the design-level model on small coordinates) *)
D2(p, q) == (p[1]-q[1])*(p[1]-q[1]) + (p[2]-q[2])*(p[2]-q[2]) + (p[3]-q[3])*(p[3]-q[3])

(* ---- tolerances (relative to the largest reference component, in units of 2^-20) ---- *)
TolExact == 5243                         \* 5e-3: float32 rounding of the default origin (measured <= 2.5e-4)
TolRot(lmax) == IF lmax <= 6 THEN 157286        \* 0.15   (measured <= 0.042)
                ELSE IF lmax <= 9 THEN 104858   \* 0.10   (measured <= 0.026)
                ELSE 83886                      \* 0.08   (measured <= 0.026)
Tol(w, lmax) == IF HasRotation(w) THEN TolRot(lmax) ELSE TolExact
AbsV(x) == IF x < 0 THEN -x ELSE x
Within(d, ref, tol) == Len(d) = Len(ref) /\ \A i \in DOMAIN d : AbsV(d[i] - ref[i]) <= tol

(* ---- a molecule (or atom) in its crystal: different listings of one P1 crystal ------------------------------------- *)
(* A listing is [cell |-> <<a, b, c>> (orthorhombic, integer units of 0.005 A), atoms |-> Seq([z, p])].  The descriptors of    *)
(* the molecules / atoms of a crystal (Crystal.molecular_shape_descriptors, Crystal.atomic_shape_descriptors) belong to the    *)
(* infinite arrangement, not to the listing: moving the cell origin ("S"), listing the atoms in another order ("P"), or       *)
(* listing a k-fold cell along an axis ("X") gives the same set of descriptor rows (up to the translation tolerance).         *)
CShifts == << <<37, -211, 94>>, <<-640, 15, 333>>, <<5, 5, -700>>, <<1200, -900, 411>> >>
CActOK(c, a) ==
  CASE a[1] = "S" -> a[2] \in DOMAIN CShifts
    [] a[1] = "P" -> a[2] \in 1..(Len(c.atoms) - 1)
    [] a[1] = "X" -> a[2] \in Idx /\ Len(c.atoms) <= 12
    [] OTHER -> FALSE
CAct(c, a) ==
  CASE a[1] = "S" -> [cell |-> c.cell, atoms |-> MoveAll(c.atoms, LAMBDA p : [k \in Idx |-> p[k] + CShifts[a[2]][k]])]
    [] a[1] = "P" -> [cell |-> c.cell, atoms |-> Swap(c.atoms, a[2])]
    [] a[1] = "X" -> [cell |-> [k \in Idx |-> IF k = a[2] THEN 2 * c.cell[k] ELSE c.cell[k]],
                      atoms |-> c.atoms \o MoveAll(c.atoms, LAMBDA p : [k \in Idx |-> IF k = a[2] THEN p[k] + c.cell[k] ELSE p[k]])]
RECURSIVE CApplyWord(_, _)
CApplyWord(c, w) == IF w = <<>> THEN c ELSE CApplyWord(CAct(c, w[1]), Tail(w))
RECURSIVE CWordOK(_, _)
CWordOK(c, w) == w = <<>> \/ (CActOK(c, w[1]) /\ CWordOK(CAct(c, w[1]), Tail(w)))
(* every row of one descriptor table is matched by a row of the other *)
RowsMatch(A, B, tol) == /\ \A i \in DOMAIN A : \E j \in DOMAIN B : Within(A[i], B[j], tol)
                        /\ \A j \in DOMAIN B : \E i \in DOMAIN A : Within(A[i], B[j], tol)
(* the crystal entry points collect the surroundings within 6 A (1200 units of 0.005 A) of the atoms described: an atom at a distance
   of exactly 6 A - a cell edge of 6.000 A puts every atom's own translate there - is in or out by rounding (the property does not say
   whether the sphere is closed, as for C03) *)
EnvRadius == 1200
OnEnvSphere(c) ==
  \E i \in DOMAIN c.atoms : \E j \in DOMAIN c.atoms :
    \E h \in {<<x, y, z>> : x \in -2..2, y \in -2..2, z \in -2..2} :
      D2(c.atoms[i].p, [k \in Idx |-> c.atoms[j].p[k] + h[k] * c.cell[k]]) = EnvRadius * EnvRadius
(* the listed atoms form separate molecules: an atom of one cell is at least `clear` units away from every atom of the 26
   neighbouring cells that is not its own image ... kept simple: from every atom of every other cell *)
PeriodicClear(c, clear) ==
  \A i \in DOMAIN c.atoms : \A j \in DOMAIN c.atoms :
    \A h \in {<<x, y, z>> : x \in -1..1, y \in -1..1, z \in -1..1} \ {<<0, 0, 0>>} :
      D2(c.atoms[i].p, [k \in Idx |-> c.atoms[j].p[k] + h[k] * c.cell[k]]) >= clear * clear
=============================================================================
