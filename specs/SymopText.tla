------------------------------ MODULE SymopText ------------------------------
(***************************************************************************)
(* A reader for the "x,y,z" text form of a symmetry operation, written     *)
(* independently of decode_symm_str, on byte sequences (Seq(0..255)).      *)
(*                                                                         *)
(*   operation := row ',' row ',' row                                      *)
(*   row       := term+            blanks anywhere, letters in any case    *)
(*   term      := sign? axis | sign? number                                *)
(*   axis      := 'x' | 'y' | 'z'                                          *)
(*   number    := digits '/' digits | digits? '.' digits | digits          *)
(*                                                                         *)
(* Meaning: each axis term adds +-1 to the rotation entry of its axis,     *)
(* each number adds +- its value to the translation, which is taken modulo *)
(* 1 and must be a multiple of 1/12 (decimals: within 0.005 of one, the    *)
(* usual 0.3333 / 0.6667 spellings).  Anything else is "not ok" (the text  *)
(* is then outside the domain of C11, not a violation).                    *)
(* Magnitudes: numbers of at most 6 digits: 24 * 10^6 < 2^31.              *)
(***************************************************************************)
EXTENDS Symop

COMMA == 44
PLUS == 43
MINUS == 45
SLASH == 47
DOT == 46
IsBlankB(c) == c \in {32, 9}
LowerB(c) == IF c \in 65..90 THEN c + 32 ELSE c
IsDigitB(c) == c \in 48..57
AxisOf(c) == IF c = 120 THEN 1 ELSE IF c = 121 THEN 2 ELSE IF c = 122 THEN 3 ELSE 0
CleanB(s) == SelectSeq([i \in DOMAIN s |-> LowerB(s[i])], LAMBDA c : ~IsBlankB(c))

RECURSIVE SplitAt(_, _, _)
(* split s at the separator byte: sequence of pieces *)
SplitAt(s, sepb, acc) ==
  IF s = <<>> THEN <<acc>>
  ELSE IF s[1] = sepb THEN <<acc>> \o SplitAt(Tail(s), sepb, <<>>)
  ELSE SplitAt(Tail(s), sepb, Append(acc, s[1]))

RECURSIVE DigitsEnd(_, _)
DigitsEnd(s, i) == IF i <= Len(s) /\ IsDigitB(s[i]) THEN DigitsEnd(s, i + 1) ELSE i     \* first index after the digit run
RECURSIVE NatOf(_, _, _)
NatOf(s, i, j) == IF i >= j THEN 0 ELSE 10 * NatOf(s, i, j - 1) + (s[j - 1] - 48)       \* value of s[i..j-1]
RECURSIVE Pow10(_)
Pow10(k) == IF k = 0 THEN 1 ELSE 10 * Pow10(k - 1)

Bad == [ok |-> FALSE, r |-> <<0, 0, 0>>, t |-> 0]
(* twelfths of a decimal D / 10^k, rounded to nearest, accepted when within 0.06 twelfths (0.005) *)
DecTwelfths(D, k) ==
  LET p == Pow10(k)
      q == (24 * D + p) \div (2 * p)                  \* round(12 D / p)
      err == IF 12 * D - q * p < 0 THEN q * p - 12 * D ELSE 12 * D - q * p
  IN [ok |-> err * 100 <= 6 * p, v |-> q]

RECURSIVE ParseTerms(_, _, _, _)
(* s: cleaned bytes of one row; i: position; r: rotation row so far; t: translation twelfths so far *)
ParseTerms(s, i, r, t) ==
  IF i > Len(s) THEN [ok |-> TRUE, r |-> r, t |-> t % 12]
  ELSE
    LET hasSign == s[i] \in {PLUS, MINUS}
        sg == IF s[i] = MINUS THEN -1 ELSE 1
        j == IF hasSign THEN i + 1 ELSE i
    IN IF j > Len(s) THEN Bad
       ELSE IF AxisOf(s[j]) # 0
            THEN ParseTerms(s, j + 1, [r EXCEPT ![AxisOf(s[j])] = @ + sg], t)
       ELSE IF IsDigitB(s[j]) \/ s[j] = DOT
            THEN LET e1 == DigitsEnd(s, j) IN
                 IF e1 - j > 6 THEN Bad
                 ELSE IF e1 <= Len(s) /\ s[e1] = SLASH
                      THEN LET e2 == DigitsEnd(s, e1 + 1)
                               a == NatOf(s, j, e1)
                               b == NatOf(s, e1 + 1, e2)
                           IN IF e1 = j \/ e2 = e1 + 1 \/ e2 - e1 > 4 \/ b = 0 \/ (12 * a) % b # 0 THEN Bad
                              ELSE ParseTerms(s, e2, r, t + sg * ((12 * a) \div b))
                 ELSE IF e1 <= Len(s) /\ s[e1] = DOT
                      THEN LET e2 == DigitsEnd(s, e1 + 1)
                               k == e2 - (e1 + 1)
                               D == NatOf(s, j, e1) * Pow10(k) + NatOf(s, e1 + 1, e2)
                               d12 == DecTwelfths(D, k)
                           IN IF k = 0 \/ k > 6 \/ (e1 - j) + k > 6 \/ ~d12.ok THEN Bad
                              ELSE ParseTerms(s, e2, r, t + sg * d12.v)
                 ELSE IF e1 = j THEN Bad
                      ELSE ParseTerms(s, e1, r, t + sg * 12 * NatOf(s, j, e1))        \* an integer translation
       ELSE Bad

ParseRowB(s) == IF s = <<>> THEN Bad ELSE ParseTerms(s, 1, <<0, 0, 0>>, 0)

ParseTextB(bytes) ==
  LET rows == SplitAt(CleanB(bytes), COMMA, <<>>) IN
  IF Len(rows) # 3 THEN [ok |-> FALSE, op |-> [r |-> IdMat, t |-> <<0, 0, 0>>]]
  ELSE LET p == [i \in 1..3 |-> ParseRowB(rows[i])] IN
       [ok |-> p[1].ok /\ p[2].ok /\ p[3].ok,
        op |-> [r |-> <<p[1].r, p[2].r, p[3].r>>, t |-> <<p[1].t, p[2].t, p[3].t>>]]
=============================================================================
