----------------------------- MODULE SpaceGroup -----------------------------
(***************************************************************************)
(* Space-group settings as sets of packed symmetry operations, the SHELX   *)
(* LATT/SYMM reduced description, and the two list algorithms of           *)
(* crystal/symmetry_operation.py (reduced_symmetry_list,                   *)
(* expanded_symmetry_list) written step by step.                           *)
(***************************************************************************)
EXTENDS Symop, SequencesExt

CodeSet(seq) == {seq[i] : i \in DOMAIN seq}
NoDup(seq) == Cardinality(CodeSet(seq)) = Len(seq)

ComposeCode(a, b) == Enc(Compose(Dec(a), Dec(b)))
InverseCode(a) == Enc(InverseOp(Dec(a)))
InvertedCode(a) == Enc(Inverted(Dec(a)))
ShiftCode(a, v) == Enc(Shift(Dec(a), v))

(* ---- group axioms modulo lattice translations -------------------------- *)
HasIdentity(S) == IdentityCode \in S
Closed(S) == \A a \in S : \A b \in S : ComposeCode(a, b) \in S
HasInverses(S) == \A a \in S : InverseCode(a) \in S
IsGroup(S) == HasIdentity(S) /\ Closed(S) /\ HasInverses(S)
(* every operation must be a unimodular lattice automorphism *)
Unimodular(S) == \A a \in S : Det(RotOf(a)) \in {-1, 1}
(* centrosymmetric: the point group contains -1 (the inversion may sit anywhere) *)
Centro(S) == \E c \in S : RotOf(c) = NegMat(IdMat)
(* inversion located at the origin: what SHELX means by LATT > 0 *)
InversionAtOrigin(S) == InversionCode \in S

(* ---- SHELX lattice types ----------------------------------------------- *)
CenteringNames == <<"primitive", "body", "rcenter", "face", "aface", "bface", "cface">>
LattNumber(name) == CHOOSE k \in 1..7 : CenteringNames[k] = name
CenteringVecs(k) ==                      \* in twelfths (LATTICE_TYPE_TRANSLATIONS)
  CASE k = 1 -> <<>>
    [] k = 2 -> << <<6,6,6>> >>
    [] k = 3 -> << <<8,4,4>>, <<4,8,8>> >>
    [] k = 4 -> << <<0,6,6>>, <<6,0,6>>, <<6,6,0>> >>
    [] k = 5 -> << <<0,6,6>> >>
    [] k = 6 -> << <<6,0,6>> >>
    [] k = 7 -> << <<6,6,0>> >>
AbsInt(x) == IF x < 0 THEN -x ELSE x

(* The LATT the writer should emit.  LattOrigin is the specification;     *)
(* LattAsBuilt is the rule found in the code at the pinned commit (sign    *)
(* from the centrosymmetric flag), named here as a deviation: it is wrong  *)
(* for centrosymmetric settings whose inversion centre is not the origin.  *)
LattOrigin(centering, S) == IF InversionAtOrigin(S) THEN LattNumber(centering) ELSE -LattNumber(centering)
LattAsBuilt(centering, centroFlag) == IF centroFlag THEN LattNumber(centering) ELSE -LattNumber(centering)

(* ---- reduced_symmetry_list: one loop iteration ------------------------- *)
(* `red` is the accumulator (identity first), `next` the popped operation. *)
ReduceSkips(red, next, latt) ==
  LET S == CodeSet(red)
      inv == latt > 0
      T == CenteringVecs(AbsInt(latt))
  IN \/ next \in S
     \/ inv /\ InvertedCode(next) \in S
     \/ \E k \in DOMAIN T : LET x == ShiftCode(next, T[k])
                            IN (inv /\ InvertedCode(x) \in S) \/ x \in S
ReduceStep(red, next, latt) == IF ReduceSkips(red, next, latt) THEN red ELSE Append(red, next)
Reduce(full, latt) == FoldLeft(LAMBDA red, next : ReduceStep(red, next, latt), <<IdentityCode>>, full)

(* ---- expanded_symmetry_list -------------------------------------------- *)
WithIdentity(reduced) == IF IdentityCode \in CodeSet(reduced) THEN reduced ELSE Append(reduced, IdentityCode)
Centred(reduced, latt) ==
  LET T == CenteringVecs(AbsInt(latt))
  IN FlattenSeq([i \in DOMAIN reduced |->
        <<reduced[i]>> \o [k \in DOMAIN T |-> ShiftCode(reduced[i], T[k])]])
Expand(reduced, latt) ==
  LET c == Centred(WithIdentity(reduced), latt)
  IN IF latt > 0 THEN c \o [i \in DOMAIN c |-> InvertedCode(c[i])] ELSE c

(* The reduced description denotes the group S under SHELX semantics. *)
Describes(reduced, latt, S) ==
  LET e == Expand(reduced, latt) IN CodeSet(e) = S /\ Len(e) = Cardinality(S)
=============================================================================
