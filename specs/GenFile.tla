------------------------------- MODULE GenFile -------------------------------
(***************************************************************************)
(* DFTB+ .gen files as a source of crystals (fmt/gen.py,                   *)
(* Crystal.from_gen_string).  A periodic .gen file lists the N atoms of    *)
(* one cell and three lattice vectors; its kind says how the coordinates   *)
(* are meant:  F  fractions of the lattice vectors,  S  Cartesian          *)
(* Angstrom (x = f . L).  Either way it describes the same crystal:        *)
(* space group P1, the lattice L, the listed atoms at the fractions f.     *)
(* On the exact grid (f = p / n, integer Gram matrix G of L):              *)
(***************************************************************************)
EXTENDS Integers, Sequences, FiniteSets

Ix == 1..3
WrapP(p, n) == [k \in Ix |-> p[k] % n]
(* listed: sequence of [z, p]; loaded: what the Crystal object holds after reading the file *)
LoadedOK(n, G, listed, loaded) ==
  /\ loaded.number = 1 /\ loaded.nops = 1
  /\ loaded.gram = G
  /\ Len(loaded.atoms) = Len(listed)
  /\ \A i \in DOMAIN listed : /\ loaded.atoms[i].z = listed[i].z
                              /\ WrapP(loaded.atoms[i].p, n) = WrapP(listed[i].p, n)
=============================================================================
