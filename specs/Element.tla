------------------------------- MODULE Element -------------------------------
(***************************************************************************)
(* Chemical element lookup (core/element.py) for Z = 1..103.               *)
(*                                                                         *)
(* The periodic table is written here independently of chmpy, as letter    *)
(* codes: element Z has symbol  Upper[a] \o Lower[b]  for SymCode[Z] =     *)
(* <<a, b>> (b = 0 for one-letter symbols).  All spellings a user may      *)
(* type are *generated* from these codes (SpellingText), and Lookup says   *)
(* what each must resolve to:                                              *)
(*   kind "sym"    the symbol in one of four letter-case variants          *)
(*   kind "pad"    the symbol padded with blanks                           *)
(*   kind "num"    the atomic number as a digit string, zero padded or not *)
(*   kind "label"  symbol + digits + suffix (atom-site labels)             *)
(*   kind "int"    an integer (any in -200..300): valid iff in 1..103      *)
(*   kind "bad"    one- and two-letter strings that are no symbol, with    *)
(*                 and without label decoration: must be rejected          *)
(* Names are data of the library ("tabulated name"): the spec demands that *)
(* the name reported for Z looks up to Z in any letter case (kind "name",  *)
(* text supplied by the harness from the by-number lookup).                *)
(* Ordering: carbon first, then by atomic number.  Formula: each element   *)
(* once in that order followed by its count when > 1.                      *)
(***************************************************************************)
EXTENDS Integers, Sequences, FiniteSets, TLC

NElements == 103
SymCode == <<
  <<8,0>>, <<8,5>>, <<12,9>>, <<2,5>>, <<2,0>>, <<3,0>>, <<14,0>>, <<15,0>>, <<6,0>>, <<14,5>>,
  <<14,1>>, <<13,7>>, <<1,12>>, <<19,9>>, <<16,0>>, <<19,0>>, <<3,12>>, <<1,18>>, <<11,0>>, <<3,1>>,
  <<19,3>>, <<20,9>>, <<22,0>>, <<3,18>>, <<13,14>>, <<6,5>>, <<3,15>>, <<14,9>>, <<3,21>>, <<26,14>>,
  <<7,1>>, <<7,5>>, <<1,19>>, <<19,5>>, <<2,18>>, <<11,18>>, <<18,2>>, <<19,18>>, <<25,0>>, <<26,18>>,
  <<14,2>>, <<13,15>>, <<20,3>>, <<18,21>>, <<18,8>>, <<16,4>>, <<1,7>>, <<3,4>>, <<9,14>>, <<19,14>>,
  <<19,2>>, <<20,5>>, <<9,0>>, <<24,5>>, <<3,19>>, <<2,1>>, <<12,1>>, <<3,5>>, <<16,18>>, <<14,4>>,
  <<16,13>>, <<19,13>>, <<5,21>>, <<7,4>>, <<20,2>>, <<4,25>>, <<8,15>>, <<5,18>>, <<20,13>>, <<25,2>>,
  <<12,21>>, <<8,6>>, <<20,1>>, <<23,0>>, <<18,5>>, <<15,19>>, <<9,18>>, <<16,20>>, <<1,21>>, <<8,7>>,
  <<20,12>>, <<16,2>>, <<2,9>>, <<16,15>>, <<1,20>>, <<18,14>>, <<6,18>>, <<18,1>>, <<1,3>>, <<20,8>>,
  <<16,1>>, <<21,0>>, <<14,16>>, <<16,21>>, <<1,13>>, <<3,13>>, <<2,11>>, <<3,6>>, <<5,19>>, <<6,13>>,
  <<13,4>>, <<14,15>>, <<12,18>> >>
Upper == <<"A","B","C","D","E","F","G","H","I","J","K","L","M","N","O","P","Q","R","S","T","U","V","W","X","Y","Z">>
Lower == <<"a","b","c","d","e","f","g","h","i","j","k","l","m","n","o","p","q","r","s","t","u","v","w","x","y","z">>
ElementZ == 1..NElements

(* text of a letter-code pair in a letter-case variant: 1 = Xx, 2 = XX, 3 = xx, 4 = xX *)
PairText(c, v) ==
  LET first == IF v \in {1, 2} THEN Upper[c[1]] ELSE Lower[c[1]]
      second == IF c[2] = 0 THEN "" ELSE IF v \in {2, 4} THEN Upper[c[2]] ELSE Lower[c[2]]
  IN first \o second
SymText(z) == PairText(SymCode[z], 1)
IsSymbolCode(c) == \E z \in ElementZ : SymCode[z] = c
ZOfCode(c) == CHOOSE z \in ElementZ : SymCode[z] = c

(* ---- decorations for labels ------------------------------------------------ *)
DigitRuns == <<"1", "12", "3", "07", "101">>
Suffixes == <<"", "A", "_F2____1____i", "'", "*", "B2", "_2", "a_", " x", "\n", "_3\r\n">>       \* the last two: an unstripped file line
Pads == <<" ", "  ", "\t">>
LabelText(c, v, d, s) == PairText(c, v) \o DigitRuns[d] \o Suffixes[s]
LongTails == <<"q", "qx", "xq1", "zzq2_a", "qqqqq">>
NumText(z, style) == CASE style = 1 -> ToString(z)
                       [] style = 2 -> "0" \o ToString(z)
                       [] style = 3 -> "00" \o ToString(z)
                       [] style = 4 -> " " \o ToString(z) \o " "

(* spellings of element names that are not the library's (the table says Aluminium, Sulfur, Caesium; Wolfram, Natrium, Kalium are
   other languages' names): they name no element here - above all they must not resolve to a neighbour of the element meant *)
AltNames == <<"aluminum", "sulphur", "cesium", "wolfram", "natrium", "kalium", "Aluminum", "SULPHUR", "Cesium">>
(* a digit string decorated the way Python's int() tolerates but no chemist writes: these are not numbers of elements *)
NumJunkText(z, style) == CASE style = 1 -> "+" \o ToString(z)
                           [] style = 2 -> (IF z >= 10 THEN ToString(z \div 10) \o "_" \o ToString(z % 10) ELSE "0_" \o ToString(z))
                           [] style = 3 -> ToString(z) \o "_"
                           [] style = 4 -> "_" \o ToString(z)
                           [] style = 5 -> "+0" \o ToString(z)
LeadJunk == <<"0", "1", "3", "100", "1.5", "1.2 ", "#", "-1", "_", "(", "0b", "0o", "-", ".", "12", "$", "*", "[">>
JunkTails == <<"", "1", "7", "2A">>

(* ---- spellings, indexed: <<kind, z or code, variant parameters>> ------------ *)
SpellingText(sp) ==
  CASE sp.kind = "sym" -> PairText(SymCode[sp.z], sp.v)
    [] sp.kind = "pad" -> Pads[sp.a] \o PairText(SymCode[sp.z], sp.v) \o Pads[sp.b]
    [] sp.kind = "num" -> NumText(sp.z, sp.v)
    [] sp.kind = "label" -> LabelText(SymCode[sp.z], sp.v, sp.a, sp.b)
    [] sp.kind = "bad" -> (IF sp.a = 0 THEN PairText(sp.c, sp.v) ELSE LabelText(sp.c, sp.v, sp.a, sp.b))
    \* a symbol run on by further letters names no element ("Heq", "Naqx1"): the whole leading run of letters must be the symbol
    [] sp.kind = "badlong" -> PairText(SymCode[sp.z], sp.v) \o LongTails[sp.a]
    \* something that is not a letter in front of a symbol ("100K", "0b1", "#N", "1.5f"): the string does not START with the
    \* symbol, it names no element (an atom label starts with the symbol; a number is a number only as a whole)
    [] sp.kind = "altname" -> AltNames[sp.v]
    [] sp.kind = "numjunk" -> NumJunkText(sp.z, sp.v)
    [] sp.kind = "prefixed" -> LeadJunk[sp.a] \o PairText(SymCode[sp.z], sp.v) \o JunkTails[sp.b]

(* deuterium: "D" is deliberately read as hydrogen by the library; excluded from the rejected strings *)
DeuteriumCode == <<4, 0>>
BadCodes == {c \in ((1..26) \X (0..26)) : ~IsSymbolCode(c) /\ c # DeuteriumCode}

(* what a spelling must resolve to: an atomic number, or 0 for "must be rejected" *)
Lookup(sp) == IF sp.kind \in {"bad", "badlong", "prefixed", "numjunk", "altname"} THEN 0 ELSE IF sp.z \in ElementZ THEN sp.z ELSE 0     \* "0", "104", ... are digit strings naming no element
LookupInt(n) == IF n \in ElementZ THEN n ELSE 0

(* ---- ordering and formulas --------------------------------------------------- *)
Less(a, b) == a # b /\ (a = 6 \/ (b # 6 /\ a < b))
RECURSIVE InsertSorted(_, _)
InsertSorted(s, x) == IF s = <<>> THEN <<x>> ELSE IF Less(x, s[1]) THEN <<x>> \o s ELSE <<s[1]>> \o InsertSorted(Tail(s), x)
RECURSIVE SortSpec(_)
SortSpec(s) == IF s = <<>> THEN <<>> ELSE InsertSorted(SortSpec(Tail(s)), s[1])
Count(s, z) == Cardinality({i \in DOMAIN s : s[i] = z})
RECURSIVE FormulaOf(_, _)
(* s sorted: emit symbol and count of the leading run *)
FormulaOf(s, orig) ==
  IF s = <<>> THEN ""
  ELSE LET z == s[1] n == Count(orig, z)
           rest == SelectSeq(s, LAMBDA y : y # z)
       IN SymText(z) \o (IF n > 1 THEN ToString(n) ELSE "") \o FormulaOf(rest, orig)
Formula(s) == FormulaOf(SortSpec(s), s)
=============================================================================
