----------------------------- MODULE CrystalFile -----------------------------
(***************************************************************************)
(* What a crystal structure file must carry (C10).  An abstract crystal is *)
(*   [number, ops, cell (six parameters as integers x 10^6: Angstrom and   *)
(*    degrees), n (grid), asym : Seq([z, sym, label, p, occ])].            *)
(*                                                                         *)
(* SHELX .res: the content is  CELL numbers, LATT, SYMM texts, SFAC        *)
(* symbols, atom lines.  Its meaning is given by SpaceGroup!Expand (SHELX  *)
(* semantics of LATT + SYMM, identity implied) and Symop!ToText.           *)
(* POSCAR: lattice rows, element blocks, Direct coordinates of *all*       *)
(* unit-cell atoms (Crystal!CellAtoms).  CIF: the keys chmpy writes.       *)
(***************************************************************************)
EXTENDS Reexpress, SymopText

AbsD(x) == IF x < 0 THEN -x ELSE x
(* cell parameters agree to the precision the format writes (tol in units of 10^-6) *)
CellClose(c1, c2, tol) == \A i \in 1..6 : AbsD(c1[i] - c2[i]) <= tol

(* ---- SHELX content ---------------------------------------------------- *)
(* each SYMM line is read by the specification's own reader (SymopText) from its bytes *)
SymmTextsOK(symm) == \A i \in DOMAIN symm : ParseTextB(symm[i].bytes).ok /\ Encodable(ParseTextB(symm[i].bytes).op)
SymmCodes(symm) == [i \in DOMAIN symm |-> Enc(ParseTextB(symm[i].bytes).op)]
(* informational: chmpy writes the canonical text of Symop!ToText *)
SymmTextsCanonical(symm) == \A i \in DOMAIN symm : symm[i].text = ToText(Dec(Enc(ParseTextB(symm[i].bytes).op)))
(* LATT + SYMM denote exactly the group S *)
ResDenotes(latt, symm, S) == AbsInt(latt) \in 1..7 /\ Describes(SymmCodes(symm), latt, S)
(* atom lines: label, scattering-factor index -> element symbol, coordinates *)
ResAtomsOK(sfac, atoms, asym) ==
  /\ Len(atoms) = Len(asym)
  /\ \A i \in DOMAIN atoms :
       /\ atoms[i].label = asym[i].label
       /\ atoms[i].sfac \in DOMAIN sfac /\ sfac[atoms[i].sfac] = asym[i].sym
       /\ atoms[i].p = asym[i].p
  /\ Cardinality({sfac[i] : i \in DOMAIN sfac}) = Len(sfac)

(* ---- reloaded crystal -------------------------------------------------- *)
SitesEqual(sites, asym, withOcc) ==
  /\ Len(sites) = Len(asym)
  /\ \A i \in DOMAIN sites : /\ sites[i].z = asym[i].z /\ sites[i].label = asym[i].label /\ sites[i].p = asym[i].p
                             /\ (withOcc => sites[i].occ = asym[i].occ)
SameGroup(number, ops, number0, ops0) == number = number0 /\ CodeSet(ops) = CodeSet(ops0) /\ NoDup(ops)

(* POSCAR: a P1 crystal holding every unit-cell atom once (as a multiset of [z, p]) *)
PoscarAtomsOK(sites, ops0, asym0, n) ==
  LET want == CellAtoms(ops0, [i \in DOMAIN asym0 |-> [z |-> asym0[i].z, p |-> asym0[i].p]], n)
      got == {[z |-> sites[i].z, p |-> [c \in Idx |-> sites[i].p[c] % n]] : i \in DOMAIN sites}
  IN got = want /\ Len(sites) = Cardinality(want)
=============================================================================
