----------------------------- MODULE MolFormats -----------------------------
(***************************************************************************)
(* Molecules <-> text in the two molecular file formats of chmpy           *)
(* (core/molecule.py, fmt/xyz_file.py, fmt/sdf.py):                        *)
(*                                                                         *)
(*   XYZ   count line, comment line, one "symbol x y z" line per atom,     *)
(*         fields separated by any run of blanks / tabs, symbol in any     *)
(*         letter case; the writer prints "{sym} {x: 20.12f} {y: 20.12f} {z: 20.12f}". *)
(*   SDF   MDL V2000 connection table: three header lines, the counts      *)
(*         line (3-wide fields, "V2000" in columns 35-39), atom lines      *)
(*         x y z as F10.4 in columns 1-10, 11-20, 21-30, a blank, the     *)
(*         symbol left-justified in columns 32-34, bond lines with 3-wide  *)
(*         fields, "M  END"; records of a file are terminated by "$$$$".   *)
(*                                                                         *)
(* Text is a sequence of lines, a line is a sequence of byte values.       *)
(* A coordinate is an exact decimal [neg, ip, fr]: sign, integer part      *)
(* (< 10^9) and the fraction as big-endian groups of four digits (one      *)
(* group = the 4 decimals of SDF, three groups = the 12 decimals the XYZ   *)
(* writer prints).  No operator below forms an integer >= 2^31: fields are *)
(* parsed digit group by digit group, differences go through BigInt.       *)
(* A molecule is [atoms |-> Seq([z, c |-> <<x, y, z>>]), bonds |-> Seq(<<i, j, type>>)]. *)
(***************************************************************************)
EXTENDS Integers, Sequences, FiniteSets, SequencesExt, BigInt

(* ======================= bytes ========================================= *)
IsBlank(b) == b = 32 \/ b = 9                       \* space or tab
IsDigit(b) == b >= 48 /\ b <= 57
IsUpper(b) == b >= 65 /\ b <= 90
IsLower(b) == b >= 97 /\ b <= 122
IsLetter(b) == IsUpper(b) \/ IsLower(b)
UpperOf(b) == IF IsLower(b) THEN b - 32 ELSE b
LowerOf(b) == IF IsUpper(b) THEN b + 32 ELSE b
SwapOf(b) == IF IsLower(b) THEN b - 32 ELSE IF IsUpper(b) THEN b + 32 ELSE b
AllDigits(s) == \A i \in DOMAIN s : IsDigit(s[i])
AllSpaces(s) == \A i \in DOMAIN s : s[i] = 32
BlankRun(s) == \A i \in DOMAIN s : IsBlank(s[i])
(* bytes the Python readers treat as ordinary characters (no exotic line breaks) *)
PrintableLine(s) == \A i \in DOMAIN s : (s[i] >= 32 /\ s[i] <= 126) \/ s[i] = 9
Spaces(n) == IF n <= 0 THEN <<>> ELSE [i \in 1..n |-> 32]
PadL(s, w) == Spaces(w - Len(s)) \o s               \* right-justify; never truncates (like a C field width)
PadR(s, w) == s \o Spaces(w - Len(s))
(* columns a..b (1-based, inclusive) with Python slice semantics on short lines *)
Cols(line, a, b) == IF a > Len(line) THEN <<>> ELSE SubSeq(line, a, IF b <= Len(line) THEN b ELSE Len(line))

(* TLC keeps [i \in 1..n |-> e] unevaluated and re-evaluates e at every application; as a tuple *)
(* (bound once in a LET) every element is computed once                                        *)
Tup(f) == f \o <<>>

RECURSIVE SkipBlank(_, _), SkipNonBlank(_, _), BackBlank(_, _), TokensFrom(_, _)
SkipBlank(s, i) == IF i <= Len(s) /\ IsBlank(s[i]) THEN SkipBlank(s, i + 1) ELSE i
SkipNonBlank(s, i) == IF i <= Len(s) /\ ~IsBlank(s[i]) THEN SkipNonBlank(s, i + 1) ELSE i
BackBlank(s, j) == IF j >= 1 /\ IsBlank(s[j]) THEN BackBlank(s, j - 1) ELSE j
StripB(s) == LET a == SkipBlank(s, 1)
                 b == BackBlank(s, Len(s))
             IN IF a > b THEN <<>> ELSE SubSeq(s, a, b)
(* maximal runs of non-blank bytes, in order *)
TokensFrom(s, i) == LET a == SkipBlank(s, i)
                    IN IF a > Len(s) THEN <<>>
                       ELSE LET b == SkipNonBlank(s, a) IN <<SubSeq(s, a, b - 1)>> \o TokensFrom(s, b)
Tokens(s) == TokensFrom(s, 1)

(* ======================= unsigned integers ============================= *)
RECURSIVE DigitsVal(_), UIntDigits(_)
(* value of a digit string of at most 9 digits (< 10^9 < 2^31) *)
DigitsVal(ds) == IF ds = <<>> THEN 0 ELSE 10 * DigitsVal(Front(ds)) + (Last(ds) - 48)
UIntDigits(n) == IF n < 10 THEN <<48 + n>> ELSE UIntDigits(n \div 10) \o <<48 + (n % 10)>>
UIntOf(s) == LET ok == s # <<>> /\ Len(s) <= 9 /\ AllDigits(s)
             IN [ok |-> ok, v |-> IF ok THEN DigitsVal(s) ELSE 0]

(* ======================= exact decimals ================================ *)
Limb4(v) == <<48 + (v \div 1000), 48 + ((v \div 100) % 10), 48 + ((v \div 10) % 10), 48 + (v % 10)>>
RECURSIVE FracBytes(_)
FracBytes(fr) == IF Len(fr) = 0 THEN <<>> ELSE Limb4(fr[1]) \o FracBytes(SubSeq(fr, 2, Len(fr)))
WellFormedDec(d, nl) == /\ d.neg \in BOOLEAN /\ d.ip \in 0..999999999
                        /\ Len(d.fr) = nl /\ \A k \in 1..nl : d.fr[k] \in 0..9999
IsZeroDec(d) == d.ip = 0 /\ \A k \in DOMAIN d.fr : d.fr[k] = 0
CanonDec(d) == [neg |-> d.neg /\ ~IsZeroDec(d), ip |-> d.ip, fr |-> d.fr]      \* -0.0000 is 0.0000
PadDec(d, n) == IF n <= Len(d.fr) THEN d
                ELSE [neg |-> d.neg, ip |-> d.ip, fr |-> d.fr \o [k \in 1..(n - Len(d.fr)) |-> 0]]
BadDec == [ok |-> FALSE, d |-> [neg |-> FALSE, ip |-> 0, fr |-> <<>>]]
(* token -> decimal with nl fraction groups.  Grammar: [+-] digit{1,9} [ "." digit{0, 4 nl} ] *)
ParseDec(tok, nl) ==
  LET sgn == tok # <<>> /\ (tok[1] = 45 \/ tok[1] = 43)
      body == IF sgn THEN Tail(tok) ELSE tok
      dots == {i \in DOMAIN body : body[i] = 46}
      p == IF dots = {} THEN Len(body) + 1 ELSE CHOOSE i \in dots : TRUE
      ipd == SubSeq(body, 1, p - 1)
      frd == SubSeq(body, p + 1, Len(body))
      ok == /\ Cardinality(dots) <= 1 /\ ipd # <<>> /\ Len(ipd) <= 9 /\ AllDigits(ipd)
            /\ AllDigits(frd) /\ Len(frd) <= 4 * nl
      padded == frd \o [i \in 1..(4 * nl - Len(frd)) |-> 48]
  IN IF ~ok THEN BadDec
     ELSE [ok |-> TRUE,
           d |-> CanonDec([neg |-> sgn /\ tok[1] = 45, ip |-> DigitsVal(ipd),
                           fr |-> [k \in 1..nl |-> DigitsVal(SubSeq(padded, 4 * k - 3, 4 * k))]])]
(* sign, digits, point, all fraction digits; `pos` is what a non-negative number gets as sign *)
DecText(d, pos) == (IF d.neg THEN <<45>> ELSE pos) \o UIntDigits(d.ip) \o <<46>> \o FracBytes(d.fr)

(* d as an integer number of units 10^-(4n), n >= Len(d.fr): BigInt of lib/BigInt.tla *)
DecBig(d, n) == LET f == PadDec(d, n).fr
                    limbs == [k \in 1..n |-> f[n + 1 - k]] \o
                             <<d.ip % 10000, (d.ip \div 10000) % 10000, d.ip \div 100000000>>
                    t == BTrim(limbs)
                IN IF t = <<>> THEN BZero ELSE [s |-> IF d.neg THEN -1 ELSE 1, d |-> t]
(* |a - b| <= tol units of 10^-(4n);  tol < 2^31 *)
DecWithin(a, b, n, tol) == BLe(BAbs(BSub(DecBig(a, n), DecBig(b, n))), BFromInt(tol))

(* "The same coordinate to the precision of the format": din is the exact input (nf or nf+1   *)
(* fraction groups), dout what the text / the reader carries (nf groups).  With nf groups in   *)
(* the input the two are equal up to `slack` units of the last digit (binary floating point    *)
(* noise, a constant of the format, see XyzSlack); with one more group the output is a         *)
(* rounding of the input: half a unit of the last digit, ties either way, + slackFine.         *)
SameToPrecision(din, dout, nf, slack, slackFine) ==
  IF Len(din.fr) = nf THEN (CanonDec(din) = dout \/ DecWithin(din, dout, nf, slack))
  ELSE Len(din.fr) = nf + 1 /\ DecWithin(din, dout, nf + 1, 5000 + slackFine)

(* ======================= element symbols =============================== *)
(* Independent table of the symbols of Z = 1..103 (IUPAC).                 *)
SymbolStr == <<
 "H","He","Li","Be","B","C","N","O","F","Ne","Na","Mg","Al","Si","P","S","Cl","Ar","K","Ca",
 "Sc","Ti","V","Cr","Mn","Fe","Co","Ni","Cu","Zn","Ga","Ge","As","Se","Br","Kr","Rb","Sr","Y","Zr",
 "Nb","Mo","Tc","Ru","Rh","Pd","Ag","Cd","In","Sn","Sb","Te","I","Xe","Cs","Ba","La","Ce","Pr","Nd",
 "Pm","Sm","Eu","Gd","Tb","Dy","Ho","Er","Tm","Yb","Lu","Hf","Ta","W","Re","Os","Ir","Pt","Au","Hg",
 "Tl","Pb","Bi","Po","At","Rn","Fr","Ra","Ac","Th","Pa","U","Np","Pu","Am","Cm","Bk","Cf","Es","Fm",
 "Md","No","Lr">>
UpperStr == <<"A","B","C","D","E","F","G","H","I","J","K","L","M","N","O","P","Q","R","S","T","U","V","W","X","Y","Z">>
LowerStr == <<"a","b","c","d","e","f","g","h","i","j","k","l","m","n","o","p","q","r","s","t","u","v","w","x","y","z">>
(* TLC cannot index a string: the bytes of a one- or two-letter symbol are found by search *)
SymBytesOf(s) ==
  IF \E i \in 1..26 : UpperStr[i] = s THEN <<64 + (CHOOSE i \in 1..26 : UpperStr[i] = s)>>
  ELSE LET p == CHOOSE q \in (1..26) \X (1..26) : UpperStr[q[1]] \o LowerStr[q[2]] = s
       IN <<64 + p[1], 96 + p[2]>>
SymTab == [z \in 1..103 |-> SymBytesOf(SymbolStr[z])]       \* constant: evaluated once by TLC
Capitalised(sym) == [i \in DOMAIN sym |-> IF i = 1 THEN UpperOf(sym[i]) ELSE LowerOf(sym[i])]
ZOfExact(sym) == LET S == {z \in 1..103 : SymTab[z] = sym} IN IF S = {} THEN 0 ELSE CHOOSE z \in S : TRUE
ZOfAnyCase(sym) == IF sym = <<>> \/ Len(sym) > 2 THEN 0 ELSE ZOfExact(Capitalised(sym))

(* ======================= molecules ===================================== *)
WellFormedAtom(a, nl) == a.z \in 1..103 /\ Len(a.c) = 3 /\ \A k \in 1..3 : WellFormedDec(a.c[k], nl)
AtomsOf(rd) == [i \in DOMAIN rd.atoms |-> [z |-> rd.atoms[i].z, c |-> rd.atoms[i].c]]

(* ======================= SDF (V2000) =================================== *)
MEND == <<77, 32, 32, 69, 78, 68>>                  \* "M  END"
DOLLARS == <<36, 36, 36, 36>>                       \* "$$$$"
V2000TAG == <<86, 50, 48, 48, 48>>                  \* "V2000"
RECURSIVE ZeroFields(_)
ZeroFields(k) == IF k = 0 THEN <<>> ELSE <<32, 32, 48>> \o ZeroFields(k - 1)     \* k times "  0"

(* F10.4 holds -9999.9999 .. 99999.9999; outside that the field grows and the columns move *)
SdfRepresentable(d) == IF d.neg THEN d.ip <= 9999 ELSE d.ip <= 99999
F104(d) == PadL(DecText(d, <<>>), 10)
I3(n) == PadL(UIntDigits(n), 3)

(* ---- the specification's writer --------------------------------------- *)
SdfAtomLine(a) == F104(a.c[1]) \o F104(a.c[2]) \o F104(a.c[3]) \o <<32>> \o PadR(SymTab[a.z], 3)
                  \o <<32, 48>> \o ZeroFields(11)         \* dd ccc sss hhh bbb vvv HHH rrr iii mmm nnn eee
SdfCountsLine(na, nb) == I3(na) \o I3(nb) \o I3(0) \o Spaces(3) \o ZeroFields(6)
                         \o <<57, 57, 57, 32>> \o V2000TAG     \* aaabbblllfffcccsssxxxrrrpppiiimmmvvvvvv
SdfBondLine(b) == I3(b[1]) \o I3(b[2]) \o I3(b[3]) \o ZeroFields(4)
SdfRecord(name, m) ==
  <<name, <<32, 32, 115, 112, 101, 99>>, <<>>, SdfCountsLine(Len(m.atoms), Len(m.bonds))>>   \* "  spec"
  \o [i \in DOMAIN m.atoms |-> SdfAtomLine(m.atoms[i])]
  \o [j \in DOMAIN m.bonds |-> SdfBondLine(m.bonds[j])]
  \o <<MEND>>
(* files of other programs carry property lines before "M  END"; the commonest is a charge list, "M  CHG  1 aaa vvv" - here the
   charge -1 on the last atom of the block *)
SdfChgLine(na) == <<77, 32, 32, 67, 72, 71>> \o I3(1) \o <<32>> \o I3(na) \o <<32, 32, 45, 49>>
SdfRecordC(name, m, chg) ==
  IF ~chg THEN SdfRecord(name, m)
  ELSE SubSeq(SdfRecord(name, m), 1, Len(SdfRecord(name, m)) - 1) \o <<SdfChgLine(Len(m.atoms)), MEND>>
(* ---- the writer as found at the pinned commit (deviations, used only by --explain) ---------- *)
(* Molecule.to_sdf_string hands positions[:, 0] to the x, y and z fields; fmt/sdf.py to_atom_line *)
(* puts a blank between the 10-wide fields; counts and bond atoms are printed with the blank-sign *)
(* flag (4 wide from 100 on); bond order 0; an empty line takes the place of an empty bond block. *)
I3AsBuilt(n) == IF n < 100 THEN I3(n) ELSE <<32>> \o UIntDigits(n)
SdfAtomLineAsBuilt(a) == F104(a.c[1]) \o <<32>> \o F104(a.c[1]) \o <<32>> \o F104(a.c[1]) \o <<32>> \o PadR(SymTab[a.z], 3)
                         \o <<32, 48>> \o ZeroFields(11)
SdfCountsLineAsBuilt(na, nb) == I3AsBuilt(na) \o I3AsBuilt(nb) \o ZeroFields(1) \o Spaces(3) \o ZeroFields(7) \o <<32>> \o V2000TAG
SdfBondLineAsBuilt(b) == I3AsBuilt(b[1]) \o I3AsBuilt(b[2]) \o ZeroFields(5)
SdfRecordAsBuilt(name, m) ==
  <<name, <<32, 32, 115, 112, 101, 99>>, <<>>, SdfCountsLineAsBuilt(Len(m.atoms), Len(m.bonds))>>
  \o [i \in DOMAIN m.atoms |-> SdfAtomLineAsBuilt(m.atoms[i])]
  \o (IF m.bonds = <<>> THEN << <<>> >> ELSE [j \in DOMAIN m.bonds |-> SdfBondLineAsBuilt(m.bonds[j])])
  \o <<MEND>>
(* one data item "> <ID>" / value / blank line, as SD files carry after the connection table *)
SdfDataItem(k) == << <<62, 32, 60, 73, 68, 62>>, UIntDigits(k), <<>> >>
(* A file: every record [+ data item] + "$$$$" line, final newline (= a last empty line).     *)
(* term = FALSE is the bare MOL form a single to_sdf_file call produces (no terminator).       *)
RECURSIVE SdfFileFrom(_, _, _, _)
SdfFileFrom(names, mols, style, k) ==
  IF k > Len(mols) THEN << <<>> >>
  ELSE SdfRecordC(names[k], mols[k], style.chg) \o (IF style.data THEN SdfDataItem(k) ELSE <<>>) \o <<DOLLARS>>
       \o SdfFileFrom(names, mols, style, k + 1)
SdfFile(names, mols, style) ==
  IF style.term THEN SdfFileFrom(names, mols, style, 1)
  ELSE SdfRecordC(names[1], mols[1], style.chg) \o (IF style.data THEN SdfDataItem(1) ELSE <<>>)
SdfStyleValid(mols, style) == style.term \in BOOLEAN /\ style.data \in BOOLEAN /\ style.chg \in BOOLEAN /\ (style.term \/ Len(mols) = 1)

(* ---- splitting a file into records ------------------------------------ *)
SdfSeps(lines) == {i \in DOMAIN lines : lines[i] = DOLLARS}
NthOf(S, j) == IF j = 0 THEN 0 ELSE CHOOSE i \in S : Cardinality({x \in S : x < i}) = j - 1
AllEmpty(ls) == \A i \in DOMAIN ls : ls[i] = <<>>
SdfRecords(lines) ==
  LET S == SdfSeps(lines)
      k == Cardinality(S)
      closed == [j \in 1..k |-> SubSeq(lines, NthOf(S, j - 1) + 1, NthOf(S, j) - 1)]
      rest == SubSeq(lines, NthOf(S, k) + 1, Len(lines))
  IN IF AllEmpty(rest) THEN closed ELSE closed \o <<rest>>

(* ---- the specification's reader: fields at the standard columns ------- *)
SdfAtomOf(line) ==
  LET x == ParseDec(StripB(Cols(line, 1, 10)), 1)
      y == ParseDec(StripB(Cols(line, 11, 20)), 1)
      w == ParseDec(StripB(Cols(line, 21, 30)), 1)
      zn == ZOfExact(StripB(Cols(line, 32, 34)))
  IN [ok |-> x.ok /\ y.ok /\ w.ok /\ zn # 0, z |-> zn, c |-> <<x.d, y.d, w.d>>]
SdfBondOf(line) ==
  LET l == UIntOf(StripB(Cols(line, 1, 3)))
      r == UIntOf(StripB(Cols(line, 4, 6)))
      t == UIntOf(StripB(Cols(line, 7, 9)))
  IN [ok |-> l.ok /\ r.ok /\ t.ok, b |-> <<l.v, r.v, t.v>>]
SdfCountsOf(line) ==
  LET na == UIntOf(StripB(Cols(line, 1, 3)))
      nb == UIntOf(StripB(Cols(line, 4, 6)))
  IN [ok |-> na.ok /\ nb.ok /\ Cols(line, 35, 39) = V2000TAG, na |-> na.v, nb |-> nb.v]
BadRead == [ok |-> FALSE, atoms |-> <<>>, bonds |-> <<>>]
SdfReadRecord(L) ==
  IF Len(L) < 5 THEN BadRead ELSE
  LET cn == SdfCountsOf(L[4]) IN
  IF ~cn.ok \/ Len(L) < 5 + cn.na + cn.nb THEN BadRead ELSE
  LET atoms == Tup([i \in 1..cn.na |-> SdfAtomOf(L[4 + i])])
      bonds == Tup([j \in 1..cn.nb |-> SdfBondOf(L[4 + cn.na + j])])
  IN [ok |-> /\ \A i \in 1..cn.na : atoms[i].ok
             /\ \A j \in 1..cn.nb : bonds[j].ok /\ bonds[j].b[1] \in 1..cn.na /\ bonds[j].b[2] \in 1..cn.na
             /\ \E e \in (5 + cn.na + cn.nb)..Len(L) : L[e] = MEND,
      atoms |-> Tup([i \in 1..cn.na |-> [z |-> atoms[i].z, c |-> atoms[i].c]]),
      bonds |-> Tup([j \in 1..cn.nb |-> bonds[j].b])]

(* ---- the reader step by step (shape of fmt/sdf.py parse_sdf_contents) - *)
(* state: pc, next line index i, counts, accumulated atoms / bonds.  The as-built loop over    *)
(* the property block, `while lines[u].startswith("M "): u += 1`, has no bound: a record that  *)
(* ends at "M  END" (nothing after it) makes it index past the last line.  AsBuilt = TRUE is   *)
(* that deviation (pc "raise"); the specification stops at "M  END".                           *)
SdfRdInit == [pc |-> "counts", i |-> 4, na |-> 0, nb |-> 0, atoms |-> <<>>, bonds |-> <<>>]
AfterCounts(na, nb) == IF na > 0 THEN "atoms" ELSE IF nb > 0 THEN "bonds" ELSE "props"
StartsM(l) == Len(l) >= 2 /\ l[1] = 77 /\ l[2] = 32
SdfRdStep(L, s, asBuilt) ==
  CASE s.pc = "counts" ->
         IF Len(L) < 4 THEN [s EXCEPT !.pc = "raise"] ELSE
         LET cn == SdfCountsOf(L[4]) IN
         IF ~cn.ok THEN [s EXCEPT !.pc = "raise"]
         ELSE [s EXCEPT !.pc = AfterCounts(cn.na, cn.nb), !.i = 5, !.na = cn.na, !.nb = cn.nb]
    [] s.pc = "atoms" ->
         IF s.i > Len(L) THEN [s EXCEPT !.pc = "raise"] ELSE
         LET a == SdfAtomOf(L[s.i]) IN
         IF ~a.ok THEN [s EXCEPT !.pc = "raise"]
         ELSE [s EXCEPT !.atoms = Append(@, [z |-> a.z, c |-> a.c]), !.i = @ + 1,
                        !.pc = IF Len(s.atoms) + 1 < s.na THEN "atoms" ELSE AfterCounts(0, s.nb)]
    [] s.pc = "bonds" ->
         IF s.i > Len(L) THEN [s EXCEPT !.pc = "raise"] ELSE
         LET b == SdfBondOf(L[s.i]) IN
         IF ~b.ok THEN [s EXCEPT !.pc = "raise"]
         ELSE [s EXCEPT !.bonds = Append(@, b.b), !.i = @ + 1,
                        !.pc = IF Len(s.bonds) + 1 < s.nb THEN "bonds" ELSE "props"]
    [] s.pc = "props" ->
         IF asBuilt
         THEN (IF s.i > Len(L) THEN [s EXCEPT !.pc = "raise"]
               ELSE IF StartsM(L[s.i]) THEN [s EXCEPT !.i = @ + 1] ELSE [s EXCEPT !.pc = "done"])
         ELSE (IF s.i > Len(L) THEN [s EXCEPT !.pc = "raise"]
               ELSE IF L[s.i] = MEND THEN [s EXCEPT !.pc = "done", !.i = @ + 1] ELSE [s EXCEPT !.i = @ + 1])
    [] OTHER -> s
(* input class on which the as-built property loop raises: from the end of the bond block to  *)
(* the last line of the record every line starts with "M "                                    *)
SdfEndsAtMEnd(L) ==
  /\ Len(L) >= 5 /\ SdfCountsOf(L[4]).ok
  /\ LET r == 5 + SdfCountsOf(L[4]).na + SdfCountsOf(L[4]).nb
     IN r <= Len(L) /\ \A i \in r..Len(L) : StartsM(L[i])

(* ---- V2000 layout of one record: "" or the name of the first offending item *)
BlanksThen(f, P(_)) == \E k \in 0..(Len(f) - 1) : (\A i \in 1..k : f[i] = 32) /\ P(SubSeq(f, k + 1, Len(f)))
RJInt3(f) == Len(f) = 3 /\ BlanksThen(f, AllDigits)                   \* right-justified unsigned integer
SignedDigits(s) == s # <<>> /\ (IF s[1] = 45 THEN Len(s) >= 2 /\ AllDigits(Tail(s)) ELSE AllDigits(s))
F104Field(f) == /\ Len(f) = 10 /\ f[6] = 46 /\ AllDigits(SubSeq(f, 7, 10))    \* right-justified F10.4
                /\ BlanksThen(SubSeq(f, 1, 5), SignedDigits)
SymField(f) == /\ f # <<>> /\ IsUpper(f[1])                             \* left-justified symbol, blank padded
               /\ \E k \in 1..Len(f) : (\A i \in 2..k : IsLower(f[i])) /\ (\A i \in (k + 1)..Len(f) : f[i] = 32)
SdfCountsLayout(l) == Len(l) >= 39 /\ RJInt3(Cols(l, 1, 3)) /\ RJInt3(Cols(l, 4, 6)) /\ Cols(l, 35, 39) = V2000TAG
SdfAtomLayout(l) == /\ Len(l) >= 32 /\ F104Field(Cols(l, 1, 10)) /\ F104Field(Cols(l, 11, 20))
                    /\ F104Field(Cols(l, 21, 30)) /\ l[31] = 32 /\ SymField(Cols(l, 32, 34))
SdfBondLayout(l, na) == /\ Len(l) >= 6 /\ RJInt3(Cols(l, 1, 3)) /\ RJInt3(Cols(l, 4, 6))
                        /\ DigitsVal(StripB(Cols(l, 1, 3))) \in 1..na /\ DigitsVal(StripB(Cols(l, 4, 6))) \in 1..na
PropertyLine(l) == Len(l) >= 3 /\ IsUpper(l[1]) /\ l[2] = 32 /\ l[3] = 32
(* "M  END" closes the table; only property lines before it.  An empty line there is not a    *)
(* column matter: tolerated, reported as drift (SdfBlankBeforeEnd).                           *)
SdfEndLayout(L, r) == \E e \in r..Len(L) : L[e] = MEND /\ \A i \in r..(e - 1) : L[i] = <<>> \/ PropertyLine(L[i])
SdfBlankBeforeEnd(L, r) == \E e \in r..Len(L) : L[e] = MEND /\ (\A i \in r..(e - 1) : L[i] # MEND) /\ \E i \in r..(e - 1) : L[i] = <<>>
SdfLayout(L) ==
  IF Len(L) < 5 THEN "Short" ELSE
  IF ~SdfCountsLayout(L[4]) THEN "CountsLine" ELSE
  LET na == DigitsVal(StripB(Cols(L[4], 1, 3)))
      nb == DigitsVal(StripB(Cols(L[4], 4, 6)))
  IN IF Len(L) < 5 + na + nb THEN "Truncated" ELSE
     IF \E i \in 1..na : ~SdfAtomLayout(L[4 + i]) THEN "AtomLine" ELSE
     IF \E j \in 1..nb : ~SdfBondLayout(L[4 + na + j], na) THEN "BondLine" ELSE
     IF ~SdfEndLayout(L, 5 + na + nb) THEN "MEnd" ELSE ""

(* ======================= XYZ =========================================== *)
(* 20 columns: sign, up to 6 integer digits, point, 12 decimals *)
XyzRepresentable(d) == d.ip <= 999999
(* Binary floating point carries 12 decimals only below 2^13 (half an ulp < 0.5e-12); above,   *)
(* a double is off by up to 2^-34 = 5.8e-11 at 10^6: allowed slack 10^-8 (>= 100 x that).      *)
XyzSlack(d) == IF d.ip < 8192 THEN 0 ELSE 10000
(* a 16-decimal input below 1 is held by a double to 1.1e-16: slack 100 units of 1e-16 *)
XyzSlackFine == 100

(* ---- the specification's writer: "{sym} {x: 20.12f} {y: 20.12f} {z: 20.12f}" ------- *)
XyzNum(d) == PadL(DecText(d, <<32>>), 20)
XyzAtomLine(a) == SymTab[a.z] \o <<32>> \o XyzNum(a.c[1]) \o <<32>> \o XyzNum(a.c[2]) \o <<32>> \o XyzNum(a.c[3])
XyzText(m, comment) == <<UIntDigits(Len(m.atoms)), comment>> \o [i \in DOMAIN m.atoms |-> XyzAtomLine(m.atoms[i])]

(* ---- the specification's reader = the grammar of accepted files ------- *)
(* count line: blanks, digits, blanks; comment: anything; n atom lines: blanks, symbol in any   *)
(* case, blanks, x, blanks, y, blanks, z, blanks (and possibly further columns, which are not  *)
(* coordinates); nothing but blank lines after them.                                          *)
XyzAtomOf(line) ==
  LET tk == Tokens(line) IN
  \* files of other programs carry further per-atom columns after x y z (a charge, a force vector): they are not coordinates
  IF Len(tk) < 4 THEN [ok |-> FALSE, z |-> 0, c |-> <<>>] ELSE
  LET x == ParseDec(tk[2], 3)
      y == ParseDec(tk[3], 3)
      w == ParseDec(tk[4], 3)
      zn == IF \A i \in DOMAIN tk[1] : IsLetter(tk[1][i]) THEN ZOfAnyCase(tk[1]) ELSE 0
  IN [ok |-> x.ok /\ y.ok /\ w.ok /\ zn # 0, z |-> zn, c |-> <<x.d, y.d, w.d>>]
XyzRead(L) ==
  IF Len(L) < 2 THEN BadRead ELSE
  LET n == UIntOf(StripB(L[1])) IN
  IF ~n.ok \/ Len(L) < 2 + n.v THEN BadRead ELSE
  LET atoms == Tup([i \in 1..n.v |-> XyzAtomOf(L[2 + i])])
  IN [ok |-> (\A i \in 1..n.v : atoms[i].ok) /\ \A j \in (3 + n.v)..Len(L) : BlankRun(L[j]),
      atoms |-> Tup([i \in 1..n.v |-> [z |-> atoms[i].z, c |-> atoms[i].c]]),
      bonds |-> <<>>]

(* ---- the reader step by step (shape of fmt/xyz_file.py parse_xyz_string): the count is read *)
(* but the loop runs over the lines after the comment until the first blank line              *)
XyzRdInit == [pc |-> "count", i |-> 1, na |-> 0, nb |-> 0, atoms |-> <<>>, bonds |-> <<>>]
XyzRdStep(L, s) ==
  CASE s.pc = "count" ->
         IF Len(L) < 1 \/ ~UIntOf(StripB(L[1])).ok THEN [s EXCEPT !.pc = "raise"]
         ELSE [s EXCEPT !.pc = "atoms", !.i = 3, !.na = UIntOf(StripB(L[1])).v]
    [] s.pc = "atoms" ->
         IF s.i > Len(L) \/ BlankRun(L[s.i]) THEN [s EXCEPT !.pc = "done"] ELSE
         LET a == XyzAtomOf(L[s.i]) IN
         IF ~a.ok THEN [s EXCEPT !.pc = "raise"]
         ELSE [s EXCEPT !.atoms = Append(@, [z |-> a.z, c |-> a.c]), !.i = @ + 1]
    [] OTHER -> s

(* ---- spellings: the same molecule written with other case / blanks / number forms ---------- *)
(* per atom line: cs = 1 canonical, 2 upper, 3 lower, 4 swapped case; lead, trail, sep[1..3]    *)
(* runs of blanks/tabs (separators non-empty); plus[k]: explicit "+" on a non-negative number;  *)
(* nd[k]: number of decimals written (0 = no point at all), only zeros may be dropped.          *)
CaseStyle(sym, cs) == CASE cs = 1 -> sym
                        [] cs = 2 -> [i \in DOMAIN sym |-> UpperOf(sym[i])]
                        [] cs = 3 -> [i \in DOMAIN sym |-> LowerOf(sym[i])]
                        [] OTHER -> [i \in DOMAIN sym |-> SwapOf(sym[i])]
NumSpell(d, plus, nd) == (IF d.neg THEN <<45>> ELSE IF plus THEN <<43>> ELSE <<>>) \o UIntDigits(d.ip)
                         \o (IF nd = 0 THEN <<>> ELSE <<46>> \o SubSeq(FracBytes(d.fr), 1, nd))
NumSpellValid(d, nd) == nd \in 0..(4 * Len(d.fr)) /\ \A i \in (nd + 1)..(4 * Len(d.fr)) : FracBytes(d.fr)[i] = 48
XyzSpellLine(a, st) ==
  st.lead \o CaseStyle(SymTab[a.z], st.cs) \o st.sep[1] \o NumSpell(a.c[1], st.plus[1], st.nd[1])
  \o st.sep[2] \o NumSpell(a.c[2], st.plus[2], st.nd[2]) \o st.sep[3] \o NumSpell(a.c[3], st.plus[3], st.nd[3])
  \o st.trail
(* what may follow z: blanks, or a blank and then further numeric columns *)
TrailOK(tr) == BlankRun(tr) \/ (IsBlank(tr[1]) /\ \A i \in DOMAIN tr : IsBlank(tr[i]) \/ tr[i] \in 48..57 \/ tr[i] \in {43, 45, 46})
LineStyleValid(a, st) ==
  /\ st.cs \in 1..4 /\ BlankRun(st.lead) /\ TrailOK(st.trail)
  /\ \A k \in 1..3 : st.sep[k] # <<>> /\ BlankRun(st.sep[k]) /\ st.plus[k] \in BOOLEAN /\ NumSpellValid(a.c[k], st.nd[k])
XyzSpelling(m, comment, st) ==
  <<st.clead \o UIntDigits(Len(m.atoms)) \o st.ctrail, comment>>
  \o [i \in DOMAIN m.atoms |-> XyzSpellLine(m.atoms[i], st.lines[i])]
  \o (IF st.finalnl THEN << <<>> >> ELSE <<>>)
XyzStyleValid(m, st) ==
  /\ BlankRun(st.clead) /\ BlankRun(st.ctrail) /\ st.finalnl \in BOOLEAN /\ Len(st.lines) = Len(m.atoms)
  /\ \A i \in DOMAIN m.atoms : LineStyleValid(m.atoms[i], st.lines[i])
=============================================================================
