------------------------------- MODULE Dimers -------------------------------
(***************************************************************************)
(* Molecule-level neighbourhoods of a molecular crystal on an exact grid   *)
(* (crystal.py: molecular_shell, symmetry_unique_dimers; core/dimer.py).   *)
(*                                                                         *)
(* The shell of a central molecule at radius R (nearest-atom distance) is  *)
(* the set of whole molecule images -- lattice translates of the images    *)
(* ExpMol(m, k) of the intended molecules -- having at least one atom      *)
(* within R of some atom of the centre, the centre itself excluded (its    *)
(* lattice translates are neighbours like any other molecule).  It is      *)
(* derived from the atom-level Expected set of Neighbours (whose box       *)
(* certificate proves completeness): every atom within the radius drags    *)
(* in the whole molecule it belongs to (MolThrough).                       *)
(*                                                                         *)
(* symmetry_unique_dimers(R) lists, for every symmetry-unique molecule A,  *)
(* the pairs (A, B) with B in the shell of A, each tagged with the index   *)
(* of a class of dimers.  Specified here: the pairs of A are exactly the   *)
(* shell of A, each once; the reported separation is the nearest-atom      *)
(* distance; dimers of one class agree in that distance; class indices     *)
(* are 1..number of representatives and representative i is a member of    *)
(* class i.  (Which geometrically distinct dimers share a class is decided *)
(* by the library from three separations within a tolerance and is not     *)
(* prescribed.)                                                            *)
(***************************************************************************)
EXTENDS Molecules

(* the whole molecule image that contains the atom at grid point p (any cell): set of [s, p] *)
MolThrough(ops, asym, mols, tab, p, N) ==
  LET so == SiteOpOf(tab, WrapPt(p, N))
      k == so[2]
      m == MolOf(mols, so[1])
      raw1 == ApplyRaw(Dec(ops[k]), asym[so[1]].p, N)
      T == [c \in Idx |-> p[c] - raw1[c]]
  IN {[s |-> e.s, p |-> [c \in Idx |-> e.p[c] + T[c]]] : e \in ExpMol(ops, asym, mols, m, k, N)}
Points(mol) == {e.p : e \in mol}

(* molecules (as point sets) with at least one atom within the radius of the centre (a set of points), centre excluded *)
ShellExpected(G, ops, asym, mols, tab, ucpts, centre, k, K, N) ==
  {Points(MolThrough(ops, asym, mols, tab, a.p, N)) : a \in Expected(G, ucpts, centre, k, K, N, TRUE)} \ {centre}

(* nearest-atom squared distance between two point sets *)
ClosestD2(G, A, B) ==
  LET ds == {Dist2N(G, a, b) : a \in A, b \in B} IN CHOOSE m \in ds : \A d \in ds : m <= d

(* an observed molecule: sequence of atoms [p, z] *)
ObsPoints(atoms) == {atoms[i].p : i \in DOMAIN atoms}
ObsElementsOK(tab, asym, atoms, N) ==
  \A i \in DOMAIN atoms : atoms[i].z = asym[SiteOpOf(tab, WrapPt(atoms[i].p, N))[1]].z
(* every observed point is an atom of the crystal at all (else SiteOpOf is undefined) *)
ObsOnCrystal(tab, atoms, N) ==
  \A i \in DOMAIN atoms : \E s \in DOMAIN tab : \E k \in DOMAIN tab[s] : tab[s][k] = WrapPt(atoms[i].p, N)
=============================================================================
