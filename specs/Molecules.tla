------------------------------ MODULE Molecules ------------------------------
(***************************************************************************)
(* Molecules of a molecular crystal on an exact grid (crystal.py:          *)
(* unit_cell_connectivity, unit_cell_molecules, symmetry_unique_molecules).*)
(*                                                                         *)
(* The input names its intended chemistry: `mols` (sequence of sequences   *)
(* of asymmetric-unit indices) and `bonds` (pairs of indices), all atoms   *)
(* on general positions.  A table  <<za, zb, lo, hi>>  (grid units^2, from *)
(* the covalent radii CovRadius100 held here, +0.4 A, -+0.08 A guard band; *)
(* certified by ThresholdsOK) defines bonding:  bonded iff                 *)
(* Dist2N <= lo;  the domain guard ContactsClear demands that every pair   *)
(* of atoms of the infinite crystal is either an image of an intended bond *)
(* (<= lo) or clearly non-bonded (> hi) -- evaluated from the asymmetric   *)
(* unit only, which suffices because all operations are isometries.        *)
(*                                                                         *)
(* Declarative: ExpMol(m,k) = image of molecule m under operation k (a     *)
(* whole molecule); the unit cell holds Z' x |G| of them up to lattice     *)
(* translation.  Algorithm-shaped: the BFS shift accumulation of           *)
(* unit_cell_molecules is modelled as actions in MC_Molecules.             *)
(***************************************************************************)
EXTENDS Neighbours

SeqToSet(s) == {s[i] : i \in DOMAIN s}
ThrRow(tbl, za, zb) == CHOOSE r \in SeqToSet(tbl) : r[1] = za /\ r[2] = zb
Lo(tbl, za, zb) == ThrRow(tbl, za, zb)[3]
Hi(tbl, za, zb) == ThrRow(tbl, za, zb)[4]
MaxHi(tbl) == CHOOSE m \in {r[4] : r \in SeqToSet(tbl)} : \A r \in SeqToSet(tbl) : r[4] <= m
IntendedBonded(bonds, a, b) == <<a, b>> \in SeqToSet(bonds) \/ <<b, a>> \in SeqToSet(bonds)
FloorDiv(x, N) == x \div N           \* TLC: floors for N > 0

(* ---- chemistry held by the specification --------------------------------- *)
(* covalent radii (CSD, 1/100 A) and standard atomic weights (1/1000 u) of the elements test molecules are made of *)
CovRadius100 == [z \in {1, 6, 7, 8, 9, 14, 15, 16, 17, 35, 53} |->
   CASE z = 1 -> 23 [] z = 6 -> 68 [] z = 7 -> 68 [] z = 8 -> 68 [] z = 9 -> 64 [] z = 14 -> 120 [] z = 15 -> 105
     [] z = 16 -> 102 [] z = 17 -> 99 [] z = 35 -> 121 [] z = 53 -> 140]
Mass1000 == [z \in DOMAIN CovRadius100 |->
   CASE z = 1 -> 1008 [] z = 6 -> 12011 [] z = 7 -> 14007 [] z = 8 -> 15999 [] z = 9 -> 18998 [] z = 14 -> 28086 [] z = 15 -> 30974
     [] z = 16 -> 32065 [] z = 17 -> 35453 [] z = 35 -> 79904 [] z = 53 -> 126904]
BondTol100 == 40                       \* the library's default bonding tolerance (callers may ask for another)
GuardBand100 == 8
(* a row <<za, zb, lo, hi>> of the threshold table in grid units^2 on a grid of N points per cell edge whose Gram unit is
   u^2 = u2m * 1e-6 A^2:  lo <= ((T - band)/100)^2 N^2 / u^2  and  hi >= ((T + band)/100)^2 N^2 / u^2  with T the sum of the two
   radii plus the bonding tolerance; neither looser than that by more than 2 grid units^2 *)
ThrRowOK(r, N, u2m, tol100) ==
  /\ r[1] \in DOMAIN CovRadius100 /\ r[2] \in DOMAIN CovRadius100
  /\ LET T == CovRadius100[r[1]] + CovRadius100[r[2]] + tol100
         xlo == BMulInt(BFromInt((T - GuardBand100) * (T - GuardBand100)), N * N * 100)      \* x u2m
         xhi == BMulInt(BFromInt((T + GuardBand100) * (T + GuardBand100)), N * N * 100)
         U == BFromInt(u2m)
     IN /\ r[3] >= 0 /\ r[4] > r[3]
        /\ BLe(BMulInt(U, r[3]), xlo) /\ BLt(xlo, BMulInt(U, r[3] + 3))
        /\ BLe(xhi, BMulInt(U, r[4])) /\ BLt(BMulInt(U, r[4] - 3), xhi)
ThresholdsTolOK(tbl, N, u2m, tol100) == u2m > 0 /\ tol100 \in 10..120 /\ \A i \in DOMAIN tbl : ThrRowOK(tbl[i], N, u2m, tol100)
ThresholdsOK(tbl, N, u2m) == ThresholdsTolOK(tbl, N, u2m, BondTol100)
MassesOK(mass) == \A i \in DOMAIN mass : mass[i][1] \in DOMAIN Mass1000 /\ mass[i][2] = Mass1000[mass[i][1]]

(* every atom within sqrt(MaxHi) of an atom lies in the 27 cells around that atom's cell *)
ReachCertificate(G, tbl, N) ==
  \A i \in Idx : BLe(BMulInt(BFromInt(AdjDiag(G, i)), MaxHi(tbl)), BMul(BFromInt(N * N), DetBig(G)))

GeneralPositions(tab) == \A s \in DOMAIN tab : Cardinality(OrbitT(tab, s)) = Len(tab[s])

ContactsClear(G, tab, asym, N, tbl, bonds) ==
  \A a \in DOMAIN asym :
    LET pa == asym[a].p
        base == [c \in Idx |-> FloorDiv(pa[c], N)]
    IN \A s \in DOMAIN asym : \A k \in DOMAIN tab[s] : \A h \in Box(<<-1,-1,-1>>, <<1,1,1>>) :
         LET q == [c \in Idx |-> tab[s][k][c] + N * (base[c] + h[c])]
             d == Dist2N(G, pa, q)
         IN IF q = pa THEN s = a
            ELSE IF q = asym[s].p /\ IntendedBonded(bonds, a, s) THEN d <= Lo(tbl, asym[a].z, asym[s].z)
            ELSE d > Hi(tbl, asym[a].z, asym[s].z)

(* the chemistry is well formed: molecules partition the asymmetric unit, bonds stay inside molecules and connect them *)
MolOf(mols, s) == CHOOSE m \in DOMAIN mols : s \in SeqToSet(mols[m])
RECURSIVE Reach(_, _, _)
Reach(bonds, frontier, seen) ==
  LET nxt == {b \in UNION {{e[1], e[2]} : e \in SeqToSet(bonds)} :
                b \notin seen /\ \E a \in frontier : IntendedBonded(bonds, a, b)}
  IN IF nxt = {} THEN seen ELSE Reach(bonds, nxt, seen \cup nxt)
ChemistryOK(asym, mols, bonds) ==
  /\ \A s \in DOMAIN asym : Cardinality({m \in DOMAIN mols : s \in SeqToSet(mols[m])}) = 1
  /\ \A m \in DOMAIN mols : mols[m] # <<>> /\ SeqToSet(mols[m]) \subseteq DOMAIN asym
  /\ \A e \in SeqToSet(bonds) : MolOf(mols, e[1]) = MolOf(mols, e[2])
  /\ \A m \in DOMAIN mols : Reach(bonds, {mols[m][1]}, {mols[m][1]}) = SeqToSet(mols[m])

(* image of molecule m under operation k: a whole molecule, as a set of [s, p] *)
ExpMol(ops, asym, mols, m, k, N) == {[s |-> s, p |-> ApplyRaw(Dec(ops[k]), asym[s].p, N)] : s \in SeqToSet(mols[m])}

(* which (site, operation) generates the unit-cell point q (general positions: unique) *)
SiteOpOf(tab, q) == CHOOSE so \in UNION {{<<s, k>> : k \in DOMAIN tab[s]} : s \in DOMAIN tab} : tab[so[1]][so[2]] = q
WrapPt(p, N) == [c \in Idx |-> p[c] % N]

(* an observed molecule (sequence of atoms [p, z, asym, op]) is a lattice translate of some ExpMol(m, k) *)
WholeImage(ops, asym, mols, tab, atoms, N) ==
  LET so == SiteOpOf(tab, WrapPt(atoms[1].p, N))
      k == so[2]
      m == MolOf(mols, so[1])
      em == ExpMol(ops, asym, mols, m, k, N)
      raw1 == ApplyRaw(Dec(ops[k]), asym[so[1]].p, N)
      T == [c \in Idx |-> atoms[1].p[c] - raw1[c]]
  IN /\ \A c \in Idx : T[c] % N = 0
     /\ {[s |-> SiteOpOf(tab, WrapPt(atoms[i].p, N))[1], p |-> [c \in Idx |-> atoms[i].p[c] - T[c]]] : i \in DOMAIN atoms} = em
     /\ Len(atoms) = Cardinality(em)
Provenance(ops, tab, atoms, asym, N) ==
  \A i \in DOMAIN atoms :
     LET so == SiteOpOf(tab, WrapPt(atoms[i].p, N))
     IN atoms[i].asym = so[1] /\ atoms[i].op = ops[so[2]] /\ atoms[i].z = asym[so[1]].z

Mass(mt, z) == (CHOOSE r \in SeqToSet(mt) : r[1] = z)[2]
ComNumer(mt, atoms, c) == Sum([i \in DOMAIN atoms |-> Mass(mt, atoms[i].z) * atoms[i].p[c]])
ComDenom(mt, atoms) == Sum([i \in DOMAIN atoms |-> Mass(mt, atoms[i].z)])
(* centre of mass strictly inside the reference cell / not within 1/1000 of a face (guard) *)
ComInside(mt, atoms, N) == \A c \in Idx : ComNumer(mt, atoms, c) >= 0 /\ ComNumer(mt, atoms, c) < N * ComDenom(mt, atoms)
ComNearFace(mt, atoms, N) ==
  \E c \in Idx : LET x == ComNumer(mt, atoms, c) % (N * ComDenom(mt, atoms))
                     w == (N * ComDenom(mt, atoms)) \div 1000
                 IN x < w \/ x > N * ComDenom(mt, atoms) - w
=============================================================================
