------------------------------ MODULE Settings ------------------------------
(***************************************************************************)
(* What the setting labels of the space-group table mean (International    *)
(* Tables vol. A conventions), stated as relations BETWEEN the rows of one *)
(* space-group number.  A label is handed over as its character codes.     *)
(*                                                                         *)
(*  origin choice   '1...' / '2...'  : choice 2 has an inversion centre at *)
(*                    the origin, choice 1 has not; both have equal order. *)
(*  trigonal        'H' / 'R'        : hexagonal axes hold three times the *)
(*                    operations (R-centring), rhombohedral axes are the   *)
(*                    same rotations expressed in the basis M (Reexpress). *)
(*  orthorhombic    'cab', 'ba-c', '-cba', ... : the axes a', b', c' of    *)
(*                    the setting are the named (signed) axes of the       *)
(*                    standard setting: W' = P^-1 W P, t' = P^-1 t with    *)
(*                    the columns of P the new axes.                       *)
(*  monoclinic      'b', 'c', 'a' (+ cell choice 1..3, leading '-')        *)
(*                    unique axis: every proper/improper two-fold part is  *)
(*                    diagonal with the odd sign on the named axis;        *)
(*                    c-settings = b-settings in axes (c,a,b), a-settings  *)
(*                    in (b,c,a); cell choice k+1 from k by                *)
(*                    a' = -a - c, c' = a  (cyclic of order 3; within the  *)
(*                    '-b' family a' = -c, c' = a - c);                    *)
(*                    '-b1' from 'b1' by a' = -c, c' = a.                  *)
(* All relations were confirmed on every row of the table at the pinned    *)
(* commit; a table edit that relabels or permutes settings breaks them.    *)
(***************************************************************************)
EXTENDS SpaceGroup

CH_MINUS == 45
CH_1 == 49
CH_2 == 50
CH_3 == 51
CH_a == 97
CH_b == 98
CH_c == 99
CH_H == 72
CH_R == 82
IsAxisCh(c) == c \in {CH_a, CH_b, CH_c}
AxisIdx(c) == c - 96                                     \* a -> 1, b -> 2, c -> 3

Transp(a) == [i \in Idx |-> [j \in Idx |-> a[j][i]]]
(* the operation set S (codes) expressed in the basis whose columns are P, given P and its inverse *)
ConjSet(S, P, Pinv) == {Enc([r |-> MatMul(MatMul(Pinv, Dec(c).r), P), t |-> Mod12Vec(MatVec(Pinv, Dec(c).t))]) : c \in S}

(* ---- label syntax --------------------------------------------------------- *)
OriginPrefix(lab) == IF lab # <<>> /\ lab[1] \in {CH_1, CH_2} THEN lab[1] - 48 ELSE 0
Rest(lab) == IF OriginPrefix(lab) # 0 THEN Tail(lab) ELSE lab
RECURSIVE SignedAxes(_)
(* 'ba-c' -> << <<1,2>>, <<1,1>>, <<-1,3>> >> ; <<>> when the text is not of that form *)
SignedAxes(s) ==
  IF s = <<>> THEN <<>>
  ELSE IF s[1] = CH_MINUS /\ Len(s) >= 2 /\ IsAxisCh(s[2]) THEN <<<<-1, AxisIdx(s[2])>>>> \o SignedAxes(Tail(Tail(s)))
  ELSE IF IsAxisCh(s[1]) THEN <<<<1, AxisIdx(s[1])>>>> \o SignedAxes(Tail(s))
  ELSE <<<<0, 0>>>>
IsPermLabel(s) == LET ax == SignedAxes(s) IN Len(ax) = 3 /\ {ax[i][2] : i \in 1..3} = {1, 2, 3}
(* columns of P are the new axes: P[k][j] = sign_j if axis_j = k *)
PermMatrix(s) == LET ax == SignedAxes(s) IN [k \in Idx |-> [j \in Idx |-> IF ax[j][2] = k THEN ax[j][1] ELSE 0]]

(* monoclinic labels: optional '-', axis letter, optional cell choice digit *)
IsMonoLabel(s) ==
  LET t == IF s # <<>> /\ s[1] = CH_MINUS THEN Tail(s) ELSE s
  IN Len(t) \in 1..2 /\ IsAxisCh(t[1]) /\ (Len(t) = 2 => t[2] \in {CH_1, CH_2, CH_3})
MonoMinus(s) == s[1] = CH_MINUS
MonoAxis(s) == AxisIdx(IF MonoMinus(s) THEN s[2] ELSE s[1])
MonoCell(s) == LET t == IF MonoMinus(s) THEN Tail(s) ELSE s IN IF Len(t) = 2 THEN t[2] - 48 ELSE 0
MonoLabel(minus, axis, cell) ==
  (IF minus THEN <<CH_MINUS>> ELSE <<>>) \o <<96 + axis>> \o (IF cell = 0 THEN <<>> ELSE <<48 + cell>>)

P_cab == <<<<0, 1, 0>>, <<0, 0, 1>>, <<1, 0, 0>>>>          \* a' = c, b' = a, c' = b
P_bca == <<<<0, 0, 1>>, <<1, 0, 0>>, <<0, 1, 0>>>>          \* a' = b, b' = c, c' = a
P_cell == <<<<-1, 0, 1>>, <<0, 1, 0>>, <<-1, 0, 0>>>>       \* next cell choice (unique axis b): a' = -a - c, c' = a
P_cellInv == <<<<0, 0, -1>>, <<0, 1, 0>>, <<1, 0, -1>>>>
P_cellM == <<<<0, 0, 1>>, <<0, 1, 0>>, <<-1, 0, -1>>>>      \* next cell choice within the '-b' family: a' = -c, c' = a - c
P_cellMInv == <<<<-1, 0, -1>>, <<0, 1, 0>>, <<1, 0, 0>>>>
P_minus == <<<<0, 0, 1>>, <<0, 1, 0>>, <<-1, 0, 0>>>>       \* '-b1' from 'b1': a' = -c, c' = a
P_minusInv == <<<<0, 0, -1>>, <<0, 1, 0>>, <<1, 0, 0>>>>
PermChecks == /\ MatMul(P_cell, P_cellInv) = IdMat /\ MatMul(P_cellM, P_cellMInv) = IdMat /\ MatMul(P_minus, P_minusInv) = IdMat
              /\ MatMul(P_cab, Transp(P_cab)) = IdMat /\ MatMul(P_bca, Transp(P_bca)) = IdMat
              /\ MatMul(MatMul(P_cell, P_cell), P_cell) = IdMat

(* ---- the relations; `tbl` is the sequence of rows [number, lab, ops] ------- *)
RowsOf(tbl, n) == {i \in DOMAIN tbl : tbl[i].number = n}
RowWith(tbl, n, lab) == CHOOSE i \in RowsOf(tbl, n) : tbl[i].lab = lab
HasRow(tbl, n, lab) == \E i \in RowsOf(tbl, n) : tbl[i].lab = lab
OpsOf(tbl, i) == CodeSet(tbl[i].ops)

OriginChoiceOK(tbl, i) ==
  LET o == OriginPrefix(tbl[i].lab) IN
  o # 0 =>
    /\ (o = 2) = InversionAtOrigin(OpsOf(tbl, i))
    /\ LET other == <<IF o = 1 THEN CH_2 ELSE CH_1>> \o Rest(tbl[i].lab)
       IN HasRow(tbl, tbl[i].number, other) /\ Cardinality(OpsOf(tbl, RowWith(tbl, tbl[i].number, other))) = Cardinality(OpsOf(tbl, i))

(* R-centred groups: rotation parts in rhombohedral axes are those of the hexagonal description in the basis M = MatRH,
   x_R = x_H . M  <=>  W_R = M^T ... expressed on column vectors:  W_R = Q W_H Q^-1  with Q = M^T, 3 Q^-1 = MatHR3^T *)
Q_HR == <<<<-1, 1, 1>>, <<1, 0, 1>>, <<0, -1, 1>>>>               \* M^T
Q3_RH == <<<<-1, 2, -1>>, <<1, 1, -2>>, <<1, 1, 1>>>>             \* 3 (M^T)^-1
HexRhombOK(tbl, i) ==
  tbl[i].lab = <<CH_H>> =>
    /\ HasRow(tbl, tbl[i].number, <<CH_R>>)
    /\ LET H == OpsOf(tbl, i)
           R == OpsOf(tbl, RowWith(tbl, tbl[i].number, <<CH_R>>))
           rotR == {RotOf(c) : c \in R}
           toR(w) == LET m == MatMul(MatMul(Q_HR, w), Q3_RH) IN [a \in Idx |-> [b \in Idx |-> m[a][b] \div 3]]
       IN /\ Cardinality(H) = 3 * Cardinality(R)
          /\ MatMul(Q_HR, Q3_RH) = [a \in Idx |-> [b \in Idx |-> IF a = b THEN 3 ELSE 0]]
          /\ {toR(RotOf(c)) : c \in H} = rotR
          /\ ShiftCode(IdentityCode, <<8, 4, 4>>) \in H /\ ShiftCode(IdentityCode, <<4, 8, 8>>) \in H

OrthoOK(tbl, i) ==
  LET lab == Rest(tbl[i].lab)
      pre == IF OriginPrefix(tbl[i].lab) = 0 THEN <<>> ELSE <<tbl[i].lab[1]>>
  IN (tbl[i].number \in 16..74 /\ lab # <<>>) =>
       /\ IsPermLabel(lab)
       /\ HasRow(tbl, tbl[i].number, pre)
       /\ LET P == PermMatrix(lab) IN OpsOf(tbl, i) = ConjSet(OpsOf(tbl, RowWith(tbl, tbl[i].number, pre)), P, Transp(P))

DiagOf(w) == <<w[1][1], w[2][2], w[3][3]>>
IsDiagonal(w) == \A a \in Idx : \A b \in Idx : a # b => w[a][b] = 0
MonoOK(tbl, i) ==
  tbl[i].number \in 3..15 =>
    LET lab == tbl[i].lab
        S == OpsOf(tbl, i)
        n == tbl[i].number
        ax == MonoAxis(lab)
        cell == MonoCell(lab)
        src(minus, c) == OpsOf(tbl, RowWith(tbl, n, MonoLabel(minus, 2, c)))     \* the unique-axis-b row of the same kind
    IN /\ IsMonoLabel(lab)
       \* unique axis: rotation parts are +-I or diagonal with the odd sign on the named axis
       /\ \A c \in S : LET w == RotOf(c) d == DiagOf(RotOf(c)) IN
            /\ IsDiagonal(w)
            /\ (d \in {<<1, 1, 1>>, <<-1, -1, -1>>} \/ \A k \in Idx : k # ax => d[k] = -d[ax])
       \* the c- and a-settings are the b-setting in cyclically renamed axes
       /\ (ax = 3 => (HasRow(tbl, n, MonoLabel(MonoMinus(lab), 2, cell)) /\ S = ConjSet(src(MonoMinus(lab), cell), P_cab, Transp(P_cab))))
       /\ (ax = 1 => (HasRow(tbl, n, MonoLabel(MonoMinus(lab), 2, cell)) /\ S = ConjSet(src(MonoMinus(lab), cell), P_bca, Transp(P_bca))))
       \* cell choices (unique axis b): k+1 from k
       /\ (ax = 2 /\ cell # 0 =>
             LET nxt == (cell % 3) + 1 IN
             HasRow(tbl, n, MonoLabel(MonoMinus(lab), 2, nxt))
             /\ OpsOf(tbl, RowWith(tbl, n, MonoLabel(MonoMinus(lab), 2, nxt))) =
                  (IF MonoMinus(lab) THEN ConjSet(S, P_cellM, P_cellMInv) ELSE ConjSet(S, P_cell, P_cellInv)))
       \* '-b1' from 'b1'
       /\ (ax = 2 /\ MonoMinus(lab) /\ cell = 1 =>
             HasRow(tbl, n, MonoLabel(FALSE, 2, 1)) /\ S = ConjSet(src(FALSE, 1), P_minus, P_minusInv))

SettingOK(tbl, i) == OriginChoiceOK(tbl, i) /\ HexRhombOK(tbl, i) /\ OrthoOK(tbl, i) /\ MonoOK(tbl, i)
=============================================================================
