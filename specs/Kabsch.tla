------------------------------- MODULE Kabsch -------------------------------
(***************************************************************************)
(* Rigid alignment (util/num.py: kabsch_rotation_matrix, reorient_points,  *)
(* rmsd_points; core/dimer.py: Dimer.calculate_transform).                 *)
(*                                                                         *)
(* Convention of the code: points are ROW vectors, the rotation acts on    *)
(* the right:  A R ~ B,  H = A^T B (3x3),  H = V S W (SVD),  R = V W.      *)
(* No centring is done by kabsch_rotation_matrix (rotation about the       *)
(* origin); Dimer centres both molecules on their centroids first and      *)
(* calls kabsch_rotation_matrix(pos_b - c_b, pos_a - c_a).                 *)
(*                                                                         *)
(* For an orthogonal R:  sum |A R - B|^2 = |A|^2 + |B|^2 - 2 tr(R^T H),    *)
(* so "minimises the RMSD over proper rotations" is "maximises tr(R^T H)   *)
(* over SO(3)".  Exact optimality condition (TraceCertificate):            *)
(*   M = R^T H is symmetric and tr(M) I - M is positive semidefinite.      *)
(* Proof sketch: any other proper rotation is R U with U a rotation by     *)
(* angle t about a unit axis u, and for symmetric M                        *)
(*   tr(M) - tr(U^T M) = (1 - cos t) (tr(M) - u^T M u) = (1 - cos t) u^T (tr(M) I - M) u.  *)
(*                                                                         *)
(* Point sets are sequences of integer triples; rotations are exact        *)
(* rationals N/d from integer quaternions (d = |q|^2).  Magnitudes: the    *)
(* guard of the trace spec keeps every plain-integer expression < 2^31.    *)
(***************************************************************************)
EXTENDS Lattice, FiniteSets

(* ---- rational rotations from integer quaternions --------------------------- *)
QNorm(q) == q[1]*q[1] + q[2]*q[2] + q[3]*q[3] + q[4]*q[4]
(* numerator of the rotation matrix of q = (w, x, y, z); denominator QNorm(q) *)
QuatRot(q) ==
  LET w == q[1]  x == q[2]  y == q[3]  z == q[4]
  IN << <<w*w + x*x - y*y - z*z, 2*(x*y - w*z), 2*(x*z + w*y)>>,
        <<2*(x*y + w*z), w*w - x*x + y*y - z*z, 2*(y*z - w*x)>>,
        <<2*(x*z - w*y), 2*(y*z + w*x), w*w - x*x - y*y + z*z>> >>
(* q and -q give the same rotation: keep the one whose first non-zero entry is positive *)
QCanon(q) == \/ q[1] > 0
             \/ q[1] = 0 /\ q[2] > 0
             \/ q[1] = 0 /\ q[2] = 0 /\ q[3] > 0
             \/ q[1] = 0 /\ q[2] = 0 /\ q[3] = 0 /\ q[4] > 0
QRange(m) == LET r == CHOOSE k \in 0..m : k*k <= m /\ (k+1)*(k+1) > m IN (-r)..r
QuatSet(m) == {q \in QRange(m) \X QRange(m) \X QRange(m) \X QRange(m) : QNorm(q) \in 1..m /\ QCanon(q)}
RotNet(m) == {[n |-> QuatRot(q), d |-> QNorm(q)] : q \in QuatSet(m)}
(* every element of the net is an exact proper rotation: N N^T = d^2 I, det N = d^3 *)
IsRotation(r) == /\ r.d > 0
                 /\ M3Mul(r.n, M3T(r.n)) = M3Scale(r.d * r.d, M3Id)
                 /\ M3Det(r.n) = r.d * r.d * r.d
Mirror == << <<1,0,0>>, <<0,1,0>>, <<0,0,-1>> >>

(* ---- point sets -------------------------------------------------------------- *)
RECURSIVE SumTo(_, _)
SumTo(f, n) == IF n = 0 THEN 0 ELSE f[n] + SumTo(f, n - 1)
(* H = A^T B *)
Cov(A, B) == [i \in Ix |-> [j \in Ix |-> SumTo([p \in DOMAIN A |-> A[p][i] * B[p][j]], Len(A))]]
SumSq(A) == SumTo([p \in DOMAIN A |-> A[p][1]*A[p][1] + A[p][2]*A[p][2] + A[p][3]*A[p][3]], Len(A))
ColSum(A, j) == SumTo([p \in DOMAIN A |-> A[p][j]], Len(A))
(* n (P - centroid): the centred set scaled by the number of points, still integer *)
Centre(P) == [p \in DOMAIN P |-> [j \in Ix |-> Len(P) * P[p][j] - ColSum(P, j)]]
(* A N = d B exactly: B is the image of A under the rational rotation N/d *)
ImageOf(A, B, r) == \A p \in DOMAIN A : \A j \in Ix :
                      A[p][1]*r.n[1][j] + A[p][2]*r.n[2][j] + A[p][3]*r.n[3][j] = r.d * B[p][j]
(* rank of the point set about the origin, from the 3x3 moment matrix A^T A *)
Moment(A) == Cov(A, A)
Collinear(A) == LET S == Moment(A) IN \A i \in Ix : \A j \in Ix : M3Cof(S, i, j) = 0
Coplanar(A) == M3Det(Moment(A)) = 0

(* <N, H> = tr(N^T H) *)
Frob(N, H) == N[1][1]*H[1][1] + N[1][2]*H[1][2] + N[1][3]*H[1][3]
            + N[2][1]*H[2][1] + N[2][2]*H[2][2] + N[2][3]*H[2][3]
            + N[3][1]*H[3][1] + N[3][2]*H[3][2] + N[3][3]*H[3][3]
SumAbsM(H) == AbsI(H[1][1]) + AbsI(H[1][2]) + AbsI(H[1][3]) + AbsI(H[2][1]) + AbsI(H[2][2]) + AbsI(H[2][3])
            + AbsI(H[3][1]) + AbsI(H[3][2]) + AbsI(H[3][3])

(* ---- declarative property on exact rotations --------------------------------- *)
(* r at least as good as q for the covariance H:  tr(r^T H) >= tr(q^T H) *)
AsGood(r, q, H) == Frob(r.n, H) * q.d >= Frob(q.n, H) * r.d
OptimalIn(net, r, H) == \A q \in net : AsGood(r, q, H)
(* the best value of tr(Q^T H) over a net, as a fraction <<num, den>> *)
BestOf(net, H) == LET b == CHOOSE r \in net : OptimalIn(net, r, H) IN <<Frob(b.n, H), b.d>>

(* symmetric 3x3 positive semidefinite <=> all principal minors >= 0 *)
PSD3(S) == /\ \A i \in Ix : S[i][i] >= 0
           /\ \A i \in Ix : M3Cof(S, i, i) >= 0
           /\ M3Det(S) >= 0
(* exact trace certificate for a rational rotation N/d (the positive factor d drops out) *)
Certificate(r, H) ==
  LET M == M3Mul(M3T(r.n), H)
  IN Symmetric(M) /\ PSD3([i \in Ix |-> [j \in Ix |-> (IF i = j THEN M3Tr(M) ELSE 0) - M[i][j]]])

(* ---- the algorithm on exact singular value decompositions --------------------- *)
(* H = V diag(s) W with V, W signed permutation matrices and s1 >= s2 >= s3 >= 0 is an     *)
(* SVD that exists in integers; the code's steps after numpy.linalg.svd are then exact:    *)
(*   if det(V) det(W) < 0 : negate the last column of V (and s3);   R = V W                *)
Perms == {<<1,2,3>>, <<1,3,2>>, <<2,1,3>>, <<2,3,1>>, <<3,1,2>>, <<3,2,1>>}
Signs == {-1, 1} \X {-1, 1} \X {-1, 1}
SignedPerm(p, e) == [i \in Ix |-> [j \in Ix |-> IF p[i] = j THEN e[i] ELSE 0]]
SignedPerms == {SignedPerm(p, e) : p \in Perms, e \in Signs}
Diag(s) == << <<s[1],0,0>>, <<0,s[2],0>>, <<0,0,s[3]>> >>
FromSVD(V, s, W) == M3Mul(V, M3Mul(Diag(s), W))
FlipLastColumn(V) == [i \in Ix |-> [j \in Ix |-> IF j = 3 THEN -V[i][j] ELSE V[i][j]]]
KabschStep(V, W) == IF M3Det(V) * M3Det(W) < 0 THEN M3Mul(FlipLastColumn(V), W) ELSE M3Mul(V, W)
(* deviation used only to show what the determinant correction is for *)
KabschNoCorrection(V, W) == M3Mul(V, W)

(* ---- observed rotation: integers R[i][j] = round(R_float * 2^Q), Q = 20 -------- *)
(* R R^T on the scale 2^2Q (BigInt) *)
ObsRRT(R) == [i \in Ix |-> [j \in Ix |->
   BAdd(BAdd(BMul(BI(R[i][1]), BI(R[j][1])), BMul(BI(R[i][2]), BI(R[j][2]))), BMul(BI(R[i][3]), BI(R[j][3])))]]
(* <R, H> on the scale 2^Q *)
ObsFrob(R, H) ==
  LET T(i, j) == BMul(BI(R[i][j]), BI(H[i][j]))
  IN BAdd(BAdd(BAdd(T(1,1), T(1,2)), BAdd(T(1,3), T(2,1))), BAdd(BAdd(T(2,2), T(2,3)), BAdd(T(3,1), BAdd(T(3,2), T(3,3)))))
(* M = R^T H on the scale 2^Q *)
ObsM(R, H) == [i \in Ix |-> [j \in Ix |->
   BAdd(BAdd(BMul(BI(R[1][i]), BI(H[1][j])), BMul(BI(R[2][i]), BI(H[2][j]))), BMul(BI(R[3][i]), BI(H[3][j])))]]
(* sum |A R - B|^2 on the scale 2^2Q, exactly for the quantised R:                          *)
(*   tr((A^T A)(R R^T)) - 2 tr(R^T H) + |B|^2                                               *)
ObsResid2(rrt, frob, AA, bb, PQ, P2Q) ==
  LET T(i, j) == BMul(rrt[i][j], BI(AA[i][j]))
      quad == BAdd(BAdd(BAdd(T(1,1), T(1,2)), BAdd(T(1,3), T(2,1))), BAdd(BAdd(T(2,2), T(2,3)), BAdd(T(3,1), BAdd(T(3,2), T(3,3)))))
  IN BAdd(BSub(quad, BMul(BMulInt(frob, 2), PQ)), BMul(BI(bb), P2Q))
(* BigInt principal minors of a symmetric BigInt matrix *)
BPSD3(S) == /\ \A i \in Ix : BSign(S[i][i]) >= 0
            /\ \A i \in Ix : BSign(B3Cof(S, i, i)) >= 0
            /\ BSign(B3Det(S)) >= 0
=============================================================================
