--------------------------- MODULE MoleculeObject ---------------------------
(***************************************************************************)
(* Molecule objects and the operations that move them (core/molecule.py:   *)
(* translate / rotate / transform in place; translated / rotated /         *)
(* transformed / mask / deepcopy returning a new object) on an exact       *)
(* domain: positions are integer points (unit 1/8 A, exact in binary       *)
(* floating point), rotations are the 24 proper signed permutation         *)
(* matrices, so every operation is exact and the object's state after any  *)
(* history is known.                                                       *)
(*                                                                         *)
(*   state   st : object id -> sequence of atoms [z, p]                    *)
(*   Translate(i, v)        p := p + v                                     *)
(*   Rotate(i, R, o)        p := (p - o) R + o      (row vector times R:   *)
(*                          the library's convention, np.dot(positions, R))*)
(*   Transform(i, R, v)     rotate about the origin, then translate        *)
(*   Translated / Rotated / Transformed / Mask / Copy: the same on a new   *)
(*   object j = number of objects + 1; the receiver is unchanged.          *)
(* Derived data (always those of the current state): n x centroid = sum p, *)
(* bounding box, squared distance matrix, formula (Element!Formula),       *)
(* mass-weighted centre, trace of the inertia tensor about it.             *)
(***************************************************************************)
EXTENDS Element, Sequences

Ix == 1..3
VAdd(a, b) == [k \in Ix |-> a[k] + b[k]]
VSub(a, b) == [k \in Ix |-> a[k] - b[k]]
RowMat(p, R) == [k \in Ix |-> p[1] * R[1][k] + p[2] * R[2][k] + p[3] * R[3][k]]
Det3(a) == a[1][1]*(a[2][2]*a[3][3]-a[2][3]*a[3][2]) - a[1][2]*(a[2][1]*a[3][3]-a[2][3]*a[3][1]) + a[1][3]*(a[2][1]*a[3][2]-a[2][2]*a[3][1])
(* proper signed permutation matrices *)
IsSignedPerm(R) ==
  /\ \A i \in Ix : \A j \in Ix : R[i][j] \in {-1, 0, 1}
  /\ \A i \in Ix : Cardinality({j \in Ix : R[i][j] # 0}) = 1
  /\ \A j \in Ix : Cardinality({i \in Ix : R[i][j] # 0}) = 1
ProperRotation(R) == IsSignedPerm(R) /\ Det3(R) = 1

MapAtoms(m, f(_)) == [i \in DOMAIN m |-> [z |-> m[i].z, p |-> f(m[i].p)]]
TranslateM(m, v) == MapAtoms(m, LAMBDA p : VAdd(p, v))
RotateM(m, R, o) == MapAtoms(m, LAMBDA p : VAdd(RowMat(VSub(p, o), R), o))
TransformM(m, R, v) == TranslateM(RotateM(m, R, <<0, 0, 0>>), v)
MaskM(m, keep) == SelectSeq([i \in DOMAIN m |-> [z |-> m[i].z, p |-> m[i].p, k |-> keep[i]]], LAMBDA a : a.k)
StripK(m) == [i \in DOMAIN m |-> [z |-> m[i].z, p |-> m[i].p]]

(* ---- in place / new object ---------------------------------------------- *)
InPlace(st, i, m) == [st EXCEPT ![i] = m]
NewObj(st, m) == LET j == Cardinality(DOMAIN st) + 1 IN [k \in DOMAIN st \cup {j} |-> IF k = j THEN m ELSE st[k]]

(* ---- derived data -------------------------------------------------------- *)
RECURSIVE SeqSum(_)
SeqSum(s) == IF s = <<>> THEN 0 ELSE s[1] + SeqSum(Tail(s))
SumVec(m) == [k \in Ix |-> SeqSum([i \in DOMAIN m |-> m[i].p[k]])]
D2(a, b) == (a[1]-b[1])*(a[1]-b[1]) + (a[2]-b[2])*(a[2]-b[2]) + (a[3]-b[3])*(a[3]-b[3])
D2Matrix(m) == [i \in DOMAIN m |-> [j \in DOMAIN m |-> D2(m[i].p, m[j].p)]]
BoxMin(m) == [k \in Ix |-> CHOOSE x \in {m[i].p[k] : i \in DOMAIN m} : \A y \in {m[i].p[k] : i \in DOMAIN m} : x <= y]
BoxMax(m) == [k \in Ix |-> CHOOSE x \in {m[i].p[k] : i \in DOMAIN m} : \A y \in {m[i].p[k] : i \in DOMAIN m} : x >= y]
FormulaOfMol(m) == Formula([i \in DOMAIN m |-> m[i].z])
(* ---- bonding (guess_bonds, unique_bonds, connected_fragments) ------------------------------ *)
(* two atoms are bonded when closer than the sum of their covalent radii + 0.4 A.  Radii held here in 0.01 A for the elements
   the histories use; a guard band of 0.08 A around the threshold is left undecided (the library's table may differ in the last
   digit).  Positions are in 1/8 A:  d < T  <=>  64 * 10000 * d2 < (8 T100)^2 ... compared as  10000 d2 < 64 T100^2 / ... *)
CovR100 == (1 :> 23 @@ 6 :> 68 @@ 7 :> 68 @@ 8 :> 68 @@ 9 :> 64 @@ 16 :> 102 @@ 17 :> 99)
BondBand100 == 8
BondClass(m, i, j) ==
  LET T == CovR100[m[i].z] + CovR100[m[j].z] + 40
      d2 == D2(m[i].p, m[j].p)                         \* in (1/8 A)^2:  d_A^2 = d2 / 64
  IN IF d2 = 0 THEN "no"
     ELSE IF 10000 * d2 < 64 * (T - BondBand100) * (T - BondBand100) THEN "yes"
     ELSE IF 10000 * d2 > 64 * (T + BondBand100) * (T + BondBand100) THEN "no" ELSE "unsure"
BondDomain(m) == \A i \in DOMAIN m : m[i].z \in DOMAIN CovR100
Decided(m) == \A i \in DOMAIN m : \A j \in DOMAIN m : i < j => BondClass(m, i, j) # "unsure"
BondSet(m) == {<<i, j>> \in (DOMAIN m) \X (DOMAIN m) : i < j /\ BondClass(m, i, j) = "yes"}
(* obs: set of pairs <<i, j>>, i < j *)
BondsOK(m, obs) == \A i \in DOMAIN m : \A j \in DOMAIN m : i < j =>
                     /\ (BondClass(m, i, j) = "yes" => <<i, j>> \in obs)
                     /\ (BondClass(m, i, j) = "no" => <<i, j>> \notin obs)
RECURSIVE ReachFrom(_, _, _)
ReachFrom(m, B, S) == LET nxt == S \cup {j \in DOMAIN m : \E i \in S : <<i, j>> \in B \/ <<j, i>> \in B}
                      IN IF nxt = S THEN S ELSE ReachFrom(m, B, nxt)
Fragments(m) == {ReachFrom(m, BondSet(m), {i}) : i \in DOMAIN m}
(* a rigid motion leaves every interatomic distance as it was *)
SameShape(m1, m2) == Len(m1) = Len(m2) /\ D2Matrix(m1) = D2Matrix(m2) /\ [i \in DOMAIN m1 |-> m1[i].z] = [i \in DOMAIN m2 |-> m2[i].z]
=============================================================================
