------------------------------ MODULE Reexpress ------------------------------
(***************************************************************************)
(* Re-expressing a crystal (crystal.py: as_P1, as_P1_supercell,            *)
(* to_translational_symmetry, choose_trigonal_lattice) on exact grids.     *)
(*                                                                         *)
(* A structural state is [choice, n, gram, pts]: setting choice ("H", "R"  *)
(* or ""), grid size, integer Gram matrix, sequence of asymmetric-unit     *)
(* grid points.  SwitchTrigonal applies the two basis changes of           *)
(* crystal.py:1810-1813 exactly:                                           *)
(*   R -> H : new lattice = M . lattice,  M = ((-1,1,0),(1,0,-1),(1,1,1)), *)
(*            fractional x_H = x_R . M^-1 = x_R . T3 / 3   (grid 3n)       *)
(*   H -> R : new lattice = (T3/3) . lattice, T3 = ((-1,1,1),(2,1,1),      *)
(*            (-1,-2,1)),  fractional x_R = x_H . M        (same grid)     *)
(* Gram matrices transform as T G T^T.                                     *)
(***************************************************************************)
EXTENDS Crystal

MatRH == << <<-1, 1, 0>>, <<1, 0, -1>>, <<1, 1, 1>> >>        \* M
MatHR3 == << <<-1, 1, 1>>, <<2, 1, 1>>, <<-1, -2, 1>> >>      \* 3 M^-1
Transpose(a) == [i \in Idx |-> [j \in Idx |-> a[j][i]]]
RowVec(p, m) == [j \in Idx |-> p[1]*m[1][j] + p[2]*m[2][j] + p[3]*m[3][j]]
Congr(t, g) == MatMul(MatMul(t, g), Transpose(t))              \* T G T^T
DivMat(g, k) == [i \in Idx |-> [j \in Idx |-> g[i][j] \div k]]
Divisible(g, k) == \A i \in Idx : \A j \in Idx : g[i][j] % k = 0

(* M . (T3/3) = I : the two changes are mutually inverse *)
BasisInverse == MatMul(MatRH, MatHR3) = [i \in Idx |-> [j \in Idx |-> IF i = j THEN 3 ELSE 0]]

(* normal form of (n, pts): drop a common factor 3 introduced by R -> H -> R *)
Reducible(s) == s.n % 36 = 0 /\ \A i \in DOMAIN s.pts : \A c \in Idx : s.pts[i][c] % 3 = 0
NormState(s) == IF Reducible(s)
                THEN [choice |-> s.choice, n |-> s.n \div 3, gram |-> s.gram,
                      pts |-> [i \in DOMAIN s.pts |-> [c \in Idx |-> s.pts[i][c] \div 3]]]
                ELSE s
SwitchTrigonal(s, ch) ==
  IF s.choice = ch THEN s
  ELSE IF ch = "H"     \* from R to H
       THEN NormState([choice |-> "H", n |-> 3 * s.n, gram |-> Congr(MatRH, s.gram),
                       pts |-> [i \in DOMAIN s.pts |-> RowVec(s.pts[i], MatHR3)]])
       ELSE NormState([choice |-> "R", n |-> s.n, gram |-> DivMat(Congr(MatHR3, s.gram), 9),
                       pts |-> [i \in DOMAIN s.pts |-> RowVec(s.pts[i], MatRH)]])
(* H -> R needs a Gram matrix whose transform is integral *)
SwitchDomain(s, ch) == s.choice = ch \/ ch = "H" \/ Divisible(Congr(MatHR3, s.gram), 9)

(* a trace may say that its crystal was obtained by switching an already used object from another setting: `pre` is
   that earlier state and the crystal described by the trace must be exactly the switched state (certified here) *)
SwitchedFromOK(t) ==
  ~t.switched \/ ( /\ SwitchDomain(t.pre, t.choice)
                  /\ SwitchTrigonal(t.pre, t.choice) =
                       NormState([choice |-> t.choice, n |-> t.n, gram |-> t.gram, pts |-> [i \in DOMAIN t.asym |-> t.asym[i].p]]) )

(* ---- same infinite arrangement ------------------------------------------ *)
(* unit-cell atoms of a crystal as a set of [z, p] (p wrapped into 0..n-1) *)
CellAtoms(ops, asym, n) ==
  UNION {{[z |-> asym[s].z, p |-> Img(o, asym[s].p, n)] : o \in CodeSet(ops)} : s \in DOMAIN asym}
(* H description (grid nH) and R description (grid nR) with nH = k nR (k = 1 or 3): every H atom, expressed on
   rhombohedral axes (x_R = x_H . M) and wrapped, is an R atom of the same element, and conversely counts are 3 : 1 *)
SameTrigonal(hAtoms, nH, rAtoms, nR) ==
  LET k == nH \div nR
      toR(a) == [z |-> a.z, p |-> [c \in Idx |-> RowVec(a.p, MatRH)[c] % nH]]
      rScaled == {[z |-> a.z, p |-> [c \in Idx |-> k * a.p[c]]] : a \in rAtoms}
  IN /\ nH = k * nR
     /\ {toR(a) : a \in hAtoms} = rScaled
     /\ Cardinality(hAtoms) = 3 * Cardinality(rAtoms)

(* P1 / supercell: the new crystal lists atoms at grid points in units of the OLD grid (frac_new * size * N),
   taken modulo the supercell; they must be exactly the old unit-cell atoms repeated over the size box *)
WrapSuper(p, N, size) == [c \in Idx |-> p[c] % (N * size[c])]
SuperAtoms(cellAtoms, N, size) ==
  {[z |-> a.z, p |-> [c \in Idx |-> a.p[c] + N * h[c]]] :
      a \in cellAtoms, h \in Box(<<0, 0, 0>>, <<size[1]-1, size[2]-1, size[3]-1>>)}
SuperGram(G, size) == [i \in Idx |-> [j \in Idx |-> size[i] * size[j] * G[i][j]]]
=============================================================================
