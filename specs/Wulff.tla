-------------------------------- MODULE Wulff --------------------------------
(***************************************************************************)
(* The Wulff shape  W = { x : n_i . x <= e_i  for all i }  of a finite set *)
(* of facets, computed exactly, and the pipeline of crystal/wulff.py       *)
(* (polar duals -> hull simplices -> vertices -> facet lists -> CCW fan -> *)
(* triangles) written step by step.                                        *)
(*                                                                         *)
(* Exact domain.  A facet is <<x, y, z, w, p>>: the unit normal is the     *)
(* rational vector v/w with v = <<x,y,z>>, |v| = w (Pythagorean quadruple) *)
(* and the energy is e = p/Q.  With y = Q x the half-space is the integer  *)
(* inequality  v . y <= c,  c = p*w.  Everything below is in units of 1/Q. *)
(* A position is a reduced homogeneous integer 4-tuple h = <<n1,n2,n3,d>>, *)
(* d > 0, gcd(n1,n2,n3,d) = 1, meaning the point <<n1,n2,n3>>/d.           *)
(*                                                                         *)
(* Magnitudes (plain 32-bit TLC integers), for w <= MaxW and p <= MaxP:    *)
(*   |c| <= MaxP*MaxW,  |v_i x v_j| <= MaxW^2 per component,               *)
(*   |det(v_i,v_j,v_k)| <= MaxW^3            (Hadamard)                    *)
(*   |Cramer numerator| <= NB = 3*MaxP*MaxW^3 per component                *)
(*   |v_m . N| <= 3*MaxW*NB,   c_m*D <= MaxP*MaxW^4                        *)
(* all < 2^31 for MaxW = 15, MaxP = 64 (the ASSUME below; TLC aborts on an *)
(* overflow, it never wraps silently).  Products of two positions (areas,  *)
(* orientation signs, volumes) exceed 32 bits and use lib/BigInt.          *)
(*                                                                         *)
(* TLCEval(e) = e; it only tells TLC to build the explicit set / function  *)
(* once instead of re-filtering a lazy value at every use.                 *)
(***************************************************************************)
EXTENDS Integers, Sequences, FiniteSets, FiniteSetsExt, SequencesExt, TLC, BigInt

CONSTANTS MaxW,      \* bound on |v| = w
          MaxP,      \* bound on energy numerators p
          VolS       \* resolution of the volume enclosure: volumes are computed as 6*VolS*Vol

NB == 3 * MaxP * MaxW * MaxW * MaxW
DB == MaxW * MaxW * MaxW
ASSUME /\ MaxW \in 1..15 /\ MaxP \in 1..64
       /\ 3 * MaxW * NB < 2147483647
       /\ MaxP * MaxW * DB < 2147483647
       /\ VolS \in 1..2147483647

(* ---- integer vectors ---------------------------------------------------- *)
AbsI(x) == IF x < 0 THEN -x ELSE x
Dot(a, b) == a[1]*b[1] + a[2]*b[2] + a[3]*b[3]          \* uses components 1..3 only
Cross(a, b) == << a[2]*b[3] - a[3]*b[2], a[3]*b[1] - a[1]*b[3], a[1]*b[2] - a[2]*b[1] >>
RECURSIVE Gcd(_, _)
Gcd(a, b) == IF b = 0 THEN a ELSE Gcd(b, a % b)          \* a, b >= 0
Canon(h) ==                                               \* h[4] # 0
  LET g == Gcd(Gcd(AbsI(h[1]), AbsI(h[2])), Gcd(AbsI(h[3]), AbsI(h[4])))
      s == IF h[4] < 0 THEN -g ELSE g
  IN << h[1] \div s, h[2] \div s, h[3] \div s, h[4] \div s >>
IsPosition(h) == Len(h) = 4 /\ h[4] >= 1 /\ Canon(h) = h
InBox(h, k) == /\ h[4] \in 1..DB
               /\ \A c \in 1..3 : AbsI(h[c]) \div k <= NB          \* (k * NB may not fit 32 bits for k = 10^4)
ScaleH(h, k) == Canon(<< k*h[1], k*h[2], k*h[3], h[4] >>)    \* the point k * h, k integer >= 1

(* ---- planes ------------------------------------------------------------- *)
PlaneOf(f) == [v |-> << f[1], f[2], f[3] >>, w |-> f[4], c |-> f[5] * f[4]]
Planes(facets) == TLCEval([i \in DOMAIN facets |-> PlaneOf(facets[i])])
FacetOK(f) == /\ Len(f) = 5 /\ f[4] \in 1..MaxW /\ f[5] \in 1..MaxP
              /\ \A c \in 1..3 : AbsI(f[c]) <= MaxW
              /\ f[1]*f[1] + f[2]*f[2] + f[3]*f[3] = f[4]*f[4]
WellFormed(facets) == Len(facets) >= 4 /\ \A i \in DOMAIN facets : FacetOK(facets[i])
(* ---- surfaces listed per Miller plane and expanded by the point group (WulffConstruction.from_gmf_and_crystal) ------ *)
(* records: sequence of <<h, k, l, p>> (a plane may be listed several times: different terminations); rots: sequence of  *)
(* 3x3 integer matrices (rotation parts of the space group, acting on hkl as R.hkl).  Every direction reached by some    *)
(* (record, rotation), as itself or as the opposite of one reached, is a facet and carries the SMALLEST energy reaching *)
(* it.  Directions are primitive integer triples.                                                                       *)
Gcd2(a, b) == LET x == AbsI(a) y == AbsI(b) IN
              IF x = 0 THEN y ELSE IF y = 0 THEN x ELSE CHOOSE g \in 1..(IF x < y THEN x ELSE y) : x % g = 0 /\ y % g = 0 /\ \A h \in (g+1)..(IF x < y THEN x ELSE y) : ~(x % h = 0 /\ y % h = 0)
Primitive(v) == LET g == Gcd2(Gcd2(v[1], v[2]), v[3]) IN IF g = 0 THEN v ELSE <<v[1] \div g, v[2] \div g, v[3] \div g>>
RotApply(R, v) == <<R[1][1]*v[1] + R[1][2]*v[2] + R[1][3]*v[3], R[2][1]*v[1] + R[2][2]*v[2] + R[2][3]*v[3],
                    R[3][1]*v[1] + R[3][2]*v[2] + R[3][3]*v[3]>>
NegV(v) == <<-v[1], -v[2], -v[3]>>
Reached(records, rots) ==
  UNION {UNION {LET d == Primitive(RotApply(rots[r], <<records[i][1], records[i][2], records[i][3]>>))
                IN {<<d, records[i][4]>>, <<NegV(d), records[i][4]>>} : r \in DOMAIN rots} : i \in DOMAIN records}
ExpandPlanes(records, rots) ==
  LET re == Reached(records, rots)
      dirs == {x[1] : x \in re}
  IN {<<d, CHOOSE p \in {x[2] : x \in {y \in re : y[1] = d}} : \A x \in re : x[1] = d => p <= x[2]>> : d \in dirs}

(* oblique cells: the normal of the plane (hkl) is the row vector hkl . M, M the reciprocal lattice, its rows the reciprocal vectors; for an
   integer unimodular M primitive directions stay primitive *)
RowMat(v, M) == <<v[1]*M[1][1] + v[2]*M[2][1] + v[3]*M[3][1], v[1]*M[1][2] + v[2]*M[2][2] + v[3]*M[3][2],
                  v[1]*M[1][3] + v[2]*M[2][3] + v[3]*M[3][3]>>
ExpandPlanesM(records, rots, M) == {<<Primitive(RowMat(e[1], M)), e[2]>> : e \in ExpandPlanes(records, rots)}

CrossTab(pl) == TLCEval([i \in DOMAIN pl |-> TLCEval([j \in DOMAIN pl |-> Cross(pl[i].v, pl[j].v)])])

(* no two facets with the same direction (a repeated plane has no identity of its own) *)
DistinctDirections(pl, X) ==
  \A i \in DOMAIN pl : \A j \in DOMAIN pl :
     (i < j /\ X[i][j] = <<0, 0, 0>>) => Dot(pl[i].v, pl[j].v) < 0
(* The region is finite iff the recession cone {u : v_i.u <= 0 for all i} is {0}.  When the  *)
(* normals have rank 3 the cone is pointed, so a non-zero cone has an extreme ray along      *)
(* +-(v_i x v_j) for an independent pair: exact test, no centrosymmetry assumed.             *)
Rank3(pl, X) == \E i \in DOMAIN pl : \E j \in DOMAIN pl : \E k \in DOMAIN pl : Dot(X[i][j], pl[k].v) # 0
Bounded(pl, X) ==
  /\ Rank3(pl, X)
  /\ \A i \in DOMAIN pl : \A j \in DOMAIN pl :
        (i < j /\ X[i][j] # <<0, 0, 0>>) =>
           /\ \E m \in DOMAIN pl : Dot(pl[m].v, X[i][j]) > 0
           /\ \E m \in DOMAIN pl : Dot(pl[m].v, X[i][j]) < 0
Centrosymmetric(pl) == \A i \in DOMAIN pl : \E j \in DOMAIN pl : pl[j].v = << -pl[i].v[1], -pl[i].v[2], -pl[i].v[3] >>

(* ---- the declarative answer: half-space intersection ---------------------- *)
(* Cramer: the common point of planes i, j, k is N/D, homogeneous <<N, D>>, D possibly <= 0. *)
TripleRaw(pl, X, i, j, k) ==
  LET a == X[j][k]  b == X[k][i]  c == X[i][j]
      ci == pl[i].c  cj == pl[j].c  ck == pl[k].c
  IN << ci*a[1] + cj*b[1] + ck*c[1], ci*a[2] + cj*b[2] + ck*c[2], ci*a[3] + cj*b[3] + ck*c[3],
        Dot(c, pl[k].v) >>
PosDen(h) == IF h[4] < 0 THEN << -h[1], -h[2], -h[3], -h[4] >> ELSE h
TripleVertex(pl, X, i, j, k) == Canon(TripleRaw(pl, X, i, j, k))      \* requires D # 0
Satisfies(pl, h, m) == Dot(pl[m].v, h) <= pl[m].c * h[4]             \* h[4] > 0
Inside(pl, h) == \A m \in DOMAIN pl : Satisfies(pl, h, m)
OnPlane(pl, h, m) == Dot(pl[m].v, h) = pl[m].c * h[4]
FacetsOf(pl, h) == {m \in DOMAIN pl : OnPlane(pl, h, m)}

HalfSpaceVertices(pl, X) ==
  LET F == Len(pl)
      One(i, j, k) == LET r == TripleRaw(pl, X, i, j, k)
                      IN IF r[4] = 0 THEN {}
                         ELSE IF Inside(pl, PosDen(r)) THEN {Canon(r)} ELSE {}
  IN TLCEval(UNION { UNION { UNION { One(i, j, k) : k \in (j+1)..F } : j \in (i+1)..F } : i \in 1..F })

FacetVerts(pl, V, m) == {h \in V : OnPlane(pl, h, m)}
(* a plane is facet-defining when it carries a polygon, i.e. at least three vertices *)
IsFace(pl, V, m) == Cardinality(FacetVerts(pl, V, m)) >= 3

(* Vertices as a sequence VS with their facet sets FS; an edge joins two vertices that share *)
(* at least two facets (with distinct directions their common points form a 1-face).         *)
FacetSets(pl, VS) == TLCEval([a \in DOMAIN VS |-> TLCEval(FacetsOf(pl, VS[a]))])
EdgeIdx(VS, FS) ==
  LET n == Len(VS)
  IN TLCEval(UNION { { <<a, b>> : b \in {b \in (a+1)..n : Cardinality(FS[a] \cap FS[b]) >= 2} } : a \in 1..n })
Edges(pl, V) == LET VS == SetToSeq(V)  FS == FacetSets(pl, VS)
                IN {{VS[e[1]], VS[e[2]]} : e \in EdgeIdx(VS, FS)}

(* ---- exact products of positions (BigInt) ---------------------------------- *)
BI(n) == BFromInt(n)
(* numerator of a - b over the positive denominator a[4]*b[4] *)
DiffB(a, b) == << BSub(BMul(BI(a[1]), BI(b[4])), BMul(BI(b[1]), BI(a[4]))),
                  BSub(BMul(BI(a[2]), BI(b[4])), BMul(BI(b[2]), BI(a[4]))),
                  BSub(BMul(BI(a[3]), BI(b[4])), BMul(BI(b[3]), BI(a[4]))) >>
CrossB(u, v) == << BSub(BMul(u[2], v[3]), BMul(u[3], v[2])),
                   BSub(BMul(u[3], v[1]), BMul(u[1], v[3])),
                   BSub(BMul(u[1], v[2]), BMul(u[2], v[1])) >>
DotBI(u, v) == BAdd(BAdd(BMulInt(u[1], v[1]), BMulInt(u[2], v[2])), BMulInt(u[3], v[3]))
(* Lam(a,b,c,v) = ((b-a) x (c-a)) . v  times the positive number (a4*b4)*(a4*c4):            *)
(* its sign tells whether a,b,c turn counter-clockwise seen from the tip of v.                *)
Lam(a, b, c, v) == DotBI(CrossB(DiffB(b, a), DiffB(c, a)), v)
LamDens(a, b, c) == << a[4], a[4], b[4], c[4] >>
TurnsCCW(a, b, c, v) == BSign(Lam(a, b, c, v)) > 0

(* Resolution guard.  The code merges points closer than fixed absolute tolerances (1e-5 in *)
(* prune_degenerate_points, 1e-8 in trimesh): the property is judged only when distinct     *)
(* vertices of the shape are at least 1/SepFine = 1e-4 length units apart (10x the larger   *)
(* tolerance).  Cell(h, q, c) is coordinate c of h (units 1/q) in units of 1/SepDen of the  *)
(* length unit, rounded down: cells that differ by 2 or more in some coordinate prove a     *)
(* distance > 1/SepDen in plain integers; the few remaining pairs are compared exactly.     *)
(* Extent guard: float vertices are identified with exact positions to an absolute 1e-8     *)
(* (harness/c19.py); double rounding reaches that for needle-like shapes thousands of units   *)
(* long, so shapes reaching beyond ExtentMax length units (16x the largest energy of the      *)
(* generated domain) are not judged.                                                          *)
ExtentMax == 32
Compact(V, q) == \A h \in V : \A c \in 1..3 : AbsI(h[c]) <= ExtentMax * q * h[4]     \* 32 * 1000 * DB < 2^31
SepDen == 1000
SepFine == 10000
ASSUME NB * SepDen < 2147483647 /\ DB * 1000 < 2147483647
Cell(h, q, c) == (h[c] * SepDen) \div (h[4] * q)          \* |h[c]| <= NB, h[4] <= DB, q <= 1000
CoarselyApart(a, b, q) == \E c \in 1..3 : AbsI(Cell(a, q, c) - Cell(b, q, c)) >= 2
ExactlyApart(a, b, q) ==      \* |a - b|^2 * SepFine^2 >= (a4 b4 q)^2
  LET d == DiffB(a, b)
      den == BMul(BMul(BI(a[4]), BI(b[4])), BI(q))
  IN BLe(BMul(den, den),
         BMul(BAdd(BAdd(BMul(d[1], d[1]), BMul(d[2], d[2])), BMul(d[3], d[3])), BI(SepFine * SepFine)))
Separated(V, q) == \A a \in V : \A b \in V : a # b => (CoarselyApart(a, b, q) \/ ExactlyApart(a, b, q))

(* ---- volume enclosure ------------------------------------------------------- *)
(* floor division of a magnitude (little-endian base-10^4 limbs) by 1 <= k <= 214748        *)
RECURSIVE DivMagR(_, _, _, _)
DivMagR(d, k, i, rem) ==
  IF i = 0 THEN [q |-> <<>>, r |-> rem]
  ELSE LET cur == rem * 10000 + d[i]
           rest == DivMagR(d, k, i - 1, cur % k)
       IN [q |-> Append(rest.q, cur \div k), r |-> rest.r]
DivMag(d, k) == LET x == DivMagR(d, k, Len(d), 0) IN [q |-> BTrim(x.q), r |-> x.r]
MkNat(d) == IF d = <<>> THEN BZero ELSE [s |-> 1, d |-> d]
(* x = [q |-> non-negative BigInt, ex |-> no remainder so far] divided by each of ks in turn; *)
(* floor(floor(x/a)/b) = floor(x/(a*b)) for positive integers.                                *)
RECURSIVE DivAll(_, _)
DivAll(x, ks) == IF ks = <<>> THEN x
                 ELSE LET r == DivMag(x.q.d, Head(ks))
                      IN DivAll([q |-> MkNat(r.q), ex |-> x.ex /\ r.r = 0], Tail(ks))
(* One triangle a,b,c on plane m contributes  c_m/w_m * |(b-a)x(c-a) . v_m/w_m|  to 6*Vol:   *)
(* floor( c_m * |Lam| * VolS / (a4 a4 b4 c4 w_m w_m) ).                                        *)
VolTerm(pl, m, a, b, c) ==
  DivAll([q |-> BMul(BMulInt(BAbs(Lam(a, b, c, pl[m].v)), pl[m].c), BI(VolS)), ex |-> TRUE],
         LamDens(a, b, c) \o << pl[m].w, pl[m].w >>)
EncZero == [lo |-> BZero, ex |-> TRUE, n |-> 0]
EncAdd(acc, t) == [lo |-> BAdd(acc.lo, t.q), ex |-> acc.ex /\ t.ex, n |-> acc.n + 1]
(* An enclosure [lo, n, ex] stands for the interval lo <= 6*VolS*Vol <= hi, hi = lo (+ n).    *)
EncHi(e) == IF e.ex THEN e.lo ELSE BAdd(e.lo, BI(e.n))
EncMeet(e, f) == BLe(e.lo, EncHi(f)) /\ BLe(f.lo, EncHi(e))
EncHas(e, x) == BLe(e.lo, x) /\ BLe(x, EncHi(e))

(* Vol = 1/3 sum_i e_i Area_i.  The polygon of facet i is fanned from one of its vertices    *)
(* over its edges (convex polygon: every fan triangle has the same orientation, so absolute   *)
(* values add up to the area).                                                                *)
Vol6S(pl, V) ==
  LET VS == SetToSeq(V)
      FS == FacetSets(pl, VS)
      E == EdgeIdx(VS, FS)
      OfFacet(m) == {a \in DOMAIN VS : m \in FS[a]}
      FacetEnc(m, acc) ==
        LET idx == OfFacet(m)
        IN IF Cardinality(idx) < 3 THEN acc
           ELSE LET apex == CHOOSE a \in idx : \A b \in idx : a <= b
                    es == {e \in E : e[1] \in idx /\ e[2] \in idx /\ e[1] # apex /\ e[2] # apex}
                IN FoldSet(LAMBDA e, ac : EncAdd(ac, VolTerm(pl, m, VS[apex], VS[e[1]], VS[e[2]])), acc, es)
  IN FoldSet(FacetEnc, EncZero, DOMAIN pl)

(* ---- meshes ------------------------------------------------------------------ *)
(* vertices are identified by position: Rep maps an index to the first index with that position *)
Rep(verts) == TLCEval([k \in DOMAIN verts |->
                 CHOOSE j \in DOMAIN verts : verts[j] = verts[k] /\ \A l \in 1..(j-1) : verts[l] # verts[k]])
TriEdges(t) == { <<t[1], t[2]>>, <<t[2], t[3]>>, <<t[3], t[1]>> }
DirEdges(tris, rep) == TLCEval(UNION { { <<rep[e[1]], rep[e[2]]>> : e \in TriEdges(tris[k]) } : k \in DOMAIN tris })
(* closed manifold: every directed edge once, its reverse once (shared with IsoMesh) *)
ClosedManifold(tris, rep) ==
  LET D == DirEdges(tris, rep)
  IN /\ Cardinality(D) = 3 * Len(tris)
     /\ \A e \in D : e[1] # e[2] /\ <<e[2], e[1]>> \in D
UsedPositions(verts, tris) == TLCEval(UNION { {verts[tris[k][1]], verts[tris[k][2]], verts[tris[k][3]]} : k \in DOMAIN tris })
(* triangle k lies in the plane of facet m and its normal points along n_m *)
TriOnFacet(pl, verts, t, m) ==
  /\ OnPlane(pl, verts[t[1]], m) /\ OnPlane(pl, verts[t[2]], m) /\ OnPlane(pl, verts[t[3]], m)
  /\ TurnsCCW(verts[t[1]], verts[t[2]], verts[t[3]], pl[m].v)
Outward(pl, verts, tris, label) == \A k \in DOMAIN tris : TriOnFacet(pl, verts, tris[k], label[k])
ClosedOutward(pl, verts, tris, label) == ClosedManifold(tris, Rep(verts)) /\ Outward(pl, verts, tris, label)
(* exact 6*VolS*(signed volume) of an outward mesh: a triangle a,b,c on plane m has          *)
(* a.(b x c) = e_m * ((b-a)x(c-a)).n_m  -- the same terms as Vol6S                            *)
MeshVol6S(pl, verts, tris, label) ==
  FoldLeft(LAMBDA acc, k : EncAdd(acc, VolTerm(pl, label[k], verts[tris[k][1]], verts[tris[k][2]], verts[tris[k][3]])),
           EncZero, [k \in DOMAIN tris |-> k])
(* mesh edges across which the facet changes (for a closed manifold: the directed edges   *)
(* whose reverse does not carry the same facet label)                                      *)
Creases(verts, tris, label, rep) ==
  LET EL == TLCEval(UNION { { <<rep[e[1]], rep[e[2]], label[k]>> : e \in TriEdges(tris[k]) } : k \in DOMAIN tris })
  IN { {verts[x[1]], verts[x[2]]} : x \in {y \in EL : <<y[2], y[1], y[3]>> \notin EL} }

(* ---- the pipeline of wulff.py, step by step --------------------------------- *)
(* _populate_duals: the polar dual of plane i is g_i = n_i/e_i, in the units of y: v_i/c_i.  *)
(* _construct_dual_space_hull: a simplex <<i,j,k>> of the hull of the duals is a             *)
(* non-degenerate triple whose plane has every dual point on the side of the origin.         *)
(* DualSide(i,j,k,m) = det[g_j-g_i, g_k-g_i, g_m-g_i] * (c_i^3 c_j c_k c_m), and with the    *)
(* origin in place of g_m: det[.., .., -g_i] * (c_i^3 c_j c_k) -- exact, in BigInt.           *)
RowB(pl, i, j) == << BI(pl[i].c * pl[j].v[1] - pl[j].c * pl[i].v[1]),
                     BI(pl[i].c * pl[j].v[2] - pl[j].c * pl[i].v[2]),
                     BI(pl[i].c * pl[j].v[3] - pl[j].c * pl[i].v[3]) >>
Det3B(r1, r2, r3) == LET x == CrossB(r1, r2) IN BAdd(BAdd(BMul(x[1], r3[1]), BMul(x[2], r3[2])), BMul(x[3], r3[3]))
DualSide(pl, i, j, k, m) == BSign(Det3B(RowB(pl, i, j), RowB(pl, i, k), RowB(pl, i, m)))
OriginSide(pl, i, j, k) ==
  BSign(Det3B(RowB(pl, i, j), RowB(pl, i, k), << BI(-pl[i].v[1]), BI(-pl[i].v[2]), BI(-pl[i].v[3]) >>))
IsHullSimplex(pl, i, j, k) ==
  LET o == OriginSide(pl, i, j, k)
  IN o # 0 /\ \A m \in DOMAIN pl : DualSide(pl, i, j, k, m) \in {0, o}
(* every simplex any triangulation of the dual hull can contain (coplanar duals = more than  *)
(* three facets through one vertex: qhull picks some triangulation of that hull face)        *)
HullSimplices(pl) ==
  LET F == Len(pl)
  IN {s \in (1..F) \X (1..F) \X (1..F) : s[1] < s[2] /\ s[2] < s[3] /\ IsHullSimplex(pl, s[1], s[2], s[3])}
(* _extract_wulff_from_dual_mesh: normals = (b-a) x (c-a), vertex = normals * e_a/(normals.n_a) *)
(* with a the FIRST index of the simplex; in integers: nn = (c_i v_j - c_j v_i) x (c_i v_k - c_k v_i), *)
(* vertex = c_i * nn / (nn . v_i).  Magnitude: |c_i v_j - c_j v_i| <= 2 cmax vmax =: r,       *)
(* |nn| <= 2 r^2, |c_i nn| <= 2 r^2 cmax -- small models only (MC_Wulff ASSUMEs the bound).   *)
SimplexVertex(pl, i, j, k) ==
  LET rj == << pl[i].c*pl[j].v[1] - pl[j].c*pl[i].v[1], pl[i].c*pl[j].v[2] - pl[j].c*pl[i].v[2],
               pl[i].c*pl[j].v[3] - pl[j].c*pl[i].v[3] >>
      rk == << pl[i].c*pl[k].v[1] - pl[k].c*pl[i].v[1], pl[i].c*pl[k].v[2] - pl[k].c*pl[i].v[2],
               pl[i].c*pl[k].v[3] - pl[k].c*pl[i].v[3] >>
      nn == Cross(rj, rk)
  IN Canon(<< pl[i].c * nn[1], pl[i].c * nn[2], pl[i].c * nn[3], Dot(nn, pl[i].v) >>)
(* the deviation used by the self-test mutant: energy of the second simplex column *)
SimplexVertexWrongColumn(pl, i, j, k) ==
  LET h == SimplexVertex(pl, i, j, k)
  IN Canon(<< h[1] * pl[j].c * pl[i].w, h[2] * pl[j].c * pl[i].w, h[3] * pl[j].c * pl[i].w,
              h[4] * pl[i].c * pl[j].w >>)
(* facets[f] = the simplices (= emitted vertices) that contain f *)
SimplexLists(pl, simp) == [m \in DOMAIN pl |-> SelectSeq([k \in DOMAIN simp |-> k],
                                                LAMBDA k : m \in {simp[k][1], simp[k][2], simp[k][3]})]
(* prune_degenerate_points: of coincident points the last one is kept *)
Prune(lst, em) == SelectSeq([k \in DOMAIN lst |-> k],
                            LAMBDA k : \A l \in (k+1)..Len(lst) : em[lst[l]] # em[lst[k]])
PrunedList(lst, em) == LET keep == Prune(lst, em) IN [k \in DOMAIN keep |-> lst[keep[k]]]
(* winding_order_ccw: the first point stays, the others are sorted by their polar angle about *)
(* it in the frame (u, n x u): all directions lie in an open half plane, so "a before b" is   *)
(* "first, a, b turn counter-clockwise seen from the tip of the normal".                      *)
FanOrder(lst, em, v) ==
  IF Len(lst) < 3 THEN lst
  ELSE << lst[1] >> \o SortSeq(Tail(lst), LAMBDA a, b : TurnsCCW(em[lst[1]], em[a], em[b], v))
IsCCWFan(lst, em, v) == \A k \in 2..(Len(lst) - 1) : TurnsCCW(em[lst[1]], em[lst[k]], em[lst[k+1]], v)
(* order_and_triangulate_polygons: fan from the first point (np.repeat(facet[0], N-2) raises  *)
(* for N = 1; no run of the real code produced such a list)                                   *)
FanTriangles(lst) == IF Len(lst) < 3 THEN <<>> ELSE [k \in 1..(Len(lst) - 2) |-> << lst[1], lst[k+1], lst[k+2] >>]
=============================================================================
