----------------------------- MODULE Promolecule -----------------------------
(***************************************************************************)
(* chmpy.interpolate.density: the promolecule density as a sum of          *)
(* spherical atoms read off a table by linear interpolation, and the       *)
(* stockholder weight of one atom set against another.                     *)
(*                                                                         *)
(* The table is data.  For one atom a and one evaluation point p the       *)
(* context carries the pair row                                            *)
(*      pair[a][p] = <<j, t, y0, y1>>                                       *)
(* j  = index of the table node at or below the abscissa (0-based),        *)
(* t  = interpolation parameter in TDen-ths between nodes j and j+1,       *)
(* y0, y1 = tabulated densities of the atom's element at nodes j, j+1.     *)
(* In the code (interpolate/_density.pyx, interp_f) the abscissa is the     *)
(* SQUARED distance in bohr^2, the nodes are equidistant (4096 nodes,      *)
(* 0.04 .. 400 bohr^2), below node 1 the value is flat y[0] (the cusp is   *)
(* flattened; the property excludes points within 0.35 A of a nucleus),    *)
(* at and beyond the last node the value is y[last].  Lookup states these  *)
(* rules for an integer abscissa; for the real table the harness performs  *)
(* the lookup (numpy.load of thakkar_interp.npz, float64) and ships the    *)
(* rows as integers at the point's power-of-two scale.                     *)
(*                                                                         *)
(* Magnitudes: densities and observations are integers <= 2^25, t within   *)
(* -64..TDen+64; every product below is split so that it stays < 2^31.     *)
(***************************************************************************)
EXTENDS Integers, Sequences, FiniteSets, BigInt

CONSTANT TDen                      \* denominator of the interpolation parameter (4096 for traces)

AbsI(x) == IF x < 0 THEN -x ELSE x
MinI(a, b) == IF a < b THEN a ELSE b
MaxI2(a, b) == IF a > b THEN a ELSE b

(* d * t / TDen (rounded towards -infinity within one unit) without overflow: *)
(* |d| = q * TDen + r  =>  |d| t / TDen = q t + r t / TDen                    *)
MulDivT(d, t) == LET q == AbsI(d) \div TDen
                     r == AbsI(d) % TDen
                     v == q * t + (r * t) \div TDen
                 IN IF d < 0 THEN -v ELSE v

(* ---- the table rule for an integer abscissa -------------------------------- *)
(* tab = [lo |-> first node, dx |-> spacing, y |-> <<y_0, ..., y_{N-1}>>]      *)
Lookup(tab, x) ==
  LET N == Len(tab.y)
      j == IF x < tab.lo THEN -1 ELSE (x - tab.lo) \div tab.dx
  IN IF j <= 0 THEN <<0, 0, tab.y[1], tab.y[1]>>                       \* flat below node 1 (as built)
     ELSE IF j >= N - 1 THEN <<N - 1, 0, tab.y[N], tab.y[N]>>           \* last value beyond the table
     ELSE <<j, (((x - tab.lo) % tab.dx) * TDen) \div tab.dx, tab.y[j + 1], tab.y[j + 2]>>

(* ---- one atom ---------------------------------------------------------------- *)
LerpAt(pr, t) == pr[3] + MulDivT(pr[4] - pr[3], t)
Lerp(pr) == LerpAt(pr, pr[2])
AtomRho(ctx, a, p) == Lerp(ctx.pair[a][p])

(* ---- a set of atoms: declarative sum and the code's accumulation loop -------- *)
RECURSIVE SumOver(_, _)               \* sum of f[a] over the finite set S
SumOver(f, S) == IF S = {} THEN 0 ELSE LET a == CHOOSE b \in S : TRUE IN f[a] + SumOver(f, S \ {a})
SetRho(ctx, S, p) == SumOver([a \in S |-> AtomRho(ctx, a, p)], S)

(* evaluate_rho: for i in range(npos): rho += interp(...)  -- one pass in list order *)
RECURSIVE FoldRho(_, _, _, _)
FoldRho(ctx, seq, p, acc) == IF seq = <<>> THEN acc
                             ELSE FoldRho(ctx, Tail(seq), p, acc + AtomRho(ctx, Head(seq), p))
Restrict(order, S) == SelectSeq(order, LAMBDA a : a \in S)
EvalRho(ctx, order, S, p) == FoldRho(ctx, Restrict(order, S), p, 0)

(* ---- stockholder weight as an exact fraction <<numerator, denominator>> ------ *)
Weight(rhoA, rhoB, bg) == <<rhoA, rhoA + rhoB + bg>>
WeightInUnit(w) == w[2] > 0 /\ 0 <= w[1] /\ w[1] <= w[2]
SharesSumToOne(w1, w2) == w1[1] * w2[2] + w2[1] * w1[2] = w1[2] * w2[2]

(* ---- the evaluation context as a state machine -------------------------------- *)
(* order = the list order in which the atoms are handed to the code,             *)
(* pose  = which rigidly moved copy of atoms + points is used,                   *)
(* memo  = observation register: <<atom set, pose>> -> values observed first.    *)
VARIABLES order, pose, memo
Remember(mm, key, val) == IF key \in DOMAIN mm THEN mm ELSE [k \in DOMAIN mm \cup {key} |-> IF k = key THEN val ELSE mm[k]]
IsPermutation(pi, natoms) == Len(pi) = natoms /\ {pi[i] : i \in DOMAIN pi} = 1..natoms

Eval(S, obs) == memo' = Remember(memo, <<S, pose>>, obs) /\ UNCHANGED <<order, pose>>
Permute(pi) == order' = pi /\ UNCHANGED <<pose, memo>>
Move(g) == pose' = g /\ UNCHANGED <<order, memo>>
Split(S1, S2, o1, o2, o12) ==
  /\ memo' = Remember(Remember(Remember(memo, <<S1, pose>>, o1), <<S2, pose>>, o2), <<S1 \cup S2, pose>>, o12)
  /\ UNCHANGED <<order, pose>>
Complement == UNCHANGED <<order, pose, memo>>        \* weights are not registered

(* ---- geometry on the integer grid (units of 1/Unit angstrom) ------------------- *)
Dist2(u, v) == (u[1] - v[1]) * (u[1] - v[1]) + (u[2] - v[2]) * (u[2] - v[2]) + (u[3] - v[3]) * (u[3] - v[3])

(* ================= comparison with observations of the real code ============== *)
(* Observations are float32 numbers shipped as integers at the point's scale     *)
(* (largest magnitude about 2^24).  Explicit slack:                               *)
(*   RelSlack  2e-5 relative for the float32 kernel;                              *)
(*   TSlack    the abscissa is known to +-TSlack(j)/TDen of a node interval: half *)
(*             a unit from shipping t in TDen-ths plus float32 rounding of r^2    *)
(*             (4 roundings, relative 2^-22 of an abscissa of up to j+1           *)
(*             intervals: at most (j+1)/1024 units, measured <= 3.8 units at the  *)
(*             table end, allowed (j+1)/128);                                     *)
(*   AccSlack  float32 accumulation of k terms: k * 2^-22 relative, plus one unit *)
(*             per term for the integer projection.                               *)
RelDen == 50000
AccShift == 22
TSlackDiv == 128
WDen == 16777216                   \* weights are shipped in 2^-24 ths
WUnits == 256                      \* 1.5e-5: float32 division noise (measured 1.2e-7) x 100

RelSlack(m) == AbsI(m) \div RelDen + 1
AccSlack(k, m) == (k * (AbsI(m) \div 4096)) \div (2^(AccShift - 12)) + k + 2    \* k * m / 2^22 + k + 2
TSlack(j) == 1 + (j + 1) \div TSlackDiv

LerpLo(pr) == LET ts == TSlack(pr[1]) IN MinI(LerpAt(pr, pr[2] - ts), LerpAt(pr, pr[2] + ts)) - 1
LerpHi(pr) == LET ts == TSlack(pr[1]) IN MaxI2(LerpAt(pr, pr[2] - ts), LerpAt(pr, pr[2] + ts)) + 1
(* interval tables of a context, computed once: iv.lo[a][p] <= density of atom a at p <= iv.hi[a][p] *)
Intervals(pair) == [lo |-> [a \in DOMAIN pair |-> [p \in DOMAIN pair[a] |-> LerpLo(pair[a][p])]],
                    hi |-> [a \in DOMAIN pair |-> [p \in DOMAIN pair[a] |-> LerpHi(pair[a][p])]]]
SetLo(iv, S, p) == SumOver([a \in S |-> iv.lo[a][p]], S)
SetHi(iv, S, p) == SumOver([a \in S |-> iv.hi[a][p]], S)

(* the interval the specification allows for the code's density of atom set S at point p *)
RhoLo(iv, S, p) == LET hi == SetHi(iv, S, p)
                   IN SetLo(iv, S, p) - RelSlack(hi) - AccSlack(Cardinality(S), hi)
RhoHi(iv, S, p) == LET hi == SetHi(iv, S, p)
                   IN hi + RelSlack(hi) + AccSlack(Cardinality(S), hi)
SetRhoOK(iv, S, p, obs) == RhoLo(iv, S, p) <= obs /\ obs <= RhoHi(iv, S, p)

CloseAcc(x, y, k) == AbsI(x - y) <= AccSlack(k, MaxI2(AbsI(x), AbsI(y)))
(* the same set seen in another pose: abscissae agree exactly, their float32 roundings do not *)
CloseMoved(iv, S, p, x, y) ==
  AbsI(x - y) <= RelSlack(MaxI2(AbsI(x), AbsI(y))) + (SetHi(iv, S, p) - SetLo(iv, S, p))
                 + AccSlack(Cardinality(S), MaxI2(AbsI(x), AbsI(y)))

(* w (in WDen-ths) against rhoA/(rhoA+rhoB+bg) with rhoA in [aLo,aHi], rhoB in [bLo,bHi]:   *)
(*   aLo/(aLo+bHi+bg) - WUnits/WDen <= w/WDen <= aHi/(aHi+bLo+bg) + WUnits/WDen  (cross-multiplied) *)
WeightOK(w, aLo, aHi, bLo, bHi, bg) ==
  LET lo == MaxI2(aLo, 0)
      denLo == BFromInt(lo + bHi + bg)
      denHi == BFromInt(aHi + MaxI2(bLo, 0) + bg)
  IN /\ BLe(BMul(BFromInt(lo), BFromInt(WDen)), BMul(BFromInt(w + WUnits), denLo))
     /\ BLe(BMul(BFromInt(w - WUnits), denHi), BMul(BFromInt(aHi), BFromInt(WDen)))
WeightRangeOK(w) == 0 <= w /\ w <= WDen
SharesOK(w1, w2) == AbsI(w1 + w2 - WDen) <= 2 * WUnits
=============================================================================
