------------------------------- MODULE IsoMesh -------------------------------
(***************************************************************************)
(* Isosurface meshes of an integer scalar field sampled on a grid (C06).   *)
(*                                                                         *)
(* A problem `p` is a record                                               *)
(*   n   = <<n1,n2,n3>>  grid points per axis (>= 2), array-index axes     *)
(*   f   = flat sequence of the n1*n2*n3 integer values, C order           *)
(*   k   = integer; the level is k + 1/2 (never equal to a grid value)     *)
(*   sp  = <<s1,s2,s3>>  positive integer spacings                         *)
(*   q   = length units per unit of real length: a vertex coordinate x is  *)
(*         represented by the integer round(x*q)                           *)
(*   tol = comparison slack in those units (0 in the design-level model)   *)
(* A mesh is V (vertex id -> position triple, in 1/q units) and a sequence *)
(* F of faces (triples of vertex ids).  Grid points and cells are 0-based  *)
(* triples; a cell is named by its lowest corner.                          *)
(*                                                                         *)
(* Magnitude bounds (TLC integers are 32 bit): coordinates < 2^20 and      *)
(* |f1-f0| <= 500 keep every product below 2^31; SignedVol6 uses BigInt.   *)
(***************************************************************************)
EXTENDS Integers, Sequences, FiniteSets, Rat

Axes == 1..3
AbsI(x) == IF x < 0 THEN -x ELSE x

(* ---- the sampled field ---------------------------------------------------- *)
At(p, g) == p.f[(g[1] * p.n[2] + g[2]) * p.n[3] + g[3] + 1]
GridPts(p) == (0..(p.n[1]-1)) \X (0..(p.n[2]-1)) \X (0..(p.n[3]-1))
Cells(p) == (0..(p.n[1]-2)) \X (0..(p.n[2]-2)) \X (0..(p.n[3]-2))
InGrid(p, g) == \A a \in Axes : g[a] >= 0 /\ g[a] <= p.n[a] - 1
InGridCell(p, c) == \A a \in Axes : c[a] >= 0 /\ c[a] <= p.n[a] - 2
Hi(p, g) == At(p, g) > p.k                    \* above the level k + 1/2
OnBoundary(p, g) == \E a \in Axes : g[a] = 0 \/ g[a] = p.n[a] - 1
BoundaryLow(p) == \A g \in GridPts(p) : OnBoundary(p, g) => ~Hi(p, g)
BoundaryHigh(p) == \A g \in GridPts(p) : OnBoundary(p, g) => Hi(p, g)
WellFormed(p) == /\ \A a \in Axes : p.n[a] >= 2 /\ p.sp[a] >= 1
                 /\ Len(p.f) = p.n[1] * p.n[2] * p.n[3]
                 /\ p.q >= 1 /\ p.tol >= 0
(* domain of the property: the level set does not reach the grid boundary  *)
LevelSetInside(p) == BoundaryLow(p) \/ BoundaryHigh(p)

(* ---- grid edges and exact crossings --------------------------------------- *)
Step(g, a) == <<g[1] + (IF a = 1 THEN 1 ELSE 0), g[2] + (IF a = 2 THEN 1 ELSE 0),
                g[3] + (IF a = 3 THEN 1 ELSE 0)>>
EdgeEnd(e) == Step(e.b, e.a)                  \* edge = [b |-> base point, a |-> axis]
EdgeInGrid(p, e) == InGrid(p, e.b) /\ InGrid(p, EdgeEnd(e))
Straddles(p, e) == Hi(p, e.b) # Hi(p, EdgeEnd(e))
GridEdges(p) == {e \in [b : GridPts(p), a : Axes] : e.b[e.a] <= p.n[e.a] - 2}
StraddlingEdges(p) == {e \in GridEdges(p) : Straddles(p, e)}
(* linear interpolation: the level is met at  b[a] + num/den  (index units), *)
(* num = 2k+1-2f0, den = 2(f1-f0); 0 < num/den < 1 on a straddling edge.     *)
CrossNum(p, e) == 2 * p.k + 1 - 2 * At(p, e.b)
CrossDen(p, e) == 2 * (At(p, EdgeEnd(e)) - At(p, e.b))
Cross(p, e) == LET d == CrossDen(p, e)          \* exact rational n/d with d > 0, index units
                   n == e.b[e.a] * d + CrossNum(p, e)
               IN IF d < 0 THEN [n |-> -n, d |-> -d] ELSE [n |-> n, d |-> d]
Pitch(p, a) == p.sp[a] * p.q                  \* one grid step along axis a in 1/q units
(* coordinate x (1/q units, along e.a) is the crossing of e:  x/q = sp * Cross *)
OnCross(p, x, e) == LET c == Cross(p, e)
                    IN AbsI(x * c.d - Pitch(p, e.a) * c.n) <= p.tol * AbsI(c.d)

(* ---- cells ------------------------------------------------------------------ *)
Corners(c) == {<<c[1] + i, c[2] + j, c[3] + k>> : i \in 0..1, j \in 0..1, k \in 0..1}
CellStraddles(p, c) == (\E g \in Corners(c) : Hi(p, g)) /\ (\E g \in Corners(c) : ~Hi(p, g))
Rank(p, c) == (c[1] * (p.n[2] - 1) + c[2]) * (p.n[3] - 1) + c[3]     \* sweep order

(* ---- where a vertex sits ---------------------------------------------------- *)
Near(p, x, a) == (2 * x + Pitch(p, a)) \div (2 * Pitch(p, a))        \* nearest lattice index
Flo(p, x, a) == x \div Pitch(p, a)
OnLat(p, x, a) == AbsI(x - Near(p, x, a) * Pitch(p, a)) <= p.tol
OffAxes(p, v) == {a \in Axes : ~OnLat(p, v[a], a)}
EdgeOfVertex(p, v) ==          \* meaningful when exactly one axis is off the lattice
  LET ax == CHOOSE a \in Axes : ~OnLat(p, v[a], a)
      Base(a) == IF a = ax THEN Flo(p, v[a], a) ELSE Near(p, v[a], a)
  IN [b |-> <<Base(1), Base(2), Base(3)>>, a |-> ax]
CellOfVertex(p, v) == <<Flo(p, v[1], 1), Flo(p, v[2], 2), Flo(p, v[3], 3)>>
IsEdgeVertex(p, v) == Cardinality(OffAxes(p, v)) = 1
IsInteriorVertex(p, v) == Cardinality(OffAxes(p, v)) = 3
(* The statement: every vertex is the crossing point of a straddling grid   *)
(* edge, or (Lewiner's auxiliary vertex) lies strictly inside a cell whose  *)
(* corners straddle the level.                                              *)
VertexOnLevel(p, v) ==
  IF IsEdgeVertex(p, v)
  THEN LET e == EdgeOfVertex(p, v)
       IN EdgeInGrid(p, e) /\ Straddles(p, e) /\ OnCross(p, v[e.a], e)
  ELSE /\ IsInteriorVertex(p, v)
       /\ LET c == CellOfVertex(p, v) IN InGridCell(p, c) /\ CellStraddles(p, c)
OnLevel(p, V) == \A i \in DOMAIN V : VertexOnLevel(p, V[i])
DistinctVertices(V) == Cardinality({V[i] : i \in DOMAIN V}) = Cardinality(DOMAIN V)
(* every straddling grid edge carries exactly one vertex: a closed surface  *)
(* separating the two ends of the edge must cross it.                       *)
EdgeVertexIds(p, V) == {i \in DOMAIN V : IsEdgeVertex(p, V[i])}
EdgeCoverOn(p, V, se) ==          \* se = StraddlingEdges(p), computed once by the caller
  LET ev == EdgeVertexIds(p, V)
      es == {EdgeOfVertex(p, V[i]) : i \in ev}
  IN Cardinality(es) = Cardinality(ev) /\ es = se
EdgeCover(p, V) == EdgeCoverOn(p, V, StraddlingEdges(p))

(* ---- closed oriented 2-manifold (combinatorial) ------------------------------ *)
FaceOK(ids, f) == /\ f[1] \in ids /\ f[2] \in ids /\ f[3] \in ids
                  /\ f[1] # f[2] /\ f[2] # f[3] /\ f[1] # f[3]
ValidFaces(ids, F) == \A i \in DOMAIN F : Len(F[i]) = 3 /\ FaceOK(ids, F[i])
DirEdges(F) == {<<F[i][1], F[i][2]>> : i \in DOMAIN F} \cup {<<F[i][2], F[i][3]>> : i \in DOMAIN F}
               \cup {<<F[i][3], F[i][1]>> : i \in DOMAIN F}
EdgeOnceE(E, F) == Cardinality(E) = 3 * Cardinality(DOMAIN F) \* no directed edge twice
EdgeTwinE(E) == \A e \in E : <<e[2], e[1]>> \in E               \* the reverse of every edge is present
EdgeOnce(F) == EdgeOnceE(DirEdges(F), F)
EdgeTwin(F) == EdgeTwinE(DirEdges(F))
ClosedManifold(ids, F) == ValidFaces(ids, F) /\ LET E == DirEdges(F) IN EdgeOnceE(E, F) /\ EdgeTwinE(E)

(* ---- orientation ---------------------------------------------------------------- *)
Rotations(f) == {<<f[1], f[2], f[3]>>, <<f[2], f[3], f[1]>>, <<f[3], f[1], f[2]>>}
FaceClasses(F) == {Rotations(F[i]) : i \in DOMAIN F}
Flip(f) == <<f[3], f[2], f[1]>>
(* the mesh for the other gradient direction is the same mesh with every face reversed *)
ReversedMesh(F1, F2) == Len(F1) = Len(F2) /\ FaceClasses(F1) = {Rotations(Flip(F2[i])) : i \in DOMAIN F2}

(* ---- as-built deviation of the Lewiner kernel: membranes --------------------------- *)
(* On some ambiguous cell faces (corners alternate around the face) both adjacent *)
(* cells cover the face with the same two triangles in opposite orientations.     *)
(* The zero-volume membrane puts four triangles on each of its edges, so the mesh *)
(* is not a 2-manifold (found by this check: 34 of 40000 random multi-blob grids,  *)
(* none of the 189790 single-cube fields).  The predicate characterises exactly    *)
(* that class: the twinned faces lie flat in a grid plane and the mesh without     *)
(* them is a closed manifold.                                                      *)
TwinFaces(F) == LET rev == {Rotations(Flip(F[i])) : i \in DOMAIN F}
                IN {i \in DOMAIN F : Rotations(F[i]) \in rev}
FlatInGridPlane(p, V, f) ==
  \E a \in Axes : /\ \A j \in 1..3 : OnLat(p, V[f[j]][a], a)
                  /\ Near(p, V[f[1]][a], a) = Near(p, V[f[2]][a], a)
                  /\ Near(p, V[f[1]][a], a) = Near(p, V[f[3]][a], a)
MembranesOnlyAsBuilt(p, V, F) ==
  LET M == TwinFaces(F)
      rest == [i \in (DOMAIN F) \ M |-> F[i]]
  IN /\ M # {}
     /\ \A i \in M : FlatInGridPlane(p, V, F[i])
     /\ ClosedManifold(DOMAIN V, rest)

(* Six times the signed volume enclosed by a CLOSED mesh, in (1/q)^3 units, exact: by  *)
(* the divergence theorem along the third axis, volume = sum over faces of (signed    *)
(* area of the projection on axes 1,2) x (mean third coordinate).  Magnitudes: the    *)
(* extent of a face <= 32000 units keeps A2 below 2^31; the product and the sum are   *)
(* BigInt.                                                                            *)
FaceVol(V, f) ==
  LET a == V[f[1]]  b == V[f[2]]  c == V[f[3]]
      A2 == (b[1] - a[1]) * (c[2] - a[2]) - (b[2] - a[2]) * (c[1] - a[1])
      S3 == a[3] + b[3] + c[3]
  IN IF AbsI(A2) <= 40000 /\ AbsI(S3) <= 40000 THEN BFromInt(A2 * S3) ELSE BMul(BFromInt(A2), BFromInt(S3))
RECURSIVE SumVol(_, _, _, _)
SumVol(V, F, lo, hi) == IF lo > hi THEN BZero
                        ELSE IF lo = hi THEN FaceVol(V, F[lo])
                        ELSE LET m == (lo + hi) \div 2 IN BAdd(SumVol(V, F, lo, m), SumVol(V, F, m + 1, hi))
SignedVol6(V, F) == SumVol(V, F, 1, Len(F))
(* Calibrated convention of chmpy.mc.marching_cubes (mc/_mc.py: the kernel's  *)
(* faces are flipped for "descent"): in array-index axes with positive         *)
(* spacings, "descent" over a region that is high inside gives a negative      *)
(* signed volume ("left-hand rule"); "ascent", or a region low inside, flips   *)
(* it; surface.py swaps two axes (`swapped`), which flips it once more.        *)
VolSignFor(insideHigh, dir, swapped) ==
  (IF dir = "descent" THEN -1 ELSE 1) * (IF insideHigh THEN 1 ELSE -1) * (IF swapped THEN -1 ELSE 1)
ExpectedVolSign(p, dir, swapped) == VolSignFor(BoundaryLow(p), dir, swapped)
Oriented(p, V, F, dir, swapped) == BSign(SignedVol6(V, F)) = ExpectedVolSign(p, dir, swapped)

(* ---- enclosed volume of a sphere (convergence clause) ------------------------------ *)
(* Field R^2 - |g-c|^2 sampled with spacings sp: the level set is (nearly) the  *)
(* ellipsoid of volume (4/3) pi R^3 s1 s2 s3.  With A = 8 R^3 s1 s2 s3 q^3 the   *)
(* exact value of six times the volume is pi*A; 333/106 < pi < 355/113.          *)
(* Measured on the tree: relative error = 1.50/R^2 (R = 2..12); bound 2/R^2.     *)
SphereField(p, R, c) == \A g \in GridPts(p) :
   At(p, g) = R * R - ((g[1] - c[1]) * (g[1] - c[1]) + (g[2] - c[2]) * (g[2] - c[2]) + (g[3] - c[3]) * (g[3] - c[3]))
SphereA(p, R) == BMul(BMul(BFromInt(8 * R * R * R * p.sp[1] * p.sp[2] * p.sp[3]), BFromInt(p.q)),
                      BMul(BFromInt(p.q), BFromInt(p.q)))
VolumeWithin(p, R, vol6) ==           \* | |vol6| - pi A | <= (2/R^2) pi A, decided with the rational bounds on pi
  LET v == BAbs(vol6)
      A == SphereA(p, R)
  IN /\ BLe(BMul(BMulInt(A, R * R - 2), BFromInt(333)), BMul(BMulInt(v, R * R), BFromInt(106)))
     /\ BLe(BMul(BMulInt(v, R * R), BFromInt(113)), BMul(BMulInt(A, R * R + 2), BFromInt(355)))
PiLo == RFromInts(333, 106)
PiHi == RFromInts(355, 113)
RMax2(x, y) == IF RLt(x, y) THEN y ELSE x
(* interval [lo, hi] containing | |vol6|/A - pi |  (= pi times the relative error) *)
ErrLo(p, R, vol6) == LET x == [n |-> BAbs(vol6), d |-> SphereA(p, R)]
                     IN RMax2(RZero, RMax2(RSub(PiLo, x), RSub(x, PiHi)))
ErrHi(p, R, vol6) == LET x == [n |-> BAbs(vol6), d |-> SphereA(p, R)]
                     IN RMax2(RSub(PiHi, x), RSub(x, PiLo))

(* ---- enclosure of a point by a closed mesh: exact integer ray casting --------------- *)
(* Rays run along a coordinate axis d with sign s.  Magnitudes: coordinates       *)
(* |x| <= 6000 and face edges <= 250 units keep every product below 2^31.         *)
RayDirs == << <<3, 1>>, <<3, -1>>, <<1, 1>>, <<1, -1>>, <<2, 1>>, <<2, -1>> >>
TransU(d) == (d % 3) + 1
TransW(d) == ((d + 1) % 3) + 1
Orient2(a, b, x, u, w) == (b[u] - a[u]) * (x[w] - a[w]) - (b[w] - a[w]) * (x[u] - a[u])
Min3(x, y, z) == IF x <= y THEN (IF x <= z THEN x ELSE z) ELSE (IF y <= z THEN y ELSE z)
Max3(x, y, z) == IF x >= y THEN (IF x >= z THEN x ELSE z) ELSE (IF y >= z THEN y ELSE z)
(* bounding boxes of the faces, computed once per mesh: <<min1, max1, min2, max2, min3, max3>>;  *)
(* `\o <<>>` makes TLC evaluate the whole sequence once instead of once per application        *)
FaceBoxes(V, F) ==
  [i \in 1..Len(F) |->
     LET a == V[F[i][1]]  b == V[F[i][2]]  c == V[F[i][3]]
     IN <<Min3(a[1], b[1], c[1]), Max3(a[1], b[1], c[1]), Min3(a[2], b[2], c[2]), Max3(a[2], b[2], c[2]),
          Min3(a[3], b[3], c[3]), Max3(a[3], b[3], c[3])>>] \o <<>>
RECURSIVE ExtremeOf(_, _, _, _)      \* least (k odd) / greatest (k even) k-th entry of FB[lo..hi]
ExtremeOf(FB, k, lo, hi) ==
  IF lo = hi THEN FB[lo][k]
  ELSE LET m == (lo + hi) \div 2
           x == ExtremeOf(FB, k, lo, m)
           y == ExtremeOf(FB, k, m + 1, hi)
       IN IF k % 2 = 1 THEN (IF x <= y THEN x ELSE y) ELSE (IF x >= y THEN x ELSE y)
MeshBox(FB) == [k \in 1..6 |-> ExtremeOf(FB, k, 1, Len(FB))] \o <<>>      \* FB non-empty
InBoxOf(mb, x) == \A a \in Axes : mb[2 * a - 1] <= x[a] /\ x[a] <= mb[2 * a]
(* status of one face for the ray from x along axis d with sign s:                      *)
(* 0 = missed, 1 = crossed, 2 = degenerate contact (edge, vertex or in-plane)           *)
FaceRay(V, f, fb, x, d, s) ==
  LET u == TransU(d)  w == TransW(d)
  IN IF \/ x[u] < fb[2 * u - 1] \/ x[u] > fb[2 * u] \/ x[w] < fb[2 * w - 1] \/ x[w] > fb[2 * w]
        \/ (s > 0 /\ fb[2 * d] < x[d]) \/ (s < 0 /\ fb[2 * d - 1] > x[d])
     THEN 0
     ELSE LET a == V[f[1]]  b == V[f[2]]  c == V[f[3]]
              d1 == Orient2(a, b, x, u, w)
              d2 == Orient2(b, c, x, u, w)
              d3 == Orient2(c, a, x, u, w)
              pos == d1 > 0 \/ d2 > 0 \/ d3 > 0
              neg == d1 < 0 \/ d2 < 0 \/ d3 < 0
          IN IF pos /\ neg THEN 0
             ELSE IF d1 = 0 \/ d2 = 0 \/ d3 = 0 THEN 2
             ELSE LET nd == d1 + d2 + d3          \* component along d of the face normal (b-a) x (c-a)
                      nu == (b[w] - a[w]) * (c[d] - a[d]) - (b[d] - a[d]) * (c[w] - a[w])
                      nw == (b[d] - a[d]) * (c[u] - a[u]) - (b[u] - a[u]) * (c[d] - a[d])
                      h == nu * (x[u] - a[u]) + nw * (x[w] - a[w]) + nd * (x[d] - a[d])
                  IN IF h = 0 THEN 2
                     ELSE IF (h > 0) = ((nd > 0) = (s > 0)) THEN 0 ELSE 1
RayParity(V, F, FB, x, d, s) ==       \* 0 / 1, or -1 when some contact is degenerate
  LET st == [i \in 1..Len(F) |-> FaceRay(V, F[i], FB[i], x, d, s)] \o <<>>
  IN IF \E i \in DOMAIN st : st[i] = 2 THEN -1
     ELSE Cardinality({i \in DOMAIN st : st[i] = 1}) % 2
RECURSIVE InsideFrom(_, _, _, _, _)
InsideFrom(V, F, FB, x, k) == IF k > Len(RayDirs) THEN -1
                              ELSE LET r == RayParity(V, F, FB, x, RayDirs[k][1], RayDirs[k][2])
                                   IN IF r >= 0 THEN r ELSE InsideFrom(V, F, FB, x, k + 1)
(* 1 inside, 0 outside, -1 undecidable; a point outside the mesh's bounding box is outside *)
InsideMesh(V, F, FB, mb, x) == IF ~InBoxOf(mb, x) THEN 0 ELSE InsideFrom(V, F, FB, x, 1)

(* ---- the cell sweep --------------------------------------------------------------- *)
(* Marching cubes visits the cells in order and emits, for each cell, faces   *)
(* over that cell's own vertices.  `last` is the rank of the last processed   *)
(* cell, `seen` the directed edges emitted so far, `bnd` those of them whose   *)
(* reverse has not been emitted yet (the boundary of the partial mesh).        *)
VARIABLES last, bnd, seen
sweepVars == <<last, bnd, seen>>
SweepInit == last = -1 /\ bnd = {} /\ seen = {}

InCell(p, v, c) == \A a \in Axes : /\ c[a] * Pitch(p, a) - p.tol <= v[a]
                                   /\ v[a] <= (c[a] + 1) * Pitch(p, a) + p.tol
AxisCells(p, x, a) == IF OnLat(p, x, a) THEN {Near(p, x, a) - 1, Near(p, x, a)} ELSE {Flo(p, x, a)}
CellsAt(p, v) == AxisCells(p, v[1], 1) \X AxisCells(p, v[2], 2) \X AxisCells(p, v[3], 3)
(* An open edge is legitimate while both its ends lie on a face shared with a  *)
(* straddling cell that is still to come.                                       *)
Unprocessed(p, c, l) == InGridCell(p, c) /\ Rank(p, c) > l /\ CellStraddles(p, c)
OpenEdgeOK(p, V, e, l) == \E c \in CellsAt(p, V[e[1]]) \cap CellsAt(p, V[e[2]]) : Unprocessed(p, c, l)
SweepInvAt(p, V, b, l) == \A e \in b : OpenEdgeOK(p, V, e, l)
SweepInv(p, V) == SweepInvAt(p, V, bnd, last)                      \* the inductive invariant
(* the patch of cell c uses only vertices of that cell *)
PatchLocal(p, V, c, patch) ==
  /\ InGridCell(p, c)
  /\ \A i \in DOMAIN patch : \A j \in 1..3 : patch[i][j] \in DOMAIN V /\ InCell(p, V[patch[i][j]], c)
  /\ (patch # <<>> => CellStraddles(p, c))
(* the step on the patch's directed edges N (n faces); callers that need N more than once bind it *)
CanProcessE(p, c, n, N) == /\ Rank(p, c) > last            \* cells are visited in sweep order
                           /\ Cardinality(N) = 3 * n        \* no directed edge twice in the patch
                           /\ N \cap seen = {}              \* nor emitted before
BndWith(N) == LET u == bnd \cup N IN {e \in u : <<e[2], e[1]>> \notin u}
ProcessCellE(p, c, n, N, nb) ==         \* nb = BndWith(N)
  /\ CanProcessE(p, c, n, N)
  /\ seen' = seen \cup N
  /\ bnd' = nb
  /\ last' = Rank(p, c)
CanProcess(p, c, patch) == CanProcessE(p, c, Len(patch), DirEdges(patch))
BndAfter(patch) == BndWith(DirEdges(patch))
ProcessCell(p, c, patch) == ProcessCellE(p, c, Len(patch), DirEdges(patch), BndAfter(patch))
SweepClosed == bnd = {}          \* with `seen` duplicate free this is ClosedManifold of the whole mesh

(* ---- a reference mesher (design level) -------------------------------------------- *)
(* Per cell: on each of the six faces the level set is cut into oriented      *)
(* segments between crossing points (high side on the left seen from outside   *)
(* the cell; an ambiguous face is resolved by the sign of the bilinear saddle, *)
(* which both neighbours compute alike); the segments close into loops on the  *)
(* cell surface; every loop is filled by a fan around an auxiliary vertex      *)
(* strictly inside the cell.  Vertex ids are the positions themselves.         *)
(* Needs q divisible by 4 and by every 2*CrossDen (q = 24 for values 0..3).    *)
CrossPos(p, e) ==               \* exact position of the crossing of e, 1/q units
  LET c == Cross(p, e)
      X(a) == IF a = e.a THEN (Pitch(p, a) * c.n) \div c.d ELSE e.b[a] * Pitch(p, a)
  IN <<X(1), X(2), X(3)>>
ExactGrid(p) == \A e \in StraddlingEdges(p) : (Pitch(p, e.a) * Cross(p, e).n) % Cross(p, e).d = 0
(* corners of face (axis a, side s) of cell c, counter-clockwise seen from outside *)
FaceCorners(c, a, s) ==
  LET u == (a % 3) + 1
      w == (u % 3) + 1
      P(du, dw) == [x \in Axes |-> c[x] + (IF x = a THEN s ELSE IF x = u THEN du ELSE dw)]
      T(du, dw) == <<P(du, dw)[1], P(du, dw)[2], P(du, dw)[3]>>
  IN IF s = 1 THEN <<T(0, 0), T(1, 0), T(1, 1), T(0, 1)>> ELSE <<T(0, 0), T(0, 1), T(1, 1), T(1, 0)>>
EdgeBetween(g, h) ==            \* the grid edge joining two adjacent grid points
  LET ax == CHOOSE a \in Axes : g[a] # h[a]
  IN [b |-> IF g[ax] < h[ax] THEN g ELSE h, a |-> ax]
G2(p, g) == 2 * At(p, g) - (2 * p.k + 1)       \* twice (value - level), never 0
FaceSegments(p, c, a, s) ==     \* set of <<from, to>> positions
  LET cs == FaceCorners(c, a, s)
      Nx(i) == (i % 4) + 1
      X(i) == CrossPos(p, EdgeBetween(cs[i], cs[Nx(i)]))           \* crossing on side i -> i+1
      HL == {i \in 1..4 : Hi(p, cs[i]) /\ ~Hi(p, cs[Nx(i)])}        \* high -> low going round
      LH == {i \in 1..4 : ~Hi(p, cs[i]) /\ Hi(p, cs[Nx(i)])}
      Prev(i) == ((i + 2) % 4) + 1
  IN IF Cardinality(HL) = 0 THEN {}
     ELSE IF Cardinality(HL) = 1
     THEN {<<X(CHOOSE i \in HL : TRUE), X(CHOOSE i \in LH : TRUE)>>}
     ELSE \* corners alternate: the two high ones are cs[i], i in HL
       LET h1 == CHOOSE i \in HL : TRUE
           saddleHigh == G2(p, cs[h1]) * G2(p, cs[Nx(Nx(h1))]) > G2(p, cs[Nx(h1)]) * G2(p, cs[Prev(h1)])
       IN IF saddleHigh
          THEN {<<X(i), X(Nx(i))>> : i \in HL}         \* high corners joined: cut off the low corners
          ELSE {<<X(i), X(Prev(i))>> : i \in HL}       \* cut off each high corner: HL(i) -> LH(i-1)
CellSegments(p, c) == UNION {FaceSegments(p, c, a, s) : a \in Axes, s \in 0..1}
LOCAL LexLess(u, v) == \/ u[1] < v[1] \/ (u[1] = v[1] /\ u[2] < v[2])
                       \/ (u[1] = v[1] /\ u[2] = v[2] /\ u[3] < v[3])
RECURSIVE Orbit(_, _, _)
Orbit(segs, start, acc) ==      \* vertices of the loop through `start`
  LET nxt == (CHOOSE s \in segs : s[1] = start)[2]
  IN IF nxt \in acc THEN acc ELSE Orbit(segs, nxt, acc \cup {nxt})
Apex(p, c, loop) ==             \* midway between the cell centre and the loop's least vertex
  LET v0 == CHOOSE v \in loop : \A w \in loop : w = v \/ LexLess(v, w)
      H(a) == ((((2 * c[a] + 1) * Pitch(p, a)) \div 2) + v0[a]) \div 2
  IN <<H(1), H(2), H(3)>>
RefPatch(p, c, dir) ==          \* sequence of faces of cell c
  LET segs == CellSegments(p, c)
      tri(s) == LET ap == Apex(p, c, Orbit(segs, s[1], {s[1]}))
                IN IF dir = "descent" THEN <<s[1], s[2], ap>> ELSE <<s[2], s[1], ap>>
      RECURSIVE ToSeq(_)
      ToSeq(S) == IF S = {} THEN <<>> ELSE LET s == CHOOSE x \in S : TRUE IN <<tri(s)>> \o ToSeq(S \ {s})
  IN ToSeq(segs)
=============================================================================
