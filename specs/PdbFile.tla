------------------------------- MODULE PdbFile -------------------------------
(***************************************************************************)
(* PDB files as a source of crystals (fmt/pdb.py, Crystal.from_pdb_file).  *)
(* The records the reader uses, in the fixed columns of the PDB format     *)
(* (wwPDB file format 3.3):                                                *)
(*   CRYST1  a(7-15, F9.3) b(16-24) c(25-33) alpha(34-40, F7.2) beta(41-47) *)
(*           gamma(48-54)  space group(56-66)  Z(67-70)                    *)
(*   ATOM / HETATM  serial(7-11) name(13-16) altLoc(17) resName(18-20)     *)
(*           chain(22) resSeq(23-26) iCode(27) x(31-38, F8.3) y(39-46)     *)
(*           z(47-54) occupancy(55-60, F6.2) tempFactor(61-66) element     *)
(*           (77-78, right-justified) charge(79-80)                        *)
(* Numbers are carried as integers: lengths and coordinates in 1/1000 A,   *)
(* angles, occupancies and B factors in 1/100.  The crystal read from the  *)
(* file has the cell the CRYST1 record states, the atoms of the ATOM /     *)
(* HETATM records (element from columns 77-78, label = atom name) at the   *)
(* stated orthogonal coordinates, in the standard orthogonalisation        *)
(* (a along x, b in the xy plane).                                         *)
(***************************************************************************)
EXTENDS MolFormats

UpperSym(z) == [i \in DOMAIN SymTab[z] |-> UpperOf(SymTab[z][i])]      \* element symbols are written in capitals
Fixed(v, scale, ndec, width) ==                 \* integer v = value * scale, scale = 10^ndec
  LET a == IF v < 0 THEN -v ELSE v
      ip == UIntDigits(a \div scale)
      fr == UIntDigits(a % scale)
      frz == [i \in 1..(ndec - Len(fr)) |-> 48] \o fr
  IN PadL((IF v < 0 THEN <<45>> ELSE <<>>) \o ip \o <<46>> \o frz, width)
CRYST1TAG == <<67, 82, 89, 83, 84, 49>>
ATOMTAG == <<65, 84, 79, 77, 32, 32>>
HETATMTAG == <<72, 69, 84, 65, 84, 77>>
(* cell: [len : three lengths in 1/1000 A, ang : three angles in 1/100 degree, sg : bytes (at most 11), z : 0..9999 (0 = blank)] *)
Cryst1Line(cell) ==
  CRYST1TAG \o Fixed(cell.len[1], 1000, 3, 9) \o Fixed(cell.len[2], 1000, 3, 9) \o Fixed(cell.len[3], 1000, 3, 9)
            \o Fixed(cell.ang[1], 100, 2, 7) \o Fixed(cell.ang[2], 100, 2, 7) \o Fixed(cell.ang[3], 100, 2, 7)
            \o <<32>> \o PadR(cell.sg, 11) \o (IF cell.z = 0 THEN <<>> ELSE PadL(UIntDigits(cell.z), 4))
(* atom: [het, serial, name (bytes, at most 4), res (bytes, 3), seq, x, y, z (1/1000 A), occ, b (1/100), zel] *)
AtomLine(a) ==
  (IF a.het THEN HETATMTAG ELSE ATOMTAG) \o PadL(UIntDigits(a.serial), 5) \o <<32>> \o PadR(a.name, 4) \o <<32>> \o PadR(a.res, 3)
    \o <<32, 65>> \o PadL(UIntDigits(a.seq), 4) \o <<32>> \o Spaces(3)
    \o Fixed(a.x, 1000, 3, 8) \o Fixed(a.y, 1000, 3, 8) \o Fixed(a.z, 1000, 3, 8)
    \o Fixed(a.occ, 100, 2, 6) \o Fixed(a.b, 100, 2, 6) \o Spaces(10) \o PadL(UpperSym(a.zel), 2)
PdbText(cell, atoms) == <<Cryst1Line(cell)>> \o [i \in DOMAIN atoms |-> AtomLine(atoms[i])] \o << <<69, 78, 68>> >>

(* what the loaded crystal must show: loaded = [len, ang (as read back, same units), atoms : [zel, name, x, y, z]] *)
LoadedOK(cell, atoms, loaded) ==
  /\ loaded.len = cell.len /\ loaded.ang = cell.ang
  /\ Len(loaded.atoms) = Len(atoms)
  /\ \A i \in DOMAIN atoms : /\ loaded.atoms[i].zel = atoms[i].zel /\ loaded.atoms[i].name = atoms[i].name
                             /\ loaded.atoms[i].x = atoms[i].x /\ loaded.atoms[i].y = atoms[i].y /\ loaded.atoms[i].z = atoms[i].z
=============================================================================
