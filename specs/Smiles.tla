-------------------------------- MODULE Smiles --------------------------------
(***************************************************************************)
(* The SMILES line notation as a token machine (fmt/smiles.py).  The       *)
(* reader consumes one token at a time; each token is one action on        *)
(*   atoms   the atom symbols read so far, in order                        *)
(*   bonds   <<a, b, kind>>: kind "-" (implicit), "=", "#" between chain   *)
(*           neighbours, "r" for a ring closure                            *)
(*   prev    the atom the next atom will be bonded to (0: none)            *)
(*   stack   the atoms at which the open branches started (innermost last) *)
(*   rings   the open ring-closure numbers and the atom that opened each   *)
(*   pend    the bond symbol waiting for its second atom ("" if none)      *)
(*   last    the class of the token just read                              *)
(* Tokens: an atom of the organic subset (B C N O P S F Cl Br I and the    *)
(* aromatic b c n o p s), a bond symbol - = #, the dot, ( and ), a ring    *)
(* closure digit 0-9 or %nn.  Bracket atoms and a bond symbol in front of  *)
(* a ring closure are outside this module (the reader has no support for   *)
(* them; see DESIGN.md).                                                   *)
(*                                                                         *)
(* A string is well formed when the machine reads all of it and ends with  *)
(* no open branch, no open ring and nothing pending; the molecule it       *)
(* denotes is <<atoms, bonds>> of the final state.                         *)
(*                                                                         *)
(* AsBuilt = TRUE gives the reader as found: one register (reg) instead of *)
(* the stack of branch points, ring numbers never released.                *)
(***************************************************************************)
EXTENDS Naturals, Sequences, FiniteSets, TLC

CONSTANT AsBuilt
Organic == {"B", "C", "N", "O", "P", "S", "F", "Cl", "Br", "I", "b", "c", "n", "o", "p", "s"}
BondSyms == {"-", "=", "#"}
DigitTok == <<"0", "1", "2", "3", "4", "5", "6", "7", "8", "9">>
IsDigit(tok) == \E d \in 1..10 : DigitTok[d] = tok
DigitVal(tok) == (CHOOSE d \in 1..10 : DigitTok[d] = tok) - 1
PercentTok(n) == "%" \o DigitTok[(n \div 10) + 1] \o DigitTok[(n % 10) + 1]        \* %nn, n in 10..99
IsPercent(tok) == \E n \in 10..99 : PercentTok(n) = tok
IsRing(tok) == IsDigit(tok) \/ IsPercent(tok)
RingId(tok) == IF IsDigit(tok) THEN DigitVal(tok) ELSE CHOOSE n \in 10..99 : PercentTok(n) = tok
IsToken(tok) == tok \in Organic \/ tok \in BondSyms \/ tok \in {".", "(", ")"} \/ IsRing(tok)

S0 == [atoms |-> <<>>, bonds |-> <<>>, prev |-> 0, stack |-> <<>>, rings |-> <<>>, pend |-> "", last |-> "start", reg |-> 0,
       ndots |-> 0, nclosed |-> 0, ok |-> TRUE, why |-> ""]
(* why: "syntax" - no SMILES grammar reads the string; "outside" - legitimate or tolerated elsewhere, not read by this module *)
Refuse(s, why) == [s EXCEPT !.ok = FALSE, !.why = why]
Bonded(s, a, b) == \E k \in DOMAIN s.bonds : {s.bonds[k][1], s.bonds[k][2]} = {a, b}
RingOpen(s, id) == \E k \in DOMAIN s.rings : s.rings[k][1] = id
RingAtom(s, id) == s.rings[CHOOSE k \in DOMAIN s.rings : s.rings[k][1] = id][2]
DropRing(s, id) == SelectSeq(s.rings, LAMBDA e : e[1] # id)

ReadAtom(s, sym) ==
  LET n == Len(s.atoms) + 1 IN
  [s EXCEPT !.atoms = Append(@, sym),
            !.bonds = IF s.prev # 0 THEN Append(@, <<s.prev, n, IF s.pend = "" THEN "-" ELSE s.pend>>) ELSE @,
            !.prev = n, !.pend = "", !.last = "atom"]
ReadBond(s, sym) ==
  IF s.prev = 0 \/ s.pend # "" \/ s.last \in {"start", "dot", "bond"} THEN Refuse(s, "syntax")
  ELSE [s EXCEPT !.pend = sym, !.last = "bond"]
ReadDot(s) ==
  IF s.last \in {"start", "dot", "bond"} THEN Refuse(s, "syntax")
  ELSE [s EXCEPT !.prev = 0, !.last = "dot", !.ndots = @ + 1]
ReadOpen(s) ==
  IF s.prev = 0 \/ s.last \notin {"atom", "ring", "close"} THEN Refuse(s, "syntax")
  ELSE [s EXCEPT !.stack = Append(@, s.prev), !.reg = IF AsBuilt THEN s.prev ELSE 0, !.last = "open"]
ReadClose(s) ==
  IF s.stack = <<>> \/ s.last \notin {"atom", "ring", "close"} THEN Refuse(s, "syntax")
  ELSE [s EXCEPT !.prev = IF AsBuilt THEN s.reg ELSE s.stack[Len(s.stack)], !.reg = 0,
                 !.stack = SubSeq(@, 1, Len(@) - 1), !.last = "close"]
ReadRing(s, id) ==
  \* ring closures follow their atom directly (there prev = Len(atoms)); a bond symbol in front of one is SMILES but not read here
  IF s.last \in {"bond", "close"} THEN Refuse(s, "outside") ELSE
  IF s.last \notin {"atom", "ring"} THEN Refuse(s, "syntax")
  ELSE IF RingOpen(s, id) THEN
     (IF RingAtom(s, id) = s.prev \/ Bonded(s, RingAtom(s, id), s.prev) THEN Refuse(s, "outside")
      ELSE [s EXCEPT !.bonds = Append(@, <<RingAtom(s, id), s.prev, "r">>),
                     !.rings = IF AsBuilt THEN @ ELSE DropRing(s, id), !.nclosed = @ + 1, !.last = "ring"])
  ELSE [s EXCEPT !.rings = Append(@, <<id, s.prev>>), !.last = "ring"]

Step(s, tok) ==
  IF ~s.ok THEN s ELSE
  IF tok \in Organic THEN ReadAtom(s, tok) ELSE
  IF tok \in BondSyms THEN ReadBond(s, tok) ELSE
  IF tok = "." THEN ReadDot(s) ELSE
  IF tok = "(" THEN ReadOpen(s) ELSE
  IF tok = ")" THEN ReadClose(s) ELSE
  IF IsRing(tok) THEN ReadRing(s, RingId(tok)) ELSE Refuse(s, "outside")

RECURSIVE RunFrom(_, _, _)
RunFrom(s, toks, k) == IF k > Len(toks) THEN s ELSE RunFrom(Step(s, toks[k]), toks, k + 1)
Run(toks) == RunFrom(S0, toks, 1)
(* as built the closed numbers stay in the table: "open" then means opened and never closed *)
OpenRings(s) == IF AsBuilt THEN {} ELSE {s.rings[k][1] : k \in DOMAIN s.rings}
Accepting(s) == s.ok /\ s.atoms # <<>> /\ s.stack = <<>> /\ OpenRings(s) = {} /\ s.pend = "" /\ s.last \in {"atom", "ring", "close"}
WellFormed(toks) == (\A k \in DOMAIN toks : IsToken(toks[k])) /\ Accepting(Run(toks))
(* no SMILES grammar reads the string: a syntax error on the way, or the end reached with a branch or a ring still open, a bond
   symbol or a dot waiting for its atom, or no atom at all.  Such a string must be refused, not read as some molecule *)
IllFormed(toks) == LET fin == Run(toks) IN (\A k \in DOMAIN toks : IsToken(toks[k])) /\ ((~fin.ok /\ fin.why = "syntax") \/ (fin.ok /\ ~Accepting(fin)))

RECURSIVE TextFrom(_, _)
TextFrom(toks, k) == IF k > Len(toks) THEN "" ELSE toks[k] \o TextFrom(toks, k + 1)
Text(toks) == TextFrom(toks, 1)

(* ---- what every reading must satisfy ----------------------------------------------------------- *)
Pair(b) == IF b[1] < b[2] THEN <<b[1], b[2]>> ELSE <<b[2], b[1]>>
BondSet(bonds) == {<<Pair(bonds[k])[1], Pair(bonds[k])[2], bonds[k][3]>> : k \in DOMAIN bonds}
PairSet(bonds) == {Pair(bonds[k]) : k \in DOMAIN bonds}
BondsSound(s) == /\ \A k \in DOMAIN s.bonds : s.bonds[k][1] \in DOMAIN s.atoms /\ s.bonds[k][2] \in DOMAIN s.atoms /\ s.bonds[k][1] # s.bonds[k][2]
                 /\ Cardinality(PairSet(s.bonds)) = Len(s.bonds)                    \* no pair bonded twice
RegistersSound(s) == /\ s.prev \in 0..Len(s.atoms) /\ \A k \in DOMAIN s.stack : s.stack[k] \in 1..Len(s.atoms)
                     /\ \A k \in DOMAIN s.rings : s.rings[k][2] \in 1..Len(s.atoms)
(* every atom but the first of its component brings one chain bond; every closed ring one more *)
BondCount(s) == (s.atoms # <<>> /\ s.last # "dot") => Len(s.bonds) = Len(s.atoms) - 1 - s.ndots + s.nclosed
RECURSIVE Reach(_, _)
Reach(s, seen) == LET nxt == {a \in DOMAIN s.atoms : a \notin seen /\ \E b \in seen : Bonded(s, a, b)}
                  IN IF nxt = {} THEN seen ELSE Reach(s, seen \cup nxt)
Connected(s) == s.atoms = <<>> \/ Reach(s, {1}) = DOMAIN s.atoms
(* a well-formed string without a dot denotes one connected molecule *)
DotlessConnected(s) == (Accepting(s) /\ s.ndots = 0) => Connected(s)
=============================================================================
