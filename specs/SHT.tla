--------------------------------- MODULE SHT ---------------------------------
(***************************************************************************)
(* Spherical harmonic transform of chmpy/shape/sht.py (+ _sht.pyx).        *)
(*                                                                         *)
(* A band-limited function of maximum degree L is its exact coefficient    *)
(* vector over the Gaussian integers (orthonormal, Condon-Shortley phase)  *)
(*   kind = "cplx": one coefficient per (l,m), -l <= m <= l                *)
(*   kind = "real": real-valued function, coefficients for m >= 0 only,    *)
(*                  c(l,0) real, c(l,-m) = (-1)^m conj c(l,m) implied      *)
(* plus a representation tag saying in which form the harness currently    *)
(* holds it: "creal" (m-major packed layout of a real transform), "ccplx"  *)
(* (l(l+1)+m layout of a complex transform) or "grid" (samples on the      *)
(* Gauss-Legendre x equispaced grid).  Every API call moves the function   *)
(* from one representation to another without changing it, so the expected *)
(* observation of every call is a function of `func` alone.                *)
(*                                                                         *)
(* Discrete content stated exactly here: sizes, the two index layouts, the *)
(* grid-size rule and its sufficiency condition, Complete, Power, Scale,   *)
(* Add, Parseval on integers.  Values of Y_lm are data (scipy reference,   *)
(* fixed point); the linear algebra on them is done here.                  *)
(***************************************************************************)
EXTENDS Integers, Sequences, FiniteSets, SequencesExt, BigInt

(* ---- Gaussian integers <<re, im>>; magnitudes stay below 2^15 ---------- *)
GZero == <<0, 0>>
GAdd(a, b) == <<a[1] + b[1], a[2] + b[2]>>
GScale(k, a) == <<k * a[1], k * a[2]>>
GConj(a) == <<a[1], -a[2]>>
GNorm2(a) == a[1] * a[1] + a[2] * a[2]
AbsI(x) == IF x < 0 THEN -x ELSE x
MaxI2(a, b) == IF a > b THEN a ELSE b
ParitySign(m) == IF m % 2 = 0 THEN 1 ELSE -1

(* sums and maxima as left folds (SequencesExt!FoldLeft is iterative in TLC: no recursion depth, *)
(* about 2 us per element; RECURSIVE operators cost about 5 times more)                          *)
ISum(s) == FoldLeft(LAMBDA a, b : a + b, 0, s)                  \* s: sequence of integers
IMax(s) == FoldLeft(LAMBDA a, b : IF a > b THEN a ELSE b, 0, s)  \* of non-negative integers
RECURSIVE ISqrtR(_, _, _)
ISqrtR(n, lo, hi) == IF lo = hi THEN lo
                     ELSE LET mid == (lo + hi + 1) \div 2
                          IN IF mid * mid <= n THEN ISqrtR(n, mid, hi) ELSE ISqrtR(n, lo, mid - 1)
ISqrt(n) == ISqrtR(n, 0, 127)             \* floor(sqrt(n)), n < 2^14

(* ---- sizes and layouts (1-based positions of the 0-based code indices) -- *)
MaxL == 64
NLM(L) == (L + 1) * (L + 1)                      \* SHT.nlm
NPLM(L) == ((L + 1) * (L + 2)) \div 2            \* SHT.nplm
IdxCplx(l, m) == l * (l + 1) + m + 1             \* SHT.idx_c + 1
(* m-major packing used by the real kernels: for m in 0..L: for l in m..L *)
IdxReal(L, l, m) == m * (L + 1) - (m * (m - 1)) \div 2 + (l - m) + 1
ChanCplx(L) == {lm \in (0..L) \X (-L..L) : AbsI(lm[2]) <= lm[1]}
ChanReal(L) == {lm \in (0..L) \X (0..L) : lm[2] <= lm[1]}
(* the order in which the real kernels walk plm_idx *)
RealOrder(L) == FlattenSeq([mm \in 1..(L + 1) |-> [ll \in 1..(L + 2 - mm) |-> <<mm + ll - 2, mm - 1>>]])
(* the order of the complex layout *)
CplxOrder(L) == FlattenSeq([ll \in 1..(L + 1) |-> [mm \in 1..(2 * ll - 1) |-> <<ll - 1, mm - ll>>]])
LOfCplx(i) == ISqrt(i - 1)
MOfCplx(i) == (i - 1) - LOfCplx(i) * (LOfCplx(i) + 1)

Size(L, layout) == IF layout = "creal" THEN NPLM(L) ELSE NLM(L)
Native(kind) == IF kind = "real" THEN "creal" ELSE "ccplx"
(* a real-kind vector must have real m = 0 coefficients *)
RealFuncOK(L, c) == \A l \in 0..L : c[IdxReal(L, l, 0)][2] = 0
FuncOK(L, kind, c) == /\ Len(c) = Size(L, Native(kind))
                      /\ (kind = "real" => RealFuncOK(L, c))

(* ---- grid-size rule ------------------------------------------------------ *)
(* Sufficiency (the property): the phi sums are exact Fourier sums for |m| <= L iff the     *)
(* 2L+1 modes are distinct mod nphi; Gauss-Legendre with n nodes is exact to degree 2n-1    *)
(* and the theta integrand has degree <= 2L.                                                 *)
GridSufficient(L, nphi, ntheta) == nphi >= 2 * L + 1 /\ 2 * ntheta - 1 >= 2 * L

(* the code's own rule, transcribed step by step (sht.py:13-44, 65-82) *)
RECURSIVE NextPow2R(_, _)
NextPow2R(i, n) == IF i < n THEN NextPow2R(2 * i, n) ELSE i
NextPow2(n) == NextPow2R(1, n)
RECURSIVE Strip(_, _)
Strip(n, p) == IF n % p = 0 THEN Strip(n \div p, p) ELSE n
Smooth7(n) == Strip(Strip(Strip(Strip(n, 2), 3), 5), 7) = 1       \* "f == n" at loop exit
RECURSIVE SearchSmooth(_)
SearchSmooth(n) == IF Smooth7(n) THEN n ELSE SearchSmooth(n + 2)  \* n += 2 until f == n
ClosestSmooth7(n) ==
  IF n <= 7 THEN n
  ELSE LET n0 == n - (2 - (n % 2))                \* n -= 2 - (n & 1): even from here on
           n1 == SearchSmooth(n0 + 2)
           k == NextPow2(n1)
       IN IF (k - n1) * 33 < n1 THEN k ELSE n1   \* prefer a power of two within 3 percent
NPhiRule(L) == ClosestSmooth7(2 * L + 1)
NThetaRule(L) == LET n == L + 1
                     n2 == n + (n % 2)
                 IN ((n2 + 7) \div 8) * 8

(* ---- Complete: real layout -> full complex layout ------------------------ *)
(* declarative: c(l,m) for m >= 0 copied, c(l,-m) = (-1)^m conj c(l,m) *)
Complete(L, c) ==
  LET co == CplxOrder(L)
      d == [i \in 1..NLM(L) |->
             LET l == co[i][1]
                 m == co[i][2]
             IN IF m >= 0 THEN c[IdxReal(L, l, m)]
                ELSE GScale(ParitySign(m), GConj(c[IdxReal(L, l, -m)]))]
  IN SubSeq(d, 1, NLM(L))                        \* (SubSeq makes TLC evaluate the function once)
(* algorithm-shaped (expand_coeffs_cython): one loop over plm_idx writing two slots *)
Unset == <<0, 0, 0>>                              \* np.empty: a slot never written
CompleteStep(out, c, k, lm) ==
  LET l == lm[1]
      m == lm[2]
      o == l * (l + 1) + 1
      a == [out EXCEPT ![o + m] = c[k]]
  IN IF m = 0 THEN a ELSE [a EXCEPT ![o - m] = GScale(ParitySign(m), GConj(c[k]))]
CompleteAlg(L, c) ==
  LET ord == RealOrder(L)
      RECURSIVE Go(_, _)
      Go(out, k) == IF k > Len(ord) THEN out ELSE Go(CompleteStep(out, c, k, ord[k]), k + 1)
  IN Go([i \in 1..NLM(L) |-> Unset], 1)
ToRealLayout(L, d) == LET ord == RealOrder(L) IN [k \in 1..NPLM(L) |-> d[IdxCplx(ord[k][1], ord[k][2])]]
Hermitian(L, d) == \A lm \in ChanCplx(L) :
   d[IdxCplx(lm[1], -lm[2])] = GScale(ParitySign(lm[2]), GConj(d[IdxCplx(lm[1], lm[2])]))

(* the vector a representation must show *)
Rep(L, kind, func, layout) == IF kind = "real" /\ layout = "ccplx" THEN Complete(L, func) ELSE func

(* ---- Scale, Add ----------------------------------------------------------- *)
Scale(k, c) == [i \in DOMAIN c |-> GScale(k, c[i])]
Add(c, g) == [i \in DOMAIN c |-> GAdd(c[i], g[i])]
Combine(k, c, g) == Add(Scale(k, c), g)
MaxAbs(c) == IMax([i \in DOMAIN c |-> MaxI2(AbsI(c[i][1]), AbsI(c[i][2]))])
SumAbs(c) == ISum([i \in DOMAIN c |-> AbsI(c[i][1]) + AbsI(c[i][2])])

(* ---- Power: (2l+1) * power_spectrum[l] = sum over all m of |c(l,m)|^2 ---- *)
P2Cplx(d, l) == ISum([j \in 1..(2 * l + 1) |-> GNorm2(d[IdxCplx(l, j - l - 1)])])
P2Real(L, c, l) == GNorm2(c[IdxReal(L, l, 0)])
                   + 2 * ISum([m \in 1..l |-> GNorm2(c[IdxReal(L, l, m)])])
P2(L, kind, func, l) == IF kind = "real" THEN P2Real(L, func, l) ELSE P2Cplx(func, l)
Energy(L, kind, func) == ISum([l1 \in 1..(L + 1) |-> P2(L, kind, func, l1 - 1)])   \* integral of |f|^2 (Parseval)
(* algorithm-shaped numerators of SHT.power_spectrum *)
PowerRealAlg(L, c) ==          \* np.add.at over pattern = concat(arange(m, L+1)), doubled past the boundary
  LET ord == RealOrder(L)
      RECURSIVE Go(_, _)
      Go(sp, k) == IF k > Len(ord) THEN sp
                   ELSE Go([sp EXCEPT ![ord[k][1] + 1] = @ + (IF k <= L + 1 THEN 1 ELSE 2) * GNorm2(c[k])], k + 1)
  IN Go([l \in 1..(L + 1) |-> 0], 1)
PowerCplxAlg(L, d) ==          \* idx += count slices
  LET RECURSIVE Go(_, _, _)
      Go(sp, l, idx) == IF l > L THEN sp
                        ELSE Go(Append(sp, ISum([j \in 1..(2 * l + 1) |-> GNorm2(d[idx + j])])),
                                l + 1, idx + 2 * l + 1)
  IN Go(<<>>, 0, 0)

(* ---- fixed point: <<h2, h1, h0>> = (h2*2^40 + h1*2^20 + h0) / 2^40 ------- *)
(* h1, h0 in 0..2^20-1, h2 signed (floor), |h2| < 2^20. One quantum = 2^-40. *)
FB == 1048576
FxZero == <<0, 0, 0>>
FxNorm(a2, a1, a0) == LET b1 == a1 + (a0 \div FB) IN <<a2 + (b1 \div FB), b1 % FB, a0 % FB>>
FxAdd(x, y) == FxNorm(x[1] + y[1], x[2] + y[2], x[3] + y[3])
FxSub(x, y) == FxNorm(x[1] - y[1], x[2] - y[2], x[3] - y[3])
FxNeg(x) == FxNorm(-x[1], -x[2], -x[3])
FxScale(k, x) == FxNorm(k * x[1], k * x[2], k * x[3])              \* |k| < 1000
FxAbs(x) == IF x[1] < 0 THEN FxNeg(x) ELSE x
FxInt(n) == <<n, 0, 0>>
FxLe(x, y) == FxSub(y, x)[1] >= 0
FxMax(x, y) == IF FxLe(x, y) THEN y ELSE x
FxWell(x) == x[2] \in 0..(FB - 1) /\ x[3] \in 0..(FB - 1) /\ x[1] \in (-FB)..FB
FxSum(s) == FoldLeft(LAMBDA a, b : FxAdd(a, b), FxZero, s)       \* s: sequence of fixed-point numbers
FxMaxOf(s) == FoldLeft(LAMBDA a, b : FxMax(a, b), FxZero, s)     \* of non-negative ones
(* observations are flat: <<r2,r1,r0>> (real) or <<r2,r1,r0,i2,i1,i0>> (complex) *)
ObsRe(o) == <<o[1], o[2], o[3]>>
ObsIm(o) == IF Len(o) = 6 THEN <<o[4], o[5], o[6]>> ELSE FxZero
ObsWell(o) == Len(o) \in {3, 6} /\ FxWell(ObsRe(o)) /\ FxWell(ObsIm(o))

(* Slack.  RelBits = 30: 2^-30 (9.3e-10) of the reference magnitude M, in quanta:            *)
(* M * 2^40 * 2^-30 = M[1]*2^10 + M[2]/2^10.  Measured float noise of the unchanged tree is  *)
(* < 1e-12 of M (L <= 64); the mutants of mutants/C07_* change values by O(M).               *)
RelQuanta(M) == M[1] * 1024 + M[2] \div 1024
AbsQuanta == 4
Within(x, y, tol) ==                                       \* |x - y| <= tol quanta, tol < 2^30
  \/ x = y
  \/ /\ FxWell(x)
     /\ LET d == FxAbs(FxSub(x, y)) IN d[1] = 0 /\ d[2] < 1024 /\ d[2] * FB + d[3] <= tol
ObsWithin(o, re, im, tol) ==
  \/ Len(o) = 6 /\ o = <<re[1], re[2], re[3], im[1], im[2], im[3]>>       \* fast path: equal to the quantum
  \/ Len(o) \in {3, 6} /\ Within(ObsRe(o), re, tol) /\ Within(ObsIm(o), im, tol)

(* ---- linear algebra on reference harmonics -------------------------------- *)
(* chan: sequence of <<l, m>> (native channels of `kind`); Y: one flat complex fixed-point   *)
(* value of Y_lm at the point per channel.  |coefficient| <= 500, so a limb product stays    *)
(* below 2^31.  Returns <<Re, Im>> of  sum c_lm Y_lm  (real kind: c_l0 Y_l0 + 2 Re sum_{m>0}). *)
Value(L, kind, func, chan, Y) ==
  LET n == Len(chan)
      co(k) == IF kind = "real" THEN func[IdxReal(L, chan[k][1], chan[k][2])]
               ELSE func[IdxCplx(chan[k][1], chan[k][2])]
      wt(k) == IF kind = "real" /\ chan[k][2] # 0 THEN 2 ELSE 1
      re == FxSum([k \in 1..n |->
              LET a == wt(k) * co(k)[1]
                  b == wt(k) * co(k)[2]
                  y == Y[k]
              IN FxNorm(a * y[1] - b * y[4], a * y[2] - b * y[5], a * y[3] - b * y[6])])
      im == IF kind = "real" THEN FxZero
            ELSE FxSum([k \in 1..n |->
              LET a == co(k)[1]
                  b == co(k)[2]
                  y == Y[k]
              IN FxNorm(a * y[4] + b * y[1], a * y[5] + b * y[2], a * y[6] + b * y[3])])
  IN <<re, im>>
(* every channel where func is non-zero has a reference column *)
Covered(L, kind, func, chan) ==
  LET S == {(IF kind = "real" THEN IdxReal(L, chan[k][1], chan[k][2]) ELSE IdxCplx(chan[k][1], chan[k][2])) : k \in DOMAIN chan}
  IN /\ Cardinality(S) = Len(chan)
     /\ \A i \in DOMAIN func : func[i] # GZero => i \in S
ChanOK(L, kind, chan) == \A k \in DOMAIN chan :
   chan[k] \in (IF kind = "real" THEN ChanReal(L) ELSE ChanCplx(L))
(* the function has a phi-dependent part (input class of finding C07-evalat-phi) *)
HasAzimuthal(L, kind, func) ==
  \E i \in DOMAIN func : func[i] # GZero /\
     (IF kind = "real" THEN i > L + 1 ELSE MOfCplx(i) # 0)

(* ---- Parseval on the full grid (BigInt) ------------------------------------ *)
(* sum_i w_i * sum_j |f_ij|^2 = nphi * Energy, with w_i the Gauss-Legendre weights scaled to  *)
(* sum 4 pi (as SHT.weights).  vals: row-major flat observations, w: one fixed point per row. *)
B2p20 == BFromInt(FB)
B2p30 == BFromInt(1073741824)
B2p40 == BMul(B2p20, B2p20)
B2p120 == BMul(BMul(B2p40, B2p40), B2p40)
FxBig(x) == BAdd(BMul(BFromInt(x[1]), B2p40), BAdd(BMul(BFromInt(x[2]), B2p20), BFromInt(x[3])))
BSum(s) == FoldLeft(LAMBDA a, b : BAdd(a, b), BZero, s)
ObsNorm2Big(o) == LET r == FxBig(ObsRe(o))
                      i == FxBig(ObsIm(o))
                  IN BAdd(BMul(r, r), BMul(i, i))
ParsevalLHS(vals, w, ntheta, nphi) ==
  BSum([i \in 1..ntheta |->
          BMul(FxBig(w[i]), BSum([j \in 1..nphi |-> ObsNorm2Big(vals[(i - 1) * nphi + j])]))])
ParsevalRHS(E, nphi) == BMul(BFromInt(nphi * E), B2p120)
(* relative 2^-28 (squares double the relative error), absolute 2^-28 in units of 2^-120 *)
ParsevalHolds(vals, w, ntheta, nphi, E) ==
  LET lhs == ParsevalLHS(vals, w, ntheta, nphi)
      rhs == ParsevalRHS(E, nphi)
  IN BLe(BMul(BAbs(BSub(lhs, rhs)), BFromInt(268435456)), BAdd(rhs, BMul(B2p40, B2p40)))

(* ---- the representation state machine ------------------------------------- *)
Tags == {"creal", "ccplx", "grid"}
CoeffTag(tag) == tag \in {"creal", "ccplx"}
Events == {"Load", "Sample", "Synthesis", "SynthesisPP", "Analysis", "AnalysisPP", "EvalAt",
           "Complete", "PowerSpectrum", "Combine"}
(* which calls make sense in which representation *)
EnabledEv(ev, tag, kind, gcx, as) ==
  CASE ev \in {"Load", "Sample", "Combine"} -> TRUE
    [] ev \in {"Synthesis", "SynthesisPP", "EvalAt", "PowerSpectrum"} -> CoeffTag(tag)
    [] ev \in {"Analysis", "AnalysisPP"} -> tag = "grid" /\ (as = "real" => (kind = "real" /\ ~gcx))
    [] ev = "Complete" -> tag = "creal"
    [] OTHER -> FALSE
TagAfter(ev, tag, kind, as) ==
  CASE ev = "Load" -> Native(kind)
    [] ev \in {"Sample", "Synthesis", "SynthesisPP"} -> "grid"
    [] ev \in {"Analysis", "AnalysisPP"} -> (IF as = "real" THEN "creal" ELSE "ccplx")
    [] ev = "Complete" -> "ccplx"
    [] OTHER -> tag
=============================================================================
