---------------------------- MODULE CrystalObject ----------------------------
(***************************************************************************)
(* A Crystal as a stateful object: structural state (setting, cell, sites) *)
(* that choose_trigonal_lattice changes in place, read-only queries whose  *)
(* results the implementation memoises in private attributes, deep copies. *)
(* This is the natural home of property C14: every answer must be the one  *)
(* a fresh object with the same structural state would give.               *)
(*                                                                         *)
(* Two designs are written side by side:                                   *)
(*  - the specification (Query / Switch / DeepCopy): a query answers from   *)
(*    the current state; a switch replaces the state (and, in memo terms,   *)
(*    invalidates everything);                                              *)
(*  - the design found at the pinned commit (QueryAsBuilt /                 *)
(*    SwitchNoInvalidate): memo entries survive a switch, and the cif_data  *)
(*    dictionary kept from loading is only partly refreshed on export.      *)
(* MC_CrystalObject checks both; traces of real objects are validated       *)
(* against the specification, and the as-built variables are carried along  *)
(* only to *classify* a rejection (stale memo) for known_findings.          *)
(*                                                                         *)
(* The structural state is exact (see Reexpress.tla).  Answers are opaque   *)
(* digests: F(q, state) is not computed here (C01, C03, C04 do that); the   *)
(* spec demands that all answers to the same (q, state) coincide, whoever   *)
(* gives them and whenever - including the fresh object built by the        *)
(* harness (observation register `known`).                                  *)
(***************************************************************************)
EXTENDS Reexpress

(* memo keys of the implementation and the queries that read them *)
MemoKeys == {"uc", "graph", "mols", "uniq", "cif"}
QueryNames == {"unit_cell_atoms", "slab", "unit_cell_connectivity", "unit_cell_molecules", "symmetry_unique_molecules",
               "atoms_in_radius", "atomic_surroundings", "molecule_environments", "density", "to_cif_string",
               "to_shelx_string", "to_poscar_string", "as_P1", "cartesian_symmetry_operations", "as_P1_supercell",
               "to_translational_symmetry", "molecular_shell", "symmetry_unique_dimers"}
(* which memos a query reads (and fills when empty) at the pinned commit *)
Deps(q) ==
  CASE q \in {"unit_cell_atoms", "slab", "atoms_in_radius", "atomic_surroundings", "density", "to_poscar_string"} -> {"uc"}
    [] q = "unit_cell_connectivity" -> {"uc", "graph"}
    [] q \in {"unit_cell_molecules", "as_P1", "as_P1_supercell", "to_translational_symmetry"} -> {"uc", "graph", "mols"}
    [] q \in {"symmetry_unique_molecules", "molecule_environments", "molecular_shell", "symmetry_unique_dimers"} -> {"uc", "graph", "mols", "uniq"}
    [] q = "to_cif_string" -> {"cif"}
    [] OTHER -> {}
NoMemo == [k \in MemoKeys |-> <<>>]          \* <<>> = empty, <<state>> = filled while the object was in that state

(* ---- the specification --------------------------------------------------- *)
(* st : object id -> structural state;  memo : id -> key -> <<>> | <<state at fill time>>
   (memo is the as-built bookkeeping; the specification never lets it go stale) *)
(* normalize_hydrogen_bondlengths is the other in-place state change of the API: every hydrogen bonded to C, N, O or B is
   moved along its bond to the neutron X-H distance, nothing else moves.  The new positions are not on the exact grid: from
   then on the state of the object is known by its signature only (a digest of the exact floats of cell and coordinates) -
   an "opaque" state [choice, opq].  What the specification says about an opaque state is what it says about any state:
   queries leave it alone and answer as a fresh object in that state would; a switch to the setting the object is in
   leaves it alone, a switch to the other one produces a new state. *)
NeutronXH1000 == (6 :> 1083 @@ 7 :> 1009 @@ 8 :> 983 @@ 5 :> 1180)
IsOpaque(s) == "opq" \in DOMAIN s
Opaque(choice, sig) == [choice |-> choice, opq |-> sig]
(* atoms: per asymmetric-unit atom [z, moved, xz (element it is bonded to, 0 if none, -1 if the structure does not say), len1000 (that bond length x 1000)] *)
NormalizeClause(atoms) ==
  IF \E i \in DOMAIN atoms : atoms[i].z # 1 /\ atoms[i].moved THEN "HeavyAtomMoved" ELSE
  IF \E i \in DOMAIN atoms : atoms[i].z = 1 /\ atoms[i].xz # -1 /\ atoms[i].xz \notin DOMAIN NeutronXH1000 /\ atoms[i].moved THEN "UnlistedHydrogenMoved" ELSE
  IF \E i \in DOMAIN atoms : atoms[i].z = 1 /\ atoms[i].xz \in DOMAIN NeutronXH1000
                              /\ (atoms[i].len1000 - NeutronXH1000[atoms[i].xz] > 1 \/ NeutronXH1000[atoms[i].xz] - atoms[i].len1000 > 1)
     THEN "BondLength" ELSE ""
SpecQuery(st, i, q) == st                                  \* queries do not change the state
SpecSwitch(st, i, ch) == [st EXCEPT ![i] = IF IsOpaque(st[i]) THEN (IF st[i].choice = ch THEN st[i] ELSE Opaque(ch, <<ch, st[i].opq>>))
                                             ELSE SwitchTrigonal(st[i], ch)]
(* design level: the normalised state of s is a state of its own (idempotent) *)
SpecNormalize(st, i) == [st EXCEPT ![i] = IF IsOpaque(st[i]) THEN st[i] ELSE Opaque(st[i].choice, st[i])]
(* a request the object cannot honour - a setting switch on a group without hexagonal/rhombohedral choices, or a choice
   that is neither H nor R - is refused (with or without an exception) and leaves the object as it was *)
HasHRChoices(number) == number \in {146, 148, 155, 160, 161, 166, 167}
MustRefuse(number, ch) == ~HasHRChoices(number) \/ ch \notin {"H", "R"}
SpecRefused(st, i) == st
SpecCopy(st, i, j) == [k \in DOMAIN st \cup {j} |-> IF k = j THEN st[i] ELSE st[k]]

(* as built: a query fills the memos it reads if empty; a switch leaves them; "cif" is filled at load time *)
FillMemo(memo, st, i, q) ==
  [memo EXCEPT ![i] = [k \in MemoKeys |-> IF k \in Deps(q) /\ k # "cif" /\ memo[i][k] = <<>> THEN <<st[i]>> ELSE memo[i][k]]]
InvalidateMemo(memo, i) == [memo EXCEPT ![i] = NoMemo]
(* would the pinned commit answer from a memo filled in another state? *)
Stale(memo, st, i, q) == \E k \in Deps(q) : memo[i][k] # <<>> /\ memo[i][k] # <<st[i]>>
=============================================================================
