---------------------------- MODULE CrystalObject ----------------------------
(***************************************************************************)
(* A Crystal as a stateful object: structural state (setting, cell, sites) *)
(* that choose_trigonal_lattice changes in place, read-only queries whose  *)
(* results the implementation memoises in private attributes, deep copies. *)
(* This is the natural home of property C14: every answer must be the one  *)
(* a fresh object with the same structural state would give.               *)
(*                                                                         *)
(* Two designs are written side by side:                                   *)
(*  - the specification (Query / Switch / DeepCopy): a query answers from   *)
(*    the current state; a switch replaces the state (and, in memo terms,   *)
(*    invalidates everything);                                              *)
(*  - the design found at the pinned commit (QueryAsBuilt /                 *)
(*    SwitchNoInvalidate): memo entries survive a switch, and the cif_data  *)
(*    dictionary kept from loading is only partly refreshed on export.      *)
(* MC_CrystalObject checks both; traces of real objects are validated       *)
(* against the specification, and the as-built variables are carried along  *)
(* only to *classify* a rejection (stale memo) for known_findings.          *)
(*                                                                         *)
(* The structural state is exact (see Reexpress.tla).  Answers are opaque   *)
(* digests: F(q, state) is not computed here (C01, C03, C04 do that); the   *)
(* spec demands that all answers to the same (q, state) coincide, whoever   *)
(* gives them and whenever - including the fresh object built by the        *)
(* harness (observation register `known`).                                  *)
(***************************************************************************)
EXTENDS Reexpress

(* memo keys of the implementation and the queries that read them *)
MemoKeys == {"uc", "graph", "mols", "uniq", "cif"}
QueryNames == {"unit_cell_atoms", "slab", "unit_cell_connectivity", "unit_cell_molecules", "symmetry_unique_molecules",
               "atoms_in_radius", "atomic_surroundings", "molecule_environments", "density", "to_cif_string",
               "to_shelx_string", "to_poscar_string", "as_P1", "cartesian_symmetry_operations", "as_P1_supercell",
               "to_translational_symmetry", "molecular_shell", "symmetry_unique_dimers"}
(* which memos a query reads (and fills when empty) at the pinned commit *)
Deps(q) ==
  CASE q \in {"unit_cell_atoms", "slab", "atoms_in_radius", "atomic_surroundings", "density", "to_poscar_string"} -> {"uc"}
    [] q = "unit_cell_connectivity" -> {"uc", "graph"}
    [] q \in {"unit_cell_molecules", "as_P1", "as_P1_supercell", "to_translational_symmetry"} -> {"uc", "graph", "mols"}
    [] q \in {"symmetry_unique_molecules", "molecule_environments", "molecular_shell", "symmetry_unique_dimers"} -> {"uc", "graph", "mols", "uniq"}
    [] q = "to_cif_string" -> {"cif"}
    [] OTHER -> {}
NoMemo == [k \in MemoKeys |-> <<>>]          \* <<>> = empty, <<state>> = filled while the object was in that state

(* ---- the specification --------------------------------------------------- *)
(* st : object id -> structural state;  memo : id -> key -> <<>> | <<state at fill time>>
   (memo is the as-built bookkeeping; the specification never lets it go stale) *)
SpecQuery(st, i, q) == st                                  \* queries do not change the state
SpecSwitch(st, i, ch) == [st EXCEPT ![i] = SwitchTrigonal(st[i], ch)]
(* a request the object cannot honour - a setting switch on a group without hexagonal/rhombohedral choices, or a choice
   that is neither H nor R - is refused (with or without an exception) and leaves the object as it was *)
HasHRChoices(number) == number \in {146, 148, 155, 160, 161, 166, 167}
MustRefuse(number, ch) == ~HasHRChoices(number) \/ ch \notin {"H", "R"}
SpecRefused(st, i) == st
SpecCopy(st, i, j) == [k \in DOMAIN st \cup {j} |-> IF k = j THEN st[i] ELSE st[k]]

(* as built: a query fills the memos it reads if empty; a switch leaves them; "cif" is filled at load time *)
FillMemo(memo, st, i, q) ==
  [memo EXCEPT ![i] = [k \in MemoKeys |-> IF k \in Deps(q) /\ k # "cif" /\ memo[i][k] = <<>> THEN <<st[i]>> ELSE memo[i][k]]]
InvalidateMemo(memo, i) == [memo EXCEPT ![i] = NoMemo]
(* would the pinned commit answer from a memo filled in another state? *)
Stale(memo, st, i, q) == \E k \in Deps(q) : memo[i][k] # <<>> /\ memo[i][k] # <<st[i]>>
=============================================================================
