---------------------------- MODULE Reflections ----------------------------
(***************************************************************************)
(* The reflections of a crystal inside the limiting sphere                 *)
(* (crystal/sfac/__init__.py: reflections, Crystal.unique_reflections).    *)
(*                                                                         *)
(* A reflection hkl has the scattering vector G = h a* + k b* + l c* (rows *)
(* of the reciprocal lattice M); at wavelength lambda exactly the          *)
(* reflections with |G| <= 2/lambda can be observed.  On a cell whose      *)
(* reciprocal lattice is an integer unimodular matrix the set is finite    *)
(* and exact:  hkl = g M^-1  for the integer vectors g with |g|^2 <= K,    *)
(* K = floor((2/lambda)^2).  The list is therefore closed under hkl ->     *)
(* -hkl (Friedel mates), has no duplicates, carries G = hkl M and          *)
(* q = |G|, and - when sorted - is in non-decreasing order of q.           *)
(***************************************************************************)
EXTENDS Integers, FiniteSets, Sequences

Ix == 1..3
VecMat(v, M) == [j \in Ix |-> v[1] * M[1][j] + v[2] * M[2][j] + v[3] * M[3][j]]
Norm2(g) == g[1] * g[1] + g[2] * g[2] + g[3] * g[3]
MatMul3(A, B) == [i \in Ix |-> [j \in Ix |-> A[i][1] * B[1][j] + A[i][2] * B[2][j] + A[i][3] * B[3][j]]]
Id3 == <<<<1, 0, 0>>, <<0, 1, 0>>, <<0, 0, 1>>>>
Inverses(M, Minv) == MatMul3(M, Minv) = Id3 /\ MatMul3(Minv, M) = Id3

RECURSIVE ISqrt(_, _)
ISqrt(n, r) == IF (r + 1) * (r + 1) > n THEN r ELSE ISqrt(n, r + 1)
Ball(K) == LET r == ISqrt(K, 0) IN {g \in (-r..r) \X (-r..r) \X (-r..r) : Norm2(g) <= K}
(* all reflections inside the sphere of squared radius K *)
Expected(Minv, K) == {VecMat(g, Minv) : g \in Ball(K)}

Neg(v) == [j \in Ix |-> -v[j]]
FriedelClosed(S) == \A v \in S : Neg(v) \in S
SeqSet(s) == {s[i] : i \in DOMAIN s}
(* the observed list: hkl rows, G rows (integers here), squared lengths *)
ListOK(hkl, G, q2, M) ==
  /\ Len(G) = Len(hkl) /\ Len(q2) = Len(hkl)
  /\ \A i \in DOMAIN hkl : G[i] = VecMat(hkl[i], M) /\ q2[i] = Norm2(G[i])
Sorted(q2) == \A i \in 1..(Len(q2) - 1) : q2[i] <= q2[i + 1]
=============================================================================
