------------------------------- MODULE Mol2File -------------------------------
(***************************************************************************)
(* Tripos .mol2 files as a source of molecules (fmt/mol2.py,               *)
(* Molecule.from_mol2_string).  The records the reader uses:               *)
(*   @<TRIPOS>MOLECULE   name / counts / type / charge type (not used)     *)
(*   @<TRIPOS>ATOM       id name x y z type [subst_id subst_name charge]   *)
(*                       blank-separated; the type is a SYBYL atom type:   *)
(*                       an element symbol, possibly followed by ".xyz"    *)
(*                       (C.3, C.ar, N.pl3, O.co2, Cl, Fe)                 *)
(*   @<TRIPOS>BOND       id origin target type, type one of                *)
(*                       1 2 3 am ar du un nc  (nc: not connected)         *)
(* Coordinates are carried as integers in 1/10000 A (written F10.4).       *)
(* The molecule read from the file has the listed atoms - element of the   *)
(* type, label = atom name, coordinates as written - and a bond for every  *)
(* BOND record whose type is not nc.                                       *)
(***************************************************************************)
EXTENDS MolFormats

TAG(name) == <<64, 60, 84, 82, 73, 80, 79, 83, 62>> \o name              \* "@<TRIPOS>" name
MOLECULE == <<77, 79, 76, 69, 67, 85, 76, 69>>
ATOMW == <<65, 84, 79, 77>>
BONDW == <<66, 79, 78, 68>>
F4(v) ==                                    \* integer v = value * 10^4, written with four decimals
  LET a == IF v < 0 THEN -v ELSE v
      fr == UIntDigits(a % 10000)
  IN (IF v < 0 THEN <<45>> ELSE <<>>) \o UIntDigits(a \div 10000) \o <<46>> \o [i \in 1..(4 - Len(fr)) |-> 48] \o fr
(* atom: [name (bytes), x, y, z, zel, suffix (bytes, e.g. ".ar" or empty)];  bond: [a, b, type (bytes)] *)
AtomRecord(k, a) == PadL(UIntDigits(k), 7) \o <<32>> \o PadR(a.name, 8) \o PadL(F4(a.x), 10) \o PadL(F4(a.y), 10) \o PadL(F4(a.z), 10)
                    \o <<32>> \o PadR(SymTab[a.zel] \o a.suffix, 6) \o <<32, 32, 49, 32, 32, 76, 73, 71, 49>> \o PadL(F4(0), 10)
BondRecord(k, b) == PadL(UIntDigits(k), 6) \o PadL(UIntDigits(b.a), 6) \o PadL(UIntDigits(b.b), 6) \o <<32, 32, 32>> \o b.type
Mol2Text(name, atoms, bonds) ==
  <<TAG(MOLECULE), name, <<32>> \o UIntDigits(Len(atoms)) \o <<32>> \o UIntDigits(Len(bonds)) \o <<32, 49, 32, 48, 32, 48>>,
    <<83, 77, 65, 76, 76>>, <<78, 79, 95, 67, 72, 65, 82, 71, 69, 83>>, <<>>, TAG(ATOMW)>>
  \o [i \in DOMAIN atoms |-> AtomRecord(i, atoms[i])]
  \o <<TAG(BONDW)>> \o [j \in DOMAIN bonds |-> BondRecord(j, bonds[j])]

NC == <<110, 99>>
BondTypes == {<<49>>, <<50>>, <<51>>, <<97, 109>>, <<97, 114>>, <<100, 117>>, <<117, 110>>, NC}
Connected(bonds) == {<<bonds[j].a, bonds[j].b>> : j \in {k \in DOMAIN bonds : bonds[k].type # NC}}
Unordered(S) == {IF pr[1] < pr[2] THEN pr ELSE <<pr[2], pr[1]>> : pr \in S}
(* loaded = [atoms : [zel, name, x, y, z], bonds : sequence of <<a, b>>] *)
LoadedOK(atoms, bonds, loaded) ==
  /\ Len(loaded.atoms) = Len(atoms)
  /\ \A i \in DOMAIN atoms : /\ loaded.atoms[i].zel = atoms[i].zel /\ loaded.atoms[i].name = atoms[i].name
                             /\ loaded.atoms[i].x = atoms[i].x /\ loaded.atoms[i].y = atoms[i].y /\ loaded.atoms[i].z = atoms[i].z
  /\ Unordered({<<loaded.bonds[k][1], loaded.bonds[k][2]>> : k \in DOMAIN loaded.bonds}) = Unordered(Connected(bonds))
=============================================================================
