-------------------------- MODULE CrystalObjectInd --------------------------
(***************************************************************************)
(* Unbounded-history argument for C14, checked with Apalache: in the       *)
(* specified design (a setting switch that changes the state invalidates   *)
(* the object's memos) the invariant                                       *)
(*     IndInv == every memo entry is empty or was filled in the object's   *)
(*               current state                                             *)
(* is inductive, and it implies Fresh (no query ever reads a stale memo).  *)
(* States are abstract integers and the switch is an arbitrary function,   *)
(* so the argument does not depend on what choose_trigonal_lattice         *)
(* computes; queries read/fill an arbitrary set of memo keys.              *)
(*   apalache-mc check --cinit=CInit --init=Init    --inv=IndInv --length=0 *)
(*   apalache-mc check --cinit=CInit --init=IndInit --inv=IndInv --length=1 *)
(*   apalache-mc check --cinit=CInit --init=IndInit --inv=Fresh  --length=0 *)
(* The as-built design (SwitchKeep instead of Switch) breaks step 2.       *)
(***************************************************************************)
EXTENDS Integers

CONSTANTS
  \* @type: Set(Int);
  OBJ,
  \* @type: Set(Str);
  KEYS,
  \* @type: Bool;
  ASBUILT

VARIABLES
  \* @type: Set(Int);
  alive,
  \* @type: Int -> Int;
  st,
  \* @type: <<Int, Str>> -> Int;
  memo,
  \* @type: Bool;
  stale

CInit == OBJ = 1..3 /\ KEYS = {"uc", "graph", "mols", "uniq"} /\ ASBUILT = FALSE
CInitAsBuilt == OBJ = 1..3 /\ KEYS = {"uc", "graph", "mols", "uniq"} /\ ASBUILT = TRUE

Empty == -1
TypeOK == /\ alive \subseteq OBJ
          /\ st \in [OBJ -> 0..5]
          /\ memo \in [OBJ \X KEYS -> -1..5]
          /\ stale \in BOOLEAN

Init == /\ alive = {1} /\ st = [i \in OBJ |-> 0] /\ memo = [p \in OBJ \X KEYS |-> Empty] /\ stale = FALSE

(* a query reading / filling the memo keys D of object i *)
Query(i, D) ==
  /\ stale' = (\E k \in D : memo[<<i, k>>] # Empty /\ memo[<<i, k>>] # st[i])
  /\ memo' = [p \in OBJ \X KEYS |-> IF p[1] = i /\ p[2] \in D /\ memo[p] = Empty THEN st[i] ELSE memo[p]]
  /\ UNCHANGED <<alive, st>>
(* the specified switch: a new state invalidates the memos of that object *)
Switch(i, s2) ==
  /\ st' = [st EXCEPT ![i] = s2]
  /\ memo' = IF s2 # st[i] /\ ~ASBUILT THEN [p \in OBJ \X KEYS |-> IF p[1] = i THEN Empty ELSE memo[p]] ELSE memo
  /\ stale' = FALSE /\ UNCHANGED alive
Copy(i, j) ==
  /\ j \notin alive
  /\ alive' = alive \union {j}
  /\ st' = [st EXCEPT ![j] = st[i]]
  /\ memo' = [p \in OBJ \X KEYS |-> IF p[1] = j THEN memo[<<i, p[2]>>] ELSE memo[p]]
  /\ stale' = FALSE
Next == \/ \E i \in alive : \E D \in SUBSET KEYS : Query(i, D)
        \/ \E i \in alive : \E s2 \in 0..5 : Switch(i, s2)
        \/ \E i \in alive : \E j \in OBJ : Copy(i, j)

MemoOK == \A i \in alive : \A k \in KEYS : memo[<<i, k>>] = Empty \/ memo[<<i, k>>] = st[i]
IndInv == TypeOK /\ MemoOK /\ ~stale
IndInit == /\ alive \in SUBSET OBJ /\ st \in [OBJ -> 0..5] /\ memo \in [OBJ \X KEYS -> -1..5] /\ stale = FALSE
           /\ MemoOK
(* IndInv implies that the next query of any object reads no stale memo *)
Fresh == \A i \in alive : \A k \in KEYS : ~(memo[<<i, k>>] # Empty /\ memo[<<i, k>>] # st[i])
=============================================================================
