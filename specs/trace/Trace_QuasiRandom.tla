-------------------------- MODULE Trace_QuasiRandom --------------------------
(***************************************************************************)
(* Code -> spec binding for C20.  A trace is a session: a list of calls of *)
(* chmpy.sampling made one after the other in one process, in the recorded *)
(* order (harness/c20.py), each with the array it returned projected to    *)
(* integers (Sobol: x * 2^Bits exactly, residual -> offgrid; Korobov:      *)
(* floor(x * 2^30) and the next 30 bits).                                  *)
(*                                                                         *)
(* One TLC step consumes one returned point.  For a Sobol call the step    *)
(* conjoins the generator's own action -- Seek to the index of the call's  *)
(* first seed, then Step per further point -- and the returned row must be *)
(* the generator's X'.  Every point is entered in the observation register *)
(* memo[method, seed, dimension]; a later observation of the same key by   *)
(* any route must coincide with the registered one.  The first point that  *)
(* no action explains ends the trace with REJECT <clause>.                 *)
(***************************************************************************)
EXTENDS QuasiRandom, Json, IOUtils

CONSTANT NBlocks
Data == JsonDeserialize(IOEnv.TRACE_FILE)
Traces == Data.traces
Poly == Data.poly                       \* table rows of dimensions 1..Len(Poly), exported from the tree
VTab == [d \in 1..Len(Poly) |-> VSeq(Poly[d])]
KgfScale == 1073741824                  \* 2^30

VARIABLES blk, tid, ci, ri, memo
vars == <<blk, tid, ci, ri, n, X, memo>>

(* ---- domain guard (C20: Sobol 1..1000 dims, Korobov 1..64, index < 2^Bits) *)
CallGuard(c) ==
  /\ c.route \in {"single", "batch", "front"} /\ c.method \in {"sobol", "kgf"}
  /\ CallInDomain(c)
  /\ NumPoints(c) <= 257
  /\ (c.method = "sobol" => InIndexRange(IndexOfSeed(FirstSeed(c) + NumPoints(c) - 1)))
  /\ (c.method = "kgf" => FirstSeed(c) + NumPoints(c) - 1 <= 1000512)
  /\ (c.method = "sobol" => DimOf(c) <= Len(Poly) /\ DimOf(c) <= 1000)
  /\ (c.method = "kgf" => DimOf(c) <= 64)
TraceGuard(t) == \A k \in DOMAIN t.calls : CallGuard(t.calls[k])

(* ---- clauses ------------------------------------------------------------- *)
ShapeOK(c) ==
  /\ c.ndim = (IF OneDimensional(c) THEN 1 ELSE 2)
  /\ c.nrows = NumPoints(c) /\ c.ncols = DimOf(c)
  /\ Len(c.rows) = c.nrows
  /\ \A r \in DOMAIN c.rows : Len(c.rows[r]) = c.ncols
  /\ (c.method = "kgf" => Len(c.lo) = c.nrows /\ \A r \in DOMAIN c.lo : Len(c.lo[r]) = c.ncols)

(* a Sobol window that starts at seed 1 shows the first points of the sequence: the net      *)
(* properties are then demanded of the returned numbers themselves, for every 2^m <= length *)
RECURSIVE FloorLog2(_)
FloorLog2(k) == IF k <= 1 THEN 0 ELSE 1 + FloorLog2(k \div 2)
Column(c, k) == [r \in 1..c.nrows |-> c.rows[r][k]]
FromFirstPoint(c) == c.method = "sobol" /\ FirstSeed(c) = 1 /\ c.nrows >= 2
StratifiedObserved(c) ==
  \A k \in 1..c.ncols : \E H \in {Column(c, k)} : \A m \in 0..FloorLog2(c.nrows) : Stratified(H, m)
Net2Observed(c) ==
  c.ncols >= 2 => \E H1 \in {Column(c, 1)} : \E H2 \in {Column(c, 2)} : \A m \in 0..FloorLog2(c.nrows) : Net2(H1, H2, m)

CallClause(c) == IF c.exc # "" THEN "Raised"
                 ELSE IF ~ShapeOK(c) THEN "Shape"
                 ELSE IF c.offgrid THEN "OnGrid"
                 ELSE IF FromFirstPoint(c) /\ ~StratifiedObserved(c) THEN "Stratified"
                 ELSE IF FromFirstPoint(c) /\ ~Net2Observed(c) THEN "Net2"
                 ELSE ""

RowInUnit(c, r) ==
  IF c.method = "sobol" THEN \A k \in DOMAIN c.rows[r] : InUnit(c.rows[r][k])
  ELSE \A k \in DOMAIN c.rows[r] : /\ c.rows[r][k] >= 0 /\ c.rows[r][k] < KgfScale
                                   /\ c.lo[r][k] >= 0 /\ c.lo[r][k] < KgfScale

PointOf(c, r) == IF c.method = "sobol" THEN c.rows[r] ELSE <<c.rows[r], c.lo[r]>>
VFor(c) == SubSeq(VTab, 1, DimOf(c))
(* the generator state after the module's action for row r of call c *)
NextGen(c, r) == IF r = 1 THEN SeekX(VFor(c), IndexOfSeed(FirstSeed(c))) ELSE StepX(VFor(c), n, X)

RowClause(c, r) ==
  IF ~RowInUnit(c, r) THEN "UnitCube"
  \* the point of this seed: in the Gray-code enumeration the generator module walks, or in the natural one (the statement
  \* fixes the point set of every leading block of 2^m, not the order inside it)
  ELSE IF c.method = "sobol" /\ c.rows[r] # NextGen(c, r)
          /\ c.rows[r] # NaturalX(VFor(c), IndexOfSeed(FirstSeed(c)) + r - 1) THEN "SobolValue"
  ELSE IF ~Consistent(memo, KeyOf(c, r), PointOf(c, r)) THEN "Deterministic"
  ELSE ""

Clause(c, r) == LET cc == IF r = 1 THEN CallClause(c) ELSE "" IN IF cc # "" THEN cc ELSE RowClause(c, r)

(* ---- behaviour ------------------------------------------------------------ *)
Ids(b) == {i \in 1..Len(Traces) : i % NBlocks = b - 1}
Say(i, text) == PrintT("V|" \o ToString(i) \o "|" \o text)

Init == blk = 0 /\ tid = 0 /\ ci = 0 /\ ri = 0 /\ n = 0 /\ X = <<>> /\ memo = <<>>

PickBlock == blk = 0 /\ blk' \in 1..NBlocks /\ UNCHANGED <<tid, ci, ri, n, X, memo>>

PickTrace ==
  /\ blk > 0 /\ tid = 0 /\ tid' \in Ids(blk)
  /\ IF TraceGuard(Traces[tid']) THEN ci' = 1
     ELSE ci' = Len(Traces[tid'].calls) + 2 /\ Say(tid', "OOD guard")
  /\ ri' = 1 /\ UNCHANGED <<blk, n, X, memo>>

GenAction(c, r) == IF c.method = "sobol"
                   THEN IF r = 1 THEN Seek(VFor(c), IndexOfSeed(FirstSeed(c))) ELSE Step(VFor(c))
                   ELSE UNCHANGED <<n, X>>

Consume ==
  /\ tid > 0 /\ ci >= 1 /\ ci <= Len(Traces[tid].calls)
  /\ LET calls == Traces[tid].calls
         c == calls[ci]
         why == Clause(c, ri)
         last == ri >= NumPoints(c)
     IN IF why = ""
        THEN /\ GenAction(c, ri)
             /\ memo' = Remember(memo, KeyOf(c, ri), PointOf(c, ri))
             /\ ci' = (IF last THEN ci + 1 ELSE ci) /\ ri' = (IF last THEN 1 ELSE ri + 1)
             /\ (last /\ ci = Len(calls)) => Say(tid, "ACCEPT")
        ELSE /\ ci' = Len(calls) + 2 /\ Say(tid, "REJECT " \o why)
             /\ UNCHANGED <<ri, n, X, memo>>
  /\ UNCHANGED <<blk, tid>>

Next == PickBlock \/ PickTrace \/ Consume
TraceSpec == Init /\ [][Next]_vars
=============================================================================
