------------------------ MODULE Trace_MoleculeObject ------------------------
(***************************************************************************)
(* Code -> spec binding for MoleculeObject (an extension beyond the listed *)
(* properties, run by the C18 check).  One trace = one history of          *)
(* operations on real chmpy Molecule objects (harness/c18.py), each event  *)
(* carrying what the objects look like afterwards:                         *)
(*   op t r x  in place (translate, rotate, transform)                     *)
(*   op T R X C M  returning a new object (translated, rotated,            *)
(*                 transformed, deepcopy, mask)                            *)
(*   tg     atoms [z, p] of the object the operation produced or changed   *)
(*   recv   atoms of the receiver afterwards                               *)
(*   cen    n x centroid, bmin / bmax bounding box, d2 squared distance    *)
(*          matrix, formula, tri = trace of the inertia tensor x 1024      *)
(* The specification's state is advanced event by event; every observation *)
(* must be that of the specification's state.                              *)
(***************************************************************************)
EXTENDS MoleculeObject, TLC, Json, IOUtils

CONSTANT NBlocks
ASSUME TLCSet(1, JsonDeserialize(IOEnv.TRACE_FILE).traces)
Traces == TLCGet(1)
VARIABLES blk, tid

Atoms(x) == [i \in DOMAIN x |-> [z |-> x[i].z, p |-> x[i].p]]
AbsI(x) == IF x < 0 THEN -x ELSE x
InPlaceOp(op) == op \in {"t", "r", "x", "b"}
Target(st, e) == IF InPlaceOp(e.op) THEN e.obj ELSE Cardinality(DOMAIN st) + 1
SpecState(st, e) ==
  LET m == st[e.obj] IN
  CASE e.op = "b" -> st                                   \* guess_bonds: the atoms stay where they are
    [] e.op = "t" -> InPlace(st, e.obj, TranslateM(m, e.v))
    [] e.op = "r" -> InPlace(st, e.obj, RotateM(m, e.R, e.o))
    [] e.op = "x" -> InPlace(st, e.obj, TransformM(m, e.R, e.v))
    [] e.op = "T" -> NewObj(st, TranslateM(m, e.v))
    [] e.op = "R" -> NewObj(st, RotateM(m, e.R, e.o))
    [] e.op = "X" -> NewObj(st, TransformM(m, e.R, e.v))
    [] e.op = "C" -> NewObj(st, m)
    [] e.op = "M" -> NewObj(st, StripK(MaskM(m, e.keep)))
EventDomain(st, e) ==
  /\ e.op \in {"t", "r", "x", "T", "R", "X", "C", "M", "b"} /\ e.obj \in DOMAIN st
  /\ (e.op = "b" => BondDomain(st[e.obj]))
  /\ (e.op \in {"r", "x", "R", "X"} => ProperRotation(e.R))
  /\ (e.op = "M" => Len(e.keep) = Len(st[e.obj]) /\ \E i \in DOMAIN e.keep : e.keep[i])
  /\ \A i \in DOMAIN st[e.obj] : \A k \in Ix : AbsI(st[e.obj][i].p[k]) <= 4000
(* what the object says about itself must be what its atoms say *)
DerivedOK(m, e) ==
  /\ e.cen = SumVec(m) /\ e.bmin = BoxMin(m) /\ e.bmax = BoxMax(m)
  /\ e.d2 = D2Matrix(m) /\ e.formula = FormulaOfMol(m)
Clause(st, e, tri0) ==
  LET nst == SpecState(st, e)
      tg == Target(st, e)
  IN
  IF e.exc # "" THEN "REJECT Raised:" \o e.op ELSE
  IF e.off THEN "REJECT OnGrid:" \o e.op ELSE
  IF Atoms(e.tg) # nst[tg] THEN "REJECT State:" \o e.op ELSE
  IF Atoms(e.recv) # nst[e.obj] THEN "REJECT ReceiverChanged:" \o e.op ELSE
  IF \E k \in DOMAIN e.others : Atoms(e.others[k].atoms) # nst[e.others[k].id] THEN "REJECT OtherObjectChanged:" \o e.op ELSE
  IF ~DerivedOK(nst[tg], e) THEN "REJECT Derived:" \o e.op ELSE
  \* guess_bonds / unique_bonds / connected_fragments: the bonds are those of the covalent radii, the fragments its components
  IF e.op = "b" /\ ~BondsOK(nst[tg], {<<e.bonds[k][1], e.bonds[k][2]>> : k \in DOMAIN e.bonds}) THEN "REJECT Bonds" ELSE
  IF e.op = "b" /\ Decided(nst[tg]) /\ {{e.frags[k][i] : i \in DOMAIN e.frags[k]} : k \in DOMAIN e.frags} # Fragments(nst[tg]) THEN "REJECT Fragments" ELSE
  \* rigid motions leave the trace of the inertia tensor as it was (x 1024, two units of slack)
  IF e.op # "M" /\ e.full /\ AbsI(e.tri - tri0) > 2 + tri0 \div 1000000 THEN "REJECT InertiaInvariant:" \o e.op ELSE ""

RECURSIVE Run(_, _, _)
Run(t, l, st) ==
  IF l > Len(t.events) THEN "ACCEPT" ELSE
  LET e == t.events[l] IN
  IF ~EventDomain(st, e) THEN "OOD event" ELSE
  LET c == Clause(st, e, t.tri0) IN
  IF c # "" THEN c ELSE Run(t, l + 1, SpecState(st, e))

Verdict(t) ==
  IF ~(Len(t.base) \in 1..12 /\ \A i \in DOMAIN t.base : t.base[i].z \in ElementZ) THEN "OOD base" ELSE
  IF t.exc # "" THEN "REJECT Raised:construct" ELSE
  Run(t, 1, (1 :> Atoms(t.base)))

Ids(b) == {i \in 1..Len(Traces) : i % NBlocks = b - 1}
Init == blk = 0 /\ tid = 0
Next == \/ blk = 0 /\ blk' \in 1..NBlocks /\ tid' = 0
        \/ /\ blk > 0 /\ tid = 0 /\ tid' \in Ids(blk) /\ blk' = blk
           /\ PrintT("V|" \o ToString(tid') \o "|" \o Verdict(Traces[tid']))
TraceSpec == Init /\ [][Next]_<<blk, tid>>
=============================================================================
