----------------------------- MODULE Trace_Wulff -----------------------------
(***************************************************************************)
(* Code -> spec binding for C19.  One trace per WulffConstruction built by *)
(* harness/c19.py from integer data: facets <<x,y,z,w,p>>, Q; what the     *)
(* object reported -- wulff_vertices (projected positions in units 1/Q),   *)
(* wulff_facets (index lists), wulff_triangles + wulff_triangle_indices,   *)
(* to_trimesh() (its own merged vertex list, faces, float volume scaled to *)
(* the integer 6*VolS*Q^3*volume) -- and the vertices of a second          *)
(* construction with every energy multiplied by sn/sd (units 1/(Q*sd)).    *)
(* TLC recomputes the half-space intersection exactly and judges.          *)
(***************************************************************************)
EXTENDS Wulff, Json, IOUtils

CONSTANT NBlocks
ASSUME TLCSet(1, JsonDeserialize(IOEnv.TRACE_FILE).traces)     \* parsed once, not once per worker
Traces == TLCGet(1)

VARIABLES blk, tid
vars == <<blk, tid>>

IdxOK(seq, n) == \A k \in DOMAIN seq : seq[k] \in 1..n
TrisOK(tris, n) == \A k \in DOMAIN tris : Len(tris[k]) = 3 /\ IdxOK(tris[k], n)
ShapeOK(t) ==
  /\ Len(t.lists) = Len(t.facets)
  /\ \A i \in DOMAIN t.lists : IdxOK(t.lists[i], Len(t.verts))
  /\ Len(t.trifacet) = Len(t.tris)
  /\ TrisOK(t.tris, Len(t.verts))
  /\ IdxOK(t.trifacet, Len(t.facets))
  /\ TrisOK(t.mesh.faces, Len(t.mesh.verts))
  /\ BWellFormed(t.mesh.vol6s)
PositionsOK(verts, k) == \A a \in DOMAIN verts : Len(verts[a]) = 4 /\ InBox(verts[a], k) /\ IsPosition(verts[a])
GridOK(t) == /\ ~t.offgrid /\ ~t.scale.offgrid
             /\ PositionsOK(t.verts, 1) /\ PositionsOK(t.mesh.verts, 1)
             /\ PositionsOK(t.scale.verts, t.scale.sn)
SeqSet(s) == {s[k] : k \in DOMAIN s}

(* facet lists: a facet that carries a polygon lists exactly its vertices; a plane that is   *)
(* cut off, or only touches the shape in a vertex or an edge, lists none or some of those.   *)
ListOK(t, pl, V, m) ==
  LET listed == {t.verts[t.lists[m][k]] : k \in DOMAIN t.lists[m]}
      fv == FacetVerts(pl, V, m)
  IN IF IsFace(pl, V, m) THEN listed = fv ELSE listed \subseteq fv

(* float volume of to_trimesh() against the exact enclosure: relative 1e-9 plus its width *)
FloatVolOK(x, enc) ==
  \/ BClose(x, enc.lo, 1, 1000000000, BMul(BI(enc.n + 1), BI(1000000000)))
  \/ EncHas(enc, x)

Judge(t, pl, V) ==
  LET em == t.verts
      rep == Rep(em)
      mv == t.mesh.verts
      mlab == TLCEval([k \in DOMAIN t.mesh.faces |-> {m \in DOMAIN pl : TriOnFacet(pl, mv, t.mesh.faces[k], m)}])
      mlabel == TLCEval([k \in DOMAIN t.mesh.faces |-> CHOOSE m \in mlab[k] : TRUE])
      vol == Vol6S(pl, V)
      sv == {ScaleH(h, t.scale.sn) : h \in V}
  IN
  IF \E a \in DOMAIN em : ~Inside(pl, em[a]) THEN "REJECT Inside" ELSE
  IF \E a \in DOMAIN em : Cardinality(FacetsOf(pl, em[a])) < 3 THEN "REJECT ThreeFacets" ELSE
  IF SeqSet(em) # V THEN "REJECT VertexSet" ELSE
  IF \E m \in DOMAIN pl : ~ListOK(t, pl, V, m) THEN "REJECT FacetLists" ELSE
  IF ~Outward(pl, em, t.tris, t.trifacet) THEN "REJECT Outward" ELSE
  IF ~ClosedManifold(t.tris, rep) THEN "REJECT Closed" ELSE
  IF UsedPositions(em, t.tris) # V THEN "REJECT TrianglesCover" ELSE
  IF Creases(em, t.tris, t.trifacet, rep) # Edges(pl, V) THEN "REJECT EdgeSet" ELSE
  IF SeqSet(mv) # V THEN "REJECT MeshVertexSet" ELSE
  IF \E k \in DOMAIN mlab : mlab[k] = {} THEN "REJECT MeshOutward" ELSE
  IF ~ClosedManifold(t.mesh.faces, Rep(mv)) THEN "REJECT MeshClosed" ELSE
  \* the mesh object handed to the caller is closed as it stands: one vertex per corner, so that edges pair up by index
  \* (at a corner where four or more facets meet exactly the construction holds numerically distinct copies, 1e-15 apart, which the
  \* mesh library merges on a 1e-8 grid; two copies on different sides of a rounding tie of that grid stay apart - mesh.tie says
  \* that every surviving pair is of this kind: an artefact of coordinates that are exact binary fractions, not of the code)
  IF Cardinality(SeqSet(mv)) # Len(mv) /\ ~((\E h \in V : Cardinality(FacetsOf(pl, h)) > 3) /\ t.mesh.tie) THEN "REJECT MeshDuplicateVertices" ELSE
  IF ~EncMeet(vol, MeshVol6S(pl, em, t.tris, t.trifacet)) THEN "REJECT Volume" ELSE
  IF ~EncMeet(vol, MeshVol6S(pl, mv, t.mesh.faces, mlabel)) THEN "REJECT MeshVolume" ELSE
  IF ~FloatVolOK(t.mesh.vol6s, vol) THEN "REJECT FloatVolume" ELSE
  \* 32-bit safety of ScaleH for the large factors (change of units by 10^3 .. 10^4)
  IF \E h \in V : \E c \in 1..3 : AbsI(h[c]) > 2147483647 \div t.scale.sn THEN "OOD scale-overflow" ELSE
  IF SeqSet(t.scale.verts) # sv THEN "REJECT Scaling" ELSE
  \* the scaled shape is a closed surface too (corners merged by position), whatever the size of the numbers
  IF ~ClosedManifold(t.scale.tris, Rep(t.scale.verts)) THEN "REJECT ScaledClosed" ELSE
  "ACCEPT"

(* built from a list of Miller planes and a space group: the facets the object holds (t.facets, read back from it in its own
   order) must be the expansion of that list; the expansion itself must lie in the exact input domain *)
GmfExpected(t) == ExpandPlanesM(t.gmf.records, t.gmf.rots, t.gmf.recip)
GmfDomain(t) ==
  /\ \A i \in DOMAIN t.gmf.records : Len(t.gmf.records[i]) = 4 /\ t.gmf.records[i][4] \in 1..MaxP
                                      /\ \A c \in 1..3 : AbsI(t.gmf.records[i][c]) <= MaxW
  /\ \A e \in GmfExpected(t) : \E w \in 1..MaxW : e[1][1] * e[1][1] + e[1][2] * e[1][2] + e[1][3] * e[1][3] = w * w
GmfVerdict(t) ==
  IF t.kind # "gmf" THEN "" ELSE
  IF ~GmfDomain(t) THEN "OOD gmf-input" ELSE
  IF t.exc # "" THEN "REJECT Raised" ELSE
  IF {<<<<f[1], f[2], f[3]>>, f[5]>> : f \in SeqSet(t.facets)} # GmfExpected(t) \/ Len(t.facets) # Cardinality(GmfExpected(t))
     THEN "REJECT GmfFacets" ELSE ""

Verdict(t) ==
  IF GmfVerdict(t) # "" THEN GmfVerdict(t) ELSE
  (* the second construction shrinks the shape by at most 3, keeping its vertices apart on the scale *)
  (* of the code's merge tolerances (see Separated)                                                  *)
  IF ~(WellFormed(t.facets) /\ t.Q \in 1..1000 /\ t.scale.sn \in (1..8) \cup {1000, 2500, 10000} /\ t.scale.sd \in 1..8
       /\ 3 * t.scale.sn >= t.scale.sd) THEN "OOD input" ELSE
  LET pl == Planes(t.facets)
      X == CrossTab(pl)
  IN
  IF ~DistinctDirections(pl, X) THEN "OOD repeated-direction" ELSE
  IF ~Bounded(pl, X) THEN "OOD unbounded" ELSE
  LET V == HalfSpaceVertices(pl, X) IN
  IF ~Compact(V, t.Q) THEN "OOD elongated" ELSE
  IF ~Separated(V, t.Q) THEN "OOD near-coincident-vertices" ELSE
  IF t.exc # "" THEN "REJECT Raised" ELSE
  IF t.mesh.exc # "" THEN "REJECT RaisedToTrimesh" ELSE
  IF t.scale.exc # "" THEN "REJECT RaisedScaled" ELSE
  IF ~ShapeOK(t) THEN "REJECT Shape" ELSE
  IF ~GridOK(t) THEN "REJECT OnGrid" ELSE
  Judge(t, pl, V)

Ids(b) == {i \in 1..Len(Traces) : i % NBlocks = b - 1}
Init == blk = 0 /\ tid = 0
Next == \/ blk = 0 /\ blk' \in 1..NBlocks /\ tid' = 0
        \/ /\ blk > 0 /\ tid = 0 /\ tid' \in Ids(blk) /\ blk' = blk
           /\ PrintT("V|" \o ToString(tid') \o "|" \o Verdict(Traces[tid']))
TraceSpec == Init /\ [][Next]_vars
=============================================================================
