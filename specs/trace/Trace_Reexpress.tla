---------------------------- MODULE Trace_Reexpress ----------------------------
(***************************************************************************)
(* Code -> spec binding for C13 (harness/c13.py).  Event kinds:            *)
(*   p1    as_P1 / as_P1_supercell / to_translational_symmetry             *)
(*   trig  choose_trigonal_lattice on a fresh object, and back             *)
(***************************************************************************)
EXTENDS Reexpress, TLC, Json, IOUtils

CONSTANT NBlocks
ASSUME TLCSet(1, JsonDeserialize(IOEnv.TRACE_FILE).traces)     \* parsed once, not once per worker
Traces == TLCGet(1)
VARIABLES blk, tid

AbsI(x) == IF x < 0 THEN -x ELSE x
CloseRel(a, b) == AbsI(a - b) <= ((IF a > b THEN a ELSE b) \div 1000000) + 1     \* 1e-6 relative on scaled integers

AtomSet(atoms) == {[z |-> atoms[i].z, p |-> atoms[i].p] : i \in DOMAIN atoms}

P1Verdict(t) ==
  LET old == CellAtoms(t.ops, t.asym, t.n)
      want == SuperAtoms(old, t.n, t.size)
      got == {[z |-> t.new.atoms[i].z, p |-> WrapSuper(t.new.atoms[i].p, t.n, t.size)] : i \in DOMAIN t.new.atoms}
      kf == IF t.rotated THEN " KF=C13-rotated-lattice" ELSE ""
  IN
  IF ~(\A c \in Idx : t.size[c] \in 1..3) THEN "OOD size" ELSE
  \* two occupants of one site (disorder): which of them the unit-cell listing keeps is not prescribed here; what is: the crystal and
  \* its P1 / supercell form are the same matter in the same volume - the same density
  IF ~OrbitsDisjoint(t.ops, t.asym, t.n) THEN
     (IF t.shared /\ t.new.exc = "" /\ t.new.number = 1 /\ t.new.nops = 1 /\ ~t.new.gramoff /\ t.new.gram = SuperGram(t.gram, t.size)
      THEN (IF CloseRel(t.dens_old, t.new.dens) THEN "ACCEPT note=shared-site-density-only" ELSE "REJECT Density:" \o t.call)
      ELSE "OOD overlapping-orbits") ELSE
  IF t.new.exc # "" THEN "REJECT Raised:" \o t.call ELSE
  IF ~(t.new.number = 1 /\ t.new.nops = 1) THEN "REJECT NotP1:" \o t.call ELSE
  IF t.new.gramoff \/ t.new.gram # SuperGram(t.gram, t.size) THEN "REJECT Cell:" \o t.call \o kf ELSE
  IF t.new.off THEN "REJECT OnGrid:" \o t.call \o kf ELSE
  IF Len(t.new.atoms) # Cardinality(want) THEN "REJECT Count:" \o t.call \o kf ELSE
  IF got # want THEN "REJECT Arrangement:" \o t.call \o kf ELSE
  IF ~CloseRel(t.dens_old, t.new.dens) THEN "REJECT Density:" \o t.call ELSE
  "ACCEPT"

StateOf(x) == [choice |-> x.choice, n |-> x.n, gram |-> x.gram, pts |-> x.pts]
TrigVerdict(t) ==
  LET s0 == StateOf(t.start)
      asymOf(x) == [i \in DOMAIN x.pts |-> [z |-> t.zs[i], p |-> x.pts[i]]]
      hSide == IF t.start.choice = "H" THEN t.start ELSE t.after
      rSide == IF t.start.choice = "H" THEN t.after ELSE t.start
  IN
  IF ~(t.start.choice \in {"H", "R"} /\ t.target \in {"H", "R"} /\ t.target # t.start.choice) THEN "OOD choice" ELSE
  IF ~SwitchDomain(s0, t.target) THEN "OOD gram-not-divisible" ELSE
  IF t.after.exc # "" THEN "REJECT Raised:switch" ELSE
  IF t.after.off THEN "REJECT OnGrid:switch" ELSE
  IF t.after.number # t.start.number THEN "REJECT Number" ELSE
  IF NormState(StateOf(t.after)) # SwitchTrigonal(s0, t.target) THEN "REJECT SwitchState" ELSE
  IF ~SameTrigonal(CellAtoms(hSide.ops, asymOf(hSide), hSide.n), hSide.n,
                   CellAtoms(rSide.ops, asymOf(rSide), rSide.n), rSide.n) THEN "REJECT Arrangement:switch" ELSE
  IF ~(hSide.natoms = 3 * rSide.natoms) THEN "REJECT CountRatio" ELSE
  IF ~(hSide.vol2 \div 9 = rSide.vol2 /\ hSide.vol2 % 9 = 0) THEN "REJECT VolumeRatio" ELSE
  IF ~CloseRel(t.start.dens, t.after.dens) THEN "REJECT Density:switch" ELSE
  \* expanding the switched crystal to P1 lists exactly its unit-cell atoms (also when the object was used before the switch)
  IF ~(t.after.p1_natoms = t.after.natoms /\ CloseRel(t.after.p1_dens, t.after.dens)) THEN "REJECT P1AfterSwitch" ELSE
  IF t.back.exc # "" THEN "REJECT Raised:back" ELSE
  IF t.back.off THEN "REJECT OnGrid:back" ELSE
  IF NormState(StateOf(t.back)) # NormState(s0) THEN "REJECT RoundTrip" ELSE
  IF CodeSet(t.back.ops) # CodeSet(t.start.ops) THEN "REJECT RoundTripGroup" ELSE
  "ACCEPT"

Verdict(t) == CASE t.k = "p1" -> P1Verdict(t) [] t.k = "trig" -> TrigVerdict(t) [] OTHER -> "OOD kind"

Ids(b) == {i \in 1..Len(Traces) : i % NBlocks = b - 1}
Init == blk = 0 /\ tid = 0
Next == \/ blk = 0 /\ blk' \in 1..NBlocks /\ tid' = 0
        \/ /\ blk > 0 /\ tid = 0 /\ tid' \in Ids(blk) /\ blk' = blk
           /\ PrintT("V|" \o ToString(tid') \o "|" \o Verdict(Traces[tid']))
TraceSpec == Init /\ [][Next]_<<blk, tid>>
=============================================================================
