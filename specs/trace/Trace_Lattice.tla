---------------------------- MODULE Trace_Lattice ----------------------------
(***************************************************************************)
(* Code -> spec binding for C12.  One trace per exact cell (integer L or   *)
(* G, scale sn/sd) with one observation record per construction route of   *)
(* the real UnitCell (harness/c12.py).  Every observed float x arrives as  *)
(* the BigInt round(x * 2^K); products of two observations carry 2^2K.     *)
(* Slack: 2^-30 (0.93e-9) x cI, cI = floor((abc/V)^2) + 1 computed exactly *)
(* from G ((abc/V)^2 = G11 G22 G33 / det G); measured float noise on the   *)
(* unchanged tree is <= 3e-15 x (abc/V)^2 in every clause.                 *)
(* The verdict of every trace is computed here by TLC.                     *)
(***************************************************************************)
EXTENDS Lattice, TLC, Json, IOUtils

CONSTANTS NBlocks, K, CondMax
ASSUME TLCSet(1, JsonDeserialize(IOEnv.TRACE_FILE).traces)     \* parsed once, not once per worker
Traces == TLCGet(1)

VARIABLES blk, tid
vars == <<blk, tid>>

P1 == BPow2(K)
P2 == BPow2(2 * K)
(* relative slack 2^-30 (= 0.93e-9) on the two scales *)
E1 == BPow2(K - 30)
E2 == BPow2(2 * K - 30)

GramOf(t) == IF t.kind = "L" THEN Gram(t.L) ELSE t.G

(* ---- domain guard ---------------------------------------------------------- *)
AngleInDomain(G, i) ==           \* 8 deg <= angle <= 170 deg, as integer inequalities on cos^2
  IF CosSign(G, i) >= 0 THEN 100 * Cos2Num(G, i) <= 98 * Cos2Den(G, i)
  ELSE 100 * Cos2Num(G, i) <= 96 * Cos2Den(G, i)
Guard(t) ==
  IF ~(t.sn \in 1..100 /\ t.sd \in 1..16 /\ t.n \in 1..48) THEN "scale" ELSE
  IF ~(t.kind \in {"L", "G"}) THEN "kind" ELSE
  IF t.kind = "L" /\ ~InRangeL(t.L) THEN "magnitude" ELSE
  IF t.kind = "L" /\ M3Det(t.L) <= 0 THEN "orientation" ELSE
  LET G == GramOf(t) IN
  IF ~(InRangeG(G) /\ Symmetric(G)) THEN "magnitude" ELSE
  IF ~PosDef(G) THEN "degenerate" ELSE
  IF ~(\A i \in Ix : t.sd * t.sd <= t.sn * t.sn * G[i][i] /\ t.sn * t.sn * G[i][i] <= 10000 * t.sd * t.sd) THEN "length" ELSE
  IF ~(\A i \in Ix : AngleInDomain(G, i)) THEN "angle" ELSE
  IF CondNum(G) \div CondDen(G) >= CondMax THEN "condition" ELSE
  IF ~InFamily(t.family, G) THEN "family" ELSE
  IF \E r \in DOMAIN t.routes : ~InFamily(RouteFamily(t.routes[r].name), G) THEN "route" ELSE
  IF \E r \in DOMAIN t.routes : t.routes[r].name \in {"vectors", "respec_vectors"} /\ t.kind # "L" THEN "route" ELSE
  IF \E m \in DOMAIN t.pts : ~(Len(t.pts[m]) = 3 /\ \A i \in Ix : t.pts[m][i] \in -48..48) THEN "points" ELSE
  ""

(* ---- exact quantities of the cell, computed once per trace ------------------ *)
(* cI >= (abc/V)^2 and kI >= sqrt(tr G tr Gr) (Gr the reciprocal metric; x/2 >=   *)
(* sqrt(x) for x >= 4 and tr G tr Gr >= 9) are integer bounds, so that the slack  *)
(* W = 2^-30 cI on the observation scale is one BigInt per trace.                 *)
Cell(t) ==
  LET G == GramOf(t)
      A == M3Adj(G)
      det == M3Det(G)
      cI == CondNum(G) \div det + 1
      kI == ((M3Tr(G) * M3Tr(A)) \div det) \div 2 + 1
      s2n == t.sn * t.sn
      s2d == t.sd * t.sd
  IN [G |-> G, A |-> A, det |-> det, cI |-> cI, kI |-> kI, s2n |-> s2n, s2d |-> s2d,
      W1 |-> BMulInt(E1, cI), W2 |-> BMulInt(E2, cI),
      bs2n |-> BI(s2n), bs2d |-> BI(s2d),
      rn |-> BI(s2d), rd |-> BMul(BI(det), BI(s2n))]      \* 1/(s^2 det G) = rn/rd

ShapeOK(t, o) ==
  /\ IsB3(o.D) /\ IsB3(o.Inv) /\ IsB3(o.Rec) /\ IsB3(o.VStar) /\ IsB3(o.VDir) /\ IsB3(o.Alias)
  /\ IsBVec(o.len, 3) /\ IsBVec(o.cosang, 3) /\ IsBVec(o.sinang, 3) /\ IsBVec(o.cosdeg, 3)
  /\ IsBVec(o.sindeg, 3) /\ IsBVec(o.star, 3) /\ IsBVec(o.cosstar, 3) /\ IsBVec(o.sinstar, 3)
  /\ IsBVec(o.plen, 3) /\ IsBVec(o.pcos, 3) /\ IsBVec(o.psin, 3) /\ BWellFormed(o.vol)
  /\ Len(o.xs) = Len(t.pts) /\ Len(o.fs) = Len(t.pts)
  /\ \A m \in DOMAIN t.pts : IsBVec(o.xs[m], 3) /\ IsBVec(o.fs[m], 3)

Dot3(u, v) == BAdd(BAdd(BMul(u[1], v[1]), BMul(u[2], v[2])), BMul(u[3], v[3]))
ColOf(M, j) == <<M[1][j], M[2][j], M[3][j]>>
Upper == {<<1,1>>, <<1,2>>, <<1,3>>, <<2,2>>, <<2,3>>, <<3,3>>}
ObsGram(M) == [i \in Ix |-> [j \in Ix |-> IF i <= j THEN Dot3(M[i], M[j]) ELSE BZero]]     \* upper triangle of M M^T

(* direct . direct^T = s^2 G  (dd = ObsGram(o.D)) *)
GramOK(c, dd) ==
  \A ij \in Upper :
     LET i == ij[1]  j == ij[2]
     IN Within(dd[i][j], P2, BI(c.s2n * c.G[i][j]), c.bs2d, c.W2, BI(c.s2n * MaxI2(c.G[i][i], c.G[j][j])), c.bs2d)
(* direct . inverse = inverse . direct = I *)
InverseOK(c, o) ==
  \A i \in Ix : \A j \in Ix :
     /\ Within(Dot3(o.D[i], ColOf(o.Inv, j)), P2, BI(M3Id[i][j]), BOne, c.W2, BI(c.kI), BOne)
     /\ Within(Dot3(o.Inv[i], ColOf(o.D, j)), P2, BI(M3Id[i][j]), BOne, c.W2, BI(c.kI), BOne)
(* documented aliases: reciprocal_lattice = inverse^T, lattice = direct, v_a.. rows of direct, v_a_star.. columns of inverse *)
AliasesOK(o) == B3Eq(o.Rec, B3T(o.Inv)) /\ B3Eq(o.Alias, o.D) /\ B3Eq(o.VDir, o.D) /\ B3Eq(o.VStar, o.Rec)
(* reciprocal vectors have the reciprocal metric adj(G) / (s^2 det G) *)
RecipGramOK(c, o) ==
  LET rr == ObsGram(o.Rec)
  IN \A ij \in Upper :
       LET i == ij[1]  j == ij[2]
       IN Within(rr[i][j], P2, BMul(BI(c.A[i][j]), c.rn), c.rd, c.W2, BMul(BI(MaxI2(c.A[i][i], c.A[j][j])), c.rn), c.rd)
LenVecOK(c, v) ==
  \A i \in Ix : /\ BSign(v[i]) > 0
                /\ Within(BMul(v[i], v[i]), P2, BI(c.s2n * c.G[i][i]), c.bs2d, c.W2, BI(c.s2n * c.G[i][i]), c.bs2d)
(* signed cos^2 = g|g|/(p q) and sin^2 = 1 - cos^2, absolute slack (they are <= 1) *)
TrigOK(c, cs, sn, g, p, q) ==
  LET num == BMul(BI(g), BI(AbsI(g)))
      den == BMul(BI(p), BI(q))
  IN /\ Within(BSignedSq(cs), P2, num, den, c.W2, BOne, BOne)
     /\ BSign(sn) > 0 /\ Within(BMul(sn, sn), P2, BSub(den, BAbs(num)), den, c.W2, BOne, BOne)
AngVecOK(c, cs, sn) == \A i \in Ix : TrigOK(c, cs[i], sn[i], c.G[Oj(i)][Ok(i)], c.G[Oj(i)][Oj(i)], c.G[Ok(i)][Ok(i)])
LengthsOK(c, o) == LenVecOK(c, o.len)
AnglesOK(c, o) == AngVecOK(c, o.cosang, o.sinang) /\ AngVecOK(c, o.cosdeg, o.sindeg)
ParametersOK(c, o) == LenVecOK(c, o.plen) /\ AngVecOK(c, o.pcos, o.psin)
(* volume^2 = s^6 det G; and volume = det(direct) > 0 *)
VolumeOK(c, o) ==
  LET n == BMul(BMul(c.bs2n, c.bs2n), BMul(c.bs2n, BI(c.det)))
      d == BMul(BMul(c.bs2d, c.bs2d), c.bs2d)
  IN BSign(o.vol) > 0 /\ Within(BMul(o.vol, o.vol), P2, n, d, c.W2, n, d)
VolumeIsDet(c, o) ==
  LET v == BMul(o.vol, P2)
  IN BLe(BMul(BAbs(BSub(B3Det(o.D), v)), P1), BMul(v, c.W1))          \* |det - vol| <= 2^-30 cI vol
(* starred lengths and angles are those of the reciprocal metric *)
StarOK(c, o) ==
  \A i \in Ix :
     /\ BSign(o.star[i]) > 0
     /\ Within(BMul(o.star[i], o.star[i]), P2, BMul(BI(c.A[i][i]), c.rn), c.rd, c.W2, BMul(BI(c.A[i][i]), c.rn), c.rd)
     /\ TrigOK(c, o.cosstar[i], o.sinstar[i], c.A[Oj(i)][Ok(i)], c.A[Oj(i)][Oj(i)], c.A[Ok(i)][Ok(i)])
(* to_cartesian(p/n) = (p/n) . direct (row vectors), with the exact metric length *)
SumAbs(p) == AbsI(p[1]) + AbsI(p[2]) + AbsI(p[3])
Norm2(p) == p[1]*p[1] + p[2]*p[2] + p[3]*p[3]
QuadForm(G, p) == p[1]*(G[1][1]*p[1] + G[1][2]*p[2] + G[1][3]*p[3]) + p[2]*(G[2][1]*p[1] + G[2][2]*p[2] + G[2][3]*p[3])
                  + p[3]*(G[3][1]*p[1] + G[3][2]*p[2] + G[3][3]*p[3])
CartOK(t, c, o) ==
  \A m \in DOMAIN t.pts :
    LET p == t.pts[m]
        x == o.xs[m]
        bn == BI(t.n)
    IN /\ \A j \in Ix :         \* |n x_j - sum_i p_i D_ij| <= slack * sum|p| * (1 + s^2 tr G)/2   (s sqrt(tr G) <= (1 + s^2 tr G)/2)
            WithinObs(BMul(x[j], bn),
                      BAdd(BAdd(BMulInt(o.D[1][j], p[1]), BMulInt(o.D[2][j], p[2])), BMulInt(o.D[3][j], p[3])),
                      c.W1, BI(SumAbs(p) * (c.s2d + c.s2n * M3Tr(c.G))), BI(2 * c.s2d))
       /\ Within(Dot3(x, x), P2, BMul(c.bs2n, BI(QuadForm(c.G, p))), BI(c.s2d * t.n * t.n), c.W2,
                 BMul(BI(c.s2n * M3Tr(c.G)), BI(Norm2(p))), BI(c.s2d * t.n * t.n))     \* |x|^2 <= s^2 tr G |p/n|^2
(* to_fractional(to_cartesian(p/n)) = p/n *)
RoundTripOK(t, c, o) ==
  \A m \in DOMAIN t.pts :
    LET p == t.pts[m]
        bn == BI(t.n)
    IN \A i \in Ix : Within(o.fs[m][i], P1, BI(p[i]), bn, c.W1, BMul(BI(c.kI), BI(t.n + SumAbs(p))), bn)

(* both routes give the same metric (observation against observation) *)
SameGram(c, d1, d2) ==
  \A ij \in Upper :
     LET i == ij[1]  j == ij[2]
     IN WithinObs(d1[i][j], d2[i][j], c.W2, BI(2 * c.s2n * MaxI2(c.G[i][i], c.G[j][j])), c.bs2d)

(* informational: the documented embedding (x along a, lower triangular) of the   *)
(* lengths/angles route, and the vectors route keeping the given vectors.         *)
EmbeddingAsDocumented(t, c, o) ==
  IF ParamsRoute(o.name)
  THEN /\ BSign(o.D[1][2]) = 0 /\ BSign(o.D[1][3]) = 0 /\ BSign(o.D[2][3]) = 0
       /\ \A i \in Ix : \A j \in 1..i :
            LET q == CholSq(c.G, i, j)
            IN Within(BSignedSq(o.D[i][j]), P2, BMul(q.n, c.bs2n), BMul(q.d, c.bs2d), c.W2, BI(c.s2n * c.G[i][i]), c.bs2d)
  ELSE IF o.name = "vectors"
  THEN \A i \in Ix : \A j \in Ix : Within(o.D[i][j], P1, BI(t.sn * t.L[i][j]), BI(t.sd), E1, BI(20 * t.sn), BI(t.sd))
  ELSE TRUE

RouteVerdict(t, c, o) ==
  IF o.exc # "" THEN "Raised" ELSE
  IF ~o.finite THEN "Finite" ELSE
  IF ~ShapeOK(t, o) THEN "Shape" ELSE
  IF ~GramOK(c, ObsGram(o.D)) THEN "Gram" ELSE
  IF ~InverseOK(c, o) THEN "Inverse" ELSE
  IF ~AliasesOK(o) THEN "Aliases" ELSE
  IF ~RecipGramOK(c, o) THEN "RecipGram" ELSE
  IF ~LengthsOK(c, o) THEN "Lengths" ELSE
  IF ~AnglesOK(c, o) THEN "Angles" ELSE
  IF ~ParametersOK(c, o) THEN "Parameters" ELSE
  IF ~VolumeOK(c, o) THEN "Volume" ELSE
  IF ~VolumeIsDet(c, o) THEN "VolumeIsDet" ELSE
  IF ~StarOK(c, o) THEN "Star" ELSE
  IF ~CartOK(t, c, o) THEN "ToCartesian" ELSE
  IF ~RoundTripOK(t, c, o) THEN "RoundTrip" ELSE
  ""

Verdict(t) ==
  LET g == Guard(t) IN
  IF g # "" THEN "OOD " \o g ELSE
  LET c == Cell(t)
      rv == [r \in DOMAIN t.routes |-> RouteVerdict(t, c, t.routes[r])]
      bad == {r \in DOMAIN t.routes : rv[r] # ""}
  IN IF bad # {} THEN LET r == CHOOSE x \in bad : \A y \in bad : x <= y
                      IN "REJECT " \o rv[r] \o "@" \o t.routes[r].name
     ELSE LET d1 == ObsGram(t.routes[1].D)
          IN IF \E r \in DOMAIN t.routes : r > 1 /\ ~SameGram(c, d1, ObsGram(t.routes[r].D)) THEN "REJECT SameGram"
             ELSE IF \E r \in DOMAIN t.routes : ~EmbeddingAsDocumented(t, c, t.routes[r]) THEN "ACCEPT drift=Embedding"
             ELSE "ACCEPT"

Ids(b) == {i \in 1..Len(Traces) : i % NBlocks = b - 1}
Init == blk = 0 /\ tid = 0
Next == \/ blk = 0 /\ blk' \in 1..NBlocks /\ tid' = 0
        \/ /\ blk > 0 /\ tid = 0 /\ tid' \in Ids(blk) /\ blk' = blk
           /\ PrintT("V|" \o ToString(tid') \o "|" \o Verdict(Traces[tid']))
TraceSpec == Init /\ [][Next]_vars
=============================================================================
