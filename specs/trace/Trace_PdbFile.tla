--------------------------- MODULE Trace_PdbFile ---------------------------
(***************************************************************************)
(* Code -> spec binding for PdbFile.tla (an extension beyond the listed    *)
(* properties, run by the C10 check).  The harness proposes the text of a  *)
(* PDB file for a cell and atoms given as integers; TLC certifies that the *)
(* text is PdbText(cell, atoms) (else OOD BadProposal), and judges what    *)
(* Crystal.from_pdb_file made of it.                                       *)
(***************************************************************************)
EXTENDS PdbFile, TLC, Json, IOUtils

CONSTANT NBlocks
ASSUME TLCSet(1, JsonDeserialize(IOEnv.TRACE_FILE).traces)
Traces == TLCGet(1)
VARIABLES blk, tid

Verdict(t) ==
  IF ~(Len(t.atoms) >= 1 /\ \A i \in 1..3 : t.cell.len[i] \in 1000..99999999 /\ t.cell.ang[i] \in 3000..15000) THEN "OOD shape" ELSE
  IF t.lines # PdbText(t.cell, t.atoms) THEN "OOD BadProposal" ELSE
  IF t.exc # "" THEN "REJECT Raised" ELSE
  IF t.off THEN "REJECT OffGrid" ELSE
  IF ~LoadedOK(t.cell, t.atoms, t.loaded) THEN
       (IF t.loaded.len # t.cell.len \/ t.loaded.ang # t.cell.ang THEN "REJECT Cell" ELSE "REJECT Atoms") ELSE "ACCEPT"

Ids(b) == {i \in 1..Len(Traces) : i % NBlocks = b - 1}
Init == blk = 0 /\ tid = 0
Next == \/ blk = 0 /\ blk' \in 1..NBlocks /\ tid' = 0
        \/ /\ blk > 0 /\ tid = 0 /\ tid' \in Ids(blk) /\ blk' = blk
           /\ PrintT("V|" \o ToString(tid') \o "|" \o Verdict(Traces[tid']))
TraceSpec == Init /\ [][Next]_<<blk, tid>>
=============================================================================
