---------------------------- MODULE Trace_LatticeF ----------------------------
(***************************************************************************)
(* C12 on cells that are not on the exact integer domain of Lattice.tla:   *)
(* parameters given as arbitrary decimals - in particular angles a few     *)
(* ten-thousandths of a degree away from 90 or 120, and lengths a hair     *)
(* apart - where a tolerance-based shortcut ("close enough to a right      *)
(* angle") would change the cell.  The metric the cell must have is        *)
(* computed by the harness from the given parameters (or the given         *)
(* vectors) in double precision, independently of the library:             *)
(*    ge[i][i] = len_i^2,  ge[i][j] = len_i len_j cos(angle_ij)            *)
(* and arrives, like every observed float, as the BigInt round(x 2^K).     *)
(* Everything is BigInt; slack 2^-34 relative to the largest squared       *)
(* length times cI, cI an integer bound on (abc/V)^2 shipped by the        *)
(* harness and CHECKED here against the expected metric.                   *)
(***************************************************************************)
EXTENDS Lattice, TLC, Json, IOUtils

CONSTANTS NBlocks, K
ASSUME TLCSet(1, JsonDeserialize(IOEnv.TRACE_FILE).traces)
Traces == TLCGet(1)
VARIABLES blk, tid

P1 == BPow2(K)
P2 == BPow2(2 * K)
P3 == BPow2(3 * K)
Dot3(u, v) == BAdd(BAdd(BMul(u[1], v[1]), BMul(u[2], v[2])), BMul(u[3], v[3]))
ColOf(M, j) == <<M[1][j], M[2][j], M[3][j]>>
Upper == {<<1,1>>, <<1,2>>, <<1,3>>, <<2,2>>, <<2,3>>, <<3,3>>}
BMax3(a, b, c) == BMax(BMax(a, b), c)
AngIdx(i, j) == IF <<i, j>> = <<2, 3>> THEN 1 ELSE IF <<i, j>> = <<1, 3>> THEN 2 ELSE 3      \* alpha, beta, gamma

(* |X - Y| <= 2^-34 * cI * S  (X, Y, S on the same scale) *)
Near(X, Y, S, cI) == BLe(BMul(BAbs(BSub(X, Y)), BPow2(34)), BMulInt(S, cI))

(* ge: expected metric at scale 2^K (symmetric, upper triangle used); cI checked: cI * det(ge) >= ge11 ge22 ge33 *)
Sym(ge, i, j) == IF i <= j THEN ge[i][j] ELSE ge[j][i]
FullGe(ge) == [i \in Ix |-> [j \in Ix |-> Sym(ge, i, j)]]
GuardF(t) ==
  LET g == FullGe(t.ge) IN
  IF ~(IsB3(t.ge) /\ t.cI \in 1..100000) THEN "shape" ELSE
  IF ~(\A i \in Ix : BSign(g[i][i]) > 0) THEN "degenerate" ELSE
  IF ~(BSign(B3Det(g)) > 0) THEN "degenerate" ELSE
  IF ~BLe(BMul(BMul(g[1][1], g[2][2]), g[3][3]), BMulInt(B3Det(g), t.cI)) THEN "condition-bound" ELSE ""

RouteVerdictF(t, o) ==
  LET g == FullGe(t.ge)
      S1 == BMax3(g[1][1], g[2][2], g[3][3])                       \* largest squared length, scale 2^K
      S2 == BMul(S1, P1)                                            \* on scale 2^2K
      dd == [i \in Ix |-> [j \in Ix |-> Dot3(o.D[i], o.D[j])]]      \* direct . direct^T, scale 2^2K
  IN
  IF o.exc # "" THEN "Raised" ELSE
  IF ~o.finite THEN "Finite" ELSE
  IF ~(IsB3(o.D) /\ IsB3(o.Inv) /\ IsBVec(o.len, 3) /\ IsBVec(o.cosang, 3) /\ BWellFormed(o.vol)) THEN "Shape" ELSE
  \* the lattice vectors have the metric the parameters describe
  IF \E ij \in Upper : ~Near(dd[ij[1]][ij[2]], BMul(g[ij[1]][ij[2]], P1), S2, t.cI) THEN "Gram" ELSE
  \* direct and inverse are mutual inverses
  IF \E i \in Ix : \E j \in Ix :
        ~Near(Dot3(o.D[i], ColOf(o.Inv, j)), IF i = j THEN P2 ELSE BZero, P2, 8 * t.cI) THEN "Inverse" ELSE
  \* reported lengths and angles are those of the lattice vectors
  IF \E i \in Ix : ~(BSign(o.len[i]) > 0 /\ Near(BMul(o.len[i], o.len[i]), BMul(g[i][i], P1), S2, t.cI)) THEN "Lengths" ELSE
  IF \E ij \in {<<2, 3>>, <<1, 3>>, <<1, 2>>} :
        ~Near(BMul(BMul(o.cosang[AngIdx(ij[1], ij[2])], o.len[ij[1]]), o.len[ij[2]]), BMul(g[ij[1]][ij[2]], P2), BMul(S2, P1), t.cI)
     THEN "Angles" ELSE
  \* the parameter vector (lengths, angles in degrees) is the one of the cell: lengths or angles less than 1e-6 apart may be
  \* reported as equal (documented tidying), nothing coarser: 2e-6 on lengths, 5e-8 on the sines and cosines (2e-6 degrees)
  IF ~(IsBVec(o.plen, 3) /\ IsBVec(o.pcos, 3) /\ IsBVec(o.psin, 3) /\ IsBVec(o.sinang, 3)) THEN "Shape" ELSE
  IF \E i \in Ix : \/ ~BLe(BMulInt(BAbs(BSub(o.plen[i], o.len[i])), 500000), P1)
                    \/ ~BLe(BMulInt(BAbs(BSub(o.pcos[i], o.cosang[i])), 20000000), P1)
                    \/ ~BLe(BMulInt(BAbs(BSub(o.psin[i], o.sinang[i])), 20000000), P1) THEN "Parameters" ELSE
  \* volume = det(direct) > 0 and volume^2 = det(metric)
  IF ~(BSign(o.vol) > 0 /\ Near(BMul(o.vol, P2), B3Det(o.D), BMul(B3Det(o.D), BI(1)), t.cI)) THEN "VolumeIsDet" ELSE
  IF ~Near(BMul(BMul(o.vol, o.vol), P1), B3Det(g), B3Det(g), 4 * t.cI) THEN "Volume" ELSE
  \* fractional -> Cartesian -> fractional is the identity on the probe points (n-th parts)
  IF \E m \in DOMAIN t.pts : \E i \in Ix :
        ~Near(BMulInt(o.fs[m][i], t.n), BMulInt(P1, t.pts[m][i]), BMulInt(P1, 64 * t.n), t.cI) THEN "RoundTrip" ELSE
  "ok"

Verdict(t) ==
  LET gd == GuardF(t)
      vs == [r \in DOMAIN t.routes |-> RouteVerdictF(t, t.routes[r])]
      bad == {r \in DOMAIN vs : vs[r] # "ok"}
  IN IF gd # "" THEN "OOD " \o gd
     ELSE IF bad = {} THEN "ACCEPT"
     ELSE LET r == CHOOSE r \in bad : \A q \in bad : r <= q IN "REJECT " \o vs[r] \o "@" \o t.routes[r].name

Ids(b) == {i \in 1..Len(Traces) : i % NBlocks = b - 1}
Init == blk = 0 /\ tid = 0
Next == \/ blk = 0 /\ blk' \in 1..NBlocks /\ tid' = 0
        \/ /\ blk > 0 /\ tid = 0 /\ tid' \in Ids(blk) /\ blk' = blk
           /\ PrintT("V|" \o ToString(tid') \o "|" \o Verdict(Traces[tid']))
TraceSpec == Init /\ [][Next]_<<blk, tid>>
=============================================================================
