--------------------------- MODULE Trace_GenFile ---------------------------
(***************************************************************************)
(* Code -> spec binding for GenFile.tla (an extension beyond the listed    *)
(* properties, run by the C10 check).  The harness composes the text of a  *)
(* .gen file of kind F or S for a cell and a list of atoms on the grid     *)
(* and reads it with Crystal.from_gen_string / Crystal.load; what the      *)
(* crystal then holds is projected to the grid.                            *)
(***************************************************************************)
EXTENDS GenFile, TLC, Json, IOUtils

CONSTANT NBlocks
ASSUME TLCSet(1, JsonDeserialize(IOEnv.TRACE_FILE).traces)
Traces == TLCGet(1)
VARIABLES blk, tid

Verdict(t) ==
  IF ~(t.kind \in {"F", "S"} /\ t.n \in 1..96 /\ Len(t.listed) >= 1) THEN "OOD shape" ELSE
  IF t.exc # "" THEN "REJECT Raised:" \o t.kind ELSE
  IF t.off THEN "REJECT OnGrid:" \o t.kind ELSE
  IF ~LoadedOK(t.n, t.gram, t.listed, t.loaded) THEN "REJECT Loaded:" \o t.kind ELSE "ACCEPT"

Ids(b) == {i \in 1..Len(Traces) : i % NBlocks = b - 1}
Init == blk = 0 /\ tid = 0
Next == \/ blk = 0 /\ blk' \in 1..NBlocks /\ tid' = 0
        \/ /\ blk > 0 /\ tid = 0 /\ tid' \in Ids(blk) /\ blk' = blk
           /\ PrintT("V|" \o ToString(tid') \o "|" \o Verdict(Traces[tid']))
TraceSpec == Init /\ [][Next]_<<blk, tid>>
=============================================================================
