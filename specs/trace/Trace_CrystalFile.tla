--------------------------- MODULE Trace_CrystalFile ---------------------------
(***************************************************************************)
(* Code -> spec binding for C10 (harness/c10.py): a real Crystal is saved  *)
(* as CIF / SHELX .res / POSCAR (string or file route, built in memory or  *)
(* itself loaded from a file) and loaded back.  TLC checks the content of  *)
(* the .res text against the SHELX semantics written in SpaceGroup.tla and *)
(* the reloaded crystal against the original.                              *)
(***************************************************************************)
EXTENDS CrystalFile, TLC, Json, IOUtils

CONSTANT NBlocks
ASSUME TLCSet(1, JsonDeserialize(IOEnv.TRACE_FILE).traces)     \* parsed once, not once per worker
Traces == TLCGet(1)
VARIABLES blk, tid

Tag(t) == ":" \o t.fmt \o ":" \o t.provenance
ResText(t) ==
  LET x == t.text S == CodeSet(t.ops)
      kf == IF Centro(S) /\ ~InversionAtOrigin(S) /\ x.latt > 0 THEN " KF=C02-latt-origin" ELSE "" IN
  IF x.exc # "" THEN "REJECT TextUnreadable" \o Tag(t) ELSE
  IF ~SymmTextsOK(x.symm) THEN "REJECT SymmText" \o Tag(t) ELSE
  IF \E i \in DOMAIN x.symm : SymmCodes(x.symm)[i] = IdentityCode THEN "ACCEPT drift=IdentityListed" ELSE
  IF ~ResDenotes(x.latt, x.symm, S) THEN "REJECT LattSymm" \o Tag(t) \o kf ELSE
  IF x.celloff \/ ~CellClose(x.cell, t.cell, 1) THEN "REJECT CellText" \o Tag(t) ELSE
  IF x.atomsoff \/ ~ResAtomsOK(x.sfac, x.atoms, t.asym) THEN "REJECT AtomText" \o Tag(t) ELSE "ok"

Reload(t) ==
  LET r == t.re IN
  IF r.exc # "" THEN "REJECT ReloadRaised" \o Tag(t) ELSE
  IF r.off THEN "REJECT OnGrid" \o Tag(t) ELSE
  IF t.fmt = "poscar" THEN
     (IF ~(r.number = 1 /\ r.ops = <<IdentityCode>>) THEN "REJECT NotP1" \o Tag(t) ELSE
      IF r.gramoff \/ r.gram # t.gram THEN "REJECT Lattice" \o Tag(t) ELSE
      IF ~PoscarAtomsOK(r.sites, t.ops, t.asym, t.n) THEN "REJECT AtomSet" \o Tag(t) ELSE "ok")
  ELSE
     (IF ~SameGroup(r.number, r.ops, t.number, t.ops) THEN "REJECT SpaceGroup" \o Tag(t) ELSE
      IF ~CellClose(r.cell, t.cell, IF t.fmt = "res" THEN 2 ELSE 1) THEN "REJECT Cell" \o Tag(t) ELSE
      IF ~SitesEqual(r.sites, t.asym, t.fmt = "cif") THEN "REJECT Sites" \o Tag(t) ELSE "ok")

Verdict(t) ==
  \* a first leg (loading the file the crystal comes from) or the writing itself failed: nothing else was observed
  IF t.write_exc # "" /\ t.fmt \in {"cif", "res", "poscar"} THEN "REJECT WriteRaised" \o Tag(t) ELSE
  IF ~(t.fmt \in {"cif", "res", "poscar"} /\ t.n % 12 = 0 /\ HasIdentity(CodeSet(t.ops))) THEN "OOD shape" ELSE
  IF t.fmt = "poscar" /\ ~OrbitsDisjoint(t.ops, [i \in DOMAIN t.asym |-> [p |-> t.asym[i].p]], t.n) THEN "OOD overlapping-orbits" ELSE
  IF t.write_exc # "" THEN "REJECT WriteRaised" \o Tag(t) ELSE
  LET a == IF t.fmt = "res" THEN ResText(t) ELSE "ok" IN
  IF a # "ok" /\ a # "ACCEPT drift=IdentityListed" THEN a ELSE
  LET b == Reload(t) IN
  IF b # "ok" THEN b ELSE IF a = "ok" THEN "ACCEPT" ELSE a

Ids(b) == {i \in 1..Len(Traces) : i % NBlocks = b - 1}
Init == blk = 0 /\ tid = 0
Next == \/ blk = 0 /\ blk' \in 1..NBlocks /\ tid' = 0
        \/ /\ blk > 0 /\ tid = 0 /\ tid' \in Ids(blk) /\ blk' = blk
           /\ PrintT("V|" \o ToString(tid') \o "|" \o Verdict(Traces[tid']))
TraceSpec == Init /\ [][Next]_<<blk, tid>>
=============================================================================
