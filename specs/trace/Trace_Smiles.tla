---------------------------- MODULE Trace_Smiles ----------------------------
(***************************************************************************)
(* Code -> spec binding for Smiles.tla (an extension beyond the listed     *)
(* properties, run by the C16 check).  One trace per string handed to the  *)
(* real reader (chmpy.fmt.smiles.parse): the text, the harness's split of  *)
(* it into tokens (TLC certifies that the tokens are tokens and spell the  *)
(* text), and what the reader returned.  TLC reads the tokens with the     *)
(* machine of Smiles and compares atoms and bonds.  Strings come from      *)
(* MC_Smiles (every well-formed string up to a depth, printed by TLC) and  *)
(* from a generator of longer ones.                                        *)
(***************************************************************************)
EXTENDS Smiles, Json, IOUtils

CONSTANT NBlocks
ASSUME TLCSet(1, JsonDeserialize(IOEnv.TRACE_FILE).traces)
Traces == TLCGet(1)
VARIABLES blk, tid

Verdict(t) ==
  LET fin == Run(t.toks) IN
  IF ~(\A k \in DOMAIN t.toks : IsToken(t.toks[k])) THEN "OOD token" ELSE
  IF Text(t.toks) # t.text THEN "OOD BadProposal" ELSE
  IF IllFormed(t.toks) THEN (IF t.exc = "" THEN "REJECT IllFormedRead" ELSE "ACCEPT") ELSE
  IF ~Accepting(fin) THEN "OOD outside-the-module" ELSE
  IF t.exc # "" THEN "REJECT Raised" ELSE
  IF t.atoms # fin.atoms THEN "REJECT Atoms" ELSE
  IF \E k \in DOMAIN t.bonds : ~(t.bonds[k][1] \in DOMAIN t.atoms /\ t.bonds[k][2] \in DOMAIN t.atoms) THEN "REJECT BondEnds" ELSE
  IF PairSet(t.bonds) # PairSet(fin.bonds) \/ Len(t.bonds) # Len(fin.bonds) THEN
     (IF ~Connected([fin EXCEPT !.bonds = t.bonds]) /\ fin.ndots = 0 THEN "REJECT Bonds:molecule-falls-apart" ELSE "REJECT Bonds") ELSE
  IF BondSet(t.bonds) # BondSet(fin.bonds) THEN "REJECT BondKinds" ELSE "ACCEPT"

Ids(b) == {i \in 1..Len(Traces) : i % NBlocks = b - 1}
Init == blk = 0 /\ tid = 0
Next == \/ blk = 0 /\ blk' \in 1..NBlocks /\ tid' = 0
        \/ /\ blk > 0 /\ tid = 0 /\ tid' \in Ids(blk) /\ blk' = blk
           /\ PrintT("V|" \o ToString(tid') \o "|" \o Verdict(Traces[tid']))
TraceSpec == Init /\ [][Next]_<<blk, tid>>
=============================================================================
