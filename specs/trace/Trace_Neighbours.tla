--------------------------- MODULE Trace_Neighbours ---------------------------
(***************************************************************************)
(* Code -> spec binding for C03.  One trace per real Crystal; it carries a *)
(* sequence of neighbourhood queries (atoms_in_radius, atomic_surroundings,*)
(* molecule_environment, atom_group_surroundings) with the returned rows   *)
(* projected to the grid.  The expected rows are computed by TLC from the  *)
(* space group, the asymmetric unit and the integer Gram matrix.           *)
(* Molecule-level queries (molecular_shell, symmetry_unique_dimers) return *)
(* whole molecules; they are judged by Dimers!ShellExpected.               *)
(***************************************************************************)
EXTENDS Dimers, Reexpress, TLC, Json, IOUtils

CONSTANT NBlocks
ASSUME TLCSet(1, JsonDeserialize(IOEnv.TRACE_FILE).traces)     \* parsed once, not once per worker
Traces == TLCGet(1)
VARIABLES blk, tid

SeqSet(s) == {s[i] : i \in DOMAIN s}

(* some wanted atom lies in a cell outside the box the pinned commit searched *)
AsBuiltMisses(t, centre, want) ==
  LET H == t.K + 3
      bs == {BoundsAsBuilt(t.gram, c, t.k, t.n, H) : c \in centre}
  IN \E a \in want : \E i \in Idx :
        \/ \A b \in bs : a.cell[i] < b.lo[i]
        \/ \A b \in bs : a.cell[i] > b.hi[i]

(* a query may be asked at a smaller radius of its own (q.k <= t.k: the certified box still holds) *)
KOf(t, q) == IF "k" \in DOMAIN q THEN q.k ELSE t.k
(* "given molecule" queries: the centre handed to the library is displaced from the sites by at most dm micro-Angstrom.  The
   answer is that of the sites themselves provided (1) the displacement is below the threshold in force, (2) no atom lies
   within m grid units^2 of the query sphere, and (3) m grid units^2 cover the change of a squared distance by such a
   displacement at radii up to 13 A:  m u^2/n^2 >= 2 R d + d^2 *)
GivenGuard(t, q, ucpts) ==
  LET centre == SeqSet(q.centre)
      H == t.K
      near == {a \in Expected(t.gram, ucpts, centre, q.k + 1 + q.m, t.K, t.n, FALSE) :
                 \E c \in centre : Dist2N(t.gram, c, a.p) >= q.k - q.m /\ Dist2N(t.gram, c, a.p) <= q.k + 1 + q.m}
  IN IF ~(q.k >= 1 /\ q.m >= 1 /\ q.k + q.m + 1 <= t.k /\ q.dm \in 1..20000) THEN "OOD given-shape"
     ELSE IF q.dm >= q.thr_um THEN "OOD displacement-above-threshold"
     ELSE IF q.m * t.u2m < t.n * t.n * (26 * q.dm + 1) THEN "OOD margin"
     ELSE IF near # {} THEN "OOD atom-near-sphere"
     ELSE ""
QueryVerdict(t, q, ucpts) ==
  LET centre == SeqSet(q.centre)
      want == Expected(t.gram, ucpts, centre, KOf(t, q), t.K, t.n, q.excl)
      wantP == {a.p : a \in want}
      got == {q.rows[i].p : i \in DOMAIN q.rows}
      kf == IF AsBuiltMisses(t, centre, want) THEN " KF=C03-search-box" ELSE ""
      tag == ":" \o q.kind
  IN
  IF ~BoxCertificate(t.gram, centre, t.k, t.K, t.n) THEN "OOD box" ELSE
  IF q.kind = "molecule_environment_given" /\ q.exc = "" /\ GivenGuard(t, q, ucpts) # "" THEN GivenGuard(t, q, ucpts) ELSE
  IF q.exc # "" THEN "REJECT Raised" \o tag ELSE
  IF q.off THEN "REJECT OnGrid" \o tag ELSE
  IF Cardinality(got) # Len(q.rows) THEN "REJECT Duplicate" \o tag ELSE
  IF wantP \ got # {} THEN "REJECT Missing" \o tag \o kf ELSE
  IF q.excl /\ got \cap centre # {} THEN "REJECT CentreNotExcluded" \o tag ELSE
  IF got \ wantP # {} THEN "REJECT Extra" \o tag ELSE
  IF ~(\A i \in DOMAIN q.rows :
         \E a \in want : /\ a.p = q.rows[i].p
                         /\ t.asym[a.asym].z = q.rows[i].z
                         /\ (q.rows[i].asym = 0 \/ q.rows[i].asym = a.asym)
                         /\ (q.rows[i].d2 = -1 \/ q.rows[i].d2 = MinDist2N(t.gram, centre, a.p))
                         \* the cell an atom is listed under: the atom lies in that cell's box, faces included (a unit-cell
                         \* coordinate a hair below 1 is the site 0 of the next cell, and either description is right)
                         /\ (~q.rows[i].hascell \/ \A c \in 1..3 : q.rows[i].p[c] - t.n * q.rows[i].cell[c] \in 0..t.n))
     THEN "REJECT Attributes" \o tag ELSE "ok"

(* ---- molecule-level queries ------------------------------------------------ *)
MolQuery(q) == q.kind \in {"molecular_shell", "symmetry_unique_dimers"}
(* obs: sequence of observed molecules (sequences of atoms [p, z]) around the centre (set of points) *)
ShellCheck(t, tab, ucpts, centre, obs, tag) ==
  LET want == ShellExpected(t.gram, t.ops, t.asym, t.mols, tab, ucpts, centre, t.k, t.K, t.n)
      got == {ObsPoints(obs[i]) : i \in DOMAIN obs}
  IN
  IF ~BoxCertificate(t.gram, centre, t.k, t.K, t.n) THEN "OOD box" ELSE
  IF \E i \in DOMAIN obs : ~ObsOnCrystal(tab, obs[i], t.n) THEN "REJECT Extra" \o tag ELSE
  IF Cardinality(got) # Len(obs) \/ \E i \in DOMAIN obs : Cardinality(ObsPoints(obs[i])) # Len(obs[i]) THEN "REJECT Duplicate" \o tag ELSE
  IF want \ got # {} THEN "REJECT Missing" \o tag ELSE
  IF centre \in got THEN "REJECT CentreNotExcluded" \o tag ELSE
  IF got \ want # {} THEN "REJECT Extra" \o tag ELSE
  IF \E i \in DOMAIN obs : ~ObsElementsOK(tab, t.asym, obs[i], t.n) THEN "REJECT Attributes" \o tag ELSE "ok"

ShellVerdict(t, q, tab, ucpts) ==
  IF q.exc # "" THEN "REJECT Raised:molecular_shell" ELSE
  IF q.off THEN "REJECT OnGrid:molecular_shell" ELSE
  ShellCheck(t, tab, ucpts, SeqSet(q.centre), [i \in DOMAIN q.mols |-> q.mols[i]], ":molecular_shell")

DimersVerdict(t, q, tab, ucpts) ==
  LET tag == ":symmetry_unique_dimers"
      cents == [a \in DOMAIN q.cents |-> SeqSet(q.cents[a])]
      pairsOf(a) == SelectSeq(q.pairs, LAMBDA pr : pr.a = a)
      shell(a) == LET ps == pairsOf(a) IN ShellCheck(t, tab, ucpts, cents[a], [i \in DOMAIN ps |-> ps[i].atoms], tag)
      bad == {a \in DOMAIN cents : shell(a) # "ok"}
      P == DOMAIN q.pairs
  IN
  IF q.exc # "" THEN "REJECT Raised" \o tag ELSE
  IF q.off THEN "REJECT OnGrid" \o tag ELSE
  IF Len(q.cents) # Len(t.mols) \/ \E i \in P : q.pairs[i].a \notin DOMAIN q.cents THEN "REJECT UniqueCount" \o tag ELSE
  IF bad # {} THEN shell(CHOOSE a \in bad : \A b \in bad : a <= b) ELSE
  IF \E i \in P : q.pairs[i].d2 # ClosestD2(t.gram, cents[q.pairs[i].a], ObsPoints(q.pairs[i].atoms)) THEN "REJECT Separation" \o tag ELSE
  IF \E i \in P : \E j \in P : q.pairs[i].cls = q.pairs[j].cls /\ q.pairs[i].d2 # q.pairs[j].d2 THEN "REJECT ClassDistance" \o tag ELSE
  \* the transform a dimer carries is a proper rotation that fits its own two molecules as well as any (not the transform of
  \* another dimer of its class); residuals in 1e-4 A, reference fit by the harness
  IF \E i \in P : q.pairs[i].fit.has /\ (~q.pairs[i].fit.orth \/ q.pairs[i].fit.res > q.pairs[i].fit.ref + 10) THEN "REJECT DimerTransform" \o tag ELSE
  IF {q.pairs[i].cls : i \in P} # 1..Len(q.reps) THEN "REJECT ClassIndex" \o tag ELSE
  IF \E r \in DOMAIN q.reps : ~\E i \in P : /\ q.pairs[i].cls = r /\ q.pairs[i].a = q.reps[r].a
                                               /\ ObsPoints(q.pairs[i].atoms) = ObsPoints(q.reps[r].atoms)
     THEN "REJECT Representative" \o tag ELSE "ok"

AnyVerdict(t, q, tab, ucpts) ==
  IF q.kind = "molecular_shell" THEN ShellVerdict(t, q, tab, ucpts)
  ELSE IF q.kind = "symmetry_unique_dimers" THEN DimersVerdict(t, q, tab, ucpts)
  ELSE QueryVerdict(t, q, ucpts)
CentresOf(q) == IF q.kind = "symmetry_unique_dimers" THEN UNION {SeqSet(q.cents[a]) : a \in DOMAIN q.cents} ELSE SeqSet(q.centre)

Verdict(t) ==
  LET tab == ImgTable(t.ops, t.asym, t.n)
      ucpts == ExpectedCellT(tab)
      vs == [i \in DOMAIN t.queries |-> AnyVerdict(t, t.queries[i], tab, ucpts)]
      bad == {i \in DOMAIN vs : vs[i] # "ok"}
  IN
  IF ~(t.n % 12 = 0 /\ t.n <= 48 /\ t.K \in 1..9 /\ t.k >= 0 /\ Len(t.queries) > 0) THEN "OOD shape" ELSE
  \* 32-bit safety: |coordinate differences| <= (K+3) N, so Dist2N <= 9 maxG ((K+3)N)^2 must stay below 2^31
  IF ~(\A i \in Idx : \A j \in Idx : AbsI(t.gram[i][j]) <= 2147483647 \div (9 * ((t.K + 3) * t.n) * ((t.K + 3) * t.n))) THEN "OOD gram-magnitude" ELSE
  IF ~(\A i \in DOMAIN t.queries : \A c \in CentresOf(t.queries[i]) : \A x \in Idx : AbsI(c[x]) <= 2 * t.n) THEN "OOD centre-range" ELSE
  IF ~SwitchedFromOK(t) THEN "OOD switch-proposal" ELSE
  IF ~MetricCompatible(t.ops, t.gram) THEN "OOD metric" ELSE
  IF ~OrbitsDisjointT(tab) THEN "OOD overlapping-orbits" ELSE
  \* molecule-level queries need the intended chemistry to be what any bonding rule finds (as in Trace_Molecules)
  IF (\E i \in DOMAIN t.queries : MolQuery(t.queries[i])) /\
     ~( /\ Len(t.mols) > 0 /\ ChemistryOK(t.asym, t.mols, t.bonds) /\ GeneralPositions(tab)
        /\ ThresholdsOK(t.thr, t.n, t.u2m) /\ ReachCertificate(t.gram, t.thr, t.n)
        /\ ContactsClear(t.gram, tab, t.asym, t.n, t.thr, t.bonds) ) THEN "OOD chemistry" ELSE
  IF bad = {} THEN "ACCEPT" ELSE vs[CHOOSE i \in bad : \A j \in bad : i <= j]

Ids(b) == {i \in 1..Len(Traces) : i % NBlocks = b - 1}
Init == blk = 0 /\ tid = 0
Next == \/ blk = 0 /\ blk' \in 1..NBlocks /\ tid' = 0
        \/ /\ blk > 0 /\ tid = 0 /\ tid' \in Ids(blk) /\ blk' = blk
           /\ PrintT("V|" \o ToString(tid') \o "|" \o Verdict(Traces[tid']))
TraceSpec == Init /\ [][Next]_<<blk, tid>>
=============================================================================
