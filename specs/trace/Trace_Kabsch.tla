---------------------------- MODULE Trace_Kabsch ----------------------------
(***************************************************************************)
(* Code -> spec binding for C18 (harness/c18.py).  One trace per call:     *)
(*   kind "points": R = kabsch_rotation_matrix(A, B), AR = reorient_points *)
(*                  (A, B), rmsd = rmsd_points(A, B)                       *)
(*   kind "dimer" : R = Dimer(mol_a, mol_b, transform_ab="calculate")      *)
(*                  .transform_ab[0]; the code aligns the centred mol_b    *)
(*                  onto the centred mol_a, so the effective point sets    *)
(*                  are Centre(B) and Centre(A) (in that order).           *)
(* Inputs are integer point sets; q (when non-zero) declares that the      *)
(* second effective set is the image of the first under the rational       *)
(* rotation of the integer quaternion q -- the spec verifies the claim.    *)
(* Observed floats arrive as integers round(x * 2^20).                     *)
(* Slack: tau = 2^-13 h, h = (|A|^2 + |B|^2)/2 >= ||H||, which is >= 17x   *)
(* the worst-case effect of the 2^-20 quantisation of R on every clause.   *)
(***************************************************************************)
EXTENDS Kabsch, FiniteSetsExt, SequencesExt, TLC, Json, IOUtils

CONSTANTS NBlocks, NetMax
ASSUME TLCSet(1, JsonDeserialize(IOEnv.TRACE_FILE).traces)     \* parsed once, not once per worker
Traces == TLCGet(1)
Net == RotNet(NetMax)

VARIABLES blk, tid
vars == <<blk, tid>>

Q == 20
PQ == BPow2(Q)
P2Q == BPow2(2 * Q)
P3Q == BPow2(3 * Q)
OrthTol == BPow2(2 * Q - 17)          \* |R R^T - I| <= 2^-17 per entry
DetTol == BPow2(3 * Q - 17)           \* |det R - 1| <= 2^-17
CoordMax == 400

EffA(t) == IF t.kind = "dimer" THEN Centre(t.B) ELSE t.A
EffB(t) == IF t.kind = "dimer" THEN Centre(t.A) ELSE t.B

IsPoints(P) == \A p \in DOMAIN P : Len(P[p]) = 3 /\ \A j \in Ix : P[p][j] \in (-CoordMax)..CoordMax
Guard(t) ==
  IF ~(t.kind \in {"points", "dimer"}) THEN "kind" ELSE
  IF ~(Len(t.A) = Len(t.B) /\ Len(t.A) \in 3..50) THEN "size" ELSE
  IF ~(IsPoints(t.A) /\ IsPoints(t.B)) THEN "magnitude" ELSE
  IF t.kind = "dimer" /\ ~(Len(t.A) <= 10 /\ \A p \in DOMAIN t.A : \A j \in Ix : t.A[p][j] \in -20..20 /\ t.B[p][j] \in -20..20) THEN "magnitude" ELSE
  LET A == EffA(t)  B == EffB(t) IN
  IF SumAbsM(Cov(A, B)) > 2000000 THEN "magnitude" ELSE
  IF QNorm(t.q) > 0 /\ ~(QNorm(t.q) <= NetMax /\ ImageOf(A, IF t.mirror THEN [p \in DOMAIN B |-> <<B[p][1], B[p][2], -B[p][3]>>] ELSE B,
                                                        [n |-> QuatRot(t.q), d |-> QNorm(t.q)])) THEN "construction" ELSE
  ""

ShapeOK(t) ==
  /\ Len(t.R) = 3 /\ \A i \in Ix : Len(t.R[i]) = 3 /\ \A j \in Ix : t.R[i][j] \in -2097152..2097152
  /\ (t.kind = "points" => /\ Len(t.AR) = Len(t.A)
                           /\ \A p \in DOMAIN t.AR : Len(t.AR[p]) = 3 /\ \A j \in Ix : t.AR[p][j] \in -1000000000..1000000000
                           /\ t.rmsd >= 0)

Orthogonal(rrt) == \A i \in Ix : \A j \in Ix :
   BLe(BAbs(BSub(rrt[i][j], IF i = j THEN P2Q ELSE BZero)), OrthTol)
Det1(R) == BLe(BAbs(BSub(B3Det(B3FromInt(R)), P3Q)), DetTol)
(* every point of A lands on its partner: |(A R)_pj - B_pj| <= 2^-14 (1 + |A_p|_1) *)
RowTol(A, p) == 64 * (1 + AbsI(A[p][1]) + AbsI(A[p][2]) + AbsI(A[p][3]))
Applied(A, R, p, j) == A[p][1]*R[1][j] + A[p][2]*R[2][j] + A[p][3]*R[3][j]
Superposes(A, B, R) == \A p \in DOMAIN A : \A j \in Ix :
   AbsI(Applied(A, R, p, j) - 1048576 * B[p][j]) <= RowTol(A, p)
(* reorient_points returns A R for the same R *)
ReorientOK(A, R, AR) == \A p \in DOMAIN A : \A j \in Ix : AbsI(Applied(A, R, p, j) - AR[p][j]) <= RowTol(A, p)

(* M = R^T H symmetric and tr(M) I - M positive semidefinite, with slack tau on the scale 2^Q *)
CertSymmetric(M, tauQ) == \A i \in Ix : \A j \in Ix : BLe(BAbs(BSub(M[i][j], M[j][i])), tauQ)
CertPSD(M, tauQ) ==
  LET tr2 == BMulInt(BAdd(BAdd(M[1][1], M[2][2]), BAdd(M[3][3], tauQ)), 2)
      S == [i \in Ix |-> [j \in Ix |-> BSub(IF i = j THEN tr2 ELSE BZero, BAdd(M[i][j], M[j][i]))]]   \* 2 (tr(M) I - sym(M) + tau I)
  IN BPSD3(S)

(* max over the net of tr(Q^T H), as <<num, den>>, by a linear fold in plain integers;  *)
(* the net is flattened once to tuples <<n11, .., n33, d>>                              *)
FlatNet == {<<r.n[1][1], r.n[1][2], r.n[1][3], r.n[2][1], r.n[2][2], r.n[2][3], r.n[3][1], r.n[3][2], r.n[3][3], r.d>> : r \in Net}
NetBest(H) ==
  LET h == <<H[1][1], H[1][2], H[1][3], H[2][1], H[2][2], H[2][3], H[3][1], H[3][2], H[3][3]>>
      Better(f, b) == LET v == f[1]*h[1] + f[2]*h[2] + f[3]*h[3] + f[4]*h[4] + f[5]*h[5] + f[6]*h[6] + f[7]*h[7] + f[8]*h[8] + f[9]*h[9]
                      IN IF v * b[2] > b[1] * f[10] THEN <<v, f[10]>> ELSE b
  IN FoldSet(Better, <<Frob(M3Id, H), 1>>, FlatNet)
(* sum |A R - B|^2 <= sum |A Q - B|^2 + tau for every Q of the net *)
NoBetterInNet(res, best, aabb, tau2) ==
  BLe(BMulInt(res, best[2]),
      BAdd(BMul(P2Q, BSub(BMul(BI(aabb), BI(best[2])), BI(2 * best[1]))), BMulInt(tau2, best[2])))
(* rmsd_points^2 n = sum |A R - B|^2, with A R as reorient_points returns it (2^-20 per    *)
(* coordinate, much finer than the residual of the quantised R).  S is on the scale 2^2Q.  *)
(* Slack: 2^-10 relative plus n 2^-28 absolute (on 2^2Q: n 2^12) for the quantisation      *)
(* e = 2^-21 of rmsd and of the coordinates: 2 n rmsd e <= 2^-11 n rmsd^2 + 2^11 n e^2.    *)
PointResid2(AR, B, p) ==
  LET d1 == BI(AR[p][1] - 1048576 * B[p][1])
      d2 == BI(AR[p][2] - 1048576 * B[p][2])
      d3 == BI(AR[p][3] - 1048576 * B[p][3])
  IN BAdd(BAdd(BMul(d1, d1), BMul(d2, d2)), BMul(d3, d3))
ObsResid2Points(AR, B) == FoldLeft(LAMBDA acc, x : BAdd(acc, x), BZero, [p \in DOMAIN AR |-> PointResid2(AR, B, p)])
RmsdOK(S, n, rmsd) ==
  LET lhs == BMulInt(BMul(BI(rmsd), BI(rmsd)), n)
  IN BLe(BMulInt(BAbs(BSub(lhs, S)), 1024), BAdd(BAdd(S, lhs), BI(n * 4194304)))

Verdict(t) ==
  LET g == Guard(t) IN
  IF g # "" THEN "OOD " \o g ELSE
  IF t.exc # "" THEN "REJECT Raised" ELSE
  IF ~t.finite THEN "REJECT Finite" ELSE
  IF ~ShapeOK(t) THEN "REJECT Shape" ELSE
  LET A == EffA(t)
      B == EffB(t)
      R == t.R
      H == Cov(A, B)
      AA == Moment(A)
      bb == SumSq(B)
      hI == (M3Tr(AA) + bb) \div 2 + 1
      tauQ == BMulInt(BPow2(Q - 13), hI)
      tau2 == BMulInt(BPow2(2 * Q - 13), hI)
      rrt == ObsRRT(R)
      M == ObsM(R, H)
      res == ObsResid2(rrt, ObsFrob(R, H), AA, bb, PQ, P2Q)
  IN
  IF ~Orthogonal(rrt) THEN "REJECT Orthogonal" ELSE
  IF ~Det1(R) THEN "REJECT Det1" ELSE
  IF QNorm(t.q) > 0 /\ ~t.mirror /\ ~Superposes(A, B, R) THEN "REJECT Superposes" ELSE
  IF ~CertSymmetric(M, tauQ) THEN "REJECT CertificateSymmetric" ELSE
  IF ~CertPSD(M, tauQ) THEN "REJECT CertificatePSD" ELSE
  IF ~NoBetterInNet(res, NetBest(H), M3Tr(AA) + bb, tau2) THEN "REJECT NoBetterInNet" ELSE
  IF t.kind = "points" /\ ~ReorientOK(A, R, t.AR) THEN "REJECT Reorient" ELSE
  IF t.kind = "points" /\ ~RmsdOK(ObsResid2Points(t.AR, B), Len(A), t.rmsd) THEN "REJECT Rmsd" ELSE
  \* a request for reorientation in another spelling (True, 1, "Kabsch", ...) is honoured or refused, never silently ignored:
  \* a value that comes back is the RMSD after the optimal alignment (2^-18 slack on the 2^-20 scale)
  IF t.kind = "points" /\ \E i \in DOMAIN t.rmsd_alt : t.rmsd_alt[i].exc = "" /\
        (t.rmsd_alt[i].v - t.rmsd > 4 \/ t.rmsd - t.rmsd_alt[i].v > 4) THEN "REJECT RmsdReorientRequestIgnored" ELSE
  "ACCEPT"

Ids(b) == {i \in 1..Len(Traces) : i % NBlocks = b - 1}
Init == blk = 0 /\ tid = 0
Next == \/ blk = 0 /\ blk' \in 1..NBlocks /\ tid' = 0
        \/ /\ blk > 0 /\ tid = 0 /\ tid' \in Ids(blk) /\ blk' = blk
           /\ PrintT("V|" \o ToString(tid') \o "|" \o Verdict(Traces[tid']))
TraceSpec == Init /\ [][Next]_vars
=============================================================================
