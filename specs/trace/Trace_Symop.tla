----------------------------- MODULE Trace_Symop -----------------------------
(***************************************************************************)
(* Code -> spec binding for C11.  Each trace is one event recorded from    *)
(* chmpy.crystal.symmetry_operation / Crystal (harness/c11.py):            *)
(*   codec    packed code -> matrix form -> packed code -> text -> code    *)
(*   spelling a text certified by the spec's grammar -> code               *)
(*   shift    operations built with translations offset by integers and    *)
(*            rounding noise, through the constructor, +, - and inverted() *)
(*   apply    3-vector, homogeneous and Cartesian application to points    *)
(***************************************************************************)
EXTENDS SymopText, TLC, Json, IOUtils

CONSTANT NBlocks
ASSUME TLCSet(1, JsonDeserialize(IOEnv.TRACE_FILE).traces)     \* parsed once, not once per worker
Traces == TLCGet(1)
VARIABLES blk, tid

Mat9(r) == <<r[1][1], r[1][2], r[1][3], r[2][1], r[2][2], r[2][3], r[3][1], r[3][2], r[3][3]>>
InRange(c) == c >= 0 /\ c < NCodes

Codec(t) ==
  LET op == Dec(t.c) IN
  IF ~InRange(t.c) THEN "OOD code" ELSE
  IF t.exc # "" THEN "REJECT Raised" ELSE
  IF t.off THEN "REJECT OnGrid" ELSE
  IF t.rot # Mat9(op.r) THEN "REJECT DecodeRotation" ELSE
  IF t.tr # op.t THEN "REJECT DecodeTranslation" ELSE
  IF t.rt # t.c THEN "REJECT EncodeMatrix" ELSE
  IF t.text # ToText(op) THEN "REJECT Text" ELSE
  IF t.tc # t.c THEN "REJECT TextRoundTrip" ELSE
  IF ~(t.eq /\ t.hasheq) THEN "REJECT EqualHash" ELSE
  "ACCEPT"

StyleOK(st) == st.pi \in 1..6 /\ st.num \in 1..6 /\ st.layout \in 1..4
SpellingEv(t) ==
  LET op == Dec(t.c) IN
  IF ~(InRange(t.c) /\ \A i \in 1..3 : StyleOK(t.styles[i]) /\ NonZeroRow(op.r[i])) THEN "OOD style" ELSE
  IF t.text # Spelling(op, t.styles, t.sep) THEN "OOD BadSpelling" ELSE
  \* the specification's own reader (SymopText) must read the certified spelling as the same operation
  IF ~(ParseTextB(t.bytes).ok /\ Norm(ParseTextB(t.bytes).op) = Norm(op)) THEN "OOD spec-reader-disagrees-with-grammar" ELSE
  IF t.exc # "" THEN "REJECT Raised" ELSE
  IF t.code # t.c THEN "REJECT ParseSpelling" ELSE
  \* the operation just read is equal to, hashes as and prints as the same operation built from the matrix / packed integer
  IF ~(t.eq /\ t.hasheq) THEN "REJECT ReadEqualHash" ELSE
  IF t.printed # ToText(op) THEN "REJECT ReadPrintsIdentically" ELSE
  "ACCEPT"

(* any text (from CIF files, or composed freely): judged by the specification's reader alone *)
TextEv(t) ==
  LET pt == ParseTextB(t.bytes) IN
  IF ~pt.ok THEN "OOD not-a-usual-spelling" ELSE
  IF ~Encodable(pt.op) THEN "OOD rotation-entry-out-of-range" ELSE
  IF t.exc # "" THEN "REJECT Raised:text" ELSE
  IF t.code # Enc(pt.op) THEN "REJECT ParseText" ELSE
  IF ~(t.eq /\ t.hasheq) THEN "REJECT ReadEqualHash:text" ELSE
  IF t.printed # ToText(Norm(pt.op)) THEN "REJECT ReadPrintsIdentically:text" ELSE
  "ACCEPT"

(* noise ids: 0 none; otherwise +-1e-12 / +-1e-17 on the component pattern; at most 1e-9 in all *)
ShiftEv(t) ==
  LET sh == IF t.route \in {"sub", "isub"} THEN [i \in Idx |-> -t.kv12[i]] ELSE t.kv12     \* twelfths; whole vectors drop out
      op == Shift(Dec(t.c), sh)
      want == IF t.route = "inv" THEN Enc(Inverted(op)) ELSE Enc(op)
      kf == IF t.noise # 0 THEN " KF=C11-noise-below-integer" ELSE ""
  IN
  IF ~(InRange(t.c) /\ t.route \in {"ctor", "add", "sub", "inv", "func", "iadd", "isub"}) THEN "OOD route" ELSE
  IF t.exc # "" THEN "REJECT Raised" \o kf ELSE
  IF ~InRange(t.code) THEN "REJECT CodeRange" \o kf ELSE
  IF t.code # want THEN "REJECT ShiftCode" \o kf ELSE
  IF t.text # ToText(Dec(want)) THEN "REJECT ShiftText" \o kf ELSE
  IF ~(t.eq /\ t.hasheq) THEN "REJECT ShiftEqualHash" \o kf ELSE
  \* an operation IS the identity exactly when it equals x,y,z modulo the lattice (whatever noise its translation carries)
  IF t.isid # (want = IdentityCode) THEN "REJECT ShiftIsIdentity" ELSE
  "ACCEPT"

ApplyEv(t) ==
  LET op == Dec(t.c)
      want == [i \in DOMAIN t.pts |-> ApplyRaw(op, t.pts[i], t.n)]
  IN
  IF ~(InRange(t.c) /\ t.n % 12 = 0) THEN "OOD grid" ELSE
  IF t.exc # "" THEN "REJECT Raised" ELSE
  IF t.off THEN "REJECT OnGrid" ELSE
  IF t.out3 # want THEN "REJECT Apply3" ELSE
  IF t.out4 # [i \in DOMAIN want |-> want[i] \o <<t.n>>] THEN "REJECT Apply4" ELSE
  IF t.call # want THEN "REJECT ApplyCall" ELSE
  \* homogeneous 4-vectors that are not normalised: (w x, w) is the point x, (x, 0) a direction (the translation does not act)
  IF t.out4w2 # [i \in DOMAIN want |-> [j \in 1..4 |-> IF j = 4 THEN 2 * t.n ELSE 2 * want[i][j]]] THEN "REJECT Apply4Weighted" ELSE
  IF t.out4w3 # [i \in DOMAIN want |-> [j \in 1..4 |-> IF j = 4 THEN 3 * t.n ELSE 3 * want[i][j]]] THEN "REJECT Apply4Weighted" ELSE
  IF t.out4d # [i \in DOMAIN want |-> MatVec(op.r, t.pts[i]) \o <<0>>] THEN "REJECT Apply4Direction" ELSE
  IF t.hascart /\ t.cart # want THEN "REJECT ApplyCartesian" ELSE
  "ACCEPT"

Verdict(t) ==
  CASE t.k = "codec" -> Codec(t)
    [] t.k = "spelling" -> SpellingEv(t)
    [] t.k = "text" -> TextEv(t)
    [] t.k = "shift" -> ShiftEv(t)
    [] t.k = "apply" -> ApplyEv(t)
    [] OTHER -> "OOD kind"

Ids(b) == {i \in 1..Len(Traces) : i % NBlocks = b - 1}
Init == blk = 0 /\ tid = 0
Next == \/ blk = 0 /\ blk' \in 1..NBlocks /\ tid' = 0
        \/ /\ blk > 0 /\ tid = 0 /\ tid' \in Ids(blk) /\ blk' = blk
           /\ PrintT("V|" \o ToString(tid') \o "|" \o Verdict(Traces[tid']))
TraceSpec == Init /\ [][Next]_<<blk, tid>>
=============================================================================
