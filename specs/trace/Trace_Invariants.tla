--------------------------- MODULE Trace_Invariants ---------------------------
(***************************************************************************)
(* Code -> spec binding for C08 (harness/c08.py).  One trace = one exact    *)
(* coefficient vector c (Gaussian integers, complex layout), the outputs   *)
(* of the real code on it, and events that transform the vector:           *)
(*   Word    - a word over RotZ4/FlipY (exact; the spec recomputes c2),     *)
(*   Perturb - a change of the coefficients of one degree,                 *)
(*   Zero    - one degree set to zero,                                     *)
(*   Rotate  - a general proper rotation done numerically by the harness   *)
(*             (quantised c', guarded here by N2(c') ~ N2(c)),             *)
(* each with the outputs of the real code on the transformed vector.       *)
(* what = "N": make_N_invariants; "P": p_invariants_c; "Power":            *)
(* SHT.power_spectrum; "Kinds": make_invariants with its kinds and cap.    *)
(* An observation is [exc, off, n, v]: exception name, non-finite flag,    *)
(* reported length, values as 2^-40 fixed point.                           *)
(***************************************************************************)
EXTENDS Invariants, TLC, Json, IOUtils

CONSTANT NBlocks
(* parsed once at start-up and handed to every worker through register 1 (as a plain definition *)
(* TLC re-parses the file in every worker: measured 24 s against 3 s for 40 MB)                  *)
ASSUME TLCSet(1, JsonDeserialize(IOEnv.TRACE_FILE).traces)
Traces == TLCGet(1)

VARIABLES blk, tid
vars == <<blk, tid>>

\* 32-bit safety of N2: entries up to 99, except that the single degree-0 coefficient may be as large as 46000 (46000^2 + 99^2 < 2^31)
GaussSeqOK(c) == \A i \in DOMAIN c : Len(c[i]) = 2 /\ AbsI(c[i][1]) <= (IF i = 1 THEN 46000 ELSE 99) /\ AbsI(c[i][2]) <= 99
WellFormed(t) == /\ t.what \in {"N", "P", "Power", "Kinds"}
                 /\ GaussSeqOK(t.c) /\ SquareLen(t.c) /\ DegOf(t.c) = t.L /\ t.L \in 0..26
                 /\ \A i \in DOMAIN t.events : t.events[i].ev \in {"Word", "Perturb", "Zero", "Rotate"}

ObsBad(o, what) == IF o.exc # "" THEN "REJECT Raised:" \o what
                   ELSE IF o.off THEN "REJECT OnGrid:" \o what ELSE ""
Zeroed(c, l) == [i \in DOMAIN c |-> IF i > l * l /\ i <= (l + 1) * (l + 1) THEN GZero ELSE c[i]]

(* the harness transformed the vector as it says (else the trace is out of domain) *)
Guard(t, e) ==
  CASE e.ev = "Word" -> IF GaussSeqOK(e.c2) /\ e.c2 = ApplyWord(t.c, e.w) THEN "" ELSE "OOD harness-word"
    [] e.ev = "Perturb" -> IF GaussSeqOK(e.c2) /\ e.l \in 0..t.L /\ SameExceptDegree(t.c, e.c2, e.l) /\ e.c2 # t.c
                           THEN "" ELSE "OOD harness-perturb"
    [] e.ev = "Zero" -> IF e.l \in 0..t.L /\ e.c2 = Zeroed(t.c, e.l) THEN "" ELSE "OOD harness-zero"
    [] e.ev = "Rotate" -> IF RotationGuard(t.c, e.cq) THEN "" ELSE "OOD harness-rotation"

RelTol(v) == RelQuanta(FxMaxOf([i \in DOMAIN v |-> FxAbs(v[i])])) + AbsQuanta
SameValues(v, w, skip) == LET tol == RelTol(w)
                          IN \A i \in DOMAIN w : i = skip \/ Within(v[i], w[i], tol)

(* first event (in order) whose guard fails or that the clause rejects; "" when none *)
FirstBad(t, Clause(_, _)) ==
  FoldLeft(LAMBDA acc, e : IF acc # "" THEN acc
                           ELSE IF Guard(t, e) # "" THEN Guard(t, e) ELSE Clause(t, e),
           "", t.events)

(* ---- N ---------------------------------------------------------------------- *)
NTargets(t, e) == IF e.ev = "Rotate" THEN [l \in 0..t.L |-> N2Q(e.cq, l)]
                  ELSE [l \in 0..t.L |-> IntBig80(N2(e.c2, l))]
NTargetsAsBuilt(t, e) == IF e.ev = "Rotate" THEN [l \in 0..t.L |-> N2QAsBuilt(e.cq, l)]
                         ELSE [l \in 0..t.L |-> IntBig80(N2AsBuilt(e.c2, l))]
NIs(v, T, L) == \A l \in 0..L : NSquareIs(v[l + 1], T[l])
NLen(t, o) == o.n = NCount(t.c) /\ Len(o.v) = NCount(t.c)
NEventClause(t, e) ==
  IF ObsBad(e.o, "N") # "" THEN ObsBad(e.o, "N") ELSE
  IF ~NLen(t, e.o) THEN "REJECT NLength" ELSE
  IF e.ev \in {"Word", "Rotate"} /\ ~SameValues(e.o.v, t.b.v, 0) THEN "REJECT NRotationInvariant" ELSE
  IF e.ev = "Perturb" /\ ~SameValues(e.o.v, t.b.v, e.l + 1) THEN "REJECT NLocal" ELSE ""
NExactEvent(t, e) == IF NIs(e.o.v, NTargets(t, e), t.L) THEN "" ELSE "REJECT NExact"
(* finding C08-n-slice: input class = some vector of the trace has a non-zero c_{l+1,-(l+1)}, *)
(* and every observation of the trace is what the as-built slice gives                        *)
InLeakClass(t) == \/ HasLeak(t.c)
                  \/ \E i \in DOMAIN t.events :
                        IF t.events[i].ev = "Rotate"
                        THEN \E l \in 0..t.L : LeakQ(t.events[i].cq, l) # BZero
                        ELSE HasLeak(t.events[i].c2)
AsBuiltExplainsN(t) ==
  /\ InLeakClass(t)
  /\ NIs(t.b.v, [l \in 0..t.L |-> IntBig80(N2AsBuilt(t.c, l))], t.L)
  /\ \A i \in DOMAIN t.events : /\ t.events[i].o.exc = "" /\ NLen(t, t.events[i].o)
                                 /\ NIs(t.events[i].o.v, NTargetsAsBuilt(t, t.events[i]), t.L)
TagN(t, r) == IF r \in {"REJECT NRotationInvariant", "REJECT NLocal", "REJECT NExact"} /\ AsBuiltExplainsN(t)
              THEN r \o " KF=C08-n-slice" ELSE r
VerdictN(t) ==
  IF ObsBad(t.b, "N") # "" THEN ObsBad(t.b, "N") ELSE
  IF ~NLen(t, t.b) THEN "REJECT NLength" ELSE
  LET r1 == FirstBad(t, NEventClause) IN
  IF r1 # "" THEN r1 ELSE
  IF ~NIs(t.b.v, [l \in 0..t.L |-> IntBig80(N2(t.c, l))], t.L) THEN "REJECT NExact" ELSE
  LET r2 == FirstBad(t, NExactEvent) IN
  IF r2 # "" THEN r2 ELSE "ACCEPT"

(* ---- P ---------------------------------------------------------------------- *)
PLen(t, o) == o.n = PCount(t.L) /\ Len(o.v) = PCount(t.L)
PEventClause(t, e) ==
  LET s == CeilSqrt(MaxN2(t.c))
      ord == POrder(t.L)
      Has(tr, l) == tr[1] = l \/ tr[2] = l \/ tr[3] = l
  IN IF ObsBad(e.o, "P") # "" THEN ObsBad(e.o, "P") ELSE
     IF ~PLen(t, e.o) THEN "REJECT PLength" ELSE
     IF e.ev \in {"Word", "Rotate"} /\ ~(\A i \in DOMAIN t.b.v : PCubeClose(e.o.v[i], t.b.v[i], s))
        THEN "REJECT PRotationInvariant" ELSE
     (* degree l zeroed: exactly the invariants whose triple contains l vanish, the others keep their value *)
     IF e.ev = "Zero" /\ ~(\A i \in DOMAIN ord : IF Has(ord[i], e.l) THEN e.o.v[i] = FxZero
                                                  ELSE PCubeClose(e.o.v[i], t.b.v[i], s))
        THEN "REJECT POrder" ELSE ""
VerdictP(t) ==
  IF t.L > 23 THEN "OOD factorial-table" ELSE
  IF ObsBad(t.b, "P") # "" THEN ObsBad(t.b, "P") ELSE
  IF ~PLen(t, t.b) THEN "REJECT PLength" ELSE
  LET r == FirstBad(t, PEventClause) IN IF r # "" THEN r ELSE "ACCEPT"

(* ---- Power -------------------------------------------------------------------- *)
PowLen(t, o) == o.n = t.L + 1 /\ Len(o.v) = t.L + 1
PowIs(v, T, L) == \A l \in 0..L : PowerIs(v[l + 1], l, T[l])
PowerEventClause(t, e) ==
  IF ObsBad(e.o, "Power") # "" THEN ObsBad(e.o, "Power") ELSE
  IF ~PowLen(t, e.o) THEN "REJECT PowerLength" ELSE
  IF ~SameValues(e.o.v, t.b.v, 0) THEN "REJECT PowerRotationInvariant" ELSE
  IF ~PowIs(e.o.v, NTargets(t, e), t.L) THEN "REJECT PowerExact" ELSE ""
VerdictPower(t) ==
  IF ObsBad(t.b, "Power") # "" THEN ObsBad(t.b, "Power") ELSE
  IF ~PowLen(t, t.b) THEN "REJECT PowerLength" ELSE
  IF ~PowIs(t.b.v, [l \in 0..t.L |-> IntBig80(N2(t.c, l))], t.L) THEN "REJECT PowerExact" ELSE
  IF t.herm /\ ~(Hermitian(t.L, t.c) /\ t.cr = ToRealLayout(t.L, t.c)) THEN "OOD harness-real-layout" ELSE
  IF t.herm /\ ObsBad(t.br, "PowerReal") # "" THEN ObsBad(t.br, "PowerReal") ELSE
  IF t.herm /\ ~PowLen(t, t.br) THEN "REJECT PowerLength:real" ELSE
  IF t.herm /\ ~PowIs(t.br.v, [l \in 0..t.L |-> IntBig80(N2(t.c, l))], t.L) THEN "REJECT PowerExact:real" ELSE
  LET r == FirstBad(t, PowerEventClause) IN IF r # "" THEN r ELSE "ACCEPT"

(* ---- make_invariants: kinds, lengths, cap --------------------------------------- *)
VerdictKinds(t) ==
  LET np == PCount(PDegreeAsBuilt(t.L))
      bad == [k \in 1..6 |-> ObsBad(t.kinds[k], "Kinds")]
  IN IF \E k \in 1..6 : bad[k] # "" THEN bad[CHOOSE k \in 1..6 : bad[k] # ""] ELSE
     LET oN == t.kinds[1]       \* make_invariants(L, c, kinds="N")
         oP == t.kinds[2]       \* kinds="P"
         oNP == t.kinds[3]      \* kinds="NP"
         oDef == t.kinds[4]     \* default kinds
         oN0 == t.kinds[5]      \* make_N_invariants(c)
         oP0 == t.kinds[6]      \* p_invariants_c(c[:cap])
     IN IF ~(oN.n = t.L + 1 /\ Len(oN.v) = oN.n /\ oP.n = np /\ Len(oP.v) = np /\ oNP.n = t.L + 1 + np
             /\ Len(oNP.v) = oNP.n) THEN "REJECT KindsLength" ELSE
        IF ~(oNP.v = oN.v \o oP.v /\ oDef.v = oNP.v) THEN "REJECT KindsConcat" ELSE
        \* the selection hands out the values of the two dedicated routines - the same numbers, not necessarily the same bits
        \* (a front end may compute them along another route)
        IF ~(Len(oN0.v) = Len(oN.v) /\ Len(oP0.v) = Len(oP.v) /\ SameValues(oN.v, oN0.v, 0) /\ SameValues(oP.v, oP0.v, 0)) THEN "REJECT KindsSame" ELSE
        IF Len(t.kinds) >= 7 /\ (t.kinds[7].exc # "" \/ t.kinds[7].v # oNP.v) THEN "REJECT KindsSpelling" ELSE
        IF PDegreeAsBuilt(t.L) # PDegreeDeclared(t.L) THEN "ACCEPT drift=PCapDegree22" ELSE "ACCEPT"

Verdict(t) ==
  IF ~WellFormed(t) THEN "OOD harness-malformed" ELSE
  CASE t.what = "N" -> TagN(t, VerdictN(t))
    [] t.what = "P" -> VerdictP(t)
    [] t.what = "Power" -> VerdictPower(t)
    [] t.what = "Kinds" -> VerdictKinds(t)

Ids(b) == {i \in 1..Len(Traces) : i % NBlocks = b - 1}
Init == blk = 0 /\ tid = 0
Next == \/ blk = 0 /\ blk' \in 1..NBlocks /\ tid' = 0
        \/ /\ blk > 0 /\ tid = 0 /\ tid' \in Ids(blk) /\ blk' = blk
           /\ PrintT("V|" \o ToString(tid') \o "|" \o Verdict(Traces[tid']))
TraceSpec == Init /\ [][Next]_vars
=============================================================================
