----------------------------- MODULE Trace_Cube -----------------------------
(***************************************************************************)
(* Code -> spec binding for CubeFile.tla (an extension beyond the listed   *)
(* properties, run by the C16 check).  The harness proposes the text of a  *)
(* cube file; TLC certifies that it is CubeText(c), judges what CubeData   *)
(* read from it, and then steps through a history of origin shifts on the  *)
(* real object: after every event the observed state (origin, axes, atoms, *)
(* values, sampled grid points, the molecule) must be the state of the     *)
(* specification.                                                          *)
(***************************************************************************)
EXTENDS CubeFile, TLC, Json, IOUtils

CONSTANT NBlocks
ASSUME TLCSet(1, JsonDeserialize(IOEnv.TRACE_FILE).traces)
Traces == TLCGet(1)
VARIABLES blk, tid

ObsClause(s, o) ==
  IF o.exc # "" THEN "Raised" ELSE
  IF o.off THEN "OffGrid" ELSE
  IF o.origin # s.origin THEN "Origin" ELSE
  IF o.axes # s.axes THEN "Axes" ELSE
  IF o.atoms # s.atoms THEN "Atoms" ELSE
  IF o.molecule # s.atoms THEN "Molecule" ELSE
  IF o.data # s.data THEN "Data" ELSE
  IF \E q \in DOMAIN o.grid : LET g == o.grid[q] IN
        ~(g.i < s.axes[1].n /\ g.j < s.axes[2].n /\ g.k < s.axes[3].n) \/ g.flat # FlatIndex(s, g.i, g.j, g.k) \/ g.p # GridPoint(s, g.i, g.j, g.k)
     THEN "GridPoint" ELSE ""
RECURSIVE Walk(_, _, _)
Walk(t, s, e) ==                                       \* first clause that fails from event e on, "" if none
  IF e > Len(t.events) THEN "" ELSE
  LET ev == t.events[e]
      s2 == Shift(s, ev.to)
      c == ObsClause(s2, ev.obs)
  IN IF c # "" THEN "Shift:" \o c \o ":event-" \o ToString(e) ELSE Walk(t, s2, e + 1)
Verdict(t) ==
  IF ~CubeOK(t.cube) THEN "OOD shape" ELSE
  IF t.lines # CubeText(t.cube) THEN "OOD BadProposal" ELSE
  IF ObsClause(StateOf(t.cube), t.loaded) # "" THEN "REJECT Load:" \o ObsClause(StateOf(t.cube), t.loaded) ELSE
  IF t.titles # <<t.cube.title, t.cube.subtitle>> THEN "REJECT Load:Titles" ELSE
  IF Walk(t, StateOf(t.cube), 1) # "" THEN "REJECT " \o Walk(t, StateOf(t.cube), 1) ELSE "ACCEPT"

Ids(b) == {i \in 1..Len(Traces) : i % NBlocks = b - 1}
Init == blk = 0 /\ tid = 0
Next == \/ blk = 0 /\ blk' \in 1..NBlocks /\ tid' = 0
        \/ /\ blk > 0 /\ tid = 0 /\ tid' \in Ids(blk) /\ blk' = blk
           /\ PrintT("V|" \o ToString(tid') \o "|" \o Verdict(Traces[tid']))
TraceSpec == Init /\ [][Next]_<<blk, tid>>
=============================================================================
