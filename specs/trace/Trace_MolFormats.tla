--------------------------- MODULE Trace_MolFormats ---------------------------
(***************************************************************************)
(* Code -> spec binding for C16 (harness/c16.py).  One trace per executed  *)
(* write / read of the real chmpy code; text is shipped as the lines       *)
(* (split at byte 10 only) of the bytes the library wrote or was given.    *)
(*                                                                         *)
(*  k = "sdf_rt"    molecules (exact decimals) -> Molecule.to_sdf_string / *)
(*                  save(.sdf), records joined with "$$$$" lines -> the    *)
(*                  bytes -> parse_sdf_contents / Molecule.load            *)
(*  k = "sdf_read"  text proposed as SdfFile(names, mols, style) (TLC      *)
(*                  certifies the proposal) -> the implementation's reader *)
(*  k = "sdf_file"  a V2000 file of the repository -> reader -> writer ->  *)
(*                  reader                                                  *)
(*  k = "xyz_rt"    molecule -> to_xyz_string / save(.xyz) -> bytes ->     *)
(*                  from_xyz_string / load                                  *)
(*  k = "xyz_spell" text proposed as XyzSpelling(mol, comment, style)      *)
(*                  (certified by TLC) -> the implementation's reader       *)
(*                                                                         *)
(* Clauses: Layout of every SDF record the library wrote; the              *)
(* specification's reader applied to the library's text gives the input    *)
(* (writer checked alone); the library's reader applied to the             *)
(* specification's text gives the input (reader checked alone); library    *)
(* reader after library writer gives the input; one molecule per record,   *)
(* in order.  The verdict of every trace is computed here by TLC.          *)
(***************************************************************************)
EXTENDS MolFormats, TLC, Json, IOUtils

CONSTANT NBlocks
ASSUME TLCSet(1, JsonDeserialize(IOEnv.TRACE_FILE).traces)     \* parsed once, not once per worker
Traces == TLCGet(1)

VARIABLES blk, tid
vars == <<blk, tid>>

(* Known findings (known_findings.json decides whether they are open or fixed).                 *)
(* C16-sdf-writer: at the pinned commit Molecule.to_sdf_string / fmt.sdf wrote x into the y and  *)
(* z fields, a blank between the 10-wide coordinate fields, and counts / bond atoms >= 100 four  *)
(* wide.  The blank does not depend on the input: the failing class is every molecule written    *)
(* as SDF (KnownSdfWriter); only the layout / content clauses of library-written text carry it.  *)
(* C16-sdf-reader-end: parse_sdf_contents raised IndexError on a record with nothing after       *)
(* "M  END" (SdfEndsAtMEnd, a predicate over the text given to the reader).                      *)
KnownSdfWriter(mols) == Len(mols) >= 1
KFWriterOf(mols) == IF KnownSdfWriter(mols) THEN " KF=C16-sdf-writer" ELSE ""
KFReaderEnd == " KF=C16-sdf-reader-end"

(* the as-built property-block loop fails with IndexError exactly on records that end at "M  END" *)
ReaderEndTag(exc, R) == IF exc = "IndexError" /\ \E i \in DOMAIN R : SdfEndsAtMEnd(R[i]) THEN KFReaderEnd ELSE ""

AllPrintable(lines) == \A i \in DOMAIN lines : PrintableLine(lines[i])
FirstBad(S) == CHOOSE i \in S : \A j \in S : i <= j

(* ---- coordinate comparison -------------------------------------------- *)
(* input atoms (nf or nf+1 fraction groups) against atoms carried by text (nf groups) *)
SdfAtomsFromInput(ain, aout) ==
  /\ Len(ain) = Len(aout)
  /\ \A i \in DOMAIN ain : /\ ain[i].z = aout[i].z
                           /\ \A k \in 1..3 : SameToPrecision(ain[i].c[k], aout[i].c[k], 1, 0, 0)
XyzAtomsFromInput(ain, aout) ==
  /\ Len(ain) = Len(aout)
  /\ \A i \in DOMAIN ain : /\ ain[i].z = aout[i].z
                           /\ \A k \in 1..3 : SameToPrecision(ain[i].c[k], aout[i].c[k], 3, XyzSlack(ain[i].c[k]), XyzSlackFine)
(* atoms carried by the text against atoms the reader returned (both nf groups) *)
SdfAtomsSame(a, b) == Len(a) = Len(b) /\ \A i \in DOMAIN a : a[i].z = b[i].z /\ \A k \in 1..3 : a[i].c[k] = CanonDec(b[i].c[k])
XyzAtomsSame(a, b) ==
  /\ Len(a) = Len(b)
  /\ \A i \in DOMAIN a : /\ a[i].z = b[i].z
                         /\ \A k \in 1..3 : /\ Len(b[i].c[k].fr) = 3
                                            /\ SameToPrecision(a[i].c[k], CanonDec(b[i].c[k]), 3, XyzSlack(a[i].c[k]), 0)

(* ---- guards ------------------------------------------------------------ *)
(* a finer input (one more group) must not round across the end of the field *)
SdfCoordOK(d) == /\ d.neg \in BOOLEAN /\ Len(d.fr) \in {1, 2} /\ WellFormedDec(d, Len(d.fr))
                 /\ SdfRepresentable(d) /\ (Len(d.fr) = 2 => SdfRepresentable([d EXCEPT !.ip = @ + 1]))
SdfAtomsOK(atoms) == /\ Len(atoms) \in 1..999
                     /\ \A i \in DOMAIN atoms : atoms[i].z \in 1..103 /\ Len(atoms[i].c) = 3
                                                /\ \A k \in 1..3 : SdfCoordOK(atoms[i].c[k])
XyzCoordOK(d) == /\ d.neg \in BOOLEAN /\ Len(d.fr) \in {3, 4} /\ WellFormedDec(d, Len(d.fr))
                 /\ XyzRepresentable(d) /\ (Len(d.fr) = 4 => d.ip = 0)
XyzAtomsOK(atoms) == /\ Len(atoms) >= 1
                     /\ \A i \in DOMAIN atoms : atoms[i].z \in 1..103 /\ Len(atoms[i].c) = 3
                                                /\ \A k \in 1..3 : XyzCoordOK(atoms[i].c[k])
BondsOK(bonds, n) == Len(bonds) <= 999 /\ \A j \in DOMAIN bonds : Len(bonds[j]) = 3 /\ bonds[j][1] \in 1..n /\ bonds[j][2] \in 1..n /\ bonds[j][3] \in 1..3

(* ---- library writer -> text -> library reader, SDF --------------------- *)
SdfDrift(mols, R) ==
  (IF \E i \in DOMAIN R : SdfBlankBeforeEnd(R[i], 5 + SdfCountsOf(R[i][4]).na + SdfCountsOf(R[i][4]).nb)
   THEN " drift=blank-line-before-M-END" ELSE "") \o
  (IF \E i \in DOMAIN R : \E j \in DOMAIN mols[i].atoms :
        (\A k \in 1..3 : Len(mols[i].atoms[j].c[k].fr) = 1) /\ R[i][4 + j] # SdfAtomLine(mols[i].atoms[j])
   THEN " drift=SdfAtomLine" ELSE "")
SdfRtVerdict(mols, wexc, lines, back) ==
  IF ~(Len(mols) >= 1 /\ \A i \in DOMAIN mols : SdfAtomsOK(mols[i].atoms) /\ mols[i].nb <= 999) THEN "OOD guard" ELSE
  IF wexc # "" THEN "REJECT WriteRaised:" \o wexc ELSE
  IF ~AllPrintable(lines) THEN "REJECT TextBytes" ELSE
  LET R == SdfRecords(lines) IN
  IF Len(R) # Len(mols) THEN "REJECT Records" ELSE
  LET lay == Tup([i \in DOMAIN R |-> SdfLayout(R[i])])
      badLay == {i \in DOMAIN R : lay[i] # ""}
  IN IF badLay # {} THEN "REJECT SdfLayout." \o lay[FirstBad(badLay)] \o KFWriterOf(mols) ELSE
  LET rr == Tup([i \in DOMAIN R |-> SdfReadRecord(R[i])]) IN
  IF \E i \in DOMAIN R : ~(rr[i].ok /\ SdfAtomsFromInput(mols[i].atoms, rr[i].atoms)) THEN "REJECT WriterContent" \o KFWriterOf(mols) ELSE
  IF back.exc # "" THEN "REJECT ReadRaised:" \o back.exc \o ReaderEndTag(back.exc, R) ELSE
  IF Len(back.mols) # Len(mols) THEN "REJECT RecordCount" ELSE
  IF back.offgrid THEN "REJECT OnGrid" ELSE
  IF \E i \in DOMAIN R : ~SdfAtomsSame(rr[i].atoms, back.mols[i].atoms) THEN "REJECT RoundTrip" ELSE
  "ACCEPT" \o SdfDrift(mols, R)

SdfRt(t) == SdfRtVerdict(t.mols, t.wexc, t.lines, t.back)

(* ---- specification writer -> text -> library reader, SDF --------------- *)
SdfReadEv(t) ==
  IF ~(/\ Len(t.mols) >= 1 /\ Len(t.names) = Len(t.mols) /\ AllPrintable(t.names)
       /\ SdfStyleValid(t.mols, t.style)
       /\ \A i \in DOMAIN t.mols : /\ SdfAtomsOK(t.mols[i].atoms) /\ BondsOK(t.mols[i].bonds, Len(t.mols[i].atoms))
                                   /\ \A j \in DOMAIN t.mols[i].atoms : \A k \in 1..3 : Len(t.mols[i].atoms[j].c[k].fr) = 1)
  THEN "OOD guard" ELSE
  IF t.lines # SdfFile(t.names, t.mols, t.style) THEN "OOD BadProposal" ELSE
  LET R == SdfRecords(t.lines) IN
  IF t.back.exc # "" THEN "REJECT ReadRaised:" \o t.back.exc \o ReaderEndTag(t.back.exc, R) ELSE
  \* the caller may ask for the first `limit` records only (0: all of them)
  IF Len(t.back.mols) # (IF t.limit > 0 /\ t.limit < Len(t.mols) THEN t.limit ELSE Len(t.mols)) THEN "REJECT RecordCount" ELSE
  IF t.back.offgrid THEN "REJECT OnGrid" ELSE
  IF \E i \in DOMAIN t.back.mols : ~SdfAtomsSame(AtomsOf(t.mols[i]), t.back.mols[i].atoms) THEN "REJECT ReaderContent" ELSE
  "ACCEPT"

(* ---- a V2000 file of the repository: reader, then writer, then reader -- *)
SdfFileEv(t) ==
  IF ~AllPrintable(t.lines0) THEN "OOD bytes" ELSE
  LET R0 == SdfRecords(t.lines0)
      lay == Tup([i \in DOMAIN R0 |-> SdfLayout(R0[i])])
      rr0 == Tup([i \in DOMAIN R0 |-> SdfReadRecord(R0[i])])
  IN IF Len(R0) = 0 \/ \E i \in DOMAIN R0 : lay[i] # "" THEN "OOD FileNotV2000" ELSE
  IF t.back0.exc # "" THEN "REJECT FileReadRaised:" \o t.back0.exc \o ReaderEndTag(t.back0.exc, R0) ELSE
  IF Len(t.back0.mols) # Len(R0) THEN "REJECT FileRecordCount" ELSE
  IF t.back0.offgrid THEN "REJECT OnGrid" ELSE
  IF \E i \in DOMAIN R0 : ~(rr0[i].ok /\ SdfAtomsSame(rr0[i].atoms, t.back0.mols[i].atoms)) THEN "REJECT FileRead" ELSE
  SdfRtVerdict([i \in DOMAIN R0 |-> [atoms |-> t.back0.mols[i].atoms, nb |-> 0]], t.wexc, t.lines, t.back)

(* ---- XYZ ---------------------------------------------------------------- *)
ExpTok(tok) == \E i \in DOMAIN tok : tok[i] \in {69, 101}
HasExponent(L) == \E j \in 3..Len(L) : LET tk == Tokens(L[j]) IN Len(tk) >= 4 /\ (ExpTok(tk[2]) \/ ExpTok(tk[3]) \/ ExpTok(tk[4]))
XyzRt(t) ==
  IF ~(Len(t.mols) = 1 /\ XyzAtomsOK(t.mols[1].atoms)) THEN "OOD guard" ELSE
  IF t.wexc # "" THEN "REJECT WriteRaised:" \o t.wexc ELSE
  IF ~AllPrintable(t.lines) THEN "REJECT TextBytes" ELSE
  LET rd == XyzRead(t.lines)
      m == t.mols[1]
  IN \* numbers in exponent notation (1.25e+00) are XYZ too, but outside the number grammar of this module (MolFormats!ParseDec)
     IF ~rd.ok /\ HasExponent(t.lines) THEN "OOD exponent-notation" ELSE
     IF ~(rd.ok /\ XyzAtomsFromInput(m.atoms, rd.atoms)) THEN "REJECT WriterContent" ELSE
  IF t.back.exc # "" THEN "REJECT ReadRaised:" \o t.back.exc ELSE
  IF Len(t.back.mols) # 1 THEN "REJECT RecordCount" ELSE
  IF t.back.offgrid THEN "REJECT OnGrid" ELSE
  IF ~XyzAtomsSame(rd.atoms, t.back.mols[1].atoms) THEN "REJECT RoundTrip" ELSE
  IF (\A i \in DOMAIN m.atoms : \A k \in 1..3 : Len(m.atoms[i].c[k].fr) = 3 /\ m.atoms[i].c[k].ip < 8192)
     /\ t.lines # XyzText([atoms |-> [i \in DOMAIN m.atoms |-> [z |-> m.atoms[i].z, c |-> [k \in 1..3 |-> CanonDec(m.atoms[i].c[k])]]]], t.lines[2])
  THEN "ACCEPT drift=XyzText" ELSE "ACCEPT"

XyzSpellEv(t) ==
  IF ~(/\ Len(t.mols) = 1 /\ XyzAtomsOK(t.mols[1].atoms) /\ PrintableLine(t.comment)
       /\ \A i \in DOMAIN t.mols[1].atoms : \A k \in 1..3 : Len(t.mols[1].atoms[i].c[k].fr) = 3
       /\ XyzStyleValid(t.mols[1], t.style))
  THEN "OOD guard" ELSE
  IF t.lines # XyzSpelling(t.mols[1], t.comment, t.style) THEN "OOD BadProposal" ELSE
  LET rd == XyzRead(t.lines) IN
  IF ~(rd.ok /\ XyzAtomsFromInput(t.mols[1].atoms, rd.atoms)) THEN "REJECT SpecGrammar" ELSE
  IF t.back.exc # "" THEN "REJECT ParseRaised:" \o t.back.exc ELSE
  IF Len(t.back.mols) # 1 THEN "REJECT RecordCount" ELSE
  IF t.back.offgrid THEN "REJECT OnGrid" ELSE
  IF ~XyzAtomsSame(rd.atoms, t.back.mols[1].atoms) THEN "REJECT ParseSpelling" ELSE
  "ACCEPT"

Verdict(t) ==
  CASE t.k = "sdf_rt" -> SdfRt(t)
    [] t.k = "sdf_read" -> SdfReadEv(t)
    [] t.k = "sdf_file" -> SdfFileEv(t)
    [] t.k = "xyz_rt" -> XyzRt(t)
    [] t.k = "xyz_spell" -> XyzSpellEv(t)
    [] OTHER -> "OOD unknown-kind"

Ids(b) == {i \in 1..Len(Traces) : i % NBlocks = b - 1}
Init == blk = 0 /\ tid = 0
Next == \/ blk = 0 /\ blk' \in 1..NBlocks /\ tid' = 0
        \/ /\ blk > 0 /\ tid = 0 /\ tid' \in Ids(blk) /\ blk' = blk
           /\ PrintT("V|" \o ToString(tid') \o "|" \o Verdict(Traces[tid']))
TraceSpec == Init /\ [][Next]_vars
=============================================================================
