-------------------------- MODULE Trace_CrystalObject --------------------------
(***************************************************************************)
(* Code -> spec binding for C14.  A trace is a history of events replayed  *)
(* on real Crystal objects (harness/c14.py): query / switch / copy.  The   *)
(* trace spec steps through the events conjoining the actions of           *)
(* CrystalObject (SpecQuery, SpecSwitch, SpecCopy); the as-built memo      *)
(* bookkeeping is carried along only to tag a rejection as the known       *)
(* stale-memo class.  One TLC step per event; the verdict is printed when  *)
(* the trace ends or an event is not explained by the specification.       *)
(***************************************************************************)
EXTENDS CrystalObject, TLC, Json, IOUtils

CONSTANT NBlocks
ASSUME TLCSet(1, JsonDeserialize(IOEnv.TRACE_FILE).traces)     \* parsed once, not once per worker
Traces == TLCGet(1)
VARIABLES blk, tid, l, st, memo, known, verdict, ext
vars == <<blk, tid, l, st, memo, known, verdict, ext>>

StateOf(x) == NormState([choice |-> x.choice, n |-> x.n, gram |-> x.gram, pts |-> x.pts])
(* does the observed state x (grid projection, off flag, signature of the exact floats) show the specification's state s? *)
ObsMatches(x, s) == IF IsOpaque(s) THEN x.sig = s.opq /\ x.choice = s.choice ELSE ~x.off /\ StateOf(x) = s
Ids(b) == {i \in 1..Len(Traces) : i % NBlocks = b - 1}
Report(v) == PrintT("V|" \o ToString(tid) \o "|" \o v)

Init == blk = 0 /\ tid = 0 /\ l = 0 /\ st = <<>> /\ memo = <<>> /\ known = {} /\ verdict = "" /\ ext = ""
PickBlock == blk = 0 /\ blk' \in 1..NBlocks /\ UNCHANGED <<tid, l, st, memo, known, verdict, ext>>
PickTrace == /\ blk > 0 /\ tid = 0 /\ tid' \in Ids(blk)
             /\ LET t == Traces[tid'] s0 == StateOf(t.init) IN
                /\ st' = (1 :> s0)
                /\ memo' = (1 :> [NoMemo EXCEPT !["cif"] = IF t.loaded THEN <<s0>> ELSE <<>>])
             /\ l' = 1 /\ known' = {} /\ verdict' = "" /\ ext' = "" /\ UNCHANGED blk

T == Traces[tid]
Ev == T.events[l]
Running == tid > 0 /\ verdict = "" /\ l <= Len(T.events)
Fail(v) == verdict' = v /\ Report(v) /\ UNCHANGED <<blk, tid, l, st, memo, known, ext>>

(* which clause rejects a query event, "" if the specification explains it *)
QueryClause(e) ==
  LET i == e.obj q == e.q
      kf == IF Stale(memo, st, i, q) THEN " KF=C14-stale-memo" ELSE "" IN
  IF e.exc # "" THEN "REJECT Raised:" \o q \o kf ELSE
  IF e.off /\ ~IsOpaque(st[i]) THEN "REJECT OnGrid:" \o q ELSE
  IF ~ObsMatches(e.state, SpecQuery(st, i, q)[i]) \/ e.aux # e.aux_before THEN "REJECT Mutated:" \o q ELSE
  IF e.ans # e.fresh THEN "REJECT Fresh:" \o q \o kf ELSE
  \* "repeating a query returns an equal result": the same question put to the same state - the state as it is, float for float
  \* (its signature).  Two objects on the same grid state whose floats differ in the last place (one went H -> R -> H) may
  \* legitimately list a site on a cell face under different cells, and a slab then differs at its rim
  IF \E k \in known : k[1] = q /\ k[2] = e.state.sig /\ k[3] # e.fresh THEN "REJECT Repeat:" \o q ELSE ""
TraceQuery ==
  /\ Running /\ Ev.ev = "query"
  /\ IF ~(Ev.obj \in DOMAIN st /\ Ev.q \in QueryNames) THEN Fail("OOD event")
     ELSE LET c == QueryClause(Ev) IN
          IF c # "" THEN Fail(c)
          ELSE /\ st' = SpecQuery(st, Ev.obj, Ev.q)
               /\ memo' = FillMemo(memo, st, Ev.obj, Ev.q)
               /\ known' = known \cup {<<Ev.q, Ev.state.sig, Ev.fresh>>}
               /\ l' = l + 1 /\ UNCHANGED <<blk, tid, verdict, ext>>
TraceSwitch ==
  /\ Running /\ Ev.ev = "switch"
  /\ IF ~(Ev.obj \in DOMAIN st /\ Ev.ch \in {"H", "R"}) THEN Fail("OOD event")
     ELSE IF IsOpaque(st[Ev.obj]) THEN
          \* an object whose hydrogens were normalised: the switch to its own setting leaves it alone, the other one gives a
          \* new state in that setting (that it is the right one is C13's matter)
          (IF Ev.exc # "" THEN Fail("REJECT Raised:switch")
           ELSE IF Ev.ch = st[Ev.obj].choice /\ ~ObsMatches(Ev.state, st[Ev.obj]) THEN Fail("REJECT SwitchState")
           ELSE IF Ev.state.choice # Ev.ch THEN Fail("REJECT SwitchState")
           ELSE /\ st' = [st EXCEPT ![Ev.obj] = IF Ev.ch = st[Ev.obj].choice THEN st[Ev.obj] ELSE Opaque(Ev.ch, Ev.state.sig)]
                /\ UNCHANGED memo
                /\ l' = l + 1 /\ UNCHANGED <<blk, tid, known, verdict, ext>>)
     ELSE IF ~SwitchDomain(st[Ev.obj], Ev.ch) THEN Fail("OOD gram-not-divisible")
     ELSE IF Ev.exc # "" THEN Fail("REJECT Raised:switch")
     ELSE IF Ev.off THEN Fail("REJECT OnGrid:switch")
     ELSE IF StateOf(Ev.state) # SpecSwitch(st, Ev.obj, Ev.ch)[Ev.obj] THEN Fail("REJECT SwitchState")
     ELSE /\ st' = SpecSwitch(st, Ev.obj, Ev.ch)
          /\ UNCHANGED memo               \* as-built bookkeeping: nothing invalidated (classification only)
          /\ l' = l + 1 /\ UNCHANGED <<blk, tid, known, verdict, ext>>
TraceRefused ==
  /\ Running /\ Ev.ev = "refused"
  /\ IF ~(Ev.obj \in DOMAIN st /\ MustRefuse(T.number, Ev.ch)) THEN Fail("OOD event")
     ELSE IF Ev.off /\ ~IsOpaque(st[Ev.obj]) THEN Fail("REJECT OnGrid:refused")
     ELSE IF ~ObsMatches(Ev.state, SpecRefused(st, Ev.obj)[Ev.obj]) \/ Ev.aux # Ev.aux_before THEN Fail("REJECT RefusedRequestChangedState")
     ELSE /\ st' = SpecRefused(st, Ev.obj)
          /\ l' = l + 1 /\ UNCHANGED <<blk, tid, memo, known, verdict, ext>>
(* normalize_hydrogen_bondlengths, the other in-place change of the API: whatever it did, the object is afterwards in the state
   it is observed in (known by its signature), and every later answer must be the one a fresh crystal in that state gives.
   The listed property says nothing about where the hydrogens go or whether the call succeeds: a call that raised must have left
   the object as it was (a refused request); that it raised, and the geometry of what it did (hydrogens bonded to C, N, O, B at the
   neutron distance, nothing else moved), are judged beyond the property and reported apart (ext=...) *)
TraceNormalize ==
  /\ Running /\ Ev.ev = "normalize"
  /\ IF ~(Ev.obj \in DOMAIN st) THEN Fail("OOD event")
     ELSE IF Ev.exc # "" THEN
          (IF ~ObsMatches(Ev.state, st[Ev.obj]) \/ Ev.aux # Ev.aux_before THEN Fail("REJECT FailedNormalizeChangedState")
           ELSE /\ ext' = "Raised:normalize" /\ l' = l + 1 /\ UNCHANGED <<blk, tid, st, memo, known, verdict>>)
     ELSE IF ~Ev.cellsame \/ Ev.aux # Ev.aux_before \/ Ev.state.choice # st[Ev.obj].choice THEN Fail("REJECT Normalize:ChangedCellOrGroup")
     ELSE /\ st' = [st EXCEPT ![Ev.obj] = IF (\A k \in DOMAIN Ev.atoms : ~Ev.atoms[k].moved) /\ ~IsOpaque(st[Ev.obj]) THEN st[Ev.obj]
                                          ELSE Opaque(st[Ev.obj].choice, Ev.state.sig)]
          /\ ext' = IF NormalizeClause(Ev.atoms) # "" THEN "Normalize:" \o NormalizeClause(Ev.atoms) ELSE ext
          /\ UNCHANGED memo               \* as-built bookkeeping: nothing invalidated (classification only)
          /\ l' = l + 1 /\ UNCHANGED <<blk, tid, known, verdict>>
TraceCopy ==
  /\ Running /\ Ev.ev = "copy"
  /\ IF ~(Ev.src \in DOMAIN st /\ Ev.dst = Cardinality(DOMAIN st) + 1) THEN Fail("OOD event")
     ELSE IF Ev.exc # "" THEN Fail("REJECT Raised:copy")
     ELSE IF ~ObsMatches(Ev.state, st[Ev.src]) THEN Fail("REJECT CopyState")
     ELSE /\ st' = SpecCopy(st, Ev.src, Ev.dst)
          /\ memo' = [k \in DOMAIN st \cup {Ev.dst} |-> IF k = Ev.dst THEN memo[Ev.src] ELSE memo[k]]
          /\ l' = l + 1 /\ UNCHANGED <<blk, tid, known, verdict, ext>>
Finish == /\ tid > 0 /\ verdict = "" /\ l = Len(T.events) + 1
          /\ verdict' = "ACCEPT" /\ Report(IF ext = "" THEN "ACCEPT" ELSE "ACCEPT ext=" \o ext) /\ UNCHANGED <<blk, tid, l, st, memo, known, ext>>
Next == PickBlock \/ PickTrace \/ TraceQuery \/ TraceSwitch \/ TraceRefused \/ TraceNormalize \/ TraceCopy \/ Finish
TraceSpec == Init /\ [][Next]_vars
=============================================================================
