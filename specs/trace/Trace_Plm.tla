------------------------------- MODULE Trace_Plm -------------------------------
(***************************************************************************)
(* Code -> spec binding for the associated Legendre tables behind the SHT  *)
(* (C07: "the compiled kernels, the pure-Python reference paths ... all    *)
(* agree").  For a maximum degree L and an abscissa x the harness records  *)
(* the orthonormalised values N_lm P_l^m(x) in the kernels' m-major order  *)
(* (m = 0..L, l = m..L) from the pure-Python class (assoc_legendre.py),    *)
(* from the compiled class, and from scipy's spherical harmonics           *)
(* ((-1)^m Y_l^m(acos x, 0), independent of chmpy).  Values are shipped as *)
(* round(v * 2^28).  All three must have the specified length and agree    *)
(* entry by entry within Slack units.                                      *)
(***************************************************************************)
EXTENDS Integers, Sequences, TLC, Json, IOUtils

CONSTANT NBlocks
ASSUME TLCSet(1, JsonDeserialize(IOEnv.TRACE_FILE).traces)
Traces == TLCGet(1)
VARIABLES blk, tid

Slack == 16                          \* 16 * 2^-28 = 6e-8 (measured disagreement on the tree: below 1 unit)
AbsI(x) == IF x < 0 THEN -x ELSE x
Size(L) == ((L + 1) * (L + 2)) \div 2
Close(a, b) == Len(a) = Len(b) /\ \A i \in DOMAIN a : AbsI(a[i] - b[i]) <= Slack

Verdict(t) ==
  IF ~(t.L \in 0..64 /\ Len(t.ref) = Size(t.L)) THEN "OOD shape" ELSE
  IF t.exc # "" THEN "REJECT Raised:plm" ELSE
  IF t.off THEN "REJECT Finite:plm" ELSE
  IF Len(t.py) # Size(t.L) \/ Len(t.cy) # Size(t.L) THEN "REJECT PlmLength" ELSE
  IF ~Close(t.cy, t.ref) THEN "REJECT PlmCompiledVsReference" ELSE
  IF ~Close(t.py, t.ref) THEN "REJECT PlmPythonVsReference" ELSE
  IF ~Close(t.py, t.cy) THEN "REJECT PlmPythonVsCompiled" ELSE "ACCEPT"

Ids(b) == {i \in 1..Len(Traces) : i % NBlocks = b - 1}
Init == blk = 0 /\ tid = 0
Next == \/ blk = 0 /\ blk' \in 1..NBlocks /\ tid' = 0
        \/ /\ blk > 0 /\ tid = 0 /\ tid' \in Ids(blk) /\ blk' = blk
           /\ PrintT("V|" \o ToString(tid') \o "|" \o Verdict(Traces[tid']))
TraceSpec == Init /\ [][Next]_<<blk, tid>>
=============================================================================
