------------------------------ MODULE Trace_Lerp ------------------------------
(***************************************************************************)
(* Code -> spec binding for the Python reference interpolator of C05       *)
(* (interpolate/lerp.py: vectorized_lerp), the documented meaning of       *)
(* "tabulated density interpolated at the distance".                       *)
(* A table has nodes xp0, xp0 + 1, ..., xp0 + n - 1 (unit spacing after    *)
(* scaling) with integer values yp; query points are given in quarters     *)
(* (x4 = 4 x) so every expected value is an exact multiple of 1/4:         *)
(*    below the first node -> the lower fill (default: first value)        *)
(*    above the last node  -> the upper fill (default: last value)         *)
(*    otherwise            -> linear interpolation between the two         *)
(*                            bracketing nodes                             *)
(* Observations are shipped as 4 * value (exact in binary floating point). *)
(***************************************************************************)
EXTENDS Integers, Sequences, TLC, Json, IOUtils

CONSTANT NBlocks
ASSUME TLCSet(1, JsonDeserialize(IOEnv.TRACE_FILE).traces)
Traces == TLCGet(1)
VARIABLES blk, tid

(* 4 * f(x) for x = x4 / 4 *)
Expected4(t, x4) ==
  LET n == Len(t.yp)
      lo4 == 4 * t.xp0
      hi4 == 4 * (t.xp0 + n - 1)
      lfill == IF t.has_lfill THEN t.lfill ELSE t.yp[1]
      ufill == IF t.has_ufill THEN t.ufill ELSE t.yp[n]
  IN IF x4 < lo4 THEN 4 * lfill
     ELSE IF x4 > hi4 THEN 4 * ufill
     ELSE LET j == IF (x4 - lo4) \div 4 > n - 2 THEN n - 2 ELSE (x4 - lo4) \div 4        \* 0-based interval
              w4 == x4 - lo4 - 4 * j                                                   \* 4 * weight, 0..4
          IN (4 - w4) * t.yp[j + 1] + w4 * t.yp[j + 2]

(* The tabulated densities themselves (interpolate/thakkar_interp.npz), summarised per element Z = 1..103 by the harness:
   count1000[Z] = 1000 x the number of electrons 4 pi Int rho r^2 dr the tabulated part of the density holds (the table starts at
   r = 0.2 bohr, so part of the core is missing: 0.997 for H, 76.8 of 103 for Lr), mono[Z] = the density never increases with
   r, pos[Z] = it is positive everywhere.  A spherically averaged ground-state atomic density is positive and decreasing; its
   electron count is at most Z, holds most of Z, and grows with Z. *)
TableVerdict(t) ==
  IF ~(Len(t.count1000) = 103 /\ Len(t.mono) = 103 /\ Len(t.pos) = 103) THEN "REJECT TableShape" ELSE
  IF \E z \in 1..103 : ~t.pos[z] THEN "REJECT TablePositive" ELSE
  IF \E z \in 1..103 : ~t.mono[z] THEN "REJECT TableDecreasing" ELSE
  IF \E z \in 1..103 : ~(t.count1000[z] <= 1000 * z + 5 /\ 10 * t.count1000[z] >= 7000 * z) THEN "REJECT TableElectronCount" ELSE
  IF \E z \in 1..102 : t.count1000[z + 1] <= t.count1000[z] THEN "REJECT TableElementOrder" ELSE "ACCEPT"

Verdict(t) ==
  IF "count1000" \in DOMAIN t THEN TableVerdict(t) ELSE
  IF ~(Len(t.yp) >= 2 /\ (Len(t.xs4) = Len(t.obs4) \/ t.exc # "")) THEN "OOD shape" ELSE
  IF t.exc # "" THEN "REJECT Raised:lerp" ELSE
  IF t.off THEN "REJECT OnGrid:lerp" ELSE
  IF \E i \in DOMAIN t.xs4 : t.obs4[i] # Expected4(t, t.xs4[i]) THEN "REJECT Lerp" ELSE "ACCEPT"

Ids(b) == {i \in 1..Len(Traces) : i % NBlocks = b - 1}
Init == blk = 0 /\ tid = 0
Next == \/ blk = 0 /\ blk' \in 1..NBlocks /\ tid' = 0
        \/ /\ blk > 0 /\ tid = 0 /\ tid' \in Ids(blk) /\ blk' = blk
           /\ PrintT("V|" \o ToString(tid') \o "|" \o Verdict(Traces[tid']))
TraceSpec == Init /\ [][Next]_<<blk, tid>>
=============================================================================
