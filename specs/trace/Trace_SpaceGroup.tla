--------------------------- MODULE Trace_SpaceGroup ---------------------------
(***************************************************************************)
(* Code -> spec binding for C02.  One trace per space-group setting as the *)
(* real SpaceGroup object reports it (harness/c02.py): operation codes,    *)
(* centrosymmetric flag, LATT, reduced list, and the result of looking the *)
(* group up from its full and from its reduced description.  Optional      *)
(* "perm" events repeat reduce + lookup on a permuted operation list.      *)
(* The verdict of every trace is computed here by TLC.                     *)
(***************************************************************************)
EXTENDS SpaceGroup, TLC, Json, IOUtils

CONSTANT NBlocks
ASSUME TLCSet(1, JsonDeserialize(IOEnv.TRACE_FILE).traces)     \* parsed once, not once per worker
Traces == TLCGet(1)

VARIABLES blk, tid
vars == <<blk, tid>>

LookupOK(lk, number, S) == lk.exc = "" /\ lk.number = number /\ CodeSet(lk.ops) = S /\ NoDup(lk.ops)

PermOK(t, S, k) ==
  LET p == t.perms[k]
  IN /\ CodeSet(p.list) = S
     /\ Describes(p.reduced, t.latt, S)
     /\ LookupOK(p.lookup, t.number, S)

(* step-level binding (CHMPY_VERIF hook in reduced_symmetry_list): one event per loop iteration carrying the popped
   operation and the accumulator before the iteration; every iteration must be the spec's ReduceStep *)
StepsOK(t) ==
  LET st == t.steps n == Len(st) IN
  \/ n = 0
  \/ /\ n = Len(t.ops)
     /\ [i \in 1..n |-> st[i].next] = t.ops
     /\ st[1].red = <<IdentityCode>>
     /\ \A i \in 1..(n-1) : st[i+1].red = ReduceStep(st[i].red, st[i].next, t.latt)
     /\ t.reduced = ReduceStep(st[n].red, st[n].next, t.latt)

(* ---- other genuine SHELX descriptions of the same group --------------------------------------- *)
(* a lattice type may be claimed when its centring vectors are translations of the group, a positive *)
(* sign when the inversion sits at the origin                                                        *)
LattValid(S, latt) ==
  /\ AbsInt(latt) \in 1..7
  /\ \A k \in DOMAIN CenteringVecs(AbsInt(latt)) : ShiftCode(IdentityCode, CenteringVecs(AbsInt(latt))[k]) \in S
  /\ (latt > 0 => InversionAtOrigin(S))
(* first alternative description that is mishandled, as a clause name ("" if none) *)
AltClause(t, S, a) ==
  IF LattValid(S, a.latt) /\ (a.lib_exc # "" \/ ~Describes(a.lib, a.latt, S)) THEN "REJECT AltReduce" ELSE
  IF LattValid(S, a.latt) /\ ~LookupOK(a.lk_lib, t.number, S) THEN "REJECT AltLookup" ELSE
  IF Describes(a.ref, a.latt, S) /\ ~LookupOK(a.lk_ref, t.number, S) THEN "REJECT AltLookupRef" ELSE ""
AltVerdict(t, S) ==
  LET bad == {k \in DOMAIN t.alts : AltClause(t, S, t.alts[k]) # ""} IN
  IF bad = {} THEN "" ELSE AltClause(t, S, t.alts[CHOOSE k \in bad : \A j \in bad : k <= j]) \o ":latt=" \o ToString(t.alts[CHOOSE k \in bad : \A j \in bad : k <= j].latt)
(* the reference reduction must yield a description for every valid lattice type, else the harness is at fault *)
RefCovers(t, S) == \A k \in DOMAIN t.alts : LattValid(S, t.alts[k].latt) => Describes(t.alts[k].ref, t.alts[k].latt, S)

FreshBad(t) ==
  \/ t.fresh.exc # "" \/ t.fresh.off
  \/ {Enc([r |-> <<<<m[1][1], m[1][2], m[1][3]>>, <<m[1][4], m[1][5], m[1][6]>>, <<m[1][7], m[1][8], m[1][9]>>>>, t |-> m[2]]) :
         m \in {t.fresh.mats[i] : i \in DOMAIN t.fresh.mats}} # CodeSet(t.table_ops)

KnownLatt(t, S) == IF Centro(S) /\ ~InversionAtOrigin(S) /\ t.latt > 0 THEN " KF=C02-latt-origin" ELSE ""

Verdict(t) ==
  LET S == CodeSet(t.ops) IN
  IF t.exc # "" THEN "REJECT Construct" ELSE
  IF ~(t.nops = Len(t.ops) /\ NoDup(t.ops)) THEN "REJECT NoDup" ELSE
  IF ~HasIdentity(S) THEN "REJECT Identity" ELSE
  IF ~Unimodular(S) THEN "REJECT Unimodular" ELSE
  IF ~Closed(S) THEN "REJECT Closed" ELSE
  IF ~HasInverses(S) THEN "REJECT Inverses" ELSE
  IF t.centro # Centro(S) THEN "REJECT CentroFlag" ELSE
  IF ~(t.number_reported = t.number) THEN "REJECT Number" ELSE
  IF S # CodeSet(t.table_ops) THEN "REJECT TableRow" ELSE
  IF ~LookupOK(t.lookup_full, t.number, S) THEN "REJECT LookupFull" ELSE
  IF ~(AbsInt(t.latt) \in 1..7 /\ Describes(t.reduced, t.latt, S)) THEN "REJECT ReducedDescribes" \o KnownLatt(t, S) ELSE
  IF ~LookupOK(t.lookup_reduced, t.number, S) THEN "REJECT LookupReduced" \o KnownLatt(t, S) ELSE
  IF ~LookupOK(t.lookup_reduced_again, t.number, S) THEN "REJECT LookupReducedRepeated" ELSE
  IF \E k \in DOMAIN t.perms : ~PermOK(t, S, k) THEN "REJECT PermutedReduce" \o KnownLatt(t, S) ELSE
  IF ~RefCovers(t, S) THEN "OOD harness-ref-reduce" ELSE
  IF AltVerdict(t, S) # "" THEN AltVerdict(t, S) ELSE
  IF \E k \in DOMAIN t.lookup_noisy : ~LookupOK(t.lookup_noisy[k], t.number, S) THEN "REJECT LookupNoisyMatrices" ELSE
  \* a group constructed after the caller edited the first object's operations in place (matrices read directly) should not see
  \* the edits.  The listed property speaks of the tabulated groups, not of callers writing into operation objects: an
  \* implementation that shares one immutable-by-convention object per operation keeps the property.  Judged beyond it (ext=).
  IF FreshBad(t) THEN "ACCEPT ext=FreshConstruction" ELSE
  IF t.reduced # Reduce(t.ops, t.latt) THEN "ACCEPT drift=Reduce" ELSE
  IF ~StepsOK(t) THEN "ACCEPT drift=ReduceSteps" ELSE
  IF Len(t.steps) = 0 THEN "ACCEPT note=no-step-events" ELSE
  "ACCEPT"

Ids(b) == {i \in 1..Len(Traces) : i % NBlocks = b - 1}
Init == blk = 0 /\ tid = 0
Next == \/ blk = 0 /\ blk' \in 1..NBlocks /\ tid' = 0
        \/ /\ blk > 0 /\ tid = 0 /\ tid' \in Ids(blk) /\ blk' = blk
           /\ PrintT("V|" \o ToString(tid') \o "|" \o Verdict(Traces[tid']))
TraceSpec == Init /\ [][Next]_vars
=============================================================================
