--------------------------- MODULE Trace_IsoMesh ---------------------------
(***************************************************************************)
(* Code -> spec binding for C06 (harness/c06.py).  Trace kinds:            *)
(*  "mc"     one call of chmpy.mc.marching_cubes on an integer field       *)
(*           (plus the same call with the other gradient direction), the   *)
(*           mesh partitioned by cell: static clauses, then the sweep of   *)
(*           IsoMesh is replayed cell by cell (ProcessCell conjoined);     *)
(*  "sphere" a family of integer spheres R^2 - r^2: volume clauses;        *)
(*  "surf"   one mesh from a surface wrapper (surface.py / Molecule /      *)
(*           Crystal) quantised to 0.01 A: closedness, orientation,        *)
(*           enclosure of own atoms and of no neighbour atom;              *)
(*  "trend"  level residuals of one wrapper over decreasing separations.   *)
(* Every verdict is computed here by TLC.                                  *)
(***************************************************************************)
EXTENDS IsoMesh, TLC, Json, IOUtils

CONSTANT NBlocks
ASSUME TLCSet(1, JsonDeserialize(IOEnv.TRACE_FILE).traces)     \* parsed once, not once per worker
Traces == TLCGet(1)

VARIABLES blk, tid, idx, st
vars == <<blk, tid, idx, st, last, bnd, seen>>

Prob(t) == [n |-> t.n, f |-> t.f, k |-> t.k, sp |-> t.sp, q |-> t.q, tol |-> t.tol]

RunShape(r) == r.nv = Len(r.V) /\ r.nf = Len(r.F) /\ \A i \in DOMAIN r.V : Len(r.V[i]) = 3

(* known finding: coincident oppositely oriented triangle pairs on an ambiguous cell face *)
KnownMembrane(p, r) == IF MembranesOnlyAsBuilt(p, r.V, r.F) THEN " KF=C06-lewiner-membrane" ELSE ""

(* ---- clauses shared by "mc" and "sphere": one run of marching_cubes ------ *)
MeshVerdict(p, se, low, r, gd) ==          \* se = StraddlingEdges(p), low = BoundaryLow(p)
  LET ids == DOMAIN r.V IN
  IF r.exc # "" THEN "REJECT Raised" ELSE
  IF r.offgrid THEN "REJECT OnGrid" ELSE
  IF ~RunShape(r) THEN "REJECT Shape" ELSE
  IF ~ValidFaces(ids, r.F) THEN "REJECT ValidFaces" ELSE
  LET E == DirEdges(r.F) IN
  IF ~EdgeOnceE(E, r.F) THEN "REJECT EdgeOnce" \o KnownMembrane(p, r) ELSE
  IF ~EdgeTwinE(E) THEN "REJECT EdgeTwin" ELSE
  IF ~DistinctVertices(r.V) THEN "REJECT DistinctVertices" ELSE
  IF ~OnLevel(p, r.V) THEN "REJECT OnLevel" ELSE
  IF ~EdgeCoverOn(p, r.V, se) THEN "REJECT EdgeCover" ELSE
  IF BSign(SignedVol6(r.V, r.F)) # VolSignFor(low, gd, FALSE) THEN "REJECT Oriented" ELSE
  "OK"

Guard(p, se, low) ==
  IF ~WellFormed(p) THEN "OOD malformed problem" ELSE
  IF ~(low \/ BoundaryHigh(p)) THEN "OOD level set reaches the grid boundary" ELSE
  IF se = {} THEN "OOD no level set" ELSE
  "OK"

OtherDir(d) == IF d = "descent" THEN "ascent" ELSE "descent"
ReversalOK(t) == /\ t.rev.exc = "" /\ ~t.rev.offgrid /\ RunShape(t.rev)
                 /\ t.rev.V = t.run.V
                 /\ ReversedMesh(t.run.F, t.rev.F)
PartitionOK(t) ==
  /\ \A i \in DOMAIN t.cells : /\ Len(t.cells[i].c) = 3
                               /\ \A j \in DOMAIN t.cells[i].fi : t.cells[i].fi[j] \in DOMAIN t.run.F
  /\ t.ncellfaces = Len(t.run.F)

McStatic(t) ==
  LET p == Prob(t) se == StraddlingEdges(p) low == BoundaryLow(p) g == Guard(p, se, low) IN
  IF g # "OK" THEN g ELSE
  IF t.gd \notin {"descent", "ascent"} THEN "OOD direction" ELSE
  LET m == MeshVerdict(p, se, low, t.run, t.gd) IN
  IF m # "OK" THEN m ELSE
  IF t.has_rev /\ ~ReversalOK(t) THEN "REJECT Reversal" ELSE
  IF ~PartitionOK(t) THEN "REJECT CellPartition" ELSE
  "SWEEP"

(* ---- "sphere": items with increasing R ------------------------------------ *)
SphereItem(t, i) == t.items[i]
SphereProb(t, i) == LET x == t.items[i] IN [n |-> x.n, f |-> x.f, k |-> 0, sp |-> x.sp, q |-> t.q, tol |-> t.tol]
RECURSIVE SphereScan(_, _, _, _)
SphereScan(t, i, prevR, prevHi) ==      \* prevHi: upper bound on the previous item's error
  IF i > Len(t.items) THEN "ACCEPT" ELSE
  LET x == t.items[i] p == SphereProb(t, i) se == StraddlingEdges(p) low == BoundaryLow(p) g == Guard(p, se, low) IN
  IF g # "OK" THEN g ELSE
  IF ~(x.R > prevR /\ x.R >= 2 /\ SphereField(p, x.R, x.c)) THEN "OOD not the sphere family" ELSE
  LET m == MeshVerdict(p, se, low, x.run, x.gd) IN
  IF m # "OK" THEN m ELSE
  LET v6 == SignedVol6(x.run.V, x.run.F) IN
  IF ~VolumeWithin(p, x.R, v6) THEN "REJECT VolumeWithin" ELSE
  IF i > 1 /\ RLt(prevHi, ErrLo(p, x.R, v6)) THEN "REJECT VolumeConverges" ELSE
  SphereScan(t, i + 1, x.R, ErrHi(p, x.R, v6))
SphereVerdict(t) == SphereScan(t, 1, 0, RZero)

(* ---- "surf": a user-level surface ------------------------------------------ *)
WrapperApis == {"Molecule.promolecule_density_isosurface", "Crystal.promolecule_density_isosurfaces",
                "Crystal.hirshfeld_surfaces", "Crystal.stockholder_weight_isosurfaces"}
(* known finding: util/color.py imports matplotlib.cm.get_cmap (removed upstream), *)
(* so every user-level wrapper dies in the colouring step                           *)
KnownGetCmap(t) == IF t.api \in WrapperApis /\ t.exc = "ImportError" THEN " KF=C06-get-cmap" ELSE ""
InBoxPt(t, x) == \A a \in Axes : t.box.lo[a] <= x[a] /\ x[a] <= t.box.hi[a]
SurfVerdict(t) ==
  LET ids == DOMAIN t.V IN
  IF ~(t.bmax < t.iso) THEN "OOD level set reaches the sampling box" ELSE
  IF t.exc # "" THEN "REJECT Raised" \o KnownGetCmap(t) ELSE
  IF t.offgrid THEN "REJECT OnGrid" ELSE
  IF ~RunShape(t) THEN "REJECT Shape" ELSE
  IF ~ValidFaces(ids, t.F) THEN "REJECT ValidFaces" ELSE
  LET E == DirEdges(t.F) IN
  IF ~EdgeOnceE(E, t.F) THEN "REJECT EdgeOnce" ELSE
  IF ~EdgeTwinE(E) THEN "REJECT EdgeTwin" ELSE
  IF t.F = <<>> THEN "REJECT EmptyMesh" ELSE
  IF BSign(SignedVol6(t.V, t.F)) # 1 THEN "REJECT SurfOriented" ELSE
  IF ~(\A i \in ids : InBoxPt(t, t.V[i])) THEN "REJECT InBox" ELSE
  LET FB == FaceBoxes(t.V, t.F)
      mb == MeshBox(FB)
      own == [i \in 1..Len(t.own) |-> InsideMesh(t.V, t.F, FB, mb, t.own[i])] \o <<>>
      nb == [i \in 1..Len(t.nbr) |-> InsideMesh(t.V, t.F, FB, mb, t.nbr[i])] \o <<>>
      nin == DOMAIN nb
  IN
  IF \E i \in DOMAIN own : own[i] = 0 THEN "REJECT EnclosesOwnAtoms" ELSE
  IF \E i \in nin : nb[i] = 1 THEN "REJECT ExcludesNeighbourAtoms" ELSE
  IF (\E i \in DOMAIN own : own[i] = -1) \/ (\E i \in nin : nb[i] = -1) THEN "OOD ray casting degenerate in all six directions" ELSE
  "ACCEPT"

(* ---- "trend": |field(vertex) - isovalue| over decreasing separations ----------- *)
(* res[i] = root mean square residual (scaled integer) at separation seps[i].       *)
(* The wrappers smooth the mesh, so only a trend is demanded: no step increases the *)
(* residual by more than 1/4, and the finest residual is at most half the coarsest. *)
TrendVerdict(t) ==
  LET n == Len(t.seps) IN
  IF ~(n >= 2 /\ Len(t.res) = n /\ \A i \in 1..(n-1) : t.seps[i] > t.seps[i+1]) THEN "OOD separations not decreasing" ELSE
  IF ~(t.bmax < t.iso) THEN "OOD level set reaches the sampling box" ELSE
  IF t.exc # "" THEN "REJECT Raised" \o KnownGetCmap(t) ELSE
  \* written without products: a grossly wrong surface has residuals near 2^30 and 5 * res would overflow TLC's integers
  IF \E i \in 1..(n-1) : t.res[i+1] - t.res[i] > t.res[i] \div 4 THEN "REJECT LevelResidualTrend" ELSE
  IF t.res[n] > t.res[1] - t.res[n] THEN "REJECT LevelResidualConverges" ELSE
  "ACCEPT"

Static(t) == CASE t.kind = "mc" -> McStatic(t)
               [] t.kind = "sphere" -> SphereVerdict(t)
               [] t.kind = "surf" -> SurfVerdict(t)
               [] t.kind = "trend" -> TrendVerdict(t)
               [] OTHER -> "OOD unknown trace kind"

(* ---- behaviour ------------------------------------------------------------------- *)
Ids(b) == {i \in 1..Len(Traces) : i % NBlocks = b - 1}
Say(i, v) == PrintT("V|" \o ToString(i) \o "|" \o v)
Init == blk = 0 /\ tid = 0 /\ idx = 0 /\ st = "idle" /\ SweepInit

PickBlock == /\ blk = 0 /\ blk' \in 1..NBlocks
             /\ UNCHANGED <<tid, idx, st, last, bnd, seen>>
Start == /\ blk > 0 /\ tid = 0 /\ tid' \in Ids(blk)
         /\ LET v == Static(Traces[tid'])
            IN IF v = "SWEEP" THEN st' = "sweep" ELSE st' = "done" /\ Say(tid', v)
         /\ UNCHANGED <<blk, idx, last, bnd, seen>>
(* one cell of the recorded partition: the module's action ProcessCell, guarded by *)
(* the local conditions; the first cell that breaks one ends the trace             *)
SweepCell ==
  /\ st = "sweep" /\ idx < Len(Traces[tid].cells)
  /\ LET t == Traces[tid]
         p == Prob(t)
         cell == t.cells[idx + 1]
         patch == [j \in DOMAIN cell.fi |-> t.run.F[cell.fi[j]]]
         N == DirEdges(patch)
         nb == BndWith(N)
         why == IF ~PatchLocal(p, t.run.V, cell.c, patch) THEN "REJECT SweepPatchLocal" ELSE
                IF ~CanProcessE(p, cell.c, Len(patch), N) THEN "REJECT SweepEdgeOnce" ELSE
                IF ~SweepInvAt(p, t.run.V, nb, Rank(p, cell.c)) THEN "REJECT SweepInvariant" ELSE
                "OK"
     IN IF why = "OK"
        THEN ProcessCellE(p, cell.c, Len(patch), N, nb) /\ idx' = idx + 1 /\ st' = st
        ELSE st' = "done" /\ Say(tid, why) /\ UNCHANGED <<idx, last, bnd, seen>>
  /\ UNCHANGED <<blk, tid>>
SweepEnd ==
  /\ st = "sweep" /\ idx = Len(Traces[tid].cells)
  /\ st' = "done" /\ Say(tid, IF SweepClosed THEN "ACCEPT" ELSE "REJECT SweepClosed")
  /\ UNCHANGED <<blk, tid, idx, last, bnd, seen>>
Next == PickBlock \/ Start \/ SweepCell \/ SweepEnd
TraceSpec == Init /\ [][Next]_vars
=============================================================================
