------------------------------ MODULE Trace_Cif ------------------------------
(***************************************************************************)
(* Code -> spec binding for C15 (harness/c15.py).                          *)
(*                                                                         *)
(* kind "rt": a dictionary `data` was given to Cif(data).to_string(); the  *)
(*   bytes it wrote are `text`; Cif.from_string(text).data is `out`.       *)
(*   Hard clauses, in this order:                                          *)
(*     domain guard            Outside(data) = ""            (else OOD)    *)
(*     Parse_impl(text) = data block names, item names, scalar/column and  *)
(*                             lengths (row alignment), value types,       *)
(*                             values to the precision of the format       *)
(*     Parse_spec(text) = Parse_impl(text)   Parse_spec is the parser of   *)
(*                             Cif.tla, run here action by action on the   *)
(*                             lines of `text`                             *)
(*   Informational: Ser_spec(data) = text byte for byte ("drift=...").     *)
(* kind "pv": parse_value(s) and parse_value(s, with_uncertainty=True).    *)
(*                                                                         *)
(* Every verdict is printed by TLC as  V|<trace id>|<verdict>.             *)
(***************************************************************************)
EXTENDS Cif, Json, IOUtils

CONSTANT NBlocks
ASSUME TLCSet(1, JsonDeserialize(IOEnv.TRACE_FILE).traces)     \* parsed once, not once per worker
Traces == TLCGet(1)

VARIABLES blk, tid
vars == <<blk, tid, lines, pos, block, mode, parsed, keys, rows>>

(* ---- classes of input on which the pinned commit is known to fail ------ *)
(* a block that is not the last one ends with a loop (it has a column)      *)
LoopThenBlock(d) == \E i \in 1..(Len(d) - 1) : \E j \in DOMAIN d[i].items : d[i].items[j].col
KnownBlockNames(d) == IF LoopThenBlock(d) THEN " KF=C15-loop-then-block" ELSE ""
(* every type difference is a float whose written form is integer-valued, read back as int *)
IntFloatCell(out, d, c) ==
  /\ CellAt(d, c).k = "dec" /\ CellAt(out, c).k = "int"
  /\ IF IsColumn(d, c) THEN IntegerValued12(CellAt(d, c)) ELSE IntegerValued(CellAt(d, c))
KnownTypes(out, d) == IF \A c \in TypeDiff(out, d) : IntFloatCell(out, d, c) THEN " KF=C15-intfloat" ELSE ""
(* every value difference is an integer beyond 2^53 (read through a double) ... *)
BigIntCell(d, c) == CellAt(d, c).k = "int" /\ DCmp(CellAt(d, c).a, TwoTo53) > 0
(* ... or a scalar string with a run of blanks (re-joined from tokens)          *)
DoubleBlank(s) == \E i \in 1..(Len(s) - 1) : s[i] = SPC /\ s[i + 1] = SPC
MultiBlankCell(d, c) == CellAt(d, c).k = "str" /\ ~IsColumn(d, c) /\ DoubleBlank(CellAt(d, c).a)
KnownValues(out, d) ==
  LET vd == ValueDiff(out, d, TRUE)
  IN IF \A c \in vd : BigIntCell(d, c) THEN " KF=C15-bigint"
     ELSE IF \A c \in vd : MultiBlankCell(d, c) THEN " KF=C15-multiblank"
     ELSE ""

(* ---- kind "rt" ---------------------------------------------------------- *)
TextOK(text) == \A i \in DOMAIN text : text[i] = LF \/ text[i] \in 32..126
RtEarly(t) ==
  LET g == Outside(t.data) IN
  IF g # "" THEN "OOD " \o g ELSE
  IF t.exc_ser # "" THEN "REJECT SerialiserRaised" ELSE
  IF ~TextOK(t.text) THEN "REJECT TextBytes" ELSE
  IF t.exc_parse # "" THEN "REJECT ParserRaised" ELSE
  IF ~SameBlockNames(t.out, t.data) THEN "REJECT BlockNames" \o KnownBlockNames(t.data) ELSE
  IF ~SameItemNames(t.out, t.data) THEN "REJECT ItemNames" ELSE
  IF ~SameShapes(t.out, t.data) THEN "REJECT RowAlignment" ELSE
  IF TypeDiff(t.out, t.data) # {} THEN "REJECT ValueTypes" \o KnownTypes(t.out, t.data) ELSE
  IF ValueDiff(t.out, t.data, TRUE) # {} THEN "REJECT Values" \o KnownValues(t.out, t.data) ELSE
  ""                                  \* undecided: run the specification's parser on the text
SameOrder(x, y) == /\ [i \in DOMAIN x |-> x[i].name] = [i \in DOMAIN y |-> y[i].name]
                   /\ \A i \in DOMAIN x : [j \in DOMAIN x[i].items |-> x[i].items[j].name]
                                          = [j \in DOMAIN y[i].items |-> y[i].items[j].name]
RtFinal(t) ==
  IF mode = "unsupported" THEN "REJECT SpecParserTotal" ELSE
  IF mode = "error" THEN "REJECT SpecAgrees" ELSE           \* the spec predicts an exception, the code returned
  IF ~SameData(t.out, parsed) THEN "REJECT SpecAgrees" ELSE
  IF SerText(t.data) # t.text THEN "ACCEPT drift=serialiser" ELSE
  IF ~SameOrder(t.out, parsed) THEN "ACCEPT drift=order" ELSE
  "ACCEPT"

(* ---- kind "pv" ---------------------------------------------------------- *)
(* forms the statement speaks about: a number (decimal point, small exponent) with or   *)
(* without a standard uncertainty; a string in single or double quotes; a bare word     *)
PvOutside(s) ==
  LET n == ScanNumber(s) IN
  IF s = <<>> \/ ~Printable(s) THEN "not-a-value" ELSE
  IF n.ok THEN (IF n.comma THEN "comma-decimal" ELSE IF Len(n.ed) > 2 THEN "huge-exponent" ELSE "") ELSE
  IF s[1] \in {SQ, DQ} THEN
     (IF Len(s) < 3 \/ s[Len(s)] # s[1] THEN "unbalanced-quote"
      ELSE LET inner == SubSeq(s, 2, Len(s) - 1)
           IN IF Contains(inner, s[1]) THEN "nested-quote"
              ELSE IF inner[1] = SPC \/ inner[Len(inner)] = SPC THEN "outer-blank" ELSE "")
  ELSE StrOutside(s)
PvExpected(s) == IF ~NumberLike(s) /\ s[1] \in {SQ, DQ} THEN StrV(SubSeq(s, 2, Len(s) - 1)) ELSE ParseValue(s)
PvVerdict(t) ==
  LET g == PvOutside(t.s)
      v == ParseValue(t.s)
  IN
  IF g # "" THEN "OOD " \o g ELSE
  IF v # PvExpected(t.s) THEN "REJECT SpecSelfCheck" ELSE    \* ParseValue does what the statement says
  IF t.exc # "" \/ t.exc_u # "" THEN "REJECT Raised" ELSE
  IF t.val.k # v.k THEN "REJECT ValueTypes" \o
       (IF v.k = "dec" /\ t.val.k = "int" /\ IntegerValued(v) THEN " KF=C15-intfloat" ELSE "") ELSE
  IF ~ValueOK(t.val, v, FALSE) THEN "REJECT Values" \o
       (IF v.k = "int" /\ DCmp(v.a, TwoTo53) > 0 THEN " KF=C15-bigint" ELSE "") ELSE
  IF t.val_u # t.val THEN "REJECT WithUncertaintyValue" ELSE
  IF t.unc # Uncertainty(t.s) THEN "REJECT Uncertainty" ELSE
  "ACCEPT"

(* ---- fan-out and the parser run ----------------------------------------- *)
Early(t) == IF t.kind = "pv" THEN PvVerdict(t) ELSE RtEarly(t)
Emit(i, v) == PrintT("V|" \o ToString(i) \o "|" \o v)
Ids(b) == {i \in 1..Len(Traces) : i % NBlocks = b - 1}

Init == blk = 0 /\ tid = 0 /\ ParserIdle
PickBlock == blk = 0 /\ blk' \in 1..NBlocks /\ tid' = 0 /\ UNCHANGED pvars
PickTrace ==
  /\ blk > 0 /\ tid = 0 /\ tid' \in Ids(blk) /\ blk' = blk
  /\ LET t == Traces[tid']
         e == Early(t)
     IN IF e # "" THEN Emit(tid', e) /\ UNCHANGED pvars
        ELSE ParserStart(SplitLines(t.text))
Keep == tid > 0 /\ UNCHANGED <<blk, tid>>
Blank == Keep /\ ParseBlank
Comment == Keep /\ ParseComment
Other == Keep /\ ParseOther
DataHeader == Keep /\ ParseDataHeader
Item == Keep /\ ParseItemWith(ItemText, ParseValue)
LoopHeader == Keep /\ ParseLoopHeader
LoopName == Keep /\ ParseLoopName
LoopNamesEnd == Keep /\ ParseLoopNamesEnd
LoopRow == Keep /\ ParseLoopRowWith(IsDataLine)
LoopEnd == Keep /\ ParseLoopEndWith(IsDataLine, ParseValue)
Eof == Keep /\ ParseEof
Report ==
  /\ tid > 0 /\ mode \in {"done", "error", "unsupported"}
  /\ Emit(tid, RtFinal(Traces[tid]))
  /\ mode' = "reported" /\ UNCHANGED <<blk, tid, lines, pos, block, parsed, keys, rows>>
Next == \/ PickBlock \/ PickTrace
        \/ Blank \/ Comment \/ Other \/ DataHeader \/ Item
        \/ LoopHeader \/ LoopName \/ LoopNamesEnd \/ LoopRow \/ LoopEnd \/ Eof
        \/ Report
TraceSpec == Init /\ [][Next]_vars
=============================================================================
