-------------------------- MODULE Trace_Promolecule --------------------------
(***************************************************************************)
(* Code -> spec binding for C05.  A trace is one evaluation context built  *)
(* on the integer grid (1/1024 A) by harness/c05.py: elements, the atoms   *)
(* and points in every pose used (pose 1 = reference), the pair rows of    *)
(* the density table read from thakkar_interp.npz for every (atom, point), *)
(* and the events executed against the real PromoleculeDensity /           *)
(* StockholderWeight objects, each with the float32 results projected to   *)
(* integers at the point's power-of-two scale.                             *)
(*                                                                         *)
(* One TLC step consumes one event by conjoining the module's action       *)
(* (Eval, Permute, Move, Split, Complement).  The domain guard (rigidity   *)
(* of every pose, >= 0.35 A from every nucleus, well-formed events) is     *)
(* evaluated here, on the integers.  The first event that no action        *)
(* explains ends the trace with REJECT <clause>.                           *)
(***************************************************************************)
EXTENDS Promolecule, TLC, Json, IOUtils

CONSTANT NBlocks
ASSUME TLCSet(1, JsonDeserialize(IOEnv.TRACE_FILE).traces)     \* parsed once, not once per worker
Traces == TLCGet(1)

MinR2 == 128451              \* (0.35 A)^2 in (1/1024 A)^2, rounded up
MaxCoord == 13000            \* keeps every squared distance below 2^31
MaxVal == 33554432           \* 2^25

VARIABLES blk, tid, ei, iv
vars == <<blk, tid, ei, iv, order, pose, memo>>

SetOf(seq) == {seq[i] : i \in DOMAIN seq}
NAt(t) == Len(t.z)
NPt(t) == Len(t.poses[1].pt)

(* ---- domain guard ------------------------------------------------------------ *)
CoordsOK(v) == Len(v) = 3 /\ \A i \in 1..3 : AbsI(v[i]) <= MaxCoord
PoseShapeOK(t, k) ==
  /\ Len(t.poses[k].at) = NAt(t) /\ Len(t.poses[k].pt) = NPt(t)
  /\ \A a \in DOMAIN t.poses[k].at : CoordsOK(t.poses[k].at[a])
  /\ \A p \in DOMAIN t.poses[k].pt : CoordsOK(t.poses[k].pt[p])
Rigid(t, k) == \A a \in 1..NAt(t) : \A p \in 1..NPt(t) :
                 Dist2(t.poses[k].at[a], t.poses[k].pt[p]) = Dist2(t.poses[1].at[a], t.poses[1].pt[p])
AwayFromNuclei(t) == \A a \in 1..NAt(t) : \A p \in 1..NPt(t) : Dist2(t.poses[1].at[a], t.poses[1].pt[p]) >= MinR2
PairRowOK(pr) == /\ Len(pr) = 4 /\ pr[1] >= 1 /\ pr[1] <= 4095 /\ pr[2] >= 0 /\ pr[2] <= TDen
                 /\ pr[3] >= 0 /\ pr[3] <= MaxVal /\ pr[4] >= 0 /\ pr[4] <= MaxVal
PairsOK(t) == /\ Len(t.pair) = NAt(t)
              /\ \A a \in DOMAIN t.pair : Len(t.pair[a]) = NPt(t) /\ \A p \in DOMAIN t.pair[a] : PairRowOK(t.pair[a][p])
SubsetOK(t, seq) == seq # <<>> /\ SetOf(seq) \subseteq 1..NAt(t) /\ Cardinality(SetOf(seq)) = Len(seq)
EventOK(t, e) ==
  CASE e.ev = "Eval" -> e.set = <<>> \/ SubsetOK(t, e.set)            \* the empty atom set has no density
    [] e.ev = "Permute" -> IsPermutation(e.perm, NAt(t))
    [] e.ev = "Move" -> e.pose \in DOMAIN t.poses
    [] e.ev = "Split" -> SubsetOK(t, e.s1) /\ SubsetOK(t, e.s2) /\ SetOf(e.s1) \cap SetOf(e.s2) = {}
    [] e.ev = "Complement" -> /\ SubsetOK(t, e.a) /\ (e.b = <<>> \/ SubsetOK(t, e.b)) /\ SetOf(e.a) \cap SetOf(e.b) = {}
                              /\ Len(e.bg) = NPt(t) /\ \A p \in DOMAIN e.bg : e.bg[p] >= 0 /\ e.bg[p] <= MaxVal
    [] OTHER -> FALSE
Guard(t) ==
  IF ~(NAt(t) >= 1 /\ NPt(t) >= 1 /\ \A a \in DOMAIN t.z : t.z[a] \in 1..103) THEN "elements"
  ELSE IF ~(\A k \in DOMAIN t.poses : PoseShapeOK(t, k)) THEN "coordinates"
  ELSE IF ~(\A k \in DOMAIN t.poses : Rigid(t, k)) THEN "not-rigid"
  ELSE IF ~AwayFromNuclei(t) THEN "near-nucleus"
  ELSE IF ~PairsOK(t) THEN "pair-rows"
  ELSE IF ~(\A i \in DOMAIN t.events : EventOK(t, t.events[i])) THEN "events"
  ELSE ""

(* ---- clauses ------------------------------------------------------------------ *)
Pts(t) == 1..NPt(t)
VecOK(t, v) == Len(v) = NPt(t)
AllPositive(sgn) == \A p \in DOMAIN sgn : sgn[p] = 1
LerpName(S) == IF Cardinality(S) = 1 THEN "AtomLerp" ELSE "SetLerp"
SumSingles(S, p) == SumOver([a \in S |-> memo[<<{a}, pose>>][p]], S)

EvalClause(t, e) ==
  LET S == SetOf(e.set)
      k == Cardinality(S)
  IN IF e.exc # "" THEN "Raised"
     ELSE IF e.argmut THEN "ArgumentMutated"
     ELSE IF ~(VecOK(t, e.obs) /\ VecOK(t, e.sgn)) THEN "Shape"
     ELSE IF e.off THEN "OnGrid"
     ELSE IF S = {} THEN (IF \A p \in Pts(t) : e.obs[p] = 0 /\ e.sgn[p] = 0 THEN "" ELSE "EmptySet")
     ELSE IF ~AllPositive(e.sgn) THEN "Positive"
     ELSE IF \E p \in Pts(t) : ~SetRhoOK(iv, S, p, e.obs[p]) THEN LerpName(S)
     ELSE IF k > 1 /\ (\A a \in S : <<{a}, pose>> \in DOMAIN memo)
             /\ (\E p \in Pts(t) : ~CloseAcc(e.obs[p], SumSingles(S, p), k)) THEN "Additive"
     ELSE IF <<S, pose>> \in DOMAIN memo /\ (\E p \in Pts(t) : ~CloseAcc(e.obs[p], memo[<<S, pose>>][p], k))
          THEN "OrderInvariant"
     ELSE IF \E g \in DOMAIN t.poses : /\ g # pose /\ <<S, g>> \in DOMAIN memo
                                       /\ \E p \in Pts(t) : ~CloseMoved(iv, S, p, e.obs[p], memo[<<S, g>>][p])
          THEN "MotionInvariant"
     ELSE ""

SplitClause(t, e) ==
  LET S1 == SetOf(e.s1)
      S2 == SetOf(e.s2)
      k == Cardinality(S1) + Cardinality(S2)
  IN IF e.exc # "" THEN "Raised"
     ELSE IF ~(VecOK(t, e.o1) /\ VecOK(t, e.o2) /\ VecOK(t, e.o12) /\ VecOK(t, e.sgn)) THEN "Shape"
     ELSE IF e.off THEN "OnGrid"
     ELSE IF ~AllPositive(e.sgn) THEN "Positive"
     ELSE IF \E p \in Pts(t) : ~(SetRhoOK(iv, S1, p, e.o1[p]) /\ SetRhoOK(iv, S2, p, e.o2[p])
                                /\ SetRhoOK(iv, S1 \cup S2, p, e.o12[p])) THEN "SetLerp"
     ELSE IF \E p \in Pts(t) : ~CloseAcc(e.o12[p], e.o1[p] + e.o2[p], 2 * k) THEN "Additive"
     ELSE ""

ComplementClause(t, e) ==
  LET A == SetOf(e.a)
      B == SetOf(e.b)
      nobg == \A p \in Pts(t) : e.bg[p] = 0
  IN IF e.exc # "" THEN "Raised"
     ELSE IF e.argmut THEN "ArgumentMutated"
     ELSE IF ~(VecOK(t, e.wab) /\ VecOK(t, e.wba)) THEN "Shape"
     ELSE IF e.off THEN "OnGrid"
     ELSE IF \E p \in Pts(t) : ~(WeightRangeOK(e.wab[p]) /\ WeightRangeOK(e.wba[p])) THEN "WeightRange"
     ELSE IF \E p \in Pts(t) :
               \E r \in {<<RhoLo(iv, A, p), RhoHi(iv, A, p), RhoLo(iv, B, p), RhoHi(iv, B, p)>>} :
                  ~(/\ WeightOK(e.wab[p], r[1], r[2], r[3], r[4], e.bg[p])
                    /\ WeightOK(e.wba[p], r[3], r[4], r[1], r[2], e.bg[p])) THEN "WeightDef"
     ELSE IF nobg /\ (\E p \in Pts(t) : ~SharesOK(e.wab[p], e.wba[p])) THEN "WeightShares"
     ELSE ""

Clause(t, e) == CASE e.ev = "Eval" -> EvalClause(t, e)
                  [] e.ev = "Split" -> SplitClause(t, e)
                  [] e.ev = "Complement" -> ComplementClause(t, e)
                  [] OTHER -> ""

Action(e) == CASE e.ev = "Eval" -> Eval(SetOf(e.set), e.obs)
               [] e.ev = "Permute" -> Permute(e.perm)
               [] e.ev = "Move" -> Move(e.pose)
               [] e.ev = "Split" -> Split(SetOf(e.s1), SetOf(e.s2), e.o1, e.o2, e.o12)
               [] e.ev = "Complement" -> Complement

(* ---- behaviour ------------------------------------------------------------------ *)
Ids(b) == {i \in 1..Len(Traces) : i % NBlocks = b - 1}
Say(i, text) == PrintT("V|" \o ToString(i) \o "|" \o text)

Init == blk = 0 /\ tid = 0 /\ ei = 0 /\ iv = <<>> /\ order = <<>> /\ pose = 0 /\ memo = <<>>

PickBlock == blk = 0 /\ blk' \in 1..NBlocks /\ UNCHANGED <<tid, ei, iv, order, pose, memo>>

PickTrace ==
  /\ blk > 0 /\ tid = 0 /\ tid' \in Ids(blk)
  /\ \E g \in {Guard(Traces[tid'])} :
       IF g = "" THEN /\ ei' = 1
                      /\ iv' = Intervals(Traces[tid'].pair)
                      /\ order' = [i \in 1..NAt(Traces[tid']) |-> i]
                      /\ pose' = 1
                      /\ (Traces[tid'].events = <<>>) => Say(tid', "ACCEPT empty")
       ELSE /\ ei' = Len(Traces[tid'].events) + 2 /\ Say(tid', "OOD " \o g)
            /\ UNCHANGED <<iv, order, pose>>
  /\ UNCHANGED <<blk, memo>>

Consume ==
  /\ tid > 0 /\ ei >= 1 /\ ei <= Len(Traces[tid].events)
  /\ \E t \in {Traces[tid]} : \E e \in {Traces[tid].events[ei]} : \E why \in {Clause(t, e)} :
       IF why = ""
       THEN /\ Action(e)
            /\ ei' = ei + 1
            /\ (ei = Len(t.events)) => Say(tid, "ACCEPT")
       ELSE /\ ei' = Len(t.events) + 2 /\ Say(tid, "REJECT " \o why)
            /\ UNCHANGED <<order, pose, memo>>
  /\ UNCHANGED <<blk, tid, iv>>

Next == PickBlock \/ PickTrace \/ Consume
TraceSpec == Init /\ [][Next]_vars
=============================================================================
