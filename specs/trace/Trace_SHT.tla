------------------------------ MODULE Trace_SHT ------------------------------
(***************************************************************************)
(* Code -> spec binding for C07.  One trace = one band-limited function    *)
(* (exact Gaussian-integer coefficients) and a sequence of real API calls  *)
(* on it recorded by harness/c07.py.  The state <<func, tag>> of module    *)
(* SHT is advanced event by event; every observation must be the image of  *)
(* `func` in the representation the call produces.  Reference harmonics    *)
(* (scipy.special.sph_harm_y, fixed point) are data of the trace; the sums *)
(* over them, all comparisons and all guards are evaluated here by TLC.    *)
(*                                                                         *)
(* trace:  L kind nphi ntheta exc func chan gp full ri gref w ne eref      *)
(*         erefR erefC events                                              *)
(* event:  ev as exc off cx shape obs nzi k g pv                           *)
(*         coefficient vectors are shipped sparsely: obs[j] is entry       *)
(*         nzi[j]; the entries not listed projected to exactly 0           *)
(***************************************************************************)
EXTENDS SHT, TLC, Json, IOUtils

CONSTANT NBlocks
(* parsed once at start-up and handed to every worker through register 1 (as a plain definition *)
(* TLC re-parses the file in every worker: measured 24 s against 3 s for 40 MB)                  *)
ASSUME TLCSet(1, JsonDeserialize(IOEnv.TRACE_FILE).traces)
Traces == TLCGet(1)

VARIABLES blk, tid
vars == <<blk, tid>>

(* state: the function, its representation tag, whether the grid array held is complex, the index of   *)
(* the grid observation later ones must agree with, and the expected values of func at the reference   *)
(* grid points (recomputed only when func changes)                                                      *)
(* SubSeq forces TLC to evaluate the (otherwise lazy) function once *)
RefValues(t, func, refs) == SubSeq([p \in DOMAIN refs |-> Value(t.L, t.kind, func, t.chan, refs[p])], 1, Len(refs))
InitState(t) == [func |-> t.func, tag |-> Native(t.kind), gcx |-> FALSE, last |-> 0,
                 gexp |-> RefValues(t, t.func, t.gref)]

GaussOK(c) == \A i \in DOMAIN c : Len(c[i]) = 2 /\ AbsI(c[i][1]) <= 400 /\ AbsI(c[i][2]) <= 400
WellFormed(t) ==
  /\ t.L \in 0..MaxL /\ t.kind \in {"real", "cplx"}
  /\ GaussOK(t.func) /\ FuncOK(t.L, t.kind, t.func)
  /\ ChanOK(t.L, t.kind, t.chan)
  /\ Len(t.gref) = Len(t.ri) /\ (\A p \in DOMAIN t.ri : t.ri[p] \in 1..Len(t.gp))
  /\ Len(t.eref) = t.ne /\ Len(t.erefR) = t.ne /\ Len(t.erefC) = t.ne
  /\ \A p \in DOMAIN t.gref : Len(t.gref[p]) = Len(t.chan)
  /\ \A p \in DOMAIN t.eref : Len(t.eref[p]) = Len(t.chan)
  /\ \A i \in DOMAIN t.events : t.events[i].ev \in Events

(* expected values at the reference points: exp[p] belongs to observation ix[p] *)
Ident(n) == [p \in 1..n |-> p]
MagOf(exp) == FxMaxOf([p \in DOMAIN exp |-> FxMax(FxAbs(exp[p][1]), FxAbs(exp[p][2]))])
RefTol(func, exp) == RelQuanta(MagOf(exp)) + SumAbs(func) + AbsQuanta   \* + quantisation of the reference columns
MatchesExp(func, obs, exp, ix) ==
  LET tol == RefTol(func, exp)
  IN \A p \in DOMAIN exp : ObsWithin(obs[ix[p]], exp[p][1], exp[p][2], tol)
MatchesRef(t, func, obs, refs, ix) == MatchesExp(func, obs, RefValues(t, func, refs), ix)

ObsMag(obs) == FxMaxOf([p \in DOMAIN obs |-> FxMax(FxAbs(ObsRe(obs[p])), FxAbs(ObsIm(obs[p])))])
SameGrid(obs, prev) ==
  LET tol == RelQuanta(ObsMag(prev)) + AbsQuanta
  IN \A p \in DOMAIN obs : ObsWithin(obs[p], ObsRe(prev[p]), ObsIm(prev[p]), tol)
ImagZero(obs) ==
  LET tol == RelQuanta(ObsMag(obs)) + AbsQuanta
  IN \A p \in DOMAIN obs : Within(ObsIm(obs[p]), FxZero, tol)

(* coefficient vectors against exact Gaussian integers.  An unlisted entry is exactly 0, which is *)
(* within tol (< 2^40 quanta) of an integer iff that integer is 0.                                 *)
NziOK(e, n) == /\ Len(e.nzi) = Len(e.obs)
               /\ \A j \in DOMAIN e.nzi : e.nzi[j] \in 1..n /\ (j > 1 => e.nzi[j - 1] < e.nzi[j])
(* lowprec: the samples were handed over in single precision (float32 / complex64): the answer has the layout and the values of
   the double-precision one, to single-precision accuracy (2^-17 of the largest coefficient) *)
CoeffsMatch(e, vec) ==
  LET tol == IF e.lowprec THEN MaxAbs(vec) * 8388608 + AbsQuanta ELSE MaxAbs(vec) * 1024 + AbsQuanta
      S == {e.nzi[j] : j \in DOMAIN e.nzi}
  IN /\ \A j \in DOMAIN e.nzi :
          LET v == vec[e.nzi[j]] IN ObsWithin(e.obs[j], FxInt(v[1]), FxInt(v[2]), tol)
     /\ \A i \in DOMAIN vec : i \in S \/ vec[i] = GZero

GridShape(t, e) == e.shape = <<t.ntheta, t.nphi>> /\ Len(e.obs) = Len(t.gp)

(* ---- one clause list per event; "" = the event is explained ----------------- *)
FuncAfter(st, e) == IF e.ev = "Combine" THEN Combine(e.k, st.func, e.g) ELSE st.func

(* Sample / Combine on the grid: the reference function evaluated where the object says its grid is at that moment (through
   compute_on_grid / the grid property).  The references of the trace were taken at the object's theta / phi nodes when it was
   built: a disagreement means the grid handed out is no longer that grid (e.g. a caller's edit of an earlier copy leaked in). *)
CheckGridInput(t, exp, func, e, what) ==
  IF e.exc # "" THEN "REJECT Raised:" \o what ELSE
  IF ~GridShape(t, e) THEN "REJECT GridShape:" \o what ELSE
  IF ~MatchesExp(func, e.obs, exp, t.ri) THEN "REJECT GridRef:" \o what ELSE ""

CheckSynthesis(t, st, e) ==
  IF e.exc # "" THEN "REJECT Raised:" \o e.ev ELSE
  IF e.off THEN "REJECT OnGrid:" \o e.ev ELSE
  IF ~(GridShape(t, e) /\ e.cx = (st.tag = "ccplx")) THEN "REJECT Shape:" \o e.ev ELSE
  IF ~MatchesExp(st.func, e.obs, st.gexp, t.ri) THEN "REJECT SynthRef:" \o e.ev ELSE
  IF t.kind = "real" /\ e.cx /\ ~ImagZero(e.obs) THEN "REJECT RealValued:" \o e.ev ELSE
  IF st.last > 0 /\ ~SameGrid(e.obs, t.events[st.last].obs) THEN "REJECT RouteGrid:" \o e.ev ELSE
  IF e.pv /\ ~(t.full /\ Len(t.gp) = t.ntheta * t.nphi /\ Len(t.w) = t.ntheta) THEN "OOD harness-parseval-grid" ELSE
  IF e.pv /\ ~ParsevalHolds(e.obs, t.w, t.ntheta, t.nphi, Energy(t.L, t.kind, st.func))
     THEN "REJECT Parseval:" \o e.ev ELSE ""

CheckAnalysis(t, st, e) ==
  LET layout == TagAfter(e.ev, st.tag, t.kind, e.as)
      n == Size(t.L, layout)
  IN IF e.exc # "" THEN "REJECT Raised:" \o e.ev ELSE
     IF e.off THEN "REJECT OnGrid:" \o e.ev ELSE
     IF ~(e.shape = <<n>> /\ e.cx) THEN "REJECT Shape:" \o e.ev ELSE
     IF ~NziOK(e, n) THEN "OOD harness-nzi" ELSE
     IF ~CoeffsMatch(e, Rep(t.L, t.kind, st.func, layout)) THEN "REJECT CoeffExact:" \o e.ev ELSE ""

CheckComplete(t, st, e) ==
  IF e.exc # "" THEN "REJECT Raised:Complete" ELSE
  IF e.off THEN "REJECT OnGrid:Complete" ELSE
  IF ~(e.shape = <<NLM(t.L)>> /\ e.cx) THEN "REJECT Shape:Complete" ELSE
  IF ~NziOK(e, NLM(t.L)) THEN "OOD harness-nzi" ELSE
  IF ~CoeffsMatch(e, Complete(t.L, st.func)) THEN "REJECT CompleteExact" ELSE ""

(* (2l+1) * spectrum[l] = P2(l): exact integer oracle, slack relative to the value itself *)
CheckPower(t, st, e) ==
  IF e.exc # "" THEN "REJECT Raised:PowerSpectrum" ELSE
  IF e.off THEN "REJECT OnGrid:PowerSpectrum" ELSE
  IF ~(e.shape = <<t.L + 1>> /\ Len(e.obs) = t.L + 1) THEN "REJECT Shape:PowerSpectrum" ELSE
  IF \E l \in 0..t.L : P2(t.L, t.kind, st.func, l) >= FB THEN "OOD harness-power-magnitude" ELSE
  IF \E l \in 0..t.L :
        LET p2 == P2(t.L, t.kind, st.func, l)
        IN ~Within(FxScale(2 * l + 1, ObsRe(e.obs[l + 1])), FxInt(p2), p2 * 1024 + 256)
     THEN "REJECT PowerExact" ELSE ""

(* evaluate_at_points.  As built at the pinned commit the real path evaluates f(theta, -phi) *)
(* and the complex path f(theta, pi - phi) (finding C07-evalat-phi): a rejected observation   *)
(* that is exactly the mirrored value of a function with a phi-dependent part is tagged.      *)
CheckEvalAt(t, st, e) ==
  IF e.exc # "" THEN "REJECT Raised:EvalAt" ELSE
  IF e.off THEN "REJECT OnGrid:EvalAt" ELSE
  IF ~(Len(e.obs) = t.ne /\ e.cx = (st.tag = "ccplx")) THEN "REJECT Shape:EvalAt" ELSE
  IF MatchesRef(t, st.func, e.obs, t.eref, Ident(t.ne)) THEN "" ELSE
  IF HasAzimuthal(t.L, t.kind, st.func)
     /\ MatchesRef(t, st.func, e.obs, IF st.tag = "creal" THEN t.erefR ELSE t.erefC, Ident(t.ne))
  THEN "REJECT EvalRef KF=C07-evalat-phi" ELSE "REJECT EvalRef"

(* nst: the state after the event (for Combine it carries the new function and its expected values) *)
Check(t, st, e, nst) ==
  IF ~EnabledEv(e.ev, st.tag, t.kind, st.gcx, e.as) THEN "OOD harness-disabled:" \o e.ev ELSE
  CASE e.ev = "Load" -> ""
    [] e.ev = "Sample" -> CheckGridInput(t, st.gexp, st.func, e, "samples")
    [] e.ev = "Combine" -> IF ~(GaussOK(e.g) /\ FuncOK(t.L, t.kind, e.g) /\ AbsI(e.k) <= 9
                                /\ GaussOK(nst.func)) THEN "OOD harness-combine-arg"
                           ELSE IF ~Covered(t.L, t.kind, nst.func, t.chan) THEN "OOD harness-uncovered-channel"
                           ELSE IF st.tag = "grid" THEN CheckGridInput(t, nst.gexp, nst.func, e, "combine") ELSE ""
    [] e.ev \in {"Synthesis", "SynthesisPP"} -> CheckSynthesis(t, st, e)
    [] e.ev \in {"Analysis", "AnalysisPP"} -> CheckAnalysis(t, st, e)
    [] e.ev = "Complete" -> CheckComplete(t, st, e)
    [] e.ev = "PowerSpectrum" -> CheckPower(t, st, e)
    [] e.ev = "EvalAt" -> CheckEvalAt(t, st, e)

StateAfter(t, st, e, i) ==
  [func |-> FuncAfter(st, e),
   gexp |-> IF e.ev = "Combine" THEN RefValues(t, FuncAfter(st, e), t.gref) ELSE st.gexp,
   tag |-> TagAfter(e.ev, st.tag, t.kind, e.as),
   gcx |-> IF e.ev \in {"Sample", "Synthesis", "SynthesisPP"} \/ (e.ev = "Combine" /\ st.tag = "grid") THEN e.cx
           ELSE st.gcx,
   (* the grid observation later grid observations of the same function must agree with *)
   last |-> IF e.ev = "Combine" THEN (IF st.tag = "grid" THEN i ELSE 0)
            ELSE IF e.ev = "Sample" THEN i
            ELSE IF e.ev \in {"Synthesis", "SynthesisPP"} /\ st.last = 0 THEN i
            ELSE st.last]

RECURSIVE Run(_, _, _)
Run(t, i, st) ==
  IF i > Len(t.events) THEN "ACCEPT"
  ELSE LET e == t.events[i]
           nst == StateAfter(t, st, e, i)
           r == Check(t, st, e, nst)
       IN IF r # "" THEN r ELSE Run(t, i + 1, nst)

Verdict(t) ==
  IF ~WellFormed(t) THEN "OOD harness-malformed" ELSE
  IF t.exc # "" THEN "REJECT Raised:Construct" ELSE
  IF ~GridSufficient(t.L, t.nphi, t.ntheta) THEN "REJECT GridSufficient" ELSE
  IF ~Covered(t.L, t.kind, t.func, t.chan) THEN "OOD harness-uncovered-channel" ELSE
  LET r == Run(t, 1, InitState(t)) IN
  IF r # "ACCEPT" THEN r ELSE
  IF <<t.nphi, t.ntheta>> # <<NPhiRule(t.L), NThetaRule(t.L)>> THEN "ACCEPT drift=GridRule" ELSE "ACCEPT"

Ids(b) == {i \in 1..Len(Traces) : i % NBlocks = b - 1}
Init == blk = 0 /\ tid = 0
Next == \/ blk = 0 /\ blk' \in 1..NBlocks /\ tid' = 0
        \/ /\ blk > 0 /\ tid = 0 /\ tid' \in Ids(blk) /\ blk' = blk
           /\ PrintT("V|" \o ToString(tid') \o "|" \o Verdict(Traces[tid']))
TraceSpec == Init /\ [][Next]_vars
=============================================================================
