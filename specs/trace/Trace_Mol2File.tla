--------------------------- MODULE Trace_Mol2File ---------------------------
(***************************************************************************)
(* Code -> spec binding for Mol2File.tla (an extension beyond the listed   *)
(* properties, run by the C16 check).  The harness proposes the text of a  *)
(* .mol2 file; TLC certifies that it is Mol2Text(name, atoms, bonds) and   *)
(* judges what Molecule.from_mol2_string / Molecule.load made of it.       *)
(***************************************************************************)
EXTENDS Mol2File, TLC, Json, IOUtils

CONSTANT NBlocks
ASSUME TLCSet(1, JsonDeserialize(IOEnv.TRACE_FILE).traces)
Traces == TLCGet(1)
VARIABLES blk, tid

Verdict(t) ==
  IF ~(Len(t.atoms) >= 1 /\ \A j \in DOMAIN t.bonds : t.bonds[j].type \in BondTypes /\ t.bonds[j].a \in DOMAIN t.atoms /\ t.bonds[j].b \in DOMAIN t.atoms /\ t.bonds[j].a # t.bonds[j].b)
     THEN "OOD shape" ELSE
  IF t.lines # Mol2Text(t.name, t.atoms, t.bonds) THEN "OOD BadProposal" ELSE
  IF t.exc # "" THEN "REJECT Raised" ELSE
  IF t.off THEN "REJECT OffGrid" ELSE
  IF ~LoadedOK(t.atoms, t.bonds, t.loaded) THEN "REJECT Loaded" ELSE "ACCEPT"

Ids(b) == {i \in 1..Len(Traces) : i % NBlocks = b - 1}
Init == blk = 0 /\ tid = 0
Next == \/ blk = 0 /\ blk' \in 1..NBlocks /\ tid' = 0
        \/ /\ blk > 0 /\ tid = 0 /\ tid' \in Ids(blk) /\ blk' = blk
           /\ PrintT("V|" \o ToString(tid') \o "|" \o Verdict(Traces[tid']))
TraceSpec == Init /\ [][Next]_<<blk, tid>>
=============================================================================
