---------------------------- MODULE Trace_Molecules ----------------------------
(***************************************************************************)
(* Code -> spec binding for C04: one trace per real molecular Crystal       *)
(* (harness/c04.py): unit_cell_atoms rows, unit_cell_connectivity edges,    *)
(* unit_cell_molecules and symmetry_unique_molecules projected to the grid. *)
(***************************************************************************)
EXTENDS Molecules, Reexpress, TLC, Json, IOUtils

CONSTANT NBlocks
ASSUME TLCSet(1, JsonDeserialize(IOEnv.TRACE_FILE).traces)     \* parsed once, not once per worker
Traces == TLCGet(1)
VARIABLES blk, tid

AsymSet(atoms) == {atoms[i].asym : i \in DOMAIN atoms}
SizesDiffer(t) == \E a \in DOMAIN t.mols : \E b \in DOMAIN t.mols : Len(t.mols[a]) # Len(t.mols[b])

EdgesOK(t) ==
  LET uc == t.ucpts es == t.edges IN
  /\ Cardinality({<<es[i][1], es[i][2]>> : i \in DOMAIN es}) = Len(es)
  /\ Len(es) = Len(t.bonds) * Len(t.ops)
  /\ \A i \in DOMAIN es :
       LET a == es[i][1] b == es[i][2] cell == es[i][3] IN
       /\ a \in DOMAIN uc /\ b \in DOMAIN uc /\ a < b
       /\ Dist2N(t.gram, uc[a].p, [c \in Idx |-> uc[b].p[c] + t.n * cell[c]]) <= Lo(t.thr, uc[a].z, uc[b].z)

(* step-level binding (CHMPY_VERIF hook in unit_cell_molecules): one event per BFS tree edge <<root, i, j, shift_j>>
   (unit-cell atom indices, 1-based).  Each event must be the Visit action of MC_Molecules in three dimensions:
   i already visited (root or an earlier j of the same root), j new, and
   shift_j = shift_i + cell(i,j) if i < j, shift_i - cell(j,i) if j < i, with cell taken from the connectivity edges. *)
EdgeCell(t, a, b) == (CHOOSE e \in SeqToSet(t.edges) : e[1] = a /\ e[2] = b)[3]
HasEdge(t, a, b) == \E e \in SeqToSet(t.edges) : e[1] = a /\ e[2] = b
ShiftOf(t, k, x) == IF x = t.bfs[k].root THEN <<0, 0, 0>>
                    ELSE t.bfs[CHOOSE m \in 1..(k-1) : t.bfs[m].root = t.bfs[k].root /\ t.bfs[m].j = x].shift
BfsOK(t) ==
  \A k \in DOMAIN t.bfs :
    LET ev == t.bfs[k]
        seen == {ev.root} \cup {t.bfs[m].j : m \in {m \in 1..(k-1) : t.bfs[m].root = ev.root}}
    IN /\ ev.i \in seen /\ ev.j \notin seen
       /\ IF ev.i < ev.j
          THEN HasEdge(t, ev.i, ev.j) /\ ev.shift = [c \in Idx |-> ShiftOf(t, k, ev.i)[c] + EdgeCell(t, ev.i, ev.j)[c]]
          ELSE HasEdge(t, ev.j, ev.i) /\ ev.shift = [c \in Idx |-> ShiftOf(t, k, ev.i)[c] - EdgeCell(t, ev.j, ev.i)[c]]

Verdict(t) ==
  LET N == t.n
      tab == ImgTable(t.ops, t.asym, N)
      ms == t.ucmols
      us == t.unique
      allp == [i \in DOMAIN ms |-> {WrapPt(ms[i].atoms[j].p, N) : j \in DOMAIN ms[i].atoms}]
      kf == IF SizesDiffer(t) THEN " KF=C04-different-sizes" ELSE ""
  IN
  IF ~(N % 12 = 0 /\ N <= 48 /\ Len(t.asym) > 0 /\ HasIdentity(CodeSet(t.ops))) THEN "OOD shape" ELSE
  IF ~SwitchedFromOK(t) THEN "OOD switch-proposal" ELSE
  IF ~MetricCompatible(t.ops, t.gram) THEN "OOD metric" ELSE
  IF ~ChemistryOK(t.asym, t.mols, t.bonds) THEN "OOD chemistry" ELSE
  IF ~GeneralPositions(tab) \/ ~OrbitsDisjointT(tab) THEN "OOD special-position" ELSE
  IF ~(ThresholdsTolOK(t.thr, N, t.u2m, t.tol100) /\ MassesOK(t.mass)) THEN "OOD thresholds" ELSE
  IF ~ReachCertificate(t.gram, t.thr, N) THEN "OOD cell-too-small" ELSE
  IF ~ContactsClear(t.gram, tab, t.asym, N, t.thr, t.bonds) THEN "OOD contacts" ELSE
  IF t.exc_conn # "" THEN "REJECT Raised:unit_cell_connectivity" ELSE
  IF t.exc_mols # "" THEN "REJECT Raised:unit_cell_molecules" ELSE
  IF t.off THEN "REJECT OnGrid" ELSE
  IF ~EdgesOK(t) THEN "REJECT Connectivity" ELSE
  IF Len(ms) # Len(t.mols) * Len(t.ops) THEN "REJECT Count" ELSE
  IF ~(\A i \in DOMAIN ms : \A j \in DOMAIN ms : i < j => allp[i] \cap allp[j] = {}) THEN "REJECT Partition" ELSE
  IF UNION {allp[i] : i \in DOMAIN ms} # {p.p : p \in ExpectedCellT(tab)} THEN "REJECT Partition" ELSE
  IF ~(\A i \in DOMAIN ms : Cardinality(allp[i]) = Len(ms[i].atoms)) THEN "REJECT Partition" ELSE
  IF ~(\A i \in DOMAIN ms : WholeImage(t.ops, t.asym, t.mols, tab, ms[i].atoms, N)) THEN "REJECT Whole" ELSE
  IF ~(\A i \in DOMAIN ms : Provenance(t.ops, tab, ms[i].atoms, t.asym, N)) THEN "REJECT Provenance" ELSE
  IF \E i \in DOMAIN ms : ComNearFace(t.mass, ms[i].atoms, N) THEN "OOD com-on-face" ELSE
  IF ~(\A i \in DOMAIN ms : ComInside(t.mass, ms[i].atoms, N)) THEN "REJECT CentreOfMass" ELSE
  IF t.exc_unique # "" THEN "REJECT Raised:symmetry_unique_molecules" \o kf ELSE
  IF Len(us) # Len(t.mols) THEN "REJECT UniqueCount" ELSE
  IF ~(\A s \in DOMAIN t.asym : Cardinality({i \in DOMAIN us : s \in AsymSet(us[i].atoms)}) = 1) THEN "REJECT UniqueCover" ELSE
  IF ~(\A i \in DOMAIN us : /\ \E m \in DOMAIN t.mols : AsymSet(us[i].atoms) = SeqToSet(t.mols[m])
                            /\ WholeImage(t.ops, t.asym, t.mols, tab, us[i].atoms, N)) THEN "REJECT UniqueWhole" ELSE
  IF ~(\A i \in DOMAIN ms : ms[i].idx \in 1..Len(us) /\ AsymSet(us[ms[i].idx].atoms) = AsymSet(ms[i].atoms)) THEN "REJECT ImageLabel" ELSE
  IF ~BfsOK(t) THEN "ACCEPT drift=BfsSteps" ELSE
  IF Len(t.bfs) # Len(t.ucpts) - Len(ms) THEN "ACCEPT note=bfs-events-incomplete" ELSE
  "ACCEPT"

Ids(b) == {i \in 1..Len(Traces) : i % NBlocks = b - 1}
Init == blk = 0 /\ tid = 0
Next == \/ blk = 0 /\ blk' \in 1..NBlocks /\ tid' = 0
        \/ /\ blk > 0 /\ tid = 0 /\ tid' \in Ids(blk) /\ blk' = blk
           /\ PrintT("V|" \o ToString(tid') \o "|" \o Verdict(Traces[tid']))
TraceSpec == Init /\ [][Next]_<<blk, tid>>
=============================================================================
