------------------------- MODULE Trace_Reflections -------------------------
(***************************************************************************)
(* Code -> spec binding for reflections() (an extension beyond the listed  *)
(* properties, run by the C12 check: it rests on the reciprocal lattice).  *)
(* One trace per call on a real P1 Crystal whose reciprocal lattice is the *)
(* integer unimodular matrix M (its rows are the reciprocal axes);         *)
(* K = floor((2/lambda)^2),                                                *)
(* the wavelength chosen so that (2/lambda)^2 = K + 1/2 (no reflection on  *)
(* the sphere).                                                            *)
(***************************************************************************)
EXTENDS Reflections, TLC, Json, IOUtils

CONSTANT NBlocks
ASSUME TLCSet(1, JsonDeserialize(IOEnv.TRACE_FILE).traces)
Traces == TLCGet(1)
VARIABLES blk, tid

Verdict(t) ==
  LET want == Expected(t.Minv, t.K)
      got == SeqSet(t.hkl)
  IN
  IF ~(t.K \in 1..40 /\ Inverses(t.M, t.Minv)) THEN "OOD cell" ELSE
  IF t.exc # "" THEN "REJECT Raised" ELSE
  IF t.off THEN "REJECT OnGrid" ELSE
  IF Cardinality(got) # Len(t.hkl) THEN "REJECT Duplicate" ELSE
  IF want \ got # {} THEN "REJECT Missing" \o (IF FriedelClosed(got) THEN "" ELSE ":friedel-mate") ELSE
  IF got \ want # {} THEN "REJECT Extra" ELSE
  IF ~FriedelClosed(got) THEN "REJECT FriedelClosed" ELSE
  IF ~ListOK(t.hkl, t.G, t.q2, t.M) THEN "REJECT Vectors" ELSE
  IF t.sorted /\ ~Sorted(t.q2) THEN "REJECT Sorted" ELSE "ACCEPT"

Ids(b) == {i \in 1..Len(Traces) : i % NBlocks = b - 1}
Init == blk = 0 /\ tid = 0
Next == \/ blk = 0 /\ blk' \in 1..NBlocks /\ tid' = 0
        \/ /\ blk > 0 /\ tid = 0 /\ tid' \in Ids(blk) /\ blk' = blk
           /\ PrintT("V|" \o ToString(tid') \o "|" \o Verdict(Traces[tid']))
TraceSpec == Init /\ [][Next]_<<blk, tid>>
=============================================================================
