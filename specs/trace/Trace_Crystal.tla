---------------------------- MODULE Trace_Crystal ----------------------------
(***************************************************************************)
(* Code -> spec binding for C01: one trace per real Crystal object         *)
(* (harness/c01.py).  Recorded: the intermediate result of                 *)
(* SpaceGroup.apply_all_symops (wrapped call), the final unit_cell_atoms() *)
(* dictionary projected to the grid, Gram products of cart_pos, and one    *)
(* slab() call.  Every clause is evaluated by TLC against Crystal.tla.     *)
(***************************************************************************)
EXTENDS Reexpress, TLC, Json, IOUtils

CONSTANT NBlocks
ASSUME TLCSet(1, JsonDeserialize(IOEnv.TRACE_FILE).traces)     \* parsed once, not once per worker
Traces == TLCGet(1)
VARIABLES blk, tid

Guard(t) ==
  IF ~(t.n % 12 = 0 /\ t.n <= 48 /\ Len(t.ops) > 0 /\ Len(t.asym) > 0 /\ HasIdentity(CodeSet(t.ops))) THEN "OOD shape" ELSE
  IF ~SwitchedFromOK(t) THEN "OOD switch-proposal" ELSE
  IF ~MetricCompatible(t.ops, t.gram) THEN "OOD metric" ELSE
  IF ~OrbitsDisjointT(ImgTable(t.ops, t.asym, t.n)) THEN "OOD overlapping-orbits" ELSE
  IF ~WrapDomain(ApplyOps(t.ops, t.asym, t.n), t.n) THEN "OOD wrap-range" ELSE "ok"

UcPts(t) == {[asym |-> t.uc.rows[i].asym, p |-> t.uc.rows[i].p] : i \in DOMAIN t.uc.rows}

SlabOK(t) ==
  LET s == t.slab
      got == {[asym |-> s.rows[i].asym, p |-> s.rows[i].p, cell |-> s.rows[i].cell] : i \in DOMAIN s.rows}
      ncell == Cardinality(Box(s.lo, s.hi))
  IN /\ got = SlabRows(UcPts(t), s.lo, s.hi, t.n)
     /\ Len(s.rows) = Cardinality(got)
     /\ s.n_uc = Len(t.uc.rows) /\ s.n_cells = ncell
     \* (that a slab atom's float lies inside the cell it is listed under is not demanded: the sum of a coordinate a hair below 1
     \*  and its cell number may round to the next integer; which site it is is decided on the grid, modulo the lattice)
     /\ \A i \in DOMAIN s.rows :
          \E j \in DOMAIN t.uc.rows :
             /\ t.uc.rows[j].asym = s.rows[i].asym
             /\ t.uc.rows[j].p = [c \in Idx |-> s.rows[i].p[c] - t.n * s.rows[i].cell[c]]
             /\ t.uc.rows[j].op = s.rows[i].op /\ t.uc.rows[j].z = s.rows[i].z

Applied(t) == [i \in DOMAIN t.applied.codes |-> [asym |-> ((i - 1) % Len(t.asym)) + 1, op |-> t.applied.codes[i], raw |-> t.applied.raw[i]]]

Verdict(t) ==
  LET g == Guard(t) rows == t.uc.rows N == t.n tab == ImgTable(t.ops, t.asym, t.n) small == Len(t.ops) * Len(t.asym) <= 64 IN
  IF g # "ok" THEN g ELSE
  \* the object constructed for this (number, choice) must carry the operations tabulated for that setting
  IF CodeSet(t.ops) # CodeSet(t.table_ops) \/ Len(t.ops) # Len(t.table_ops) THEN "REJECT SettingOperations" ELSE
  IF t.uc.exc # "" THEN "REJECT Raised" ELSE
  IF t.uc.off THEN "REJECT OnGrid" ELSE
  \* fl = floor of each reported fractional coordinate: it must be 0, i.e. the coordinate lies in [0,1)
  IF ~(\A i \in DOMAIN rows : \A c \in Idx : rows[i].fl[c] = 0 /\ rows[i].p[c] \in 0..(N-1)) THEN "REJECT InCell" ELSE
  IF Cardinality({rows[i].p : i \in DOMAIN rows}) # Len(rows)
     THEN "REJECT Duplicate" \o (IF t.decimals > 0 THEN " KF=C01-face-images" ELSE "") ELSE
  IF ~(\A i \in DOMAIN rows : rows[i].asym \in DOMAIN t.asym) THEN "REJECT ParentIndex" ELSE
  IF UcPts(t) # ExpectedCellT(tab) THEN "REJECT Orbit" ELSE
  IF ~(\A i \in DOMAIN rows : rows[i].op \in CodeSet(t.ops) /\ Img(rows[i].op, t.asym[rows[i].asym].p, N) = rows[i].p)
     THEN "REJECT Generator" ELSE
  IF ~(\A i \in DOMAIN rows : rows[i].z = t.asym[rows[i].asym].z /\ rows[i].label = t.asym[rows[i].asym].label)
     THEN "REJECT ElementLabel" ELSE
  IF ~(\A i \in DOMAIN rows : rows[i].occ = MultT(tab, rows[i].asym, rows[i].p) * t.asym[rows[i].asym].occ)
     THEN "REJECT Occupancy" ELSE
  IF Sum([i \in DOMAIN rows |-> rows[i].occ]) # Len(t.ops) * Sum([s \in DOMAIN t.asym |-> t.asym[s].occ])
     THEN "REJECT OccupancyTotal" ELSE
  IF ~(\A k \in DOMAIN t.uc.cc : Dot(t.gram, rows[t.uc.cc[k][1]].pr, rows[t.uc.cc[k][2]].pr) = t.uc.cc[k][3])
     THEN "REJECT Cartesian" ELSE
  IF t.slab.exc # "" THEN "REJECT SlabRaised" ELSE
  IF t.slab.off THEN "REJECT SlabOnGrid" ELSE
  IF ~SlabOK(t) THEN "REJECT Slab" ELSE
  \* asked again after exports and other queries on the same object, the unit cell is reported exactly as before
  IF t.uc.again # "same" THEN "REJECT Repeatable" ELSE
  IF t.applied.exc # "" \/ t.applied.off \/ Applied(t) # ApplyOps(t.ops, t.asym, N) THEN "ACCEPT drift=ApplyOps" ELSE
  IF small /\ [i \in DOMAIN rows |-> [asym |-> rows[i].asym, op |-> rows[i].op, p |-> rows[i].p, occ |-> rows[i].occ]]
       # UnitCellAtoms(t.ops, t.asym, N) THEN "ACCEPT drift=RowOrder" ELSE
  "ACCEPT"

Ids(b) == {i \in 1..Len(Traces) : i % NBlocks = b - 1}
Init == blk = 0 /\ tid = 0
Next == \/ blk = 0 /\ blk' \in 1..NBlocks /\ tid' = 0
        \/ /\ blk > 0 /\ tid = 0 /\ tid' \in Ids(blk) /\ blk' = blk
           /\ PrintT("V|" \o ToString(tid') \o "|" \o Verdict(Traces[tid']))
TraceSpec == Init /\ [][Next]_<<blk, tid>>
=============================================================================
