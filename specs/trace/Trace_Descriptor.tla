---------------------------- MODULE Trace_Descriptor ----------------------------
(***************************************************************************)
(* Code -> spec binding for C09 (harness/c09.py).  One trace = one object  *)
(* (molecule, or molecule + environment), one l_max, one descriptor kind   *)
(* and property channel; it lists poses (a word of Descriptor actions from *)
(* the identity pose, the exact integer coordinates given to the real      *)
(* code, the observed descriptor), radial samples at the identity pose,    *)
(* and out-of-bounds probes.                                               *)
(***************************************************************************)
EXTENDS Descriptor, TLC, Json, IOUtils

CONSTANT NBlocks
ASSUME TLCSet(1, JsonDeserialize(IOEnv.TRACE_FILE).traces)     \* parsed once, not once per worker
Traces == TLCGet(1)
VARIABLES blk, tid

Cfg(x) == [inner |-> x.inner, outer |-> x.outer]
RadialTol == 2098                    \* 2e-3 relative on f/iso (float32 bisection to 1e-7 / 1e-12 in r)

PoseVerdict(t, k) ==
  LET ps == t.poses[k] ref == t.poses[1] w == ps.word
      cls == IF HasRotation(w) THEN "rotation" ELSE "translation-permutation"
      kf == IF t.channel # "none" /\ t.kind \in {"promolecule", "molecule"} /\ (\E i \in DOMAIN w : w[i][1] = "T")
            THEN " KF=C09-property-origin" ELSE "" IN
  IF ~WordOK(Cfg(t.base), w) THEN "OOD word" ELSE
  IF ApplyWord(Cfg(t.base), w) # Cfg(ps) THEN "OOD pose" ELSE
  IF ps.exc # "" THEN "REJECT Raised:" \o t.kind ELSE
  IF t.kind = "mol-atomic" /\ ~RowsMatch(ps.rows, ref.rows, Tol(w, t.lmax)) THEN "REJECT PoseInvariance:" \o cls \o ":mol-atomic" ELSE
  IF t.kind # "mol-atomic" /\ ~Within(ps.d, ref.d, Tol(w, t.lmax)) THEN "REJECT PoseInvariance:" \o cls \o ":" \o t.kind \o ":" \o t.channel \o kf ELSE "ok"

RadialOK(t) == \A i \in DOMAIN t.radial :
   LET s == t.radial[i] IN s.r >= s.lo /\ s.r <= s.hi /\ AbsV(s.fv - Scale) <= RadialTol
(* a probe whose bounds cannot contain the surface: field on the same side of the isovalue at lo, mid and hi *)
NoCrossing(p) == (p.flo > Scale /\ p.fmid > Scale /\ p.fhi > Scale) \/ (p.flo < Scale /\ p.fmid < Scale /\ p.fhi < Scale)

(* the interior atoms form one molecule: every atom within 1.7 A of the rest (positions are multiples of 81 units = 0.005 A).
   Scattered atoms are not a molecule: the radial search from their centroid may legitimately find no single surface. *)
NearAtoms(a, b) == LET d == [c \in 1..3 |-> (a.p[c] - b.p[c]) \div 81] IN d[1] * d[1] + d[2] * d[2] + d[3] * d[3] <= 340 * 340
RECURSIVE GrowMol(_, _)
GrowMol(atoms, seen) ==
  LET nxt == {i \in DOMAIN atoms : i \notin seen /\ \E j \in seen : NearAtoms(atoms[i], atoms[j])}
  IN IF nxt = {} THEN seen ELSE GrowMol(atoms, seen \cup nxt)
OneMolecule(atoms) == Len(atoms) >= 1 /\ (\A i \in DOMAIN atoms : \A c \in 1..3 : atoms[i].p[c] % 81 = 0) /\ GrowMol(atoms, {1}) = DOMAIN atoms

(* ---- crystal listings (kinds crystal-mol / crystal-atom): coordinates in units of 0.005 A ------------------------------- *)
CCfg(x) == [cell |-> x.cell, atoms |-> x.atoms]
CNear(a, b) == D2(a.p, b.p) <= 340 * 340
RECURSIVE CGrow(_, _)
CGrow(atoms, seen) ==
  LET nxt == {i \in DOMAIN atoms : i \notin seen /\ \E j \in seen : CNear(atoms[i], atoms[j])}
  IN IF nxt = {} THEN seen ELSE CGrow(atoms, seen \cup nxt)
CrystalVerdict(t) ==
  LET base == CCfg(t.base)
      bad == {k \in 2..Len(t.poses) :
                \/ ~CWordOK(base, t.poses[k].word) \/ CApplyWord(base, t.poses[k].word) # CCfg(t.poses[k])
                \/ t.poses[k].exc # "" \/ ~RowsMatch(t.poses[k].rows, t.poses[1].rows, TolExact)}
      first == CHOOSE k \in bad : \A j \in bad : k <= j
  IN
  IF ~(t.lmax \in 1..30 /\ Len(t.poses) >= 1 /\ t.poses[1].word = <<>> /\ CCfg(t.poses[1]) = base) THEN "OOD shape" ELSE
  IF ~(\A k \in Idx : base.cell[k] \in 600..2400) \/ ~(\A i \in DOMAIN base.atoms : \A k \in Idx : AbsV(base.atoms[i].p[k]) <= 4000)
     THEN "OOD cell" ELSE
  IF CGrow(base.atoms, {1}) # DOMAIN base.atoms THEN "OOD not-one-molecule" ELSE
  IF ~PeriodicClear(base, 460) THEN "OOD molecules-touch" ELSE
  IF OnEnvSphere(base) THEN "OOD atom-on-the-environment-sphere" ELSE
  \* "no surface inside the bounds" (a loosely packed listing: some direction meets no neighbour) is an outcome like any
  \* other: it must be the outcome of every listing of the arrangement; nothing more can be said about such a trace
  IF t.poses[1].exc = "ValueError:isovalue" THEN
     (IF \A k \in 2..Len(t.poses) : ~CWordOK(base, t.poses[k].word) \/ CApplyWord(base, t.poses[k].word) # CCfg(t.poses[k])
                                       \/ t.poses[k].exc = "ValueError:isovalue"
      THEN "OOD surface-not-inside-bounds" ELSE "REJECT ListingInvariance:raised-in-some:" \o t.kind) ELSE
  IF t.poses[1].exc # "" THEN "REJECT Raised:" \o t.kind ELSE
  IF t.poses[1].rows = <<>> THEN "REJECT NoRows:" \o t.kind ELSE
  IF bad = {} THEN "ACCEPT" ELSE
  \* a surface that some ray from the centre crosses more than once (or grazes) has no unique radial description: which crossing
  \* is reported may depend on rounding, so differences between listings say nothing (sampled by the harness on the base listing)
  IF ~t.star /\ (\A k \in bad : CWordOK(base, t.poses[k].word) /\ CApplyWord(base, t.poses[k].word) = CCfg(t.poses[k]) /\ t.poses[k].exc = "")
     THEN "OOD surface-not-star-shaped" ELSE
  IF ~CWordOK(base, t.poses[first].word) THEN "OOD word" ELSE
  IF CApplyWord(base, t.poses[first].word) # CCfg(t.poses[first]) THEN "OOD pose" ELSE
  IF t.poses[first].exc # "" THEN "REJECT Raised:" \o t.kind ELSE
  "REJECT ListingInvariance:" \o t.kind \o ":" \o t.channel

Verdict(t) ==
  IF t.kind \in {"crystal-mol", "crystal-atom"} THEN CrystalVerdict(t) ELSE
  LET bad == {k \in 2..Len(t.poses) : PoseVerdict(t, k) # "ok"} IN
  IF ~(t.lmax \in 1..30 /\ Len(t.poses) >= 1 /\ t.poses[1].word = <<>>) THEN "OOD shape" ELSE
  IF ~OneMolecule(t.base.inner) THEN "OOD not-one-molecule" ELSE
  IF t.kind = "stockholder" /\ ~t.inside /\ t.poses[1].exc = "ValueError" THEN "OOD surface-not-inside-bounds" ELSE
  IF t.poses[1].exc # "" THEN "REJECT Raised:" \o t.kind ELSE
  IF ~(\A i \in DOMAIN t.poses[1].d : AbsV(t.poses[1].d[i]) <= Scale) \/ t.poses[1].d = <<>> THEN "OOD scaling" ELSE
  \* an atom whose surface some ray of the transform grid crosses more than once (or grazes) has no unique radial description:
  \* which crossing the root-finder reports may depend on rounding, so differences between poses say nothing (sampled by the
  \* harness on the base pose); raised poses and ill-formed words are still judged
  \* a surface that leaves the search bounds in some direction (sampled densely by the harness when a pose reported it): whether a
  \* pose notices depends on where its grid rays point, so "raised in this pose only" says nothing; other clauses still apply
  IF t.kind = "stockholder" /\ ~t.inside /\ bad # {} /\ (\A k \in bad : PoseVerdict(t, k) = "REJECT Raised:stockholder")
     THEN "OOD surface-not-inside-bounds" ELSE
  IF t.kind = "mol-atomic" /\ ~t.star /\ bad # {}
     /\ (\A k \in bad : PoseVerdict(t, k) \in {"REJECT PoseInvariance:rotation:mol-atomic", "REJECT PoseInvariance:translation-permutation:mol-atomic"})
     THEN "OOD surface-not-star-shaped" ELSE
  IF bad # {} THEN PoseVerdict(t, CHOOSE k \in bad : \A j \in bad : k <= j) ELSE
  IF ~RadialOK(t) THEN "REJECT Radial:" \o t.kind ELSE
  IF \E i \in DOMAIN t.oob : ~NoCrossing(t.oob[i]) THEN "OOD probe-crosses" ELSE
  IF \E i \in DOMAIN t.oob : t.oob[i].exc = "" THEN "REJECT DescribedOutOfBounds:" \o t.kind ELSE
  "ACCEPT"

Ids(b) == {i \in 1..Len(Traces) : i % NBlocks = b - 1}
Init == blk = 0 /\ tid = 0
Next == \/ blk = 0 /\ blk' \in 1..NBlocks /\ tid' = 0
        \/ /\ blk > 0 /\ tid = 0 /\ tid' \in Ids(blk) /\ blk' = blk
           /\ PrintT("V|" \o ToString(tid') \o "|" \o Verdict(Traces[tid']))
TraceSpec == Init /\ [][Next]_<<blk, tid>>
=============================================================================
