------------------------------- MODULE Symop -------------------------------
(***************************************************************************)
(* Crystallographic symmetry operations  x -> R x + t  as chmpy models     *)
(* them (crystal/symmetry_operation.py): R a 3x3 matrix over {-1,0,1}, t a *)
(* translation in twelfths, taken modulo the lattice.  Three concrete      *)
(* forms exist in the implementation: (rotation, translation) arrays, a    *)
(* packed integer (ternary digits for R, duodecimal digits for t) and an   *)
(* "x,y,z" text.  This module defines the abstract operation and each form *)
(* independently of the Python code.                                       *)
(*                                                                         *)
(* Magnitudes: every integer below is < 3^9*12^3 = 34012224 < 2^31.        *)
(***************************************************************************)
EXTENDS Integers, Sequences, FiniteSets

Idx == 1..3
Pow3 == <<6561, 2187, 729, 243, 81, 27, 9, 3, 1>>
NRot == 19683            \* 3^9
NCodes == 34012224       \* 3^9 * 12^3
IdentityCode == 16484
InversionCode == 3198    \* -x,-y,-z with zero translation

(* ---- packed integer -> operation (decode_symm_int) --------------------- *)
RotOf(c) == [i \in Idx |-> [j \in Idx |-> (((c % NRot) \div Pow3[3*(i-1)+j]) % 3) - 1]]
TrOf(c) == LET t == c \div NRot IN <<(t \div 144) % 12, (t \div 12) % 12, t % 12>>
Dec(c) == [r |-> RotOf(c), t |-> TrOf(c)]

(* ---- operation -> packed integer (encode_symm_int); needs entries in -1..1 *)
Encodable(op) == \A i \in Idx : \A j \in Idx : op.r[i][j] \in -1..1
RotCode(r) ==
  (r[1][1]+1)*6561 + (r[1][2]+1)*2187 + (r[1][3]+1)*729 +
  (r[2][1]+1)*243  + (r[2][2]+1)*81   + (r[2][3]+1)*27  +
  (r[3][1]+1)*9    + (r[3][2]+1)*3    + (r[3][3]+1)
TrCode(t) == (t[1] % 12)*144 + (t[2] % 12)*12 + (t[3] % 12)
Enc(op) == RotCode(op.r) + NRot * TrCode(op.t)

(* ---- algebra ----------------------------------------------------------- *)
MatMul(a, b) == [i \in Idx |-> [j \in Idx |-> a[i][1]*b[1][j] + a[i][2]*b[2][j] + a[i][3]*b[3][j]]]
MatVec(a, v) == [i \in Idx |-> a[i][1]*v[1] + a[i][2]*v[2] + a[i][3]*v[3]]
NegMat(a) == [i \in Idx |-> [j \in Idx |-> -a[i][j]]]
IdMat == <<<<1,0,0>>,<<0,1,0>>,<<0,0,1>>>>
Det(a) == a[1][1]*(a[2][2]*a[3][3]-a[2][3]*a[3][2])
        - a[1][2]*(a[2][1]*a[3][3]-a[2][3]*a[3][1])
        + a[1][3]*(a[2][1]*a[3][2]-a[2][2]*a[3][1])
Adj(a) == \* adjugate: Adj(a) a = Det(a) I
  << << a[2][2]*a[3][3]-a[2][3]*a[3][2], a[1][3]*a[3][2]-a[1][2]*a[3][3], a[1][2]*a[2][3]-a[1][3]*a[2][2] >>,
     << a[2][3]*a[3][1]-a[2][1]*a[3][3], a[1][1]*a[3][3]-a[1][3]*a[3][1], a[1][3]*a[2][1]-a[1][1]*a[2][3] >>,
     << a[2][1]*a[3][2]-a[2][2]*a[3][1], a[1][2]*a[3][1]-a[1][1]*a[3][2], a[1][1]*a[2][2]-a[1][2]*a[2][1] >> >>
Mod12Vec(v) == [i \in Idx |-> v[i] % 12]

Norm(op) == [r |-> op.r, t |-> Mod12Vec(op.t)]
(* Equality of operations is modulo lattice translations. *)
Equal(a, b) == a.r = b.r /\ Mod12Vec(a.t) = Mod12Vec(b.t)
(* (a o b)(x) = a(b(x)) *)
Compose(a, b) == [r |-> MatMul(a.r, b.r),
                  t |-> Mod12Vec([i \in Idx |-> MatVec(a.r, b.t)[i] + a.t[i]])]
(* inverse of a unimodular operation: R^-1 = Adj/Det, t' = -R^-1 t *)
InverseOp(a) == LET d == Det(a.r)
                  ri == [i \in Idx |-> [j \in Idx |-> Adj(a.r)[i][j] * d]]   \* d = +-1
              IN [r |-> ri, t |-> Mod12Vec([i \in Idx |-> -MatVec(ri, a.t)[i]])]
(* the implementation's "inverted()" is NOT the group inverse: it is -R, -t *)
Inverted(a) == [r |-> NegMat(a.r), t |-> Mod12Vec([i \in Idx |-> -a.t[i]])]
(* adding a lattice-centring translation given in twelfths *)
Shift(a, v) == [r |-> a.r, t |-> Mod12Vec([i \in Idx |-> a.t[i] + v[i]])]

(* ---- action on grid points p/N, N a multiple of 12, wrapped into the cell *)
ApplyRaw(op, p, N) == [i \in Idx |-> MatVec(op.r, p)[i] + op.t[i] * (N \div 12)]
ApplyGrid(op, p, N) == [i \in Idx |-> ApplyRaw(op, p, N)[i] % N]

(* ---- text form (encode_symm_str) --------------------------------------- *)
FracText == <<"", "1/12", "1/6", "1/4", "1/3", "5/12", "1/2", "7/12", "2/3", "3/4", "5/6", "11/12">>
AxisName == <<"x", "y", "z">>
Term(c, j) == IF c = 0 THEN "" ELSE (IF c < 0 THEN "-" ELSE "+") \o AxisName[j]
RowText(op, i) == FracText[(op.t[i] % 12) + 1] \o Term(op.r[i][1], 1) \o Term(op.r[i][2], 2) \o Term(op.r[i][3], 3)
ToText(op) == RowText(op, 1) \o "," \o RowText(op, 2) \o "," \o RowText(op, 3)

(* ---- grammar of equivalent spellings accepted by CIF / SHELX readers ---- *)
(* A spelling is determined by a style per row:                            *)
(*   pi     permutation of the axis terms                                   *)
(*   up     axis letters in upper case                                      *)
(*   dp     drop the '+' of the leading printed axis term                   *)
(*   num    which numeral table to use for the translation                  *)
(*   layout 1: numeral first  2: numeral last  3,4: same with blanks        *)
(* and a separator "," or ", ".  Spelling(op, styles, sep) is the text.     *)
NumTables == <<
  FracText,
  <<"", "", "", "0.25", "", "", "0.5", "", "", "0.75", "", "">>,
  <<"", "", "", ".25", "", "", ".5", "", "", ".75", "", "">>,
  <<"", "", "0.1667", "", "0.3333", "", "", "", "0.6667", "", "0.8333", "">>,
  <<"", "0.08333", "0.16667", "0.250", "0.33333", "0.41667", "0.500", "0.58333", "0.66667", "0.750", "0.83333", "0.91667">> >>
Numeral(k, num) == IF NumTables[num][k+1] = "" THEN FracText[k+1] ELSE NumTables[num][k+1]
(* the same translation written as a negative fraction: k/12 = -(12-k)/12 modulo the lattice, e.g. 3/4 as "-1/4" *)
NegNumeral(k) == "-" \o FracText[(12 - k) + 1]

Perms3 == <<<<1,2,3>>, <<1,3,2>>, <<2,1,3>>, <<2,3,1>>, <<3,1,2>>, <<3,2,1>>>>
UpperName == <<"X", "Y", "Z">>
Letter(j, up) == IF up THEN UpperName[j] ELSE AxisName[j]
StyleSet == [pi : 1..6, up : BOOLEAN, dp : BOOLEAN, num : 1..6, layout : 1..4]     \* num = 6: negative fraction

(* the axis terms in permuted order; the first printed one may lose its '+' *)
TermsText(row, st, keepSigns) ==
  LET pi == Perms3[st.pi]
      lead == CHOOSE k \in 1..4 : (k = 4 \/ row[pi[k]] # 0) /\ \A m \in 1..(k-1) : row[pi[m]] = 0
      one(k) == IF row[pi[k]] = 0 THEN ""
                ELSE IF k = lead /\ st.dp /\ ~keepSigns /\ row[pi[k]] > 0 THEN Letter(pi[k], st.up)
                ELSE (IF row[pi[k]] < 0 THEN "-" ELSE "+") \o Letter(pi[k], st.up)
  IN one(1) \o one(2) \o one(3)

RowSpelling(row, k, st) ==
  IF k = 0 THEN (IF st.layout >= 3 THEN " " \o TermsText(row, st, FALSE) \o " " ELSE TermsText(row, st, FALSE))
  ELSE LET neg == st.num = 6
           n == IF neg THEN NegNumeral(k) ELSE Numeral(k, st.num)
           plus == IF neg THEN "" ELSE "+"                      \* "x-1/4", not "x+-1/4"
       IN
       CASE st.layout = 1 -> n \o TermsText(row, st, TRUE)
         [] st.layout = 2 -> TermsText(row, st, FALSE) \o plus \o n
         [] st.layout = 3 -> n \o " " \o TermsText(row, st, TRUE)
         [] st.layout = 4 -> TermsText(row, st, FALSE) \o (IF neg THEN " - " \o FracText[(12 - k) + 1] ELSE " + " \o n)

Spelling(op, styles, sep) ==
  RowSpelling(op.r[1], op.t[1] % 12, styles[1]) \o sep \o
  RowSpelling(op.r[2], op.t[2] % 12, styles[2]) \o sep \o
  RowSpelling(op.r[3], op.t[3] % 12, styles[3])

NonZeroRow(row) == row[1] # 0 \/ row[2] # 0 \/ row[3] # 0
=============================================================================
