------------------------------- MODULE MC_SHT -------------------------------
(***************************************************************************)
(* Bounded-exhaustive model of the discrete content of module SHT.         *)
(*                                                                         *)
(* ph = "layout": every L in 0..64 - the two index layouts are bijections  *)
(*      onto 1..size in the order the kernels walk them; the as-coded grid *)
(*      rule is sufficient (and 7-smooth / multiple of 8 as coded).        *)
(* ph = "vec":    every real-kind vector with <= 2 non-zero channels (values  *)
(*      {-2..2}^2 x 5), L <= LMaxVec: the as-coded loops (expand_coeffs_cython, *)
(*      power_spectrum) equal the declarative operators; Complete has a    *)
(*      left inverse (so it is injective), its image is Hermitian, it      *)
(*      preserves Power; Parseval on integers.                             *)
(* ph = "cvec":   complex-kind vectors: power loop, ToRealLayout/Complete on   *)
(*      Hermitian vectors.                                                 *)
(* ph = "lin":    Complete(k c + g) = k Complete(c) + Complete(g).         *)
(* ph = "val":    for symbolic integer "harmonic" tables with the symmetry *)
(*      Y(l,-m) = (-1)^m conj Y(l,m) the real evaluation formula equals    *)
(*      the complex sum over the completed vector and is real.             *)
(* ph = "tags":   the representation state machine never leaves its type.  *)
(***************************************************************************)
EXTENDS SHT, TLC

CONSTANTS LMaxVec, NBlocks

VARIABLES blk, ph, L, c, g, k, tag
vars == <<blk, ph, L, c, g, k, tag>>

GV == (-2..2) \X (-2..2)
GU == {<<0, 0>>, <<1, 0>>, <<0, 1>>, <<-2, 1>>, <<1, -1>>}
RealVal(l0, i, v) == IF i <= l0 + 1 THEN <<v[1], 0>> ELSE v        \* m = 0 block comes first
UnitR(l0, i, v) == [j \in 1..NPLM(l0) |-> IF j = i THEN RealVal(l0, i, v) ELSE GZero]
UnitC(l0, i, v) == [j \in 1..NLM(l0) |-> IF j = i THEN v ELSE GZero]
Mine(x) == x % NBlocks = blk - 1

(* symbolic harmonic tables for ph = "val": value at (l, m >= 0) drawn from small sets *)
YTab(n, l, m) == IF m = 0 THEN <<(IF (n \div (l + 1)) % 2 = 0 THEN 1 ELSE -2), 0>>
                 ELSE <<(IF (n \div (l + m)) % 2 = 0 THEN 1 ELSE -1), (IF (n \div (m + 1)) % 3 = 0 THEN 2 ELSE -1)>>
YFull(n, l, m) == IF m >= 0 THEN YTab(n, l, m) ELSE GScale(ParitySign(m), GConj(YTab(n, l, -m)))
FlatY(z) == <<z[1], 0, 0, z[2], 0, 0>>

Init == blk = 0 /\ ph = "idle" /\ L = 0 /\ c = <<>> /\ g = <<>> /\ k = 0 /\ tag = "none"

PickBlock == blk = 0 /\ blk' \in 1..NBlocks /\ UNCHANGED <<ph, L, c, g, k, tag>>
PickLayout == /\ blk > 0 /\ ph = "idle" /\ ph' = "layout"
              /\ L' \in {l0 \in 0..MaxL : Mine(l0)}
              /\ UNCHANGED <<blk, c, g, k, tag>>
PickVec == /\ blk > 0 /\ ph = "idle" /\ ph' = "vec"
           /\ \E l0 \in 0..LMaxVec : \E i, j \in 1..NPLM(l0) : \E v \in GV : \E u \in GU :
                 /\ i < j \/ (i = j /\ u = GZero)
                 /\ Mine(7 * i + 13 * j + 3 * v[1] + 5 * u[2])
                 /\ L' = l0 /\ c' = Add(UnitR(l0, i, v), UnitR(l0, j, u))
           /\ UNCHANGED <<blk, g, k, tag>>
PickCVec == /\ blk > 0 /\ ph = "idle" /\ ph' = "cvec"
            /\ \E l0 \in 0..(LMaxVec - 1) : \E i, j \in 1..NLM(l0) : \E v \in GV : \E u \in GU :
                  /\ i < j \/ (i = j /\ u = GZero)
                  /\ Mine(7 * i + 13 * j + 3 * v[1] + 5 * u[2])
                  /\ L' = l0 /\ c' = Add(UnitC(l0, i, v), UnitC(l0, j, u))
            /\ UNCHANGED <<blk, g, k, tag>>
PickLin == /\ blk > 0 /\ ph = "idle" /\ ph' = "lin"
           /\ \E l0 \in 0..LMaxVec : \E i, j \in 1..NPLM(l0) : \E v \in GV : \E u \in {<<1, 0>>, <<0, 1>>, <<-2, 1>>} :
                 /\ Mine(7 * i + 13 * j + 3 * v[1] + 5 * v[2])
                 /\ L' = l0 /\ c' = UnitR(l0, i, v) /\ g' = UnitR(l0, j, u)
           /\ k' \in {-1, 2, 3}
           /\ UNCHANGED <<blk, tag>>
PickVal == /\ blk > 0 /\ ph = "idle" /\ ph' = "val"
           /\ \E l0 \in 0..2 : \E i, j \in 1..NPLM(l0) : \E v \in GV : \E u \in GU :
                 /\ i < j \/ (i = j /\ u = GZero)
                 /\ Mine(7 * i + 13 * j + 3 * v[1] + 5 * u[2])
                 /\ L' = l0 /\ c' = Add(UnitR(l0, i, v), UnitR(l0, j, u))
           /\ k' \in 0..3                        \* index of the symbolic table
           /\ UNCHANGED <<blk, g, tag>>
(* the tag machine: kind is kept in c (a string here), gcx in k (0/1) *)
StartTags == /\ blk = 1 /\ ph = "idle" /\ ph' = "tags"
             /\ c' \in {"real", "cplx"} /\ tag' = Native(c') /\ k' = 0
             /\ UNCHANGED <<blk, L, g>>
StepTags == /\ ph = "tags"
            /\ \E ev \in Events : \E as \in {"real", "cplx"} : \E cx \in {0, 1} :
                  /\ EnabledEv(ev, tag, c, k = 1, as)
                  /\ tag' = TagAfter(ev, tag, c, as)
                  /\ k' = IF ev \in {"Sample", "Synthesis", "SynthesisPP"}
                          THEN (IF ev = "Sample" THEN (IF c = "cplx" THEN 1 ELSE 0)
                                ELSE (IF tag = "ccplx" THEN 1 ELSE 0))
                          ELSE k
            /\ UNCHANGED <<blk, ph, L, c, g>>
Next == PickBlock \/ PickLayout \/ PickVec \/ PickCVec \/ PickLin \/ PickVal \/ StartTags \/ StepTags
Spec == Init /\ [][Next]_vars

(* ---- invariants ----------------------------------------------------------- *)
LayoutsOK == ph = "layout" =>
  LET ro == RealOrder(L)
      co == CplxOrder(L)
  IN /\ Len(ro) = NPLM(L) /\ Len(co) = NLM(L)
     /\ \A i \in DOMAIN ro : IdxReal(L, ro[i][1], ro[i][2]) = i /\ ro[i] \in ChanReal(L)
     /\ \A i \in DOMAIN co : IdxCplx(co[i][1], co[i][2]) = i /\ co[i] \in ChanCplx(L)
                             /\ LOfCplx(i) = co[i][1] /\ MOfCplx(i) = co[i][2]
     /\ Cardinality(ChanReal(L)) = NPLM(L) /\ Cardinality(ChanCplx(L)) = NLM(L)
GridRuleOK == ph = "layout" =>
  LET nphi == NPhiRule(L)
      nth == NThetaRule(L)
  IN /\ GridSufficient(L, nphi, nth)
     /\ (nphi <= 7 \/ Smooth7(nphi))
     /\ nth % 8 = 0 /\ nth < L + 10
     /\ ~GridSufficient(L, 2 * L, nth)                 \* one phi point fewer than 2L+1 aliases m = L with m = -L
     /\ (L > 0 => ~GridSufficient(L, nphi, L))
CompleteAlgOK == ph \in {"vec", "val"} => CompleteAlg(L, c) = Complete(L, c)
CompleteInverts == ph = "vec" => ToRealLayout(L, Complete(L, c)) = c
CompleteHermitian == ph = "vec" => Hermitian(L, Complete(L, c))
CompletePower == ph = "vec" => LET d == Complete(L, c) IN \A l \in 0..L : P2Cplx(d, l) = P2Real(L, c, l)
PowerAlgOK ==
  /\ ph = "vec" => PowerRealAlg(L, c) = [l \in 1..(L + 1) |-> P2Real(L, c, l - 1)]
  /\ ph = "cvec" => /\ PowerCplxAlg(L, c) = [l \in 1..(L + 1) |-> P2Cplx(c, l - 1)]
                    /\ (Hermitian(L, c) => Complete(L, ToRealLayout(L, c)) = c)
ParsevalInt ==
  /\ ph = "vec" => LET d == Complete(L, c)
                   IN /\ Energy(L, "real", c) = ISum([i \in 1..NLM(L) |-> GNorm2(d[i])])
                      /\ Energy(L, "real", c) = Energy(L, "cplx", d)
  /\ ph = "cvec" => Energy(L, "cplx", c) = ISum([i \in 1..NLM(L) |-> GNorm2(c[i])])
CompleteLinear == ph = "lin" =>
  /\ Complete(L, Combine(k, c, g)) = Combine(k, Complete(L, c), Complete(L, g))
  /\ RealFuncOK(L, Combine(k, c, g))
  /\ \A l \in 0..L : P2Real(L, Scale(k, c), l) = k * k * P2Real(L, c, l)
ValueRealIsCplx == ph = "val" =>
  LET ro == RealOrder(L)
      co == CplxOrder(L)
      yr == [i \in DOMAIN ro |-> FlatY(YFull(k, ro[i][1], ro[i][2]))]
      yc == [i \in DOMAIN co |-> FlatY(YFull(k, co[i][1], co[i][2]))]
      a == Value(L, "real", c, ro, yr)
      b == Value(L, "cplx", Complete(L, c), co, yc)
  IN a = b /\ a[2] = FxZero /\ Covered(L, "real", c, ro)
TagsOK == ph = "tags" => /\ tag \in Tags
                         /\ (tag = "creal" => c = "real")
                         /\ (tag = "grid" /\ c = "cplx" => k = 1)
=============================================================================
