---------------------------- MODULE MC_MolFormats ----------------------------
(***************************************************************************)
(* Bounded exhaustive model of MolFormats: for every small molecule the    *)
(* specification's writer output obeys the V2000 layout and both readers   *)
(* of the specification -- the declarative one (fields at their columns)   *)
(* and the one that consumes the text line by line like the code does --   *)
(* give the molecule back:  Read(Write(m)) = m.                            *)
(*                                                                         *)
(*   kind "sdf"      one record; molecules of 1-3 atoms, with/without bonds *)
(*   kind "xyz"      canonical XYZ text; molecules of 1-3 atoms             *)
(*   kind "xyzspell" one-atom molecules x every style of a small alphabet   *)
(*                   of case / blank-run / number spellings                 *)
(*   kind "sdffile"  files of 1-2 records x terminator / data-item styles   *)
(*                                                                         *)
(* Coordinate alphabet (7 values per format): 0, +-(smallest step),         *)
(* +-9999.9999, 1.5 and the largest value of the field.  One-atom           *)
(* molecules: 3 elements x the full product 7^3.  Two atoms: over 14 atoms  *)
(* (2 elements x 7 triples that put every value in every column); three     *)
(* atoms: over 7 of them.  AsBuiltReader = TRUE replaces the property-block loop of the   *)
(* SDF reader by the unbounded one found in the code (NoRaise is violated); *)
(* AsBuiltWriter = TRUE writes SDF records the way the code did at the      *)
(* pinned commit (WriterLayout and DeclarativeRead are violated).           *)
(***************************************************************************)
EXTENDS MolFormats, TLC

CONSTANTS AsBuiltReader, AsBuiltWriter, Wide      \* Wide = TRUE (thorough tier): three-atom molecules over all 14 atoms

D1(neg, ip, f) == [neg |-> neg, ip |-> ip, fr |-> <<f>>]
D3(neg, ip, a, b, c) == [neg |-> neg, ip |-> ip, fr |-> <<a, b, c>>]
SdfAlpha == <<D1(FALSE, 0, 0), D1(FALSE, 0, 1), D1(TRUE, 0, 1), D1(FALSE, 9999, 9999),
              D1(TRUE, 9999, 9999), D1(FALSE, 1, 5000), D1(FALSE, 99999, 9999)>>
XyzAlpha == <<D3(FALSE, 0, 0, 0, 0), D3(FALSE, 0, 0, 0, 1), D3(TRUE, 0, 0, 0, 1), D3(FALSE, 9999, 9999, 0, 0),
              D3(TRUE, 9999, 9999, 0, 0), D3(FALSE, 1, 5000, 0, 0), D3(FALSE, 999999, 9999, 9999, 9999)>>
Alpha(f) == IF f = "sdf" THEN SdfAlpha ELSE XyzAlpha
Triple(f, k) == <<Alpha(f)[k], Alpha(f)[(k % 7) + 1], Alpha(f)[((k + 1) % 7) + 1]>>
ASSUME \A k \in 1..7 : SdfRepresentable(SdfAlpha[k]) /\ WellFormedDec(SdfAlpha[k], 1)
ASSUME \A k \in 1..7 : XyzRepresentable(XyzAlpha[k]) /\ WellFormedDec(XyzAlpha[k], 3)

OneAtom(f) == {<<[z |-> z, c |-> <<Alpha(f)[i], Alpha(f)[j], Alpha(f)[k]>>]>> : z \in {1, 6, 17}, i \in 1..7, j \in 1..7, k \in 1..7}
SmallAtoms(f) == {[z |-> z, c |-> Triple(f, k)] : z \in {1, 17}, k \in 1..7}
Small3(f) == IF Wide THEN SmallAtoms(f) ELSE {[z |-> IF k % 2 = 0 THEN 1 ELSE 17, c |-> Triple(f, k)] : k \in 1..7}
AtomSeqs(f) == OneAtom(f) \cup {<<a, b>> : a \in SmallAtoms(f), b \in SmallAtoms(f)}
               \cup {<<a, b, c>> : a \in Small3(f), b \in Small3(f), c \in Small3(f)}
Chain(n) == [i \in 1..(n - 1) |-> <<i, i + 1, 1>>]
SdfMols == {[atoms |-> s, bonds |-> <<>>] : s \in AtomSeqs("sdf")}
           \cup {[atoms |-> s, bonds |-> Chain(Len(s))] : s \in {t \in AtomSeqs("sdf") : Len(t) >= 2 /\ t[1].z = 1}}
XyzMols == {[atoms |-> s, bonds |-> <<>>] : s \in AtomSeqs("xyz")}

(* spelling styles *)
Runs == {<<32>>, <<9>>, <<32, 32, 32>>, <<9, 32>>}
Edges == {<<>>, <<32>>, <<9, 9>>}
LineStyles == {[cs |-> cs, lead |-> e, trail |-> e, sep |-> <<r, <<32>>, r>>, plus |-> <<p, FALSE, p>>, nd |-> <<12, n, 12>>] :
                 cs \in 1..4, e \in Edges, r \in Runs, p \in BOOLEAN, n \in {4, 12}}
SpellMols == {[atoms |-> <<a>>, bonds |-> <<>>] : a \in {b \in SmallAtoms("xyz") : NumSpellValid(b.c[2], 4)}}
Styles == {[clead |-> ls.lead, ctrail |-> ls.sep[1], finalnl |-> nl, lines |-> <<ls>>] : nl \in BOOLEAN, ls \in LineStyles}

FileMols == {m \in SdfMols : Len(m.atoms) = 1 /\ m.atoms[1].z = 17 /\ m.atoms[1].c[1] = m.atoms[1].c[2] /\ m.atoms[1].c[2] = m.atoms[1].c[3]}
            \cup {m \in SdfMols : Len(m.atoms) = 2 /\ m.atoms[1] = m.atoms[2]}
FileSeqs == {<<a>> : a \in FileMols} \cup {<<a, b>> : a \in FileMols, b \in FileMols}
FileStyles == {[term |-> tm, data |-> dt, chg |-> cg] : tm \in BOOLEAN, dt \in BOOLEAN, cg \in BOOLEAN}
Names == << <<97>>, <<98, 32, 99>> >>
Comment == <<99, 111, 109, 109, 101, 110, 116, 32, 49>>

NoMol == [atoms |-> <<>>, bonds |-> <<>>]
NoStyle == [none |-> TRUE]
VARIABLES kind, mol, mols, sty, text, rd, phase
vars == <<kind, mol, mols, sty, text, rd, phase>>

Init == /\ kind = "" /\ mol = NoMol /\ mols = <<>> /\ sty = NoStyle /\ text = <<>>
        /\ rd = SdfRdInit /\ phase = "pick"

PickSdf == /\ phase = "pick" /\ kind' = "sdf" /\ mol' \in SdfMols /\ phase' = "picked"
           /\ UNCHANGED <<mols, sty, text, rd>>
PickXyz == /\ phase = "pick" /\ kind' = "xyz" /\ mol' \in XyzMols /\ phase' = "picked"
           /\ UNCHANGED <<mols, sty, text, rd>>
PickSpell == /\ phase = "pick" /\ kind' = "xyzspell" /\ mol' \in SpellMols /\ sty' \in Styles /\ phase' = "picked"
             /\ UNCHANGED <<mols, text, rd>>
PickFile == /\ phase = "pick" /\ kind' = "sdffile" /\ mols' \in FileSeqs /\ sty' \in FileStyles
            /\ SdfStyleValid(mols', sty') /\ phase' = "picked"
            /\ UNCHANGED <<mol, text, rd>>
Write == /\ phase = "picked"
         /\ text' = CASE kind = "sdf" -> (IF AsBuiltWriter THEN SdfRecordAsBuilt(Names[2], mol) ELSE SdfRecord(Names[2], mol))
                      [] kind = "xyz" -> XyzText(mol, Comment)
                      [] kind = "xyzspell" -> XyzSpelling(mol, Comment, sty)
                      [] OTHER -> SdfFile(Names, mols, sty)
         /\ rd' = IF kind = "sdf" THEN SdfRdInit ELSE XyzRdInit
         /\ phase' = IF kind = "sdffile" THEN "end" ELSE "written"
         /\ UNCHANGED <<kind, mol, mols, sty>>
ReadStep == /\ phase = "written" /\ rd.pc \notin {"done", "raise"}
            /\ rd' = IF kind = "sdf" THEN SdfRdStep(text, rd, AsBuiltReader) ELSE XyzRdStep(text, rd)
            /\ UNCHANGED <<kind, mol, mols, sty, text, phase>>
Finish == /\ phase = "written" /\ rd.pc \in {"done", "raise"} /\ phase' = "end"
          /\ UNCHANGED <<kind, mol, mols, sty, text, rd>>
Next == PickSdf \/ PickXyz \/ PickSpell \/ PickFile \/ Write \/ ReadStep \/ Finish
Spec == Init /\ [][Next]_vars

(* --- invariants -------------------------------------------------------- *)
StyleOK == (phase = "picked" /\ kind = "xyzspell") => XyzStyleValid(mol, sty)
WriterLayout == (phase = "written" /\ rd.pc \in {"counts", "count"}) =>
  CASE kind = "sdf" -> SdfLayout(text) = "" /\ \A i \in DOMAIN text : PrintableLine(text[i])
    [] OTHER -> \A i \in DOMAIN text : PrintableLine(text[i])
DeclarativeRead == (phase = "written" /\ rd.pc \in {"counts", "count"}) =>
  LET r == IF kind = "sdf" THEN SdfReadRecord(text) ELSE XyzRead(text)
  IN r.ok /\ r.atoms = mol.atoms /\ (kind = "sdf" => r.bonds = mol.bonds)
NoRaise == rd.pc # "raise"
StepwiseRead == phase = "end" /\ kind # "sdffile" =>
  rd.pc = "done" /\ rd.atoms = mol.atoms /\ (kind = "sdf" => rd.bonds = mol.bonds /\ rd.na = Len(mol.atoms))
FileRecords == phase = "end" /\ kind = "sdffile" =>
  LET R == SdfRecords(text)
  IN /\ Len(R) = Len(mols)
     /\ \A i \in DOMAIN mols :
          /\ SdfLayout(R[i]) = ""
          /\ SdfReadRecord(R[i]).ok /\ SdfReadRecord(R[i]).atoms = mols[i].atoms /\ SdfReadRecord(R[i]).bonds = mols[i].bonds
          /\ SdfEndsAtMEnd(R[i]) = ~sty.data
=============================================================================
