---------------------------- MODULE MC_PointGroup ----------------------------
(***************************************************************************)
(* Exhaustive model over the point-group table of the tree                 *)
(* (crystal/point_group.py, 47 rows) and over what every one of the 530    *)
(* space-group settings, constructed as a real SpaceGroup object, reports  *)
(* as its point group, crystal system and Laue class ($PG_FILE).           *)
(* Behaviour: pick the table as a whole, one of its rows, or one setting.  *)
(***************************************************************************)
EXTENDS PointGroup, TLC, Json, IOUtils

Data == JsonDeserialize(IOEnv.PG_FILE)
PG == Data.pgs
SG == Data.rows

VARIABLES kind, idx
vars == <<kind, idx>>
Init == kind = "idle" /\ idx = 0
Next == /\ kind = "idle"
        /\ \/ kind' = "table" /\ idx' = 0
           \/ kind' = "pg" /\ idx' \in DOMAIN PG
           \/ kind' = "sg" /\ idx' \in DOMAIN SG
Spec == Init /\ [][Next]_vars

TableOK == kind = "table" => PGTableOK(PG)
RowOK == kind = "pg" => PGRowOK(PG[idx])
Constructed == kind = "sg" => SG[idx].exc = ""
ReportOK == kind = "sg" /\ SG[idx].exc = "" => SettingReportOK(SG[idx].number, SG[idx].ops, SG[idx].rep, PG)
=============================================================================
