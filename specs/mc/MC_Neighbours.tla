---------------------------- MODULE MC_Neighbours ----------------------------
(***************************************************************************)
(* Design-level model for C03: over a bounded family of integer Gram       *)
(* matrices (including strongly oblique ones), centres inside and outside  *)
(* the reference cell and radii up to about 2.5 cell lengths, the query    *)
(* algorithm  slab(search box) -> ball test  returns exactly the periodic  *)
(* images within the radius when the search box is computed from the       *)
(* reciprocal lengths (Rule = "recip").  With Rule = "asbuilt" (radius /   *)
(* cell length, the pinned commit) TLC finds oblique counterexamples.      *)
(* Expected is a brute force over cells -K..K with K = 6, certified by     *)
(* BoxCertificate for every instance (else the instance is skipped and     *)
(* counted by the Covered invariant).                                      *)
(***************************************************************************)
EXTENDS Neighbours, TLC

CONSTANTS N, NBlocks, Rule, Stride
K == 6
H == 8
Diags == {3, 5}
Offs == {-2, 0, 2}
Grams == {g \in {<< <<a, d, e>>, <<d, b, f>>, <<e, f, c>> >> : a \in Diags, b \in Diags, c \in Diags, d \in Offs, e \in Offs, f \in Offs} :
            g[1][1]*g[2][2] - g[1][2]*g[1][2] > 0 /\ DetG(g) > 0}
GramSeq == SetToSeq(Grams)
Centres == << <<0, 0, 0>>, <<5, 11, 7>>, <<-7, 15, 3>>, <<23, -4, 12>> >>
Ks == <<3, 40, 400, 2500>>
UcPts == {[asym |-> 1, p |-> <<3, 7, 5>>], [asym |-> 2, p |-> <<0, 6, 11>>]}

VARIABLES blk, gi, ci, ki
vars == <<blk, gi, ci, ki>>
Init == blk = 0 /\ gi = 0 /\ ci = 0 /\ ki = 0
PickBlock == blk = 0 /\ blk' \in 1..NBlocks /\ UNCHANGED <<gi, ci, ki>>
PickCase == /\ blk > 0 /\ gi = 0
            /\ gi' \in {i \in 1..Cardinality(Grams) : i % NBlocks = blk - 1 /\ i % Stride = 0}
            /\ ci' \in DOMAIN Centres /\ ki' \in DOMAIN Ks /\ UNCHANGED blk
Next == PickBlock \/ PickCase
Spec == Init /\ [][Next]_vars

G == GramSeq[gi]
C == Centres[ci]
Kk == Ks[ki]
Bounds == IF Rule = "recip" THEN BoundsRecip(G, C, Kk, N, H) ELSE BoundsAsBuilt(G, C, Kk, N, H)
Certified == BoxCertificate(G, {C}, Kk, K, N)
Want == Expected(G, UcPts, {C}, Kk, K, N, FALSE)

BoxContainsBall == (gi > 0 /\ Certified) => \A a \in Want : \A i \in Idx : a.cell[i] >= Bounds.lo[i] /\ a.cell[i] <= Bounds.hi[i]
QueryMatches == (gi > 0 /\ Certified) => QueryVia(G, UcPts, C, Kk, N, Bounds) = Want
=============================================================================
