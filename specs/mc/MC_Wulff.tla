------------------------------ MODULE MC_Wulff ------------------------------
(***************************************************************************)
(* Bounded model of the Wulff construction on named polyhedra.             *)
(*                                                                         *)
(* Behaviour: pick a shape and a rational scale s = sn/sd of its energies, *)
(* then run the pipeline of wulff.py one step per transition               *)
(*   duals -> hull simplices -> vertices + facet lists -> pruned, CCW      *)
(*   ordered polygons -> fan triangles                                     *)
(* The invariants state, at every step, that the algorithm-shaped result   *)
(* equals the declarative half-space intersection of Wulff.tla, and that   *)
(* both equal values worked out by hand (vertex sets and volumes below).   *)
(* The hull step offers every simplex any triangulation of the dual hull   *)
(* may contain, listed from each of its three corners in turn (qhull fixes *)
(* neither), so coincident emitted vertices and their merge are covered.   *)
(*                                                                         *)
(* Units: a shape with energies p/Q scaled by sn/sd has planes             *)
(* v.y <= (p*sn)*w with y in units of 1/(Q*sd); the unscaled vertex x      *)
(* (hand value, homogeneous <<n1,n2,n3,d>>) becomes y = Q*sn*x.            *)
(***************************************************************************)
EXTENDS Wulff, Json

CONSTANT VertexFormula     \* "code": wulff.py as written; "wrong-column": the deviation of the self-test
                           \* mutant (energy of another simplex corner), shown by ./check C19 --explain

Signs == {-1, 1}
Neg(f) == << -f[1], -f[2], -f[3], f[4], f[5] >>
Sym(fs) == fs \o [k \in DOMAIN fs |-> Neg(fs[k])]

(* name, Q, facets <<x,y,z,w,p>>, hand vertices (units 1), hand volume hn/hd *)
Shapes == <<
  [name |-> "cube", Q |-> 1,
   facets |-> Sym(<< <<1,0,0,1,1>>, <<0,1,0,1,1>>, <<0,0,1,1,1>> >>),
   hverts |-> { <<a, b, c, 1>> : a \in Signs, b \in Signs, c \in Signs },
   hn |-> 8, hd |-> 1],
  (* -2 <= x <= 1, |y| <= 2, |z| <= 3 *)
  [name |-> "box", Q |-> 1,
   facets |-> << <<1,0,0,1,1>>, <<-1,0,0,1,2>>, <<0,1,0,1,2>>, <<0,-1,0,1,2>>, <<0,0,1,1,3>>, <<0,0,-1,1,3>> >>,
   hverts |-> { <<a, 2*b, 3*c, 1>> : a \in {-2, 1}, b \in Signs, c \in Signs },
   hn |-> 72, hd |-> 1],
  (* |x| + 2|y| + 2|z| <= 3: semi-axes 3, 3/2, 3/2; volume 4/3 * 3 * 3/2 * 3/2; four facets per vertex *)
  [name |-> "octahedron", Q |-> 1,
   facets |-> Sym(<< <<1,2,2,3,1>>, <<1,2,-2,3,1>>, <<1,-2,2,3,1>>, <<1,-2,-2,3,1>> >>),
   hverts |-> { <<3,0,0,1>>, <<-3,0,0,1>>, <<0,3,0,2>>, <<0,-3,0,2>>, <<0,0,3,2>>, <<0,0,-3,2>> },
   hn |-> 9, hd |-> 1],
  (* |x| <= 1, |3x +- 4y| <= 5, |z| <= 1: hexagon (+-1,+-1/2), (0,+-5/4) of area 7/2, height 2 *)
  [name |-> "hexagonal-prism", Q |-> 1,
   facets |-> Sym(<< <<1,0,0,1,1>>, <<3,4,0,5,1>>, <<3,-4,0,5,1>>, <<0,0,1,1,1>> >>),
   hverts |-> { <<2*a, b, 2*c, 2>> : a \in Signs, b \in Signs, c \in Signs } \cup
              { <<0, 5*b, 4*c, 4>> : b \in Signs, c \in Signs },
   hn |-> 7, hd |-> 1],
  (* unit cube with |3x +- 4y| <= 6: each corner of the square loses a triangle (1/3)(1/4)/2;  *)
  (* octagon (+-1,+-3/4), (+-2/3,+-1) of area 4 - 4/24 = 23/6, height 2                         *)
  [name |-> "octagonal-prism", Q |-> 5,
   facets |-> Sym(<< <<1,0,0,1,5>>, <<0,1,0,1,5>>, <<0,0,1,1,5>>, <<3,4,0,5,6>>, <<3,-4,0,5,6>> >>),
   hverts |-> { <<4*a, 3*b, 4*c, 4>> : a \in Signs, b \in Signs, c \in Signs } \cup
              { <<2*a, 3*b, 3*c, 3>> : a \in Signs, b \in Signs, c \in Signs },
   hn |-> 23, hd |-> 3],
  (* unit cube with 2|x| + 2|y| + |z| <= 9/2: every corner loses a tetrahedron with legs        *)
  (* 1/4, 1/4, 1/2: volume 8 - 8 * (1/6)(1/4)(1/4)(1/2) = 191/24, 24 vertices                    *)
  [name |-> "truncated-cube", Q |-> 2,
   facets |-> Sym(<< <<1,0,0,1,2>>, <<0,1,0,1,2>>, <<0,0,1,1,2>>,
                     <<2,2,1,3,3>>, <<2,2,-1,3,3>>, <<2,-2,1,3,3>>, <<2,-2,-1,3,3>> >>),
   hverts |-> { <<2*a, 2*b, c, 2>> : a \in Signs, b \in Signs, c \in Signs } \cup
              { <<4*a, 3*b, 4*c, 4>> : a \in Signs, b \in Signs, c \in Signs } \cup
              { <<3*a, 4*b, 4*c, 4>> : a \in Signs, b \in Signs, c \in Signs },
   hn |-> 191, hd |-> 24],
  (* 2|x| + 2|y| + |z| <= 4: legs 1/2, 1/2, 1; the cuts of two corners meet at (+-1,+-1,0),    *)
  (* where four facets meet; volume 8 - 8/24 = 23/3, 20 vertices                                 *)
  [name |-> "truncated-cube-touching", Q |-> 3,
   facets |-> Sym(<< <<1,0,0,1,3>>, <<0,1,0,1,3>>, <<0,0,1,1,3>>,
                     <<2,2,1,3,4>>, <<2,2,-1,3,4>>, <<2,-2,1,3,4>>, <<2,-2,-1,3,4>> >>),
   hverts |-> { <<a, b, 0, 1>> : a \in Signs, b \in Signs } \cup
              { <<2*a, b, 2*c, 2>> : a \in Signs, b \in Signs, c \in Signs } \cup
              { <<a, 2*b, 2*c, 2>> : a \in Signs, b \in Signs, c \in Signs },
   hn |-> 23, hd |-> 3],
  (* the cube in the orthonormal rational frame (1,2,2)/3, (2,1,-2)/3, (2,-2,1)/3 *)
  [name |-> "rotated-cube", Q |-> 1,
   facets |-> Sym(<< <<1,2,2,3,1>>, <<2,1,-2,3,1>>, <<2,-2,1,3,1>> >>),
   hverts |-> { Canon(<< a + 2*b + 2*c, 2*a + b - 2*c, 2*a - 2*b + c, 3 >>) : a \in Signs, b \in Signs, c \in Signs },
   hn |-> 8, hd |-> 1],
  (* unit cube and the planes +-(3x + 4y) <= 7, which only touch the edges x = y = +-1 *)
  [name |-> "cube-touched-on-an-edge", Q |-> 5,
   facets |-> Sym(<< <<1,0,0,1,5>>, <<0,1,0,1,5>>, <<0,0,1,1,5>>, <<3,4,0,5,7>> >>),
   hverts |-> { <<a, b, c, 1>> : a \in Signs, b \in Signs, c \in Signs },
   hn |-> 8, hd |-> 1]
>>
Scales == { <<1,1>>, <<1,2>>, <<3,2>>, <<2,1>>, <<5,4>> }

ScaledFacets(fs, sn) == [k \in DOMAIN fs |-> << fs[k][1], fs[k][2], fs[k][3], fs[k][4], fs[k][5] * sn >>]
PlanesOfShape(i, sn) == Planes(ScaledFacets(Shapes[i].facets, sn))

(* magnitude bounds of the plain-integer operators, checked on every instance of the model *)
MaxOver(S) == CHOOSE x \in S : \A y \in S : y <= x
ASSUME \A i \in DOMAIN Shapes : \A sc \in Scales :
   LET fs == ScaledFacets(Shapes[i].facets, sc[1])
       cm == MaxOver({fs[k][5] * fs[k][4] : k \in DOMAIN fs})
       vm == MaxOver({AbsI(fs[k][c]) : k \in DOMAIN fs, c \in 1..3})
       r == 2 * cm * vm
   IN /\ WellFormed(fs)
      /\ r <= 20000 /\ 2 * r * r <= 2147483647 \div (3 * cm)      \* SimplexVertex
      /\ Shapes[i].Q * sc[1] * MaxOver({AbsI(h[c]) : h \in Shapes[i].hverts, c \in 1..3}) < 100000

(* spec -> code: the instances of this model, replayed through the real code by harness/c19.py *)
ASSUME PrintT("SHAPES|" \o ToJson([shapes |-> [i \in DOMAIN Shapes |->
                                                 [name |-> Shapes[i].name, Q |-> Shapes[i].Q, facets |-> Shapes[i].facets]],
                                   scales |-> SetToSeq(Scales)]))

VARIABLES sh, sc, phase, V, simp, em, lists, ordered, tris, trilab
vars == <<sh, sc, phase, V, simp, em, lists, ordered, tris, trilab>>

(* V is the declarative answer (the half-space intersection) of the picked instance *)
pl == PlanesOfShape(sh, sc[1])
XT == CrossTab(pl)
SeqSet(s) == {s[k] : k \in DOMAIN s}
Pos(lst) == {em[lst[k]] : k \in DOMAIN lst}

Init == /\ sh = 1 /\ sc = <<1,1>> /\ phase = "idle" /\ V = {}
        /\ simp = <<>> /\ em = <<>> /\ lists = <<>> /\ ordered = <<>> /\ tris = <<>> /\ trilab = <<>>
Pick == /\ phase = "idle"
        /\ sh' \in DOMAIN Shapes /\ sc' \in Scales /\ phase' = "duals"
        /\ V' = LET p == PlanesOfShape(sh', sc'[1]) IN HalfSpaceVertices(p, CrossTab(p))
        /\ UNCHANGED <<simp, em, lists, ordered, tris, trilab>>
(* _construct_dual_space_hull: the simplices, each listed from its corner number r *)
Rot(s, r) == IF r = 0 THEN s ELSE IF r = 1 THEN << s[2], s[3], s[1] >> ELSE << s[3], s[1], s[2] >>
Hull == /\ phase = "duals"
        /\ \E r \in 0..2 : simp' = LET S == SetToSeq(HullSimplices(pl)) IN [k \in DOMAIN S |-> Rot(S[k], r)]
        /\ phase' = "hull"
        /\ UNCHANGED <<sh, sc, V, em, lists, ordered, tris, trilab>>
(* _extract_wulff_from_dual_mesh *)
Extract == /\ phase = "hull"
           /\ em' = [k \in DOMAIN simp |->
                      IF VertexFormula = "code" THEN SimplexVertex(pl, simp[k][1], simp[k][2], simp[k][3])
                      ELSE SimplexVertexWrongColumn(pl, simp[k][1], simp[k][2], simp[k][3])]
           /\ lists' = SimplexLists(pl, simp)
           /\ phase' = "extracted"
           /\ UNCHANGED <<sh, sc, V, simp, ordered, tris, trilab>>
(* ordered_facets: prune coincident points, order counter-clockwise about the first *)
Order == /\ phase = "extracted"
         /\ ordered' = [m \in DOMAIN pl |-> FanOrder(PrunedList(lists[m], em), em, pl[m].v)]
         /\ phase' = "ordered"
         /\ UNCHANGED <<sh, sc, V, simp, em, lists, tris, trilab>>
(* order_and_triangulate_polygons *)
Triangulate ==
  /\ phase = "ordered"
  /\ tris' = FlattenSeq([m \in DOMAIN pl |-> FanTriangles(ordered[m])])
  /\ trilab' = FlattenSeq([m \in DOMAIN pl |-> [k \in DOMAIN FanTriangles(ordered[m]) |-> m]])
  /\ phase' = "done"
  /\ UNCHANGED <<sh, sc, V, simp, em, lists, ordered>>
Next == Pick \/ Hull \/ Extract \/ Order \/ Triangulate
Spec == Init /\ [][Next]_vars

AfterHull == phase \in {"hull", "extracted", "ordered", "done"}
AfterExtract == phase \in {"extracted", "ordered", "done"}
AfterOrder == phase \in {"ordered", "done"}

TypeOK == /\ phase \in {"idle", "duals", "hull", "extracted", "ordered", "done"}
          /\ sh \in DOMAIN Shapes /\ sc \in Scales
          /\ phase = "duals" => (Bounded(pl, XT) /\ DistinctDirections(pl, XT) /\ Separated(V, Shapes[sh].Q * sc[2])
                                  /\ Compact(V, Shapes[sh].Q * sc[2]))

(* the code's vertex formula, from whichever corner, is Cramer's solution; and the simplices *)
(* of the dual hull are exactly the plane triples whose common point violates no inequality  *)
Sorted3(s) == LET a == MaxOver({-s[1], -s[2], -s[3]})  c == MaxOver({s[1], s[2], s[3]})
              IN << -a, s[1] + s[2] + s[3] + a - c, c >>
FeasibleTriples ==
  LET F == Len(pl)
  IN {s \in (1..F) \X (1..F) \X (1..F) :
        /\ s[1] < s[2] /\ s[2] < s[3]
        /\ LET r == TripleRaw(pl, XT, s[1], s[2], s[3]) IN r[4] # 0 /\ Inside(pl, PosDen(r))}
DualIsCramer ==
  AfterHull =>
    /\ \A k \in DOMAIN simp :
         LET s == simp[k]  o == Sorted3(s)
         IN SimplexVertex(pl, s[1], s[2], s[3]) = TripleVertex(pl, XT, o[1], o[2], o[3])
    /\ {Sorted3(simp[k]) : k \in DOMAIN simp} = FeasibleTriples
VerticesAreIntersection == AfterExtract => SeqSet(em) = V
HandVertices ==
  phase = "duals" =>
    V = { Canon(<< Shapes[sh].Q * sc[1] * h[1], Shapes[sh].Q * sc[1] * h[2], Shapes[sh].Q * sc[1] * h[3], h[4] >>)
          : h \in Shapes[sh].hverts }
FacetListsExact == AfterExtract => \A m \in DOMAIN pl : Pos(lists[m]) = FacetVerts(pl, V, m)
FanIsCCW ==
  AfterOrder => \A m \in DOMAIN pl :
     /\ Pos(ordered[m]) = FacetVerts(pl, V, m)
     /\ Len(ordered[m]) = Cardinality(FacetVerts(pl, V, m))
     /\ IsCCWFan(ordered[m], em, pl[m].v)
MeshClosedOutward == phase = "done" => ClosedOutward(pl, em, tris, trilab) /\ UsedPositions(em, tris) = V
EdgesAreMeshEdges == phase = "done" => Creases(em, tris, trilab, Rep(em)) = Edges(pl, V)

(* 6 * VolS * volume in units (1/(Q sd))^3, by hand: 6 VolS Q^3 sn^3 hn/hd *)
HandVol6S == BMulInt(BMulInt(BMulInt(BI(6 * VolS), Shapes[sh].Q * Shapes[sh].Q * Shapes[sh].Q),
                             sc[1] * sc[1] * sc[1]), Shapes[sh].hn)
EncIsHand(e) == BLe(BMulInt(e.lo, Shapes[sh].hd), HandVol6S) /\ BLe(HandVol6S, BMulInt(EncHi(e), Shapes[sh].hd))
VolumeByHand ==
  /\ phase = "duals" => EncIsHand(Vol6S(pl, V))
  /\ phase = "done" => EncIsHand(MeshVol6S(pl, em, tris, trilab))

(* e -> s e moves every vertex to s x (here: y' = sn y) and multiplies the volume by s^3 *)
ScalingLaw ==
  phase = "duals" =>
    LET p1 == PlanesOfShape(sh, 1)
        V1 == HalfSpaceVertices(p1, CrossTab(p1))
        e1 == Vol6S(p1, V1)
        es == Vol6S(pl, V)
        k3 == sc[1] * sc[1] * sc[1]
    IN /\ V = { ScaleH(h, sc[1]) : h \in V1 }
       /\ BLe(BMulInt(e1.lo, k3), EncHi(es)) /\ BLe(es.lo, BMulInt(EncHi(e1), k3))
       /\ (e1.ex /\ es.ex) => BEq(es.lo, BMulInt(e1.lo, k3))
=============================================================================
