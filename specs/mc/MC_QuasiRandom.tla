--------------------------- MODULE MC_QuasiRandom ---------------------------
(***************************************************************************)
(* The Sobol generator of QuasiRandom run by TLC on the direction-number   *)
(* table exported from the tree (sampling/_sobol_parameters.npz ->         *)
(* $SOBOL_FILE; data-driven: a violated invariant is a property            *)
(* violation).                                                             *)
(*                                                                         *)
(* One behaviour per walk.  A walk is a list of coordinates generated side *)
(* by side: <<d>> for every dimension d under test, and <<1, 2>> for the   *)
(* net property of the first two coordinates.  The behaviour resets the    *)
(* generator and takes 2^MaxM - 1 Step actions, keeping the history H of   *)
(* the points produced; whenever the number of points is a power of two    *)
(* 2^m the invariants demand Stratified(m) of every coordinate and Net2(m) *)
(* of a pair.  ClosedForm ties the step-by-step generator to the closed    *)
(* form used by the trace spec to enter the sequence at an arbitrary seed. *)
(***************************************************************************)
EXTENDS QuasiRandom, Json, IOUtils

CONSTANTS MaxM, NBlocks

Tab == JsonDeserialize(IOEnv.SOBOL_FILE)
Rows == Tab.rows               \* <<[d, a, m]>>: rows of the table, dimension d (d = 1: m = <<>>)
Walks == Tab.walks             \* <<<<k1>>, <<k2>>, ..., <<k1, k2>>>>: indices into Rows
VTab == [k \in 1..Len(Rows) |-> VSeq(Rows[k])]
VOf(w) == [c \in 1..Len(Walks[w]) |-> VTab[Walks[w][c]]]

ASSUME MaxM \in 1..Bits /\ Bits <= 20

VARIABLES blk, walk, H
vars == <<blk, walk, n, X, H>>

Init == blk = 0 /\ walk = 0 /\ n = 0 /\ X = <<>> /\ H = <<>>

PickBlock == blk = 0 /\ blk' \in 1..NBlocks /\ UNCHANGED <<walk, n, X, H>>
PickWalk == /\ blk > 0 /\ walk = 0
            /\ walk' \in {w \in 1..Len(Walks) : w % NBlocks = blk - 1}
            /\ Reset(VOf(walk'))
            /\ H' = [c \in 1..Len(Walks[walk']) |-> <<0>>]
            /\ UNCHANGED blk
StepWalk == /\ walk > 0 /\ n + 1 < Pow2(MaxM)
            /\ Step(VOf(walk))
            /\ H' = [c \in DOMAIN H |-> Append(H[c], X'[c])]
            /\ UNCHANGED <<blk, walk>>
Next == PickBlock \/ PickWalk \/ StepWalk
Spec == Init /\ [][Next]_vars

RECURSIVE Log2(_)
Log2(k) == IF k <= 1 THEN 0 ELSE 1 + Log2(k \div 2)
IsPow2(k) == k = Pow2(Log2(k))
Points == n + 1                                     \* points produced so far: numbers 0..n

(* --- invariants ----------------------------------------------------------- *)
TableWellFormed == (walk > 0 /\ n = 0) => \A c \in DOMAIN Walks[walk] : RowWellFormed(Rows[Walks[walk][c]])
HistoryIsSequence == walk > 0 => \A c \in DOMAIN H : Len(H[c]) = Points /\ H[c][Points] = X[c]
UnitCube == walk > 0 => \A c \in DOMAIN X : InUnit(X[c])
ClosedForm == walk > 0 => X = SeekX(VOf(walk), n)
StratifiedAll == (walk > 0 /\ IsPow2(Points)) => \A c \in DOMAIN H : Stratified(H[c], Log2(Points))
NetFirstTwo == (walk > 0 /\ Len(Walks[walk]) = 2 /\ IsPow2(Points)) => Net2(H[1], H[2], Log2(Points))
=============================================================================
