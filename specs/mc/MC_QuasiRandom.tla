--------------------------- MODULE MC_QuasiRandom ---------------------------
(***************************************************************************)
(* The Sobol generator of QuasiRandom run by TLC on the direction-number   *)
(* table exported from the tree (sampling/_sobol_parameters.npz ->         *)
(* $SOBOL_FILE; data-driven: a violated invariant is a property            *)
(* violation).                                                             *)
(*                                                                         *)
(* One behaviour per walk.  A walk is a list of coordinates generated side *)
(* by side: <<d>> for every dimension d under test, and <<1, 2>> for the   *)
(* net property of the first two coordinates.  The behaviour resets the    *)
(* generator and takes 2^MaxM - 1 Step actions, keeping the history H of   *)
(* the points produced; whenever the number of points is a power of two    *)
(* 2^m the invariants demand Stratified(m) of every coordinate and Net2(m) *)
(* of a pair.  ClosedForm ties the step-by-step generator to the closed    *)
(* form used by the trace spec to enter the sequence at an arbitrary seed. *)
(*                                                                         *)
(* SessionSpec (spec -> code): every sequence of SessionLen calls over a   *)
(* small alphabet of API calls (all routes, both methods, seeds 1..3,      *)
(* dimensions 1..2) executed by the specification itself -- a call is a    *)
(* Seek followed by Steps -- and entered in the observation register.      *)
(* Each complete sequence is printed ("S|<json>") and replayed through the *)
(* real API by the harness.                                                *)
(***************************************************************************)
EXTENDS QuasiRandom, Json, IOUtils

CONSTANTS MaxM, NBlocks, SessionLen

Tab == JsonDeserialize(IOEnv.SOBOL_FILE)
Rows == Tab.rows               \* <<[d, a, m]>>: rows of the table, dimension d (d = 1: m = <<>>)
Walks == Tab.walks             \* <<<<k1>>, <<k2>>, ..., <<k1, k2>>>>: indices into Rows
VTab == [k \in 1..Len(Rows) |-> VSeq(Rows[k])]
VOf(w) == [c \in 1..Len(Walks[w]) |-> VTab[Walks[w][c]]]

ASSUME MaxM \in 1..Bits /\ Bits <= 20

VARIABLES blk, walk, H, sess, memo
vars == <<blk, walk, n, X, H, sess, memo>>

Init == blk = 0 /\ walk = 0 /\ n = 0 /\ X = <<>> /\ H = <<>> /\ sess = <<>> /\ memo = <<>>

PickBlock == blk = 0 /\ blk' \in 1..NBlocks /\ UNCHANGED <<walk, n, X, H, sess, memo>>
PickWalk == /\ blk > 0 /\ walk = 0
            /\ walk' \in {w \in 1..Len(Walks) : w % NBlocks = blk - 1}
            /\ Reset(VOf(walk'))
            /\ H' = [c \in 1..Len(Walks[walk']) |-> <<0>>]
            /\ UNCHANGED <<blk, sess, memo>>
StepWalk == /\ walk > 0 /\ n + 1 < Pow2(MaxM)
            /\ Step(VOf(walk))
            /\ H' = [c \in DOMAIN H |-> Append(H[c], X'[c])]
            /\ UNCHANGED <<blk, walk, sess, memo>>
Next == PickBlock \/ PickWalk \/ StepWalk
Spec == Init /\ [][Next]_vars

RECURSIVE Log2(_)
Log2(k) == IF k <= 1 THEN 0 ELSE 1 + Log2(k \div 2)
IsPow2(k) == k = Pow2(Log2(k))
Points == n + 1                                     \* points produced so far: numbers 0..n

(* --- invariants ----------------------------------------------------------- *)
TableWellFormed == (walk > 0 /\ n = 0) => \A c \in DOMAIN Walks[walk] : RowWellFormed(Rows[Walks[walk][c]])
(* every row of the exported table (all 1000 dimensions, also in the quick tier where only some are walked): initial
   direction numbers odd and below 2^i, polynomial code in range, dimensions numbered consecutively *)
WholeTableWellFormed == (blk = 0 /\ walk = 0) =>
   \A r \in DOMAIN Tab.allrows : RowWellFormed(Tab.allrows[r]) /\ Tab.allrows[r].d = r
HistoryIsSequence == walk > 0 => \A c \in DOMAIN H : Len(H[c]) = Points /\ H[c][Points] = X[c]
UnitCube == walk > 0 => \A c \in DOMAIN X : InUnit(X[c])
ClosedForm == walk > 0 => X = SeekX(VOf(walk), n)
StratifiedAll == (walk > 0 /\ IsPow2(Points)) => \A c \in DOMAIN H : Stratified(H[c], Log2(Points))
NetFirstTwo == (walk > 0 /\ Len(Walks[walk]) = 2 /\ IsPow2(Points)) => Net2(H[1], H[2], Log2(Points))

(* ---- SessionSpec ---------------------------------------------------------- *)
Methods == {"sobol", "kgf"}
SSeeds == 1..3
SDims == 1..2
Alphabet ==
  [route : {"single"}, method : Methods, a : SSeeds, b : SDims, c : {0}]
  \cup {r \in [route : {"batch"}, method : Methods, a : SSeeds, b : SSeeds, c : SDims] : r.a <= r.b}
  \cup [route : {"front"}, method : Methods, a : 1..2, b : 0..2, c : SSeeds]

(* the call the front end's documentation promises *)
Dispatch(c) == IF c.route # "front" THEN c
               ELSE IF c.b = 0 THEN [route |-> "single", method |-> c.method, a |-> c.c, b |-> c.a, c |-> 0]
               ELSE [route |-> "batch", method |-> c.method, a |-> c.c, b |-> c.c + c.a - 1, c |-> c.b]
Keys(c) == {KeyOf(c, r) : r \in 1..NumPoints(c)}

FirstTwoV(D) == [k \in 1..D |-> VTab[Walks[Len(Walks)][k]]]     \* the last walk is <<1, 2>>
RECURSIVE WalkRows(_, _, _, _)
WalkRows(V, i, Y, k) == IF k = 0 THEN <<>> ELSE <<Y>> \o WalkRows(V, i + 1, StepX(V, i, Y), k - 1)
(* what the specification returns for a call; Korobov points are uninterpreted *)
SpecRows(c) ==
  IF c.method = "sobol"
  THEN LET V == FirstTwoV(DimOf(c))
           i0 == IndexOfSeed(FirstSeed(c))
       IN WalkRows(V, i0, SeekX(V, i0), NumPoints(c))
  ELSE [r \in 1..NumPoints(c) |-> <<"kgf", FirstSeed(c) + r - 1, DimOf(c)>>]
RECURSIVE RememberAll(_, _, _, _)
RememberAll(mm, c, rows, r) == IF r > Len(rows) THEN mm
                               ELSE RememberAll(Remember(mm, KeyOf(c, r), rows[r]), c, rows, r + 1)
Compact(c) == <<c.route, c.method, c.a, c.b, c.c>>

AddCall == /\ Len(sess) < SessionLen
           /\ \E c \in Alphabet :
                /\ sess' = Append(sess, c)
                /\ memo' = RememberAll(memo, c, SpecRows(c), 1)
                /\ (Len(sess') = SessionLen) => PrintT("S|" \o ToJson([k \in DOMAIN sess' |-> Compact(sess'[k])]))
           /\ UNCHANGED <<blk, walk, n, X, H>>
SessionSpec == Init /\ [][AddCall]_vars

SessionRegisterConsistent ==
  \A k \in DOMAIN sess : LET rows == SpecRows(sess[k])
                         IN \A r \in DOMAIN rows : memo[KeyOf(sess[k], r)] = rows[r]
SessionFrontIsDispatch ==
  \A k \in DOMAIN sess : /\ Keys(sess[k]) = Keys(Dispatch(sess[k]))
                         /\ OneDimensional(sess[k]) = OneDimensional(Dispatch(sess[k]))
                         /\ SpecRows(sess[k]) = SpecRows(Dispatch(sess[k]))
=============================================================================
