---------------------------- MODULE MC_SpaceGroup ----------------------------
(***************************************************************************)
(* Bounded-exhaustive model of the space-group table exported from the     *)
(* tree (crystal/sgdata.json -> $SG_FILE) and of the reduce / expand list  *)
(* algorithms run step by step on every tabulated setting.                 *)
(*                                                                         *)
(* Behaviour: pick a row; check the group axioms of its operation set;     *)
(* run reduced_symmetry_list one loop iteration per step; expand; compare. *)
(* LattRule = "origin" is the specification, "asbuilt" the deviation found *)
(* at the pinned commit (33 counterexamples).                              *)
(***************************************************************************)
EXTENDS Settings, TLC, Json, IOUtils

CONSTANTS LattRule, NBlocks

SG == JsonDeserialize(IOEnv.SG_FILE).rows
Rows == 1..Len(SG)

VARIABLES blk, row, phase, todo, red, full
vars == <<blk, row, phase, todo, red, full>>

Latt(i) == IF LattRule = "origin" THEN LattOrigin(SG[i].centering, CodeSet(SG[i].ops))
           ELSE LattAsBuilt(SG[i].centering, SG[i].centro)

Init == blk = 0 /\ row = 0 /\ phase = "idle" /\ todo = <<>> /\ red = <<>> /\ full = <<>>

PickBlock == blk = 0 /\ blk' \in 1..NBlocks /\ UNCHANGED <<row, phase, todo, red, full>>
PickRow == /\ blk > 0 /\ row = 0
           /\ row' \in {i \in Rows : i % NBlocks = blk - 1}
           /\ phase' = "axioms" /\ UNCHANGED <<blk, todo, red, full>>
StartReduce == /\ phase = "axioms"
               /\ todo' = SG[row].ops /\ red' = <<IdentityCode>> /\ phase' = "reduce"
               /\ UNCHANGED <<blk, row, full>>
ReduceIter == /\ phase = "reduce" /\ todo # <<>>
              /\ red' = ReduceStep(red, Head(todo), Latt(row)) /\ todo' = Tail(todo)
              /\ UNCHANGED <<blk, row, phase, full>>
DoExpand == /\ phase = "reduce" /\ todo = <<>>
            /\ full' = Expand(red, Latt(row)) /\ phase' = "done"
            /\ UNCHANGED <<blk, row, todo, red>>
Next == PickBlock \/ PickRow \/ StartReduce \/ ReduceIter \/ DoExpand
Spec == Init /\ [][Next]_vars

S(i) == CodeSet(SG[i].ops)
(* --- invariants: one line each in the cfg ------------------------------- *)
TableNoDup == phase = "axioms" => NoDup(SG[row].ops)
TableIdentity == phase = "axioms" => HasIdentity(S(row))
TableClosed == phase = "axioms" => Closed(S(row))
TableInverses == phase = "axioms" => HasInverses(S(row))
TableUnimodular == phase = "axioms" => Unimodular(S(row))
TableCentroFlag == phase = "axioms" => (SG[row].centro = Centro(S(row)))
(* rows with the same operation set have the same number (lookup by ops is well defined) *)
TableLookupUnique == phase = "axioms" => \A j \in Rows : S(j) = S(row) => SG[j].number = SG[row].number
(* the centring vectors of the declared lattice type are operations of the group *)
TableCentering == phase = "axioms" =>
   LET T == CenteringVecs(LattNumber(SG[row].centering))
   IN \A k \in DOMAIN T : ShiftCode(IdentityCode, T[k]) \in S(row)
(* the setting label of the row means what International Tables say it means, relative to the other rows of its number *)
TableSettings == phase = "axioms" => (PermChecks /\ SettingOK(SG, row))
ReduceShrinks == phase = "reduce" => (Len(red) <= Len(SG[row].ops) /\ red[1] = IdentityCode /\ NoDup(red))
RoundTrip == phase = "done" => (CodeSet(full) = S(row) /\ Len(full) = Len(SG[row].ops))
=============================================================================
