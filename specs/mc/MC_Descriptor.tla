----------------------------- MODULE MC_Descriptor -----------------------------
(***************************************************************************)
(* Design-level model of the pose group used for C09 and generator of pose *)
(* words (spec -> code).  States: words over the alphabet up to length     *)
(* Depth applied to a small integer configuration.  Invariants: every      *)
(* action is rigid (all pairwise squared distances, inner and outer,       *)
(* preserved), permutations keep the multiset, the quaternion matrices are *)
(* 9 x orthogonal with determinant 9^3, there are 24 cube rotations and    *)
(* they are closed under composition, the tolerance table is non-increasing*)
(* in l_max.  With Emit = TRUE each word is printed as  W|<json-ish text>. *)
(***************************************************************************)
EXTENDS Descriptor, TLC

CONSTANTS Depth, Emit
Base == [inner |-> << [z |-> 8, p |-> <<0, 0, 81>>], [z |-> 1, p |-> <<0, 729, -405>>], [z |-> 1, p |-> <<81, -729, -405>>] >>,
         outer |-> << [z |-> 6, p |-> <<2430, 0, 162>>], [z |-> 7, p |-> <<-81, 2511, 0>>] >>]
CubeSample == {m \in SignedPerms : m[1][1] # 1}       \* the non-trivial ones are all used; identity-like dropped
CubeGens == { << <<0,-1,0>>, <<1,0,0>>, <<0,0,1>> >>, << <<1,0,0>>, <<0,0,-1>>, <<0,1,0>> >>, << <<0,0,1>>, <<1,0,0>>, <<0,1,0>> >> }
Alphabet == {<<"T", k>> : k \in DOMAIN Trans} \cup {<<"C", m>> : m \in CubeGens} \cup {<<"Q", k>> : k \in DOMAIN R9}
            \cup {<<"P", 1>>, <<"P", 2>>, <<"E", 1>>}

VARIABLES word, cfg
Init == word = <<>> /\ cfg = Base
Next == /\ Len(word) < Depth
        /\ \E a \in Alphabet : ActOK(cfg, a) /\ word' = Append(word, a) /\ cfg' = Act(cfg, a)
Spec == Init /\ [][Next]_<<word, cfg>>

ActText(a) == IF a[1] = "C"
              THEN "C:" \o ToString(a[2][1][1]) \o "," \o ToString(a[2][1][2]) \o "," \o ToString(a[2][1][3]) \o ","
                        \o ToString(a[2][2][1]) \o "," \o ToString(a[2][2][2]) \o "," \o ToString(a[2][2][3]) \o ","
                        \o ToString(a[2][3][1]) \o "," \o ToString(a[2][3][2]) \o "," \o ToString(a[2][3][3])
              ELSE a[1] \o ":" \o ToString(a[2])
RECURSIVE WordText(_)
WordText(w) == IF w = <<>> THEN "" ELSE ActText(w[1]) \o (IF Len(w) > 1 THEN ";" ELSE "") \o WordText(Tail(w))
EmitWord == (Emit /\ word # <<>>) => PrintT("W|" \o WordText(word))

PairD2(atoms) == [i \in DOMAIN atoms |-> [j \in DOMAIN atoms |-> D2(atoms[i].p, atoms[j].p)]]
SortedD2(atoms) == {<<atoms[i].z, atoms[j].z, D2(atoms[i].p, atoms[j].p)>> : i \in DOMAIN atoms, j \in DOMAIN atoms}
Rigid == /\ SortedD2(cfg.inner \o cfg.outer) = SortedD2(Base.inner \o Base.outer)
         /\ {cfg.inner[i].z : i \in DOMAIN cfg.inner} = {Base.inner[i].z : i \in DOMAIN Base.inner}
         /\ Len(cfg.inner) = Len(Base.inner) /\ Len(cfg.outer) = Len(Base.outer)
ReplayAgrees == cfg = ApplyWord(Base, word) /\ WordOK(Base, word)
GroupFacts == word = <<>> =>
  /\ Cardinality(SignedPerms) = 24
  /\ \A a \in SignedPerms : \A b \in SignedPerms : MatMul(a, b) \in SignedPerms
  /\ \A k \in DOMAIN R9 : MatMul(R9[k], Transp(R9[k])) = Ident(81) /\ Det3(R9[k]) = 729
  /\ \A l \in 1..30 : TolRot(l + 1) <= TolRot(l) /\ TolExact < TolRot(l)
=============================================================================
