------------------------------ MODULE MC_Symop ------------------------------
(***************************************************************************)
(* Design-level exhaustive model of Symop: the packing is a bijection      *)
(* (all 3^9 rotation digits strings, all 12^3 translation digit strings;   *)
(* Enc/Dec factorise over the two), the text form is injective per row,    *)
(* composition respects equality modulo the lattice, InverseOp is the      *)
(* group inverse for every unimodular rotation over {-1,0,1}, Inverted is  *)
(* an involution, and the grid action is a homomorphism.                   *)
(***************************************************************************)
EXTENDS Symop, TLC

CONSTANTS NBlocks, Full
VARIABLES blk, kind, x
vars == <<blk, kind, x>>

TSample == {0, 3, 4, 6, 11}                      \* twelfths used for translation samples
TVecs == IF Full THEN {<<a, b, c>> : a \in TSample, b \in {0, 6}, c \in {0, 8}} ELSE {<<0, 0, 0>>, <<3, 6, 8>>, <<11, 0, 4>>, <<6, 6, 0>>}
Lattice == {<<-12, 0, 0>>, <<24, 12, -36>>, <<0, 12, 0>>}
IsSignedPerm(r) == /\ \A i \in Idx : Cardinality({j \in Idx : r[i][j] # 0}) = 1
                   /\ \A j \in Idx : Cardinality({i \in Idx : r[i][j] # 0}) = 1
SignedPerms == {rc \in 0..(NRot-1) : IsSignedPerm(RotOf(rc))}        \* the 48 operations of m-3m
HexGens == {RotCode(<<<<0,-1,0>>,<<1,-1,0>>,<<0,0,1>>>>), RotCode(<<<<1,-1,0>>,<<1,0,0>>,<<0,0,1>>>>),
            RotCode(<<<<0,1,0>>,<<1,0,0>>,<<0,0,-1>>>>)}
Partners == SignedPerms \cup HexGens
SmallPartners == HexGens \cup {RotCode(<<<<0,0,1>>,<<1,0,0>>,<<0,1,0>>>>), RotCode(<<<<-1,0,0>>,<<0,-1,0>>,<<0,0,-1>>>>),
                              RotCode(<<<<0,1,0>>,<<-1,0,0>>,<<0,0,1>>>>)}
Op(rc, tv) == [r |-> RotOf(rc), t |-> tv]
IdOp == [r |-> IdMat, t |-> <<0,0,0>>]
Points == {<<1, 5, 7>>, <<0, 0, 0>>, <<11, 6, 3>>, <<-13, 2, 25>>}

Init == blk = 0 /\ kind = "idle" /\ x = 0
PickBlock == blk = 0 /\ blk' \in 1..NBlocks /\ UNCHANGED <<kind, x>>
PickRot == blk > 0 /\ kind = "idle" /\ kind' = "rot" /\ x' \in {c \in 0..(NRot-1) : c % NBlocks = blk - 1} /\ UNCHANGED blk
PickTr == blk > 0 /\ kind = "idle" /\ kind' = "tr" /\ x' \in {c \in 0..1727 : c % NBlocks = blk - 1} /\ UNCHANGED blk
PickRowText == blk = 1 /\ kind = "idle" /\ kind' = "rowtext" /\ x' = 0 /\ UNCHANGED blk
Next == PickBlock \/ PickRot \/ PickTr \/ PickRowText
Spec == Init /\ [][Next]_vars

PackRot == kind = "rot" => (RotCode(RotOf(x)) = x /\ Encodable(Dec(x)) /\ Enc(Dec(x)) = x)
PackTr == kind = "tr" => (TrCode(TrOf(x * NRot)) = x /\ Enc(Dec(x * NRot + IdentityCode)) = x * NRot + IdentityCode
                           /\ \A i \in Idx : TrOf(x * NRot)[i] \in 0..11)
Rows == {<<a, b, c>> : a \in -1..1, b \in -1..1, c \in -1..1}
RowTextOf(row, k) == RowText([r |-> <<row, row, row>>, t |-> <<k, k, k>>], 1)
RowTextInjective == kind = "rowtext" =>
   \A r1 \in Rows : \A k1 \in 0..11 : \A r2 \in Rows : \A k2 \in 0..11 :
       RowTextOf(r1, k1) = RowTextOf(r2, k2) => (r1 = r2 /\ k1 = k2)
FullPairs == (kind = "rot" /\ x \in SignedPerms) =>
   \A pc \in Partners : \A u \in Lattice :
      LET a == Op(x, <<0, 6, 4>>)  b == Op(pc, <<3, 0, 8>>)
          au == [r |-> a.r, t |-> [i \in Idx |-> a.t[i] + u[i]]]
      IN Compose(au, b) = Compose(a, b) /\ Encodable(Compose(a, b)) /\ Dec(Enc(Compose(a, b))) = Compose(a, b)
Unimod(rc) == Det(RotOf(rc)) \in {-1, 1}
InverseIsInverse == (kind = "rot" /\ Unimod(x)) =>
   \A tv \in TVecs : LET a == Op(x, tv) IN Equal(Compose(a, InverseOp(a)), IdOp) /\ Equal(Compose(InverseOp(a), a), IdOp)
InvertedInvolution == kind = "rot" => \A tv \in TVecs : Inverted(Inverted(Op(x, tv))) = Norm(Op(x, tv))
ComposeCongruence == (kind = "rot" /\ Unimod(x)) =>
   \A pc \in (IF Full THEN SmallPartners ELSE HexGens) : \A tv \in {<<6,4,3>>} : \A u \in (IF Full THEN Lattice ELSE {<<24, 12, -36>>}) :
      LET a == Op(x, tv)  b == Op(pc, <<3, 0, 8>>)
          au == [r |-> a.r, t |-> [i \in Idx |-> a.t[i] + u[i]]]
          bu == [r |-> b.r, t |-> [i \in Idx |-> b.t[i] - u[i]]]
      IN Equal(au, a) /\ Compose(au, bu) = Compose(a, b) /\ Compose(bu, au) = Compose(b, a)
ApplyHomomorphism == (kind = "rot" /\ Unimod(x)) =>
   \A pc \in HexGens \cup {IdentityCode % NRot} : \A p \in Points :
      LET a == Op(x, <<6, 4, 3>>)  b == Op(pc, <<3, 0, 8>>)
      IN ApplyGrid(Compose(a, b), p, 24) = ApplyGrid(a, ApplyGrid(b, p, 24), 24)
=============================================================================
