----------------------------- MODULE MC_Lattice -----------------------------
(***************************************************************************)
(* Bounded exhaustive model of the unit-cell algebra: every integer        *)
(* lattice L with entries in -N..N.  Behaviour: pick the first row, pick  *)
(* the other two rows, then (det L > 0) construct the cell through each    *)
(* route as an action: FromVectors keeps L, FromParams sees only the       *)
(* squared lengths and signed cos^2, a named constructor only the unique   *)
(* parameters of its crystal family.  Invariants: the polynomial           *)
(* identities every closed form of unit_cell.py rests on, and that all     *)
(* routes reproduce the metric.  -BigN..BigN bounds the sub-range on      *)
(* which the BigInt/Rat operators used for trace validation are compared   *)
(* with plain integer arithmetic.                                          *)
(***************************************************************************)
EXTENDS Lattice, TLC

CONSTANTS N, BigN, Canon, Emit

Rows == ((-N)..N) \X ((-N)..N) \X ((-N)..N)
(* Canon: first row 0 <= x <= y <= z.  Column permutations and column sign flips  *)
(* of L leave G = L L^T unchanged and map adj(L) covariantly, so every Gram      *)
(* matrix of the full range is still visited.                                    *)
FirstRows == IF Canon THEN {r \in Rows : 0 <= r[1] /\ r[1] <= r[2] /\ r[2] <= r[3]} ELSE Rows
NoCell == [route |-> "none", gram |-> M3Id]

(* G, Dt, AL, AG, DG are history variables holding Gram(L), det(L), adj(L), adj(G)  *)
(* and det(G) of the chosen lattice (recomputing them inside every invariant costs *)
(* TLC a factor of ten); invariant History ties them to their definitions.         *)
VARIABLES phase, L, G, Dt, AL, AG, DG, cell
vars == <<phase, L, G, Dt, AL, AG, DG, cell>>

Init == phase = "row" /\ L = <<>> /\ G = M3Id /\ Dt = 1 /\ AL = M3Id /\ AG = M3Id /\ DG = 1 /\ cell = NoCell
PickFirst == phase = "row" /\ \E r \in FirstRows : L' = <<r>> /\ phase' = "rest" /\ UNCHANGED <<G, Dt, AL, AG, DG, cell>>
PickRest == /\ phase = "rest"
            /\ \E r2 \in Rows : \E r3 \in Rows : L' = <<L[1], r2, r3>>
            /\ G' = Gram(L') /\ Dt' = M3Det(L') /\ AL' = M3Adj(L') /\ AG' = M3Adj(G') /\ DG' = M3Det(G')
            /\ phase' = "lattice" /\ UNCHANGED cell
(* spec -> code: with Emit the lattices of the -BigN..BigN sub-range are printed; the       *)
(* harness drives every printed lattice through the real UnitCell constructors.            *)
EmitLattice == IF Emit /\ \A i \in Ix : \A j \in Ix : L[i][j] \in (-BigN)..BigN
               THEN PrintT("G|" \o ToString(L)) ELSE TRUE
FromVectors == /\ phase = "lattice" /\ Dt > 0
               /\ cell' = [route |-> "vectors", gram |-> Gram(L)] /\ phase' = "cell" /\ UNCHANGED <<L, G, Dt, AL, AG, DG>>
               /\ EmitLattice
FromParams == /\ phase = "lattice" /\ Dt > 0
              /\ cell' = [route |-> "params", gram |-> GramFromParams2(Params2(G))]
              /\ phase' = "cell" /\ UNCHANGED <<L, G, Dt, AL, AG, DG>>
Named(fam) == /\ phase = "lattice" /\ Dt > 0 /\ InFamily(fam, G)
              /\ cell' = [route |-> fam, gram |-> FamilyGram(fam, G)]
              /\ phase' = "cell" /\ UNCHANGED <<L, G, Dt, AL, AG, DG>>
Next == PickFirst \/ PickRest \/ FromVectors \/ FromParams \/ \E fam \in Families : Named(fam)
Spec == Init /\ [][Next]_vars

Have == phase = "lattice"          \* the algebraic invariants are evaluated once per lattice
History == phase \in {"lattice", "cell"} => /\ G = Gram(L) /\ Dt = M3Det(L)
                                             /\ (phase = "lattice" => AL = M3Adj(L) /\ AG = M3Adj(G) /\ DG = M3Det(G))
(* --- invariants ------------------------------------------------------------ *)
AdjugateInverse == Have => /\ M3Mul(AL, L) = M3Scale(Dt, M3Id)
                           /\ M3Mul(L, AL) = M3Scale(Dt, M3Id)
GramDeterminant == Have => Symmetric(G) /\ DG = Dt * Dt /\ ((Dt # 0) = PosDef(G))
GramAdjugate == Have => /\ M3Mul(AG, G) = M3Scale(DG, M3Id)
                        /\ AG = M3Mul(M3T(AL), AL)       \* reciprocal metric = metric of the rows of adj(L)^T
VolumeFormula == Have => VolumeClosedForm(G) = DG
StarFormulas == Have => StarFormulasAgreeA(G, AG)
Cholesky == Have => CholeskyIdentitiesA(G, AG, DG)
Hadamard == (Have /\ Dt # 0) => CondNum(G) >= CondDen(G)
RoutesAgree == phase = "cell" => cell.gram = G
(* BigInt / Rat operators agree with plain integers *)
P20 == BPow2(20)
InBig == \A i \in Ix : \A j \in Ix : L[i][j] \in (-BigN)..BigN
BigAgrees ==
  (phase = "lattice" /\ InBig) =>
     LET BL == B3FromInt(L)
         BG == B3Mul(BL, B3T(BL))
     IN /\ B3Eq(BG, B3FromInt(G))
        /\ BEq(B3Det(BL), BFromInt(Dt))
        /\ B3Eq(B3Adj(BG), B3FromInt(M3Adj(G)))
        /\ BEq(B3Det(BG), BMul(BFromInt(Dt), BFromInt(Dt)))
        /\ (Dt # 0 => \A i \in Ix : \A j \in Ix :
               /\ REq(RMul(RQ(M3Adj(G)[i][j], M3Det(G)), RInt(M3Det(G))), RInt(M3Adj(G)[i][j]))
               /\ CloseTo(BMulInt(P20, G[i][j]), P20, RInt(G[i][j]), RZero)
               /\ ~CloseTo(BAdd(BMulInt(P20, G[i][j]), BFromInt(3)), P20, RInt(G[i][j]), RQ(1, 1000000)))
=============================================================================
