---------------------------- MODULE MC_Invariants ----------------------------
(***************************************************************************)
(* Bounded-exhaustive model of module Invariants.                          *)
(*                                                                         *)
(* ph = "rot":  every complex-layout vector with <= 2 non-zero channels    *)
(*      (values {-2..2}^2 x 5) and every Hermitian vector with one         *)
(*      independent channel, l_max <= LMaxVec; from it every word in       *)
(*      RotZ4 / FlipY (the orbit closes after <= 8 states).  N2 of every   *)
(*      degree is constant on the orbit, Hermitian symmetry is kept, the   *)
(*      dihedral relations R^4 = F^2 = (F R)^2 = 1 hold.                   *)
(* ph = "pert": a vector and the same vector with one degree changed: N2   *)
(*      of the other degrees is unchanged.                                 *)
(* ph = "tri":  l_max 0..26: the triple loop of p_invariants_c yields the  *)
(*      declarative selection set in strictly increasing order.            *)
(* ph = "q":    the BigInt norms of the embedded vector equal the integer  *)
(*      ones (binding of the quantised operators used for rotations).      *)
(* UseAsBuilt = TRUE replaces N2 by the slice found in the code: TLC then  *)
(* reports NInvariant / PerturbLocal violated (./check C08 --explain).     *)
(***************************************************************************)
EXTENDS Invariants, TLC

CONSTANTS LMaxVec, NBlocks, UseAsBuilt

VARIABLES blk, ph, c0, c, aux
vars == <<blk, ph, c0, c, aux>>

GV == (-2..2) \X (-2..2)
GU == {<<0, 0>>, <<1, 0>>, <<0, 1>>, <<-2, 1>>, <<1, -1>>}
UnitC(l0, i, v) == [j \in 1..NLM(l0) |-> IF j = i THEN v ELSE GZero]
RealVal(l0, i, v) == IF i <= l0 + 1 THEN <<v[1], 0>> ELSE v
UnitR(l0, i, v) == [j \in 1..NPLM(l0) |-> IF j = i THEN RealVal(l0, i, v) ELSE GZero]
Mine(x) == x % NBlocks = blk - 1
NOp(x, l) == IF UseAsBuilt THEN N2AsBuilt(x, l) ELSE N2(x, l)
Pow4(x) == RotZ4(RotZ4(RotZ4(RotZ4(x))))

Init == blk = 0 /\ ph = "idle" /\ c0 = <<>> /\ c = <<>> /\ aux = 0
PickBlock == blk = 0 /\ blk' \in 1..NBlocks /\ UNCHANGED <<ph, c0, c, aux>>
PickRot == /\ blk > 0 /\ ph = "idle" /\ ph' = "rot" /\ aux' = 0
           /\ \/ \E l0 \in 1..LMaxVec : \E i, j \in 1..NLM(l0) : \E v \in GV : \E u \in GU :
                    /\ i < j \/ (i = j /\ u = GZero)
                    /\ Mine(7 * i + 13 * j + 3 * v[1] + 5 * u[2])
                    /\ c0' = SubSeq(Add(UnitC(l0, i, v), UnitC(l0, j, u)), 1, NLM(l0))
              \/ \E l0 \in 1..LMaxVec : \E i \in 1..NPLM(l0) : \E v \in GV :
                    /\ Mine(11 * i + 3 * v[1] + 5 * v[2])
                    /\ c0' = Complete(l0, UnitR(l0, i, v))
           /\ c' = c0' /\ UNCHANGED blk
StepRot == /\ ph = "rot"
           /\ c' \in {RotZ4(c), FlipY(c)}
           /\ UNCHANGED <<blk, ph, c0, aux>>
PickPert == /\ blk > 0 /\ ph = "idle" /\ ph' = "pert"
            /\ \E l0 \in 1..LMaxVec : \E i, j \in 1..NLM(l0) : \E v \in GV : \E u \in GU \ {GZero} :
                  /\ Mine(7 * i + 13 * j + 3 * v[1] + 5 * u[2])
                  /\ c0' = SubSeq(UnitC(l0, i, v), 1, NLM(l0))
                  /\ c' = SubSeq(Add(UnitC(l0, i, v), UnitC(l0, j, u)), 1, NLM(l0))
                  /\ aux' = LOfCplx(j)                              \* the degree that was changed
            /\ UNCHANGED blk
PickTri == /\ blk > 0 /\ ph = "idle" /\ ph' = "tri"
           /\ aux' \in {l0 \in 0..26 : Mine(l0)}
           /\ UNCHANGED <<blk, c0, c>>
PickQ == /\ blk > 0 /\ ph = "idle" /\ ph' = "q" /\ aux' = 0
         /\ \E l0 \in 1..2 : \E i, j \in 1..NLM(l0) : \E v \in GV : \E u \in GU :
               /\ i < j
               /\ Mine(7 * i + 13 * j + 3 * v[1] + 5 * u[2])
               /\ c0' = SubSeq(Add(UnitC(l0, i, v), UnitC(l0, j, u)), 1, NLM(l0))
         /\ c' = c0' /\ UNCHANGED blk
Next == PickBlock \/ PickRot \/ StepRot \/ PickPert \/ PickTri \/ PickQ
Spec == Init /\ [][Next]_vars

(* ---- invariants --------------------------------------------------------------- *)
NInvariant == ph = "rot" => /\ Len(c) = Len(c0)
                            /\ \A l \in 0..DegOf(c0) : NOp(c, l) = NOp(c0, l)
HermitianKept == ph = "rot" => (Hermitian(DegOf(c0), c0) => Hermitian(DegOf(c0), c))
GroupRelations == ph = "rot" => /\ Pow4(c) = c
                                /\ FlipY(FlipY(c)) = c
                                /\ FlipY(RotZ4(FlipY(RotZ4(c)))) = c
                                /\ ApplyWord(c, <<0, 1>>) = FlipY(RotZ4(c))
PerturbLocal == ph = "pert" => /\ SameExceptDegree(c0, c, aux)
                               /\ \A l \in 0..DegOf(c0) : l # aux => NOp(c, l) = NOp(c0, l)
TriplesOK == ph = "tri" =>
  LET tr == LoopTriples(aux)
      po == POrder(aux)
  IN /\ \A i \in 1..(Len(tr) - 1) : LexLess(tr[i], tr[i + 1])
     /\ {tr[i] : i \in DOMAIN tr} = TripleSet(aux)
     /\ Len(po) = PCount(aux) /\ {po[i] : i \in DOMAIN po} = TripleSet(aux)
     /\ (aux > 0 => PCount(aux) >= PCount(aux - 1))
     /\ PDegreeAsBuilt(aux) <= 23 /\ PDegreeAsBuilt(aux) <= aux
QuantisedSame == ph = "q" =>
  \A l \in 0..DegOf(c0) : /\ N2Q(Embed(c0), l) = IntBig80(N2(c0, l))
                          /\ N2QAsBuilt(Embed(c0), l) = IntBig80(N2AsBuilt(c0, l))
                          /\ RotationGuard(c0, Embed(c0))
=============================================================================
