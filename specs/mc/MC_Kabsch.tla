------------------------------ MODULE MC_Kabsch ------------------------------
(***************************************************************************)
(* Design-level model for C18.                                             *)
(* (a) every integer covariance matrix H with entries in -HMax..HMax and   *)
(*     every rotation r of the rational net RotNet(NetMax): if r carries   *)
(*     the trace certificate for H (R^T H symmetric, tr(M) I - M positive  *)
(*     semidefinite) then no rotation of the net is better.  The action    *)
(*     Certify is enabled only for certified pairs, so the number of       *)
(*     states in phase "certified" shows the implication is not vacuous.   *)
(* (b) the steps of kabsch_rotation_matrix after the SVD, on the integer   *)
(*     SVDs H = V diag(s) W (V, W signed permutations, s sorted, 0..SMax): *)
(*     the returned matrix is a proper rotation, carries the certificate   *)
(*     and is optimal in the net.                                          *)
(***************************************************************************)
EXTENDS Kabsch, TLC

CONSTANTS HMax, NetMax, SMax, Emit

Net == RotNet(NetMax)
ASSUME NetIsRotations == \A r \in Net : IsRotation(r)
ASSUME NetHasCubeGroup == \A P \in SignedPerms : M3Det(P) = 1 => \E r \in Net : r.n = M3Scale(r.d, P)

Rng == (-HMax)..HMax
Rows == Rng \X Rng \X Rng
Sorted == {s \in (0..SMax) \X (0..SMax) \X (0..SMax) : s[1] >= s[2] /\ s[2] >= s[3]}
Id == [n |-> M3Id, d |-> 1]

VARIABLES phase, H, r, V, W
vars == <<phase, H, r, V, W>>

Init == phase = "start" /\ H = <<>> /\ r = Id /\ V = M3Id /\ W = M3Id
PickFirst == phase = "start" /\ \E a \in Rows : H' = <<a>> /\ phase' = "row" /\ UNCHANGED <<r, V, W>>
PickRest == phase = "row" /\ \E b \in Rows : \E c \in Rows : H' = <<H[1], b, c>> /\ phase' = "cov" /\ UNCHANGED <<r, V, W>>
Certify == phase = "cov" /\ \E q \in Net : Certificate(q, H) /\ r' = q /\ phase' = "certified" /\ UNCHANGED <<H, V, W>>
PickV == phase = "start" /\ \E v \in SignedPerms : V' = v /\ phase' = "v" /\ UNCHANGED <<H, r, W>>
PickSVD == /\ phase = "v"
           /\ \E w \in SignedPerms : \E s \in Sorted : W' = w /\ H' = FromSVD(V, s, w)
           /\ phase' = "svd" /\ UNCHANGED <<r, V>>
(* spec -> code: with Emit every covariance matrix of part (b) is printed; the harness      *)
(* realises it as the point sets A = unit vectors, B = rows of H (so that A^T B = H) and    *)
(* drives the real kabsch_rotation_matrix on it (degenerate and zero singular values).      *)
Align == /\ phase = "svd" /\ r' = [n |-> KabschStep(V, W), d |-> 1] /\ phase' = "aligned" /\ UNCHANGED <<H, V, W>>
         /\ IF Emit THEN PrintT("H|" \o ToString(H)) ELSE TRUE
Next == PickFirst \/ PickRest \/ Certify \/ PickV \/ PickSVD \/ Align
Spec == Init /\ [][Next]_vars

CertifiedIsOptimal == phase = "certified" => OptimalIn(Net, r, H)
AlignedIsProper == phase = "aligned" => IsRotation(r)
AlignedIsCertified == phase = "aligned" => Certificate(r, H)
AlignedIsOptimal == phase = "aligned" => OptimalIn(Net, r, H)
(* not an invariant (fails): what happens without the determinant correction *)
NoCorrectionIsProper == phase = "svd" => M3Det(KabschNoCorrection(V, W)) = 1
=============================================================================
