----------------------------- MODULE MC_Reexpress -----------------------------
(***************************************************************************)
(* Bounded-exhaustive model for C13 (trigonal switch): for each of the     *)
(* seven R-lattice groups (both settings exported from the tree) and each  *)
(* listed site of the N = 12 grid, the hexagonal description and the       *)
(* rhombohedral description obtained with SwitchTrigonal are the same      *)
(* arrangement (counts 3 : 1), and H -> R -> H / R -> H -> R restore the   *)
(* state.                                                                  *)
(***************************************************************************)
EXTENDS Reexpress, TLC, Json, IOUtils

CONSTANTS NBlocks, N
Data == JsonDeserialize(IOEnv.SG_FILE)
SG == Data.rows
Sites == Data.sites
HRows == {i \in 1..Len(SG) : SG[i].choice = "H"}
RRowOf(i) == CHOOSE j \in 1..Len(SG) : SG[j].number = SG[i].number /\ SG[j].choice = "R"
VARIABLES blk, row, site
vars == <<blk, row, site>>
Init == blk = 0 /\ row = 0 /\ site = 0
Next == \/ blk = 0 /\ blk' \in 1..NBlocks /\ UNCHANGED <<row, site>>
        \/ blk > 0 /\ row = 0 /\ row' \in HRows /\ site' \in {s \in 1..Len(Sites) : s % NBlocks = blk - 1} /\ UNCHANGED blk
Spec == Init /\ [][Next]_vars

HexGram == << <<18, -9, 0>>, <<-9, 18, 0>>, <<0, 0, 45>> >>
HState == [choice |-> "H", n |-> N, gram |-> HexGram, pts |-> <<Sites[site]>>]
RState == SwitchTrigonal(HState, "R")
BasisIsInverse == BasisInverse
SameArrangement == site > 0 =>
  SameTrigonal(CellAtoms(SG[row].ops, <<[z |-> 6, p |-> HState.pts[1]]>>, N), N,
               CellAtoms(SG[RRowOf(row)].ops, <<[z |-> 6, p |-> RState.pts[1]]>>, RState.n), RState.n)
RoundTripState == site > 0 =>
  /\ SwitchDomain(HState, "R")
  /\ SwitchTrigonal(RState, "H") = HState
  /\ SwitchTrigonal(SwitchTrigonal(RState, "H"), "R") = RState
  /\ Det(RState.gram) * 9 = Det(HState.gram)
=============================================================================
