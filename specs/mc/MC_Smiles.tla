------------------------------ MODULE MC_Smiles ------------------------------
(***************************************************************************)
(* Bounded model of Smiles: every token string up to Depth over a small    *)
(* alphabet is read by the machine.  Checked in every state: the bonds are *)
(* sound, the registers point at atoms, the bond count follows from atoms, *)
(* dots and closed rings, and a well-formed string without a dot denotes a *)
(* connected molecule.  With Emit the well-formed strings are printed      *)
(* (W|...) and read by the real parser (harness/c16.py, Trace_Smiles).     *)
(* With AsBuilt = TRUE (explain mode) TLC exhibits the shortest string on  *)
(* which the reader as found loses a bond.                                 *)
(***************************************************************************)
EXTENDS Smiles

CONSTANTS Depth, Emit
Alphabet == {"C", "O", "=", ".", "(", ")", "1", "2"}
VARIABLES toks, st
vars == <<toks, st>>
Init == toks = <<>> /\ st = S0
Next == /\ Len(toks) < Depth /\ st.ok
        /\ \E tok \in Alphabet : toks' = Append(toks, tok) /\ st' = Step(st, tok)
Spec == Init /\ [][Next]_vars

StepIsRun == st = Run(toks)                       \* the recursive reading agrees with the step-wise one
InvBondsSound == st.ok => BondsSound(st)
InvRegisters == st.ok => RegistersSound(st)
InvBondCount == st.ok => BondCount(st)
InvConnected == DotlessConnected(st)
EmitWord == (Emit /\ Accepting(st)) => PrintT("W|" \o Text(toks))
=============================================================================
