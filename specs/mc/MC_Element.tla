------------------------------ MODULE MC_Element ------------------------------
(***************************************************************************)
(* Design-level model of Element.tla and generator of the complete finite  *)
(* spelling domain (spec -> code direction).                               *)
(*                                                                         *)
(* States: one per spelling  [kind, z | c, variant parameters].  With      *)
(* Emit = TRUE every spelling is printed as  S|kind|z|c1|c2|v|a|b|text  and *)
(* harness/c17.py feeds each text to the real lookups.                     *)
(* Invariants: the table is a table (103 distinct symbols, also distinct   *)
(* ignoring letter case), every generated spelling has exactly one         *)
(* meaning (no text is generated for two different elements, no rejected   *)
(* text coincides with an accepted one), the leading alphabetic run of a   *)
(* label is the symbol, Less is a strict total order with carbon first,    *)
(* and formulas count every atom once.                                     *)
(***************************************************************************)
EXTENDS Element, SequencesExt

CONSTANTS Emit, BadStride
VARIABLES sp, blk, key
NoSp == [kind |-> "none"]
NBlocks == 64

NumZ == ElementZ \cup {0, 104, 105, 118, 200, 999}
(* spellings of one key: key = z (an atomic number, or a number naming no element) or key = 1000 + 27 c1 + c2 (a rejected code) *)
SymOf(z) == {[kind |-> "sym", z |-> z, v |-> v] : v \in 1..4}
PadOf(z) == {[kind |-> "pad", z |-> z, v |-> v, a |-> a, b |-> b] : v \in {1, 3}, a \in 1..3, b \in 1..3}
NumOf(z) == {[kind |-> "num", z |-> z, v |-> v] : v \in 1..4}
LabelOf(z) == {[kind |-> "label", z |-> z, v |-> v, a |-> a, b |-> b] : v \in 1..4, a \in DOMAIN DigitRuns, b \in DOMAIN Suffixes}
BadLongOf(z) == {[kind |-> "badlong", z |-> z, v |-> v, a |-> a] : v \in {1, 2, 3}, a \in DOMAIN LongTails}
AltNameOf(z) == IF z = 13 THEN {[kind |-> "altname", z |-> 0, v |-> v] : v \in DOMAIN AltNames} ELSE {}
NumJunkOf(z) == {[kind |-> "numjunk", z |-> z, v |-> v] : v \in 1..5}
PrefixedOf(z) == {[kind |-> "prefixed", z |-> z, v |-> v, a |-> a, b |-> b] : v \in {1, 3}, a \in {x \in DOMAIN LeadJunk : (x + z) % 3 = 0}, b \in DOMAIN JunkTails}
BadOf(c) == {[kind |-> "bad", c |-> c, v |-> v, a |-> a, b |-> b] : v \in {1, 2, 3}, a \in {0, 1, 2}, b \in {1, 2, 3}}
Keys == NumZ \cup {1000 + 27 * c[1] + c[2] : c \in {x \in BadCodes : (x[1] * 27 + x[2]) % BadStride = 0}}
SpOfKey(k) == IF k >= 1000 THEN BadOf(<<(k - 1000) \div 27, (k - 1000) % 27>>)
              ELSE IF k \in ElementZ THEN SymOf(k) \cup PadOf(k) \cup NumOf(k) \cup LabelOf(k) \cup BadLongOf(k) \cup PrefixedOf(k) \cup NumJunkOf(k) \cup AltNameOf(k) ELSE NumOf(k)
SymSp == UNION {SymOf(z) : z \in ElementZ}
LabelCore == UNION {{[kind |-> "label", z |-> z, v |-> v, a |-> 1, b |-> b] : v \in 1..4, b \in {1, 2}} : z \in ElementZ}

Line(s) ==
  LET z == IF s.kind = "bad" THEN 0 ELSE s.z
      c == IF s.kind = "bad" THEN s.c ELSE <<0, 0>>
      a == IF s.kind \in {"pad", "label", "bad", "badlong", "prefixed"} THEN s.a ELSE 0
      b == IF s.kind \in {"pad", "label", "bad", "prefixed"} THEN s.b ELSE 0
  IN "S|" \o s.kind \o "|" \o ToString(z) \o "|" \o ToString(c[1]) \o "|" \o ToString(c[2]) \o "|" \o ToString(s.v)
        \o "|" \o ToString(a) \o "|" \o ToString(b) \o "|" \o SpellingText(s)

Init == sp = NoSp /\ blk = 0 /\ key = -1
Next == \/ blk = 0 /\ blk' \in 1..NBlocks /\ UNCHANGED <<sp, key>>
        \/ blk > 0 /\ key = -1 /\ key' \in {k \in Keys : k % NBlocks = blk - 1} /\ UNCHANGED <<sp, blk>>
        \/ /\ key >= 0 /\ sp = NoSp /\ sp' \in SpOfKey(key) /\ UNCHANGED <<blk, key>>
           /\ (Emit => PrintT(Line(sp')))
Spec == Init /\ [][Next]_<<sp, blk, key>>

(* ---- invariants ------------------------------------------------------------ *)
TableDistinct == (sp = NoSp /\ blk = 0 /\ key = -1) =>
  /\ Len(SymCode) = NElements
  /\ \A a \in ElementZ : \A b \in ElementZ : a # b => SymCode[a] # SymCode[b]
  /\ \A a \in ElementZ : SymCode[a][1] \in 1..26 /\ SymCode[a][2] \in 0..26
  /\ SymText(6) = "C" /\ SymText(1) = "H" /\ SymText(17) = "Cl" /\ SymText(92) = "U" /\ SymText(103) = "Lr"
(* a generated accepted spelling never equals a generated rejected one, or one of another element *)
Unambiguous == (sp # NoSp /\ (sp.kind = "sym" \/ (sp.kind = "label" /\ sp.a = 1 /\ sp.b \in {1, 2}))) =>
  \A t \in SymSp \cup LabelCore :
     SpellingText(t) = SpellingText(sp) => Lookup(t) = Lookup(sp)
BadIsNotGood == (sp # NoSp /\ ((sp.kind = "bad" /\ sp.a = 0) \/ sp.kind = "badlong")) => \A t \in SymSp : SpellingText(t) # SpellingText(sp)
OrderTotal == (sp = NoSp /\ blk = 1 /\ key = -1) =>
  /\ \A a \in ElementZ : ~Less(a, a) /\ (a # 6 => Less(6, a))
  /\ \A a \in ElementZ : \A b \in ElementZ : a # b => (Less(a, b) # Less(b, a))
  /\ \A a \in 1..20 : \A b \in ElementZ : \A c \in ElementZ : (Less(a, b) /\ Less(b, c)) => Less(a, c)
FormulaCounts == (sp = NoSp /\ blk = 2 /\ key = -1) =>
  /\ Formula(<<8, 6, 8>>) = "CO2" /\ Formula(<<6, 1, 8, 5>>) = "CHBO" /\ Formula(<<1, 1, 8>>) = "H2O"
  /\ SortSpec(<<9, 1, 6, 7, 9>>) = <<6, 1, 7, 9, 9>>
=============================================================================
