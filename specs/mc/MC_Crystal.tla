------------------------------ MODULE MC_Crystal ------------------------------
(***************************************************************************)
(* Bounded-exhaustive model for C01: for every tabulated setting (table    *)
(* exported from the tree) and every site of a list (all N^3 grid sites in *)
(* the thorough tier) the three-step algorithm of unit_cell_atoms          *)
(* (ApplyOps -> Wrap -> Merge) yields exactly the symmetry orbit, each     *)
(* image once, with occupancies summed and conserved.  Two-site units are  *)
(* checked for consecutive sites of the list with disjoint orbits.         *)
(***************************************************************************)
EXTENDS Crystal, TLC, Json, IOUtils

CONSTANTS NBlocks, N, TwoStride
Data == JsonDeserialize(IOEnv.SG_FILE)
SG == Data.rows
Sites == Data.sites
VARIABLES blk, row, site
vars == <<blk, row, site>>

Init == blk = 0 /\ row = 0 /\ site = 0
PickBlock == blk = 0 /\ blk' \in 1..NBlocks /\ UNCHANGED <<row, site>>
PickRow == blk > 0 /\ row = 0 /\ row' \in {i \in 1..Len(SG) : i % NBlocks = blk - 1} /\ UNCHANGED <<blk, site>>
PickSite == row > 0 /\ site = 0 /\ site' \in 1..Len(Sites) /\ UNCHANGED <<blk, row>>
Next == PickBlock \/ PickRow \/ PickSite
Spec == Init /\ [][Next]_vars

Unit1(s) == << [z |-> 6, p |-> Sites[s], occ |-> 12, label |-> "C1"] >>
Unit2(s) == << [z |-> 6, p |-> Sites[s], occ |-> 6, label |-> "C1"],
               [z |-> 8, p |-> Sites[(s % Len(Sites)) + 1], occ |-> 4, label |-> "O2"] >>
OneSite == site > 0 => AlgorithmMeetsSpec(SG[row].ops, Unit1(site), N)
TwoSites == (site > 0 /\ site % TwoStride = 0 /\ OrbitsDisjoint(SG[row].ops, Unit2(site), N)) => AlgorithmMeetsSpec(SG[row].ops, Unit2(site), N)
(* orbit-stabiliser: |orbit| * multiplicity = |G| for every site *)
OrbitStabiliser == site > 0 =>
   LET ops == SG[row].ops p == Sites[site] IN
   \A q \in OrbitSet(ops, p, N) : Cardinality(OrbitSet(ops, p, N)) * Mult(ops, p, q, N) = Len(ops)
=============================================================================
