--------------------------- MODULE MC_CrystalObject ---------------------------
(***************************************************************************)
(* Model of C14 over all histories of queries, setting switches and deep   *)
(* copies (up to MaxObjs objects, history length <= Depth).                *)
(*                                                                         *)
(*   Design = "spec"    : Switch invalidates the memos -> Fresh holds.     *)
(*   Design = "asbuilt" : Switch keeps them (pinned commit) -> TLC returns *)
(*                        the shortest stale history (length 3).           *)
(*   Emit = TRUE prints every history as a word  W|...  : the spec -> code *)
(*   direction; harness/c14.py replays each word on real Crystal objects.  *)
(***************************************************************************)
EXTENDS CrystalObject, TLC

CONSTANTS Design, Depth, MaxObjs, QSet, Emit, Loaded, WithNormalize

S0 == [choice |-> "H", n |-> 12, gram |-> << <<18, -9, 0>>, <<-9, 18, 0>>, <<0, 0, 45>> >>, pts |-> << <<1, 5, 7>> >>]

VARIABLES st, memo, hist, obs
vars == <<st, memo, hist, obs>>
Objs == DOMAIN st

Init == /\ st = (1 :> S0)
        /\ memo = (1 :> [NoMemo EXCEPT !["cif"] = IF Loaded THEN <<S0>> ELSE <<>>])
        /\ hist = <<>> /\ obs = FALSE

Query(i, q) == /\ obs' = Stale(memo, st, i, q)                 \* what a caller would observe
               /\ memo' = FillMemo(memo, st, i, q)
               /\ st' = SpecQuery(st, i, q)
               /\ hist' = Append(hist, ToString(i) \o ":q:" \o q)
Switch(i, ch) == /\ st' = SpecSwitch(st, i, ch)
                 /\ memo' = IF Design = "spec" /\ st'[i] # st[i] THEN InvalidateMemo(memo, i) ELSE memo
                 /\ obs' = FALSE
                 /\ hist' = Append(hist, ToString(i) \o ":s:" \o ch)
Normalize(i) == /\ st' = SpecNormalize(st, i)
                /\ memo' = IF Design = "spec" /\ st'[i] # st[i] THEN InvalidateMemo(memo, i) ELSE memo
                /\ obs' = FALSE
                /\ hist' = Append(hist, ToString(i) \o ":n:0")
Copy(i, j) == /\ j \notin Objs /\ j = Cardinality(Objs) + 1 /\ j <= MaxObjs
              /\ st' = SpecCopy(st, i, j)
              /\ memo' = [k \in Objs \cup {j} |-> IF k = j THEN memo[i] ELSE memo[k]]
              /\ obs' = FALSE
              /\ hist' = Append(hist, "c:" \o ToString(i) \o ":" \o ToString(j))
Next == /\ Len(hist) < Depth
        /\ \/ \E i \in Objs : \E q \in QSet : Query(i, q)
           \/ \E i \in Objs : \E ch \in {"H", "R"} : Switch(i, ch)
           \/ \E i \in Objs : Copy(i, Cardinality(Objs) + 1)
           \/ WithNormalize /\ \E i \in Objs : Normalize(i)
Spec == Init /\ [][Next]_vars

RECURSIVE Join(_)
Join(w) == IF w = <<>> THEN "" ELSE IF Len(w) = 1 THEN w[1] ELSE w[1] \o "," \o Join(Tail(w))
EmitWord == (Emit /\ hist # <<>>) => PrintT("W|" \o Join(hist))

Fresh == ~obs
QueriesDoNotMutate == [][\A i \in Objs : (\E q \in QSet : hist' = Append(hist, ToString(i) \o ":q:" \o q)) => st' = st]_vars
(* in the specified design no memo is ever stale: the inductive reason why Fresh holds *)
MemoConsistent == Design = "spec" => \A i \in Objs : \A k \in MemoKeys \ {"cif"} : memo[i][k] \in {<<>>, <<st[i]>>}
=============================================================================
