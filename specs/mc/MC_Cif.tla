------------------------------- MODULE MC_Cif -------------------------------
(***************************************************************************)
(* Bounded exhaustive model for C15: for every small data set d the text   *)
(* written by the serialiser operators of Cif.tla is read back, one parser  *)
(* action per step, to the same data:  Parse(Ser(d)) = d.                   *)
(*                                                                         *)
(* d ranges over all shapes with <= MaxBlocks blocks, 1..MaxItems items per *)
(* block, each a scalar or a column of 0..MaxLen cells, at most MaxCells    *)
(* cells in total, every cell drawn from the alphabet members named by      *)
(* Alpha.  Member 5 (the decimal 1.5) is written as `1.50(3)`, i.e. with a  *)
(* standard uncertainty, as third-party CIF writers do.                     *)
(*                                                                         *)
(* Variant = "spec" runs the specification's parser; "asbuilt-dataline",   *)
(* "asbuilt-typing", "asbuilt-itemtext" each switch on one deviation found  *)
(* at the pinned commit (./check C15 --explain prints TLC's                 *)
(* counterexamples).                                                        *)
(***************************************************************************)
EXTENDS Cif

CONSTANTS MaxBlocks, MaxItems, MaxLen, MaxCells, Alpha, NamePat, Decor, Variant

ASSUME MaxBlocks \in 1..2 /\ MaxItems \in 1..3 /\ MaxLen \in 0..3 /\ Alpha \subseteq 1..10 /\ NamePat \in 1..2

SU == DecV(FALSE, <<1>>, <<5>>)
SUText == <<49, 46, 53, 48, 40, 51, 41>>                       \* 1.50(3)
AlphaVal == <<
  IntV(FALSE, <<7>>),                                          \*  1   7
  IntV(TRUE, <<1, 2>>),                                        \*  2   -12
  DecV(FALSE, <<2>>, <<>>),                                    \*  3   2.0   integer-valued decimal
  DecV(TRUE, <<0>>, <<5>>),                                    \*  4   -0.5
  SU,                                                          \*  5   1.5 written 1.50(3)
  StrV(<<97, 98>>),                                            \*  6   ab
  StrV(<<97, 32, 98>>),                                        \*  7   a b
  StrV(<<120, 44, 121>>),                                      \*  8   x,y
  StrV(<<111, 39, 99>>),                                       \*  9   o'c
  StrV(<<97, 32, 32, 98>>) >>                                  \* 10   a  b
ST(v) == IF v = SU THEN SUText ELSE ScalarText(v)
FF(v) == IF v = SU THEN PadLeft(SUText, 20) ELSE FormatField(v)

BlockName(i) == <<119 + i>>                                    \* x, y
ItemNames == IF NamePat = 1 THEN << <<97, 95, 49>>, <<97, 95, 50>>, <<98, 95, 51>> >>   \* a_1 a_2 b_3
             ELSE << <<97, 95, 49>>, <<98, 95, 50>>, <<97, 95, 51>> >>                    \* a_1 b_2 a_3

(* a shape: per block the sequence of item lengths, -1 = scalar *)
ItemCells(l) == IF l = -1 THEN 1 ELSE l
RECURSIVE SumSeq(_)
SumSeq(s) == IF s = <<>> THEN 0 ELSE Head(s) + SumSeq(Tail(s))
BlockCells(b) == SumSeq([j \in DOMAIN b |-> ItemCells(b[j])])
ShapeCells(sh) == SumSeq([i \in DOMAIN sh |-> BlockCells(sh[i])])
BlockShapes == UNION {[1..n -> -1..MaxLen] : n \in 1..MaxItems}
Shapes == {sh \in UNION {[1..nb -> BlockShapes] : nb \in 1..MaxBlocks} : ShapeCells(sh) <= MaxCells}
Offset(sh, i, j) == SumSeq([p \in 1..(i - 1) |-> BlockCells(sh[p])])
                    + SumSeq([q \in 1..(j - 1) |-> ItemCells(sh[i][q])])
Build(sh, fill) ==
  [i \in DOMAIN sh |-> [name |-> BlockName(i), items |-> [j \in DOMAIN sh[i] |->
      LET off == Offset(sh, i, j)
          l == sh[i][j]
      IN IF l = -1 THEN Scalar(ItemNames[j], AlphaVal[fill[off + 1]])
         ELSE Column(ItemNames[j], [r \in 1..l |-> AlphaVal[fill[off + r]]])]]]

VARIABLES shape, d
vars == <<shape, d, lines, pos, block, mode, parsed, keys, rows>>

(* optional decoration: a blank line and a comment line before every data_ / loop_ line *)
COMMENT == <<35, 32, 99>>                                       \* "# c"
Decorate(ls) == FlattenSeq([i \in DOMAIN ls |->
                  IF IsPrefix(DATA_, ls[i]) \/ ls[i] = LOOP_ THEN <<<<>>, COMMENT, ls[i]>> ELSE <<ls[i]>>])
Text(dd) == IF Decor THEN Decorate(SerLinesWith(dd, ST, FF)) ELSE SerLinesWith(dd, ST, FF)

Init == shape \in Shapes /\ d = <<>> /\ ParserIdle
Fill == /\ mode = "idle"
        /\ \E fill \in [1..ShapeCells(shape) -> Alpha] :
              /\ d' = Build(shape, fill)
              /\ ParserStart(Text(d'))
        /\ UNCHANGED shape

(* the parser of Cif.tla, one named action per kind of line; Variant selects one deviation *)
DL(l) == IF Variant = "asbuilt-dataline" THEN IsDataLineAsBuilt(l) ELSE IsDataLine(l)
PV(s) == IF Variant = "asbuilt-typing" THEN ParseValueAsBuilt(s) ELSE ParseValue(s)
TX(s) == IF Variant = "asbuilt-itemtext" THEN ItemTextAsBuilt(s) ELSE ItemText(s)
Keep == UNCHANGED <<shape, d>>
Blank == ParseBlank /\ Keep
Comment == ParseComment /\ Keep
Other == ParseOther /\ Keep
DataHeader == ParseDataHeader /\ Keep
Item == ParseItemWith(TX, PV) /\ Keep
LoopHeader == ParseLoopHeader /\ Keep
LoopName == ParseLoopName /\ Keep
LoopNamesEnd == ParseLoopNamesEnd /\ Keep
LoopRow == ParseLoopRowWith(DL) /\ Keep
LoopEnd == ParseLoopEndWith(DL, PV) /\ Keep
Eof == ParseEof /\ Keep
Finished == mode = "done" /\ UNCHANGED vars
Next == \/ Fill
        \/ Blank \/ Comment \/ Other \/ DataHeader \/ Item
        \/ LoopHeader \/ LoopName \/ LoopNamesEnd \/ LoopRow \/ LoopEnd
        \/ Eof \/ Finished
Spec == Init /\ [][Next]_vars

(* --- invariants --------------------------------------------------------- *)
InDomain == (mode = "top" /\ pos = 1) => Outside(d) = ""                      \* the model stays inside the property's domain
LinesAreLines == (mode = "top" /\ pos = 1) => SplitLines(JoinWith(lines, <<LF>>)) = lines
Total == mode \notin {"error", "unsupported"}                     \* the parser accepts everything the serialiser writes
RoundTrip == mode = "done" => SameData(parsed, d)                 \* Parse(Ser(d)) = d
Consumed == mode = "done" => pos = Len(lines) + 1
=============================================================================
