-------------------------- MODULE MC_MoleculeObject --------------------------
(***************************************************************************)
(* Bounded model of MoleculeObject: every history up to Depth of in-place  *)
(* and copying operations on a small molecule, at most MaxObjs objects.    *)
(* Checked: a history of rigid motions never changes the shape (distance   *)
(* matrix, elements in order) or the formula of any object; a copying      *)
(* operation leaves its receiver untouched; four quarter turns about any   *)
(* origin are the identity; n x centroid moves covariantly.  With Emit the *)
(* histories are printed (W|...) and replayed on real Molecule objects.    *)
(***************************************************************************)
EXTENDS MoleculeObject, TLC

CONSTANTS Depth, MaxObjs, Emit
Base == << [z |-> 8, p |-> <<0, 0, 1>>], [z |-> 1, p |-> <<0, 6, -4>>], [z |-> 1, p |-> <<0, -6, -4>>], [z |-> 6, p |-> <<9, 2, 3>>] >>
Rots == << <<<<0, -1, 0>>, <<1, 0, 0>>, <<0, 0, 1>>>>, <<<<1, 0, 0>>, <<0, 0, -1>>, <<0, 1, 0>>>>, <<<<0, 0, 1>>, <<1, 0, 0>>, <<0, 1, 0>>>> >>
Vecs == << <<8, 0, 0>>, <<-3, 5, 16>> >>
Orgs == << <<0, 0, 0>>, <<4, -8, 1>> >>
Masks == << <<TRUE, TRUE, FALSE, TRUE>>, <<FALSE, TRUE, TRUE, FALSE>> >>

VARIABLES st, hist, full
vars == <<st, hist, full>>
Objs == DOMAIN st
Init == st = (1 :> Base) /\ hist = <<>> /\ full = (1 :> TRUE)
Log(s) == hist' = Append(hist, s)
CanNew == Cardinality(Objs) < MaxObjs
NewFull(b) == LET j == Cardinality(Objs) + 1 IN [k \in Objs \cup {j} |-> IF k = j THEN b ELSE full[k]]

Translate(i, v) == st' = InPlace(st, i, TranslateM(st[i], Vecs[v])) /\ Log(ToString(i) \o ":t:" \o ToString(v)) /\ UNCHANGED full
Rotate(i, r, o) == st' = InPlace(st, i, RotateM(st[i], Rots[r], Orgs[o])) /\ Log(ToString(i) \o ":r:" \o ToString(r) \o ":" \o ToString(o)) /\ UNCHANGED full
Transform(i, r, v) == st' = InPlace(st, i, TransformM(st[i], Rots[r], Vecs[v])) /\ Log(ToString(i) \o ":x:" \o ToString(r) \o ":" \o ToString(v)) /\ UNCHANGED full
Translated(i, v) == CanNew /\ st' = NewObj(st, TranslateM(st[i], Vecs[v])) /\ Log(ToString(i) \o ":T:" \o ToString(v)) /\ full' = NewFull(full[i])
Rotated(i, r, o) == CanNew /\ st' = NewObj(st, RotateM(st[i], Rots[r], Orgs[o])) /\ Log(ToString(i) \o ":R:" \o ToString(r) \o ":" \o ToString(o)) /\ full' = NewFull(full[i])
Transformed(i, r, v) == CanNew /\ st' = NewObj(st, TransformM(st[i], Rots[r], Vecs[v])) /\ Log(ToString(i) \o ":X:" \o ToString(r) \o ":" \o ToString(v)) /\ full' = NewFull(full[i])
Copy(i) == CanNew /\ st' = NewObj(st, st[i]) /\ Log(ToString(i) \o ":C:0") /\ full' = NewFull(full[i])
Mask(i, k) == CanNew /\ full[i] /\ st' = NewObj(st, StripK(MaskM(st[i], Masks[k]))) /\ Log(ToString(i) \o ":M:" \o ToString(k)) /\ full' = NewFull(FALSE)

Next == /\ Len(hist) < Depth
        /\ \E i \in Objs :
             \/ \E v \in DOMAIN Vecs : Translate(i, v) \/ Translated(i, v)
             \/ \E r \in DOMAIN Rots : \E o \in DOMAIN Orgs : Rotate(i, r, o) \/ Rotated(i, r, o)
             \/ \E r \in DOMAIN Rots : \E v \in DOMAIN Vecs : Transform(i, r, v) \/ Transformed(i, r, v)
             \/ Copy(i) \/ \E k \in DOMAIN Masks : Mask(i, k)
Spec == Init /\ [][Next]_vars

RECURSIVE Join(_)
Join(w) == IF w = <<>> THEN "" ELSE IF Len(w) = 1 THEN w[1] ELSE w[1] \o "," \o Join(Tail(w))
EmitWord == (Emit /\ hist # <<>>) => PrintT("W|" \o Join(hist))

RotsProper == \A r \in DOMAIN Rots : ProperRotation(Rots[r])
ShapeKept == \A i \in Objs : full[i] => SameShape(st[i], Base)
FormulaKept == \A i \in Objs : full[i] => FormulaOfMol(st[i]) = "CH2O"
MaskedFormula == \A i \in Objs : ~full[i] => FormulaOfMol(st[i]) \in {"CHO", "H2"}
QuarterTurns == \A r \in DOMAIN Rots : \A o \in DOMAIN Orgs :
   LET q(m) == RotateM(m, Rots[r], Orgs[o]) IN
   IF r = 3 THEN q(q(q(st[1]))) = st[1] ELSE q(q(q(q(st[1])))) = st[1]
CentroidCovariant == \A v \in DOMAIN Vecs : SumVec(TranslateM(st[1], Vecs[v])) = [k \in Ix |-> SumVec(st[1])[k] + Len(st[1]) * Vecs[v][k]]
CopiesLeaveReceiver == [][\A i \in Objs : Cardinality(DOMAIN st') > Cardinality(Objs) => st'[i] = st[i]]_vars
=============================================================================
