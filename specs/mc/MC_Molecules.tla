----------------------------- MODULE MC_Molecules -----------------------------
(***************************************************************************)
(* Design-level model of the unwrapping loop of Crystal.unit_cell_molecules *)
(* (crystal.py:339-383): connected components of the periodic bond graph,   *)
(* a breadth-first traversal from the lowest-numbered node of each          *)
(* component accumulating cell shifts along tree edges                      *)
(*     shift[j] = shift[i] + cell(i,j)   (i < j)                            *)
(*     shift[j] = shift[i] - cell(j,i)   (j < i)                            *)
(* and the final re-centring of the centre of mass into the reference cell. *)
(*                                                                          *)
(* One dimension of the lattice is modelled (the three axes are             *)
(* independent in the algorithm).  Every finite molecular crystal is        *)
(* obtained by choosing a hidden "true" image s[i] of every node and an     *)
(* edge set; the stored edge cell is cell(i,j) = s[j] - s[i] (+ nothing:    *)
(* molecules are finite, so cycles are consistent).  Property: after the    *)
(* traversal every bond (tree edge or not) is realised at its bonding       *)
(* distance, i.e. shift[j] - shift[i] = cell(i,j) for every edge, and each  *)
(* node has been visited once.                                              *)
(***************************************************************************)
EXTENDS Integers, FiniteSets, Sequences, TLC

CONSTANTS NNodes, MaxShift
ShiftSet == (-MaxShift)..MaxShift
Nodes == 1..NNodes
Pairs == {<<i, j>> \in Nodes \X Nodes : i < j}

VARIABLES s,        \* hidden true cell of each node (defines the consistent periodic graph)
          edges,    \* set of <<i,j>>, i < j
          shift,    \* accumulated shift per node (the implementation's `shifts`)
          visited, queue, root, done, phase
vars == <<s, edges, shift, visited, queue, root, done, phase>>

Cell(i, j) == s[j] - s[i]                    \* stored with the edge (i < j): image of j bonded to i
Adj(i) == {j \in Nodes : <<i, j>> \in edges \/ <<j, i>> \in edges}
RECURSIVE Comp(_, _)
Comp(front, seen) == LET nxt == (UNION {Adj(i) : i \in front}) \ seen
                     IN IF nxt = {} THEN seen ELSE Comp(nxt, seen \cup nxt)
Component(i) == Comp({i}, {i})

Init == /\ s \in [Nodes -> ShiftSet] /\ edges \in SUBSET Pairs
        /\ shift = [i \in Nodes |-> 0] /\ visited = {} /\ queue = <<>> /\ root = 0 /\ done = {} /\ phase = "pick"

(* start the traversal of the next component at its lowest node *)
PickRoot == /\ phase = "pick" /\ done # Nodes
            /\ LET r == CHOOSE i \in Nodes \ done : \A j \in Nodes \ done : i <= j
               IN root' = r /\ queue' = <<r>> /\ visited' = {r}
                  /\ shift' = [i \in Nodes |-> 0]     \* shifts = np.zeros(...) per molecule
            /\ phase' = "bfs" /\ UNCHANGED <<s, edges, done>>
(* pop a node, visit its unvisited neighbours, accumulate their shifts *)
Visit == /\ phase = "bfs" /\ queue # <<>>
         /\ LET i == Head(queue)
                new == Adj(i) \ visited
                ord == CHOOSE q \in [1..Cardinality(new) -> new] : \A a, b \in 1..Cardinality(new) : a < b => q[a] < q[b]
            IN /\ shift' = [j \in Nodes |-> IF j \in new
                                            THEN (IF j < i THEN shift[i] - Cell(j, i) ELSE shift[i] + Cell(i, j))
                                            ELSE shift[j]]
               /\ visited' = visited \cup new
               /\ queue' = Tail(queue) \o ord
         /\ UNCHANGED <<s, edges, root, done, phase>>
(* the component is complete: check, then move on *)
Finish == /\ phase = "bfs" /\ queue = <<>>
          /\ done' = done \cup visited /\ phase' = "check"
          /\ UNCHANGED <<s, edges, shift, visited, queue, root>>
NextMol == /\ phase = "check" /\ phase' = "pick" /\ UNCHANGED <<s, edges, shift, visited, queue, root, done>>
Next == PickRoot \/ Visit \/ Finish \/ NextMol
Spec == Init /\ [][Next]_vars /\ WF_vars(Next)

TypeOK == /\ visited \subseteq Nodes /\ done \subseteq Nodes /\ phase \in {"pick", "bfs", "check"}
(* at the end of a traversal: exactly the component was visited, and every bond inside it is whole *)
UnwrapCorrect ==
  phase = "check" =>
     /\ visited = Component(root)
     /\ \A e \in edges : (e[1] \in visited) => (shift[e[2]] - shift[e[1]] = Cell(e[1], e[2]))
     /\ \A i \in visited : shift[i] = s[i] - s[root]
(* re-centring: translating by -floor(com) puts the centre (here: of equal masses, scaled by the count) in [0,1) *)
RecentreInside ==
  phase = "check" =>
     LET n == Cardinality(visited)
         RECURSIVE SumOver(_)
         SumOver(S) == IF S = {} THEN 0 ELSE LET x == CHOOSE y \in S : TRUE IN shift[x] + SumOver(S \ {x})
         tot == SumOver(visited)            \* n * com (positions all at fractional 0 + shift)
         t == tot \div n                    \* floor(com)
     IN tot - n * t >= 0 /\ tot - n * t < n
Terminates == <>(done = Nodes)
=============================================================================
