------------------------------- MODULE MC_Cube -------------------------------
(***************************************************************************)
(* Bounded model of the CubeData object: every history up to Depth of      *)
(* origin shifts.  Checked: the atoms keep their place relative to the     *)
(* grid, the grid keeps its steps and values, and shifting back to the     *)
(* first origin restores the first state.                                  *)
(***************************************************************************)
EXTENDS CubeFile

CONSTANT Depth
S1 == [origin |-> <<0, 0, 0>>, axes |-> <<[n |-> 2, v |-> <<3, 0, 0>>], [n |-> 1, v |-> <<0, 2, 0>>], [n |-> 2, v |-> <<0, 1, 5>>]>>,
       atoms |-> <<[zel |-> 8, p |-> <<1, 1, 1>>], [zel |-> 1, p |-> <<-2, 4, 0>>]>>, data |-> <<1, 2, 3, 4>>]
Origins == {<<0, 0, 0>>, <<5, 0, -1>>, <<-3, 2, 2>>}
VARIABLES s, n
Init == s = S1 /\ n = 0
Next == n < Depth /\ \E o \in Origins : s' = Shift(s, o) /\ n' = n + 1
Spec == Init /\ [][Next]_<<s, n>>
InvRelGeometry == RelGeometry(s) = RelGeometry(S1)
InvGridKept == s.axes = S1.axes /\ s.data = S1.data
InvReturn == s.origin = S1.origin => s = S1
InvGridPoint == \A i \in 0..1 : \A k \in 0..1 : VSub(GridPoint(s, i, 0, k), s.origin) = VSub(GridPoint(S1, i, 0, k), S1.origin)
=============================================================================
