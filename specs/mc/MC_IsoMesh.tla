----------------------------- MODULE MC_IsoMesh -----------------------------
(***************************************************************************)
(* Design-level model for C06: on every small grid the cell sweep of       *)
(* IsoMesh, fed by the reference mesher RefPatch, keeps the inductive      *)
(* invariant ("open edges lie on faces shared with straddling cells still  *)
(* to come"), and at the end of the sweep the mesh is a closed oriented    *)
(* 2-manifold on the level with the sign of its volume fixed by the        *)
(* gradient direction.  This establishes, for the specification itself,    *)
(* that the LOCAL conditions checked on real meshes cell by cell           *)
(* (PatchLocal, CanProcess, SweepInv) imply the GLOBAL property            *)
(* (ClosedManifold).                                                        *)
(*                                                                         *)
(* Fields: every assignment of 0..VMax to the interior points of an        *)
(* N1 x N2 x N3 grid, padded with PadVal on the boundary; level K + 1/2;   *)
(* both gradient directions.  Positions in 1/24 of a unit length.          *)
(***************************************************************************)
EXTENDS IsoMesh, TLC

CONSTANTS N1, N2, N3, S1, S2, S3, VMax, K, PadVal

VARIABLES fld, dir, phase, mesh
vars == <<fld, dir, phase, mesh, last, bnd, seen>>

NP == N1 * N2 * N3
PointOf(i) == <<(i - 1) \div (N2 * N3), ((i - 1) \div N3) % N2, (i - 1) % N3>>
Interior(g) == /\ g[1] > 0 /\ g[1] < N1 - 1 /\ g[2] > 0 /\ g[2] < N2 - 1 /\ g[3] > 0 /\ g[3] < N3 - 1
Free == {i \in 1..NP : Interior(PointOf(i))}
FieldOf(ch) == [i \in 1..NP |-> IF i \in Free THEN ch[i] ELSE PadVal]

P == [n |-> <<N1, N2, N3>>, f |-> fld, k |-> K, sp |-> <<S1, S2, S3>>, q |-> 24, tol |-> 0]
NCells == (N1 - 1) * (N2 - 1) * (N3 - 1)
CellOfRank(r) == <<r \div ((N2 - 1) * (N3 - 1)), (r \div (N3 - 1)) % (N2 - 1), r % (N3 - 1)>>

VertsOf(F) == {F[i][j] : i \in DOMAIN F, j \in 1..3}
IdOn(S) == [v \in S |-> v]                       \* vertex ids are positions
Other(d) == IF d = "descent" THEN "ascent" ELSE "descent"
RECURSIVE FullRef(_, _)
FullRef(r, d) == IF r = NCells THEN <<>> ELSE RefPatch(P, CellOfRank(r), d) \o FullRef(r + 1, d)

Init == /\ fld \in {FieldOf(ch) : ch \in [Free -> 0..VMax]}
        /\ dir \in {"descent", "ascent"}
        /\ phase = "sweep" /\ mesh = <<>> /\ SweepInit

NextCell == CellOfRank(last + 1)
NextPatch == RefPatch(P, NextCell, dir)
SweepStep == /\ phase = "sweep" /\ last < NCells - 1
             /\ ProcessCell(P, NextCell, NextPatch)
             /\ mesh' = mesh \o NextPatch
             /\ UNCHANGED <<fld, dir, phase>>
Finish == /\ phase = "sweep" /\ last = NCells - 1
          /\ phase' = "done" /\ UNCHANGED <<fld, dir, mesh, last, bnd, seen>>
Next == SweepStep \/ Finish
Spec == Init /\ [][Next]_vars

V == IdOn(VertsOf(mesh))
(* --- invariants: one line each in the cfg --------------------------------- *)
InvExactGrid == ExactGrid(P)
InvProgress == (phase = "sweep" /\ last < NCells - 1) =>
                 /\ PatchLocal(P, IdOn(VertsOf(NextPatch)), NextCell, NextPatch)
                 /\ CanProcess(P, NextCell, NextPatch)
InvSweep == SweepInv(P, V)
InvBndSeen == bnd = {e \in seen : <<e[2], e[1]>> \notin seen}
InvClosed == phase = "done" => (SweepClosed /\ seen = DirEdges(mesh) /\ ClosedManifold(VertsOf(mesh), mesh))
InvOnLevel == phase = "done" => (OnLevel(P, V) /\ EdgeCover(P, V))
InvOriented == (phase = "done" /\ mesh # <<>> /\ LevelSetInside(P)) => Oriented(P, V, mesh, dir, FALSE)
InvReversed == phase = "done" => ReversedMesh(mesh, FullRef(0, Other(dir)))
=============================================================================
