----------------------------- MODULE SymopProofs -----------------------------
(***************************************************************************)
(* Facts about the translation arithmetic of Symop.tla, proved for ALL     *)
(* integers by TLAPS (tlapm; SMT and Zenon back ends) - what TLC checks    *)
(* exhaustively for the 12^3 translations of the packed domain holds       *)
(* without a bound.  The definitions below are those of Symop.tla          *)
(* (Mod12Vec, Shift, Inverted's translation, Equal), restated without the  *)
(* modules TLAPS cannot read (TLC, community modules).                     *)
(*   tlapm --threads 8 SymopProofs.tla   ->  all obligations proved        *)
(***************************************************************************)
EXTENDS Integers, TLAPS

Idx == 1..3
Vec == [Idx -> Int]
Mod12Vec(v) == [i \in Idx |-> v[i] % 12]
(* an operation: rotation r (left abstract here), translation t in twelfths *)
Shift(a, v) == [r |-> a.r, t |-> Mod12Vec([i \in Idx |-> a.t[i] + v[i]])]
InvertedT(a) == [r |-> a.r, t |-> Mod12Vec([i \in Idx |-> -a.t[i]])]
Equal(a, b) == a.r = b.r /\ Mod12Vec(a.t) = Mod12Vec(b.t)
Whole(k) == [i \in Idx |-> 12 * k[i]]

LEMMA ModPeriod == \A t \in Int : \A k \in Int : (t + 12 * k) % 12 = t % 12
  OBVIOUS
LEMMA ModIdem == \A t \in Int : (t % 12) % 12 = t % 12
  OBVIOUS
LEMMA ModAdd == \A t \in Int : \A a \in Int : \A b \in Int : ((t + a) % 12 + b) % 12 = (t + a + b) % 12
  OBVIOUS
LEMMA ModNegNeg == \A t \in Int : (-((-t) % 12)) % 12 = t % 12
  OBVIOUS

(* adding a whole lattice vector gives an operation equal to the original: equality is modulo the lattice *)
THEOREM WholeVectorDropsOut ==
  ASSUME NEW a, a.t \in Vec, NEW k \in Vec
  PROVE  Equal(Shift(a, Whole(k)), a)
<1>1. \A i \in Idx : ((a.t[i] + 12 * k[i]) % 12) % 12 = a.t[i] % 12
  BY ModPeriod, ModIdem DEF Vec, Idx
<1>2. QED BY <1>1 DEF Equal, Shift, Whole, Mod12Vec, Vec, Idx

(* shifting twice is shifting by the sum *)
THEOREM ShiftsCompose ==
  ASSUME NEW a, a.t \in Vec, NEW u \in Vec, NEW v \in Vec
  PROVE  Shift(Shift(a, u), v) = Shift(a, [i \in Idx |-> u[i] + v[i]])
<1>1. \A i \in Idx : ((a.t[i] + u[i]) % 12 + v[i]) % 12 = (a.t[i] + (u[i] + v[i])) % 12
  BY ModAdd DEF Vec, Idx
<1>2. QED BY <1>1 DEF Shift, Mod12Vec, Vec, Idx

(* inverting the translation twice gives an equal operation *)
THEOREM InvertedTwice ==
  ASSUME NEW a, a.t \in Vec
  PROVE  Equal(InvertedT(InvertedT(a)), a)
<1>1. \A i \in Idx : ((-((-a.t[i]) % 12)) % 12) % 12 = a.t[i] % 12
  BY ModNegNeg, ModIdem DEF Vec, Idx
<1>2. QED BY <1>1 DEF Equal, InvertedT, Mod12Vec, Vec, Idx

(* Equal is an equivalence relation *)
THEOREM EqualEquivalence ==
  ASSUME NEW a, NEW b, NEW c
  PROVE  /\ Equal(a, a)
         /\ (Equal(a, b) => Equal(b, a))
         /\ (Equal(a, b) /\ Equal(b, c) => Equal(a, c))
  BY DEF Equal
=============================================================================
