---------------------------- MODULE ElementProofs ----------------------------
(***************************************************************************)
(* The ordering of elements of Element.tla ("carbon first, then by atomic  *)
(* number") is a strict total order on ALL integers - proved by TLAPS;     *)
(* MC_Element checks it by enumeration for Z = 1..103 only.                *)
(***************************************************************************)
EXTENDS Integers, TLAPS

Less(a, b) == a # b /\ (a = 6 \/ (b # 6 /\ a < b))

THEOREM Irreflexive == \A a \in Int : ~Less(a, a)
  BY DEF Less
THEOREM Asymmetric == \A a \in Int : \A b \in Int : Less(a, b) => ~Less(b, a)
  BY DEF Less
THEOREM Transitive == \A a \in Int : \A b \in Int : \A c \in Int : Less(a, b) /\ Less(b, c) => Less(a, c)
  BY DEF Less
THEOREM Total == \A a \in Int : \A b \in Int : a = b \/ Less(a, b) \/ Less(b, a)
  BY DEF Less
THEOREM CarbonFirst == \A a \in Int : a # 6 => Less(6, a)
  BY DEF Less
THEOREM OtherwiseByNumber == \A a \in Int : \A b \in Int : a # 6 /\ b # 6 => (Less(a, b) <=> a < b)
  BY DEF Less
=============================================================================
