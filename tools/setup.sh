#!/bin/sh
# Offline setup: nothing to build; verify the tools the checks need are present.
set -e
cd "$(dirname "$0")/.."
command -v tlc >/dev/null
/venv/bin/python -c "import chmpy, numpy, scipy" 
mkdir -p out evidence
echo setup ok
