#!/bin/sh
# usage: tools/benign_eval.sh <dir with change_k.diff / notes_k.md>   (env SEEDS="0 1" to choose seeds)
# A property-PRESERVING change (written by an independent sub-agent given only the property text) must not make the
# property's check raise an alarm.  Applies each change to a scratch worktree of /repo (never to /repo), runs the repo
# tests there and the check of the property named in the first line of notes_k.md; prints one line per change.
set -u
D=$(readlink -f "$1")
for diff in $(ls "$D"/change_*.diff 2>/dev/null | sort -V); do
  k=$(basename "$diff" .diff | sed 's/change_//')
  pid=$(head -3 "$D/notes_$k.md" 2>/dev/null | grep -o 'C[0-9][0-9]' | head -1)
  [ -z "$pid" ] && { echo "BENIGN $diff: no property line"; continue; }
  W=/var/tmp/ben-$$-$k
  git -C /repo worktree add -q --detach "$W" HEAD || exit 2
  (cd /repo && rsync -a --include='*/' --include='*.so' --exclude='*' src/ "$W/src/")
  if ! git -C "$W" apply "$diff" 2>/dev/null; then
    if ! (cd "$W" && patch -p1 -F3 -s --no-backup-if-mismatch < "$diff"); then echo "BENIGN $pid change_$k PATCH-DOES-NOT-APPLY"; git -C /repo worktree remove --force "$W"; continue; fi
  fi
  tests=$(cd "$W" && env -u CHMPY_VERIF /venv/bin/python -m pytest -q -p no:cacheprovider --timeout=900 -q src/chmpy/tests 2>&1 | tail -1)
  for seed in ${SEEDS:-1}; do
    (cd /verif && VERIF_REPO="$W" VERIF_EVIDENCE_DIR=/var/tmp/ben-ev-$$ ./check "$pid" --seed $seed > "/var/tmp/ben-$$-$k.log" 2>&1); rc=$?
    nv=$(grep -c '^VIOLATION' /var/tmp/ben-$$-$k.log)
    echo "BENIGN $pid change_$k seed=$seed exit=$rc violations=$nv tests=[$tests] first=$(grep -m1 '^VIOLATION' /var/tmp/ben-$$-$k.log | sed 's/.*clause=//') :: $(tail -1 /var/tmp/ben-$$-$k.log | cut -c1-120)"
    if [ "$nv" != "0" ] || [ "$rc" != "0" ]; then mkdir -p /var/tmp/ben-fail; cp /var/tmp/ben-$$-$k.log /var/tmp/ben-fail/$(basename "$D")-$k.log; f=$(grep -m1 '^VIOLATION' /var/tmp/ben-$$-$k.log | sed 's/.*replay=//;s/ .*//'); [ -n "$f" ] && cp "$f" /var/tmp/ben-fail/$(basename "$D")-$k.json; fi
  done
  rm -f "/var/tmp/ben-$$-$k.log"; rm -rf /var/tmp/ben-ev-$$
  git -C /repo worktree remove --force "$W"
done
