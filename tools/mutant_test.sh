#!/bin/sh
# usage: tools/mutant_test.sh <patch.diff> <Cxx> [more ids]   (env NOTESTS=1 skips the repo test run)
# Applies the patch to a scratch worktree of /repo (never to /repo), optionally runs the repo tests there,
# then runs the given checks against it with VERIF_REPO. Prints one summary line per check.
set -u
PATCH=$(readlink -f "$1"); shift
W=/var/tmp/mut-$$
git -C /repo worktree add -q --detach "$W" HEAD || exit 2
(cd /repo && rsync -a --include='*/' --include='*.so' --exclude='*' src/ "$W/src/")
if ! git -C "$W" apply "$PATCH" 2>/dev/null; then
  # context drifted (later fix: commits): retry with fuzz
  if ! (cd "$W" && patch -p1 -F3 -s --no-backup-if-mismatch < "$PATCH"); then echo "PATCH-DOES-NOT-APPLY $PATCH"; git -C /repo worktree remove --force "$W"; exit 2; fi
fi
if [ -z "${NOTESTS:-}" ]; then
  (cd "$W" && env -u CHMPY_VERIF /venv/bin/python -m pytest -q -p no:cacheprovider --timeout=900 -q src/chmpy/tests 2>&1 | tail -3 | sed 's/^/  tests: /')
fi
cd /verif
for id in "$@"; do
  VERIF_REPO="$W" VERIF_EVIDENCE_DIR=/var/tmp/mut-ev-$$ ./check "$id" > "/var/tmp/mut-$$-$id.log" 2>&1
  rc=$?
  echo "MUTANT $(basename "$PATCH") check=$id exit=$rc $(grep -c '^VIOLATION' /var/tmp/mut-$$-$id.log) violation lines; first: $(grep -m1 '^VIOLATION' /var/tmp/mut-$$-$id.log | sed 's/.*clause=//')"
  tail -1 "/var/tmp/mut-$$-$id.log" | sed 's/^/  /'
  rm -f "/var/tmp/mut-$$-$id.log"
done
rm -rf /var/tmp/mut-ev-$$
git -C /repo worktree remove --force "$W"
