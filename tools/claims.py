# executed by gen_manifest.py
HOOK_COMMITS = []
NOT_APPLICABLE = {}
NOTES = ("Every verdict is produced by TLC evaluating a module under /verif/specs; Python only drives the real code, "
         "projects floats to the exact domain of the spec and ships events. See DESIGN.md.")

claim("C02", "TLC model checking of the exported table + trace validation of real SpaceGroup objects",
      "The finite domain (all 530 tabulated settings) is enumerated completely in both tiers: MC_SpaceGroup checks the group axioms, flag, "
      "lookup uniqueness and the step-by-step reduce/expand round trip on the table exported from the current tree; every setting is "
      "also constructed as a real SpaceGroup and its reported operations, flag, LATT, reduced list and both lookups are validated by TLC "
      "against Trace_SpaceGroup (plus seeded permutations of the operation-list order).",
      "Trusts TLC and the Symop decoding written in the spec; operation identity is by packed code as reported by the object (C11 checks that coding).")
