# executed by gen_manifest.py
HOOK_COMMITS = []
NOT_APPLICABLE = {}
NOTES = ("Every verdict is produced by TLC evaluating a module under /verif/specs; Python only drives the real code, "
         "projects floats to the exact domain of the spec and ships events. See DESIGN.md.")

claim("C02", "TLC model checking of the exported table + trace validation of real SpaceGroup objects",
      "The finite domain (all 530 tabulated settings) is enumerated completely in both tiers: MC_SpaceGroup checks the group axioms, flag, "
      "lookup uniqueness and the step-by-step reduce/expand round trip on the table exported from the current tree; every setting is "
      "also constructed as a real SpaceGroup and its reported operations, flag, LATT, reduced list and both lookups are validated by TLC "
      "against Trace_SpaceGroup (plus seeded permutations of the operation-list order).",
      "Trusts TLC and the Symop decoding written in the spec; operation identity is by packed code as reported by the object (C11 checks that coding).")

claim("C11", "TLC trace validation of codec/spelling/shift/apply events + exhaustive MC of the Symop module",
      "MC_Symop proves at design level that the ternary/duodecimal packing is a bijection, the text form is injective, composition respects "
      "equality modulo the lattice and InverseOp is the inverse for every unimodular matrix over {-1,0,1}. Every operation code of the 530 settings "
      "plus seeded random codes is driven through from_integer_code -> (rotation, translation) -> integer_code -> str -> from_string_code and validated "
      "field by field by TLC; spellings from the spec's grammar (text certified by TLC) are parsed by the real reader; translations offset by integers "
      "and rounding noise go through the constructor, +, -, inverted(); 3-vector/homogeneous/Cartesian application is compared with Symop!ApplyRaw. "
      "The thorough tier enumerates the 34,012,224 packed codes as a prefix bounded by its time budget (evidence states the prefix).",
      "Trusts TLC, the grid projection (residual > 1e-9 is rejected as OnGrid) and the decode written in the spec. Spelling grammar = Symop!Spelling.")

claim("C01", "TLC model checking of the unit-cell algorithm against the orbit + trace validation of real Crystal objects",
      "MC_Crystal checks, for every tabulated setting and every listed site of the N=12 grid (all 1728 in the thorough tier), that the three modelled "
      "steps of unit_cell_atoms (apply all operations identity-first, wrap, merge coincident images adding occupancies) produce exactly the symmetry "
      "orbit with each image once and occupancy conserved. For all 530 settings, real Crystal objects with 1-4 sites (general + exact special positions, "
      "partial occupancies, grids N=12/24/48, cells from a group-symmetrised integer Gram matrix, both cell construction routes) are built and their "
      "unit_cell_atoms()/slab() output, projected to the grid, is validated clause by clause by TLC (orbit equality, no duplicates, [0,1), generator "
      "operation, parent index, element/label, merged occupancy, total occupancy, Gram products of cart_pos, slab rows/cells/counts).",
      "Fractional coordinates are projected to the 1/N grid with residual <= 1e-6 (else rejected); sites are kept on the grid so no image is near the 0.01 merge "
      "tolerance; operation identity by packed code (C11). Cell shapes and site placements are sampled.")

claim("C04", "TLC trace validation of real molecular crystals + model checking of the BFS unwrapping",
      "MC_Molecules model-checks the breadth-first shift accumulation and re-centring of unit_cell_molecules on every consistent periodic bond "
      "graph with up to 3 (quick) / 4 (thorough) nodes: every bond is whole after unwrapping, each component visited once, centre re-centred into [0,1). "
      "For every one of the 530 settings real molecular crystals (1-3 mini-molecules of equal or different size on general grid positions, placed across "
      "cell boundaries) are built; TLC first evaluates the domain guard (every contact of the infinite crystal is an intended bond or clearly non-bonded) "
      "and then validates connectivity edges and cells, count Z' x |G|, partition of the unit-cell atoms, wholeness (each molecule is a lattice translate "
      "of the exact image of its parent, hence isometric and bonded), provenance columns, centre of mass in the cell, coverage by the symmetry-unique "
      "molecules and the image labels.",
      "Bond thresholds come from the library's covalent radii with a +-0.08 A guard band; molecule coordinates are projected to the 1/48 grid "
      "(residual > 1e-6 rejected); chemistry restricted to C/N/O/F/H trees of 2-5 atoms on general positions.")

claim("C03", "TLC trace validation against an exact brute-force neighbour enumeration + model checking of the search box",
      "MC_Neighbours model-checks, over a bounded family of integer Gram matrices including strongly oblique ones, that slab(search box)+ball test "
      "returns exactly the periodic images within the radius when the box is radius x reciprocal length (and exhibits the counterexample of the "
      "radius / cell-length box found at the pinned commit). Real crystals on exact grids (atomic and molecular, all crystal systems, tiny oblique "
      "triclinic/rhombohedral cells with radii of several cell lengths up to 12.5 A) are queried through atoms_in_radius, atomic_surroundings, "
      "molecule_environments and atom_group_surroundings; TLC recomputes the expected rows from the space group, the asymmetric unit and the integer "
      "Gram matrix by brute force over a box it certifies (BigInt inequality) to contain the query ball, and checks none missing / none extra / no "
      "duplicate / centre excluded / element, parent index, distance and cell columns.",
      "Radii are (k+1/2)u^2/N^2 so no atom is on the query sphere; returned Cartesian positions are pulled back with the crystal's to_fractional and "
      "projected to the grid (residual > 1e-6 rejected); functional_group_surroundings, molecular_shell and symmetry_unique_dimers share the "
      "search-box code but are not driven.")
