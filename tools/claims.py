# executed by gen_manifest.py
HOOK_COMMITS = ['da452d0']
NOT_APPLICABLE = {}
NOTES = ("Every verdict is produced by TLC evaluating a module under /verif/specs; Python only drives the real code, "
         "projects floats to the exact domain of the spec and ships events. See DESIGN.md.")

claim("C02", "TLC model checking of the exported table + trace validation of real SpaceGroup objects",
      "The finite domain (all 530 tabulated settings) is enumerated completely in both tiers: MC_SpaceGroup checks the group axioms, flag, "
      "lookup uniqueness and the step-by-step reduce/expand round trip on the table exported from the current tree; every setting is "
      "also constructed as a real SpaceGroup and its reported operations, flag, LATT, reduced list and both lookups are validated by TLC "
      "against Trace_SpaceGroup (plus seeded permutations of the operation-list order, the reduced description looked up sorted / without the identity / "
      "reversed and twice from one list, and a group constructed after the caller edited another object's operations). The table is also held against "
      "what its setting labels mean (Settings.tla, invariant TableSettings: origin choice 1/2, H/R, orthorhombic axis permutations, monoclinic unique axis, "
      "axis cycle and cell choices, as relations between the rows of one number). Every other genuine SHELX description of a setting is looked up as well: all 14 LATT values, reduced by the library and by an independent reference, with validity (LattValid) and meaning (Describes) decided by TLC; and the full list with matrices carrying rounding noise. Beyond the listed statement (reported as EXTENSION-NOTE, never as a verdict): MC_PointGroup holds the point-group table and the point group / crystal system / Laue class reported by every setting against PointGroup.tla. LATT is also handed over as numpy integers.",
      "Trusts TLC and the Symop decoding written in the spec; operation identity is by packed code as reported by the object (C11 checks that coding).")

claim("C11", "TLC trace validation of codec/spelling/shift/apply events + exhaustive MC of the Symop module",
      "MC_Symop proves at design level that the ternary/duodecimal packing is a bijection, the text form is injective, composition respects "
      "equality modulo the lattice and InverseOp is the inverse for every unimodular matrix over {-1,0,1}. Every operation code of the 530 settings "
      "plus seeded random codes is driven through from_integer_code -> (rotation, translation) -> integer_code -> str -> from_string_code and validated "
      "field by field by TLC; spellings from the spec's grammar (text certified by TLC) are parsed by the real reader; translations offset by integers "
      "and rounding noise go through the constructor, +, -, inverted() and the module-level encoders; free texts (repository CIF strings, freely composed "
      "rows) are judged by the specification's own byte-level reader (SymopText.tla); every read is compared, hashed and printed against the same operation "
      "built from the packed integer and the matrix; 3-vector/homogeneous/Cartesian application (also of operations built from integer matrices, of crystals "
      "switched in place, and after the caller edited the matrix it was handed) is compared with Symop!ApplyRaw. "
      "The thorough tier enumerates the 34,012,224 packed codes as a prefix bounded by its time budget (evidence states the prefix). Homogeneous vectors are also handed over un-normalised (weights 2 and 3, directions with weight 0) and the Cartesian form is taken on cells of special shape (right angles, equal edges, 120 degrees). is_identity is checked modulo the lattice; Cartesian forms are also taken for an operation list read from a file in an untabulated setting. Shifts may contain twelfths (Symop!Shift); SymopProofs.tla (19 TLAPS obligations) proves the translation arithmetic for all integers.",
      "Trusts TLC, the grid projection (residual > 1e-9 is rejected as OnGrid) and the decode written in the spec. Spelling grammar = Symop!Spelling.")

claim("C01", "TLC model checking of the unit-cell algorithm against the orbit + trace validation of real Crystal objects",
      "MC_Crystal checks, for every tabulated setting and every listed site of the N=12 grid (all 1728 in the thorough tier), that the three modelled "
      "steps of unit_cell_atoms (apply all operations identity-first, wrap, merge coincident images adding occupancies) produce exactly the symmetry "
      "orbit with each image once and occupancy conserved. For all 530 settings, real Crystal objects with 1-4 sites (general + exact special positions, "
      "partial occupancies, grids N=12/24/48, cells from a group-symmetrised integer Gram matrix, both cell construction routes) are built and their "
      "unit_cell_atoms()/slab() output, projected to the grid, is validated clause by clause by TLC (orbit equality, no duplicates, [0,1), generator "
      "operation, parent index, element/label, merged occupancy, total occupancy, Gram products of cart_pos, slab rows/cells/counts, and the same answer "
      "when asked again after exports and other queries). Also: special positions given to 3-12 decimals, integer-typed coordinates, more than 256 sites, cells "
      "re-specified in place, and crystals used in hexagonal axes and then switched in place (certified by Reexpress!SwitchedFromOK).",
      "Fractional coordinates are projected to the 1/N grid with residual <= 1e-6 (else rejected); sites are kept on the grid so no image is near the 0.01 merge "
      "tolerance; operation identity by packed code (C11). Cell shapes and site placements are sampled.")

claim("C04", "TLC trace validation of real molecular crystals + model checking of the BFS unwrapping",
      "MC_Molecules model-checks the breadth-first shift accumulation and re-centring of unit_cell_molecules on every consistent periodic bond "
      "graph with up to 3 (quick) / 4 (thorough) nodes: every bond is whole after unwrapping, each component visited once, centre re-centred into [0,1). "
      "For every one of the 530 settings real molecular crystals (1-3 mini-molecules of equal or different size on general grid positions, placed across "
      "cell boundaries) are built; TLC first evaluates the domain guard (every contact of the infinite crystal is an intended bond or clearly non-bonded) "
      "and then validates connectivity edges and cells, count Z' x |G|, partition of the unit-cell atoms, wholeness (each molecule is a lattice translate "
      "of the exact image of its parent, hence isometric and bonded), provenance columns, centre of mass in the cell, coverage by the symmetry-unique "
      "molecules and the image labels. Every in-place switch of the recipes is preceded by a request the object must refuse (a misspelt choice). Atom names may repeat in every molecule; the unit-cell atoms handed out stay as they were after molecule queries; neighbour molecules handed out are moved by the caller. Solid dihydrogen is among the recipes.",
      "Bond thresholds come from covalent radii held by the specification (Molecules!CovRadius100, certified by ThresholdsOK) with a +-0.08 A guard "
      "band; molecule coordinates are projected to the 1/48 grid (residual > 1e-6 rejected); chemistry restricted to trees of 2-5 atoms of "
      "C/N/O/F/H with terminal Cl/Br/I/S, on general positions, every non-bonded contact at least 0.65 A beyond the sum of radii.")

claim("C03", "TLC trace validation against an exact brute-force neighbour enumeration + model checking of the search box",
      "MC_Neighbours model-checks, over a bounded family of integer Gram matrices including strongly oblique ones, that slab(search box)+ball test "
      "returns exactly the periodic images within the radius when the box is radius x reciprocal length (and exhibits the counterexample of the "
      "radius / cell-length box found at the pinned commit). Real crystals on exact grids (atomic and molecular, all crystal systems, tiny oblique "
      "triclinic/rhombohedral cells with radii of several cell lengths up to 12.5 A) are queried through atoms_in_radius, atomic_surroundings, "
      "molecule_environments, atom_group_surroundings and (molecular crystals, radii up to 6.5 A) molecular_shell and symmetry_unique_dimers, whose answers "
      "are whole molecules judged by Dimers!ShellExpected (every atom within the radius drags in the molecule it belongs to; per dimer: reported "
      "separation, class agreement, representatives); TLC recomputes the expected rows from the space group, the asymmetric unit and the integer "
      "Gram matrix by brute force over a box it certifies (BigInt inequality) to contain the query ball, and checks none missing / none extra / no "
      "duplicate / centre excluded / element, parent index, distance and cell columns. molecule_environment is also asked for a molecule handed over with displaced coordinates (single precision under the default threshold; a coarser copy with a stated threshold), TLC certifying a shell clear of atoms around the query sphere (GivenGuard). The transform each dimer of symmetry_unique_dimers carries must fit its own two molecules as well as the harness's own SVD fit.",
      "Radii are (k+1/2)u^2/N^2 so no atom is on the query sphere; returned Cartesian positions are pulled back with the crystal's to_fractional and "
      "projected to the grid (residual > 1e-6 rejected); functional_group_surroundings shares the search-box code but is not driven; which geometrically "
      "distinct dimers share a class is left to the library (three separations within a tolerance).")

claim("C16", "TLC trace validation of the bytes written/read by the real XYZ/SDF code + exhaustive MC of the format model",
      "MolFormats.tla specifies both formats on byte sequences (writer, fixed-column layout predicate, declarative reader and a line-by-line reader shaped like "
      "parse_sdf_contents; XYZ grammar of spellings). MC_MolFormats exhaustively checks Read(Write(m)) = m, layout, step-wise reading and multi-record files for "
      "1-3 atom molecules over a coordinate alphabet covering the format's range. Real molecules (1-200 atoms, every Z in 1..103, with/without perceived bonds, "
      "bond indices >= 100, 1-4 records per file, save/load and string routes, the repository's SDF file) are written by the library; TLC checks the V2000 columns "
      "of every line on the actual bytes, parses the text with the spec's own reader and compares with both the original molecule and the library's reader; XYZ "
      "spellings certified by the spec's grammar are parsed by the real reader. Molecules carry title comments (empty, blank, text) and spec-written multi-record files are also stored with CRLF line ends. XYZ files carry further per-atom columns; SDF readers are used with the limit keyword; written molecules carry titles. Beyond the listed statement (EXTENSION-NOTE only): Trace_Mol2File holds molecules read from .mol2 files whose MOLECULE/ATOM/BOND records the specification itself writes (Mol2File!Mol2Text): elements from SYBYL atom types, labels, coordinates, bonded pairs for every bond type; Smiles.tla specifies the SMILES reader as a token machine (MC_Smiles: every token string up to depth 7/9, invariants on bonds, registers, bond count and connectedness; the well-formed strings TLC prints plus longer generated ones are read by chmpy.fmt.smiles.parse and judged by Trace_Smiles); CubeFile.tla writes cube files and specifies the CubeData object (MC_Cube: histories of origin shifts keep every atom in place relative to the grid; Trace_Cube steps through such histories on the real object).",
      "Coordinates are decimals built from integers (one digit group finer than the format is accepted either way); float noise allowance 1e-8 only above 8192 for XYZ.")
claim("C05", "TLC trace validation of rho/weights against the exported interpolation table + MC of the evaluation-context state machine",
      "Promolecule.tla specifies table lookup, linear interpolation, per-atom and per-set density, the kernel's accumulation loop and the stockholder weight as exact "
      "integer/BigInt arithmetic on table rows read with numpy directly from thakkar_interp.npz; MC_Promolecule model-checks order/motion invariance, additivity, "
      "positivity and the weight identities over small tables and all atom orders x 24 cube rotations. Real PromoleculeDensity/StockholderWeight objects (element sweeps "
      "over distances spanning the table, molecules of 1-40 atoms, poses from integer quaternions on a float32-exact grid) are evaluated and every point is checked by "
      "TLC: atom value inside the interpolation interval, set = sum of atoms, positivity, permutation/motion invariance, weight definition, range and complementarity. Also: calls in chunks and on reused buffers, objects kept and moved in place through their own positions array (beyond the listed statement: EXTENSION-NOTE only), atoms arriving through .xyz files (label spellings, blank titles, further per-atom columns), a 1101-atom system, the empty atom set, and the density table and reference interpolator themselves (Trace_Lerp).",
      "float32 kernel: relative slack 2e-5 plus an interval for the 1/4096 quantisation of t; points >= 0.35 A from nuclei; compiled kernel used as found.")
claim("C20", "TLC model checking of the Sobol state machine on the exported direction-number table + trace validation of every generator route",
      "QuasiRandom.tla builds the direction numbers by the Joe-Kuo recurrence in exact integers and runs the Gray-code generator as a state machine; MC_QuasiRandom "
      "(data-driven: table exported from the tree) checks stratification at every power of two and the (0,m,2)-net property for dimensions 1..40 + seeded others "
      "(quick) / all 1..1000 with m <= 12 (thorough, 4.1M states), and enumerates all ordered pairs of calls over a 72-call alphabet for replay. Sessions of shuffled "
      "single/batch/front-end calls on windows [s, s+k] (s <= 10^6, k <= 256, up to 1000 dims) are validated one TLC step per point: Sobol values must equal the spec's "
      "integers exactly (the point of a seed in the Gray-code enumeration or in the natural one: the statement fixes the point set of each leading block of 2^m, not the order inside it), all values in [0,1), and an observation register demands the same value for the same (method, seed, dim) by every route and order. Sessions include windows across powers of two and across the multiples of 2^16 beyond 2^19, many dimensions (next to the multiples of 128) at large seeds, and both methods asked in turn through the front end. A stream is read in consecutive chunks across powers of two, and far windows are asked from six threads at once. Korobov windows end on all-ones seeds, and calls leave the seed out.",
      "Korobov values have no exact oracle (range, determinism and route agreement to 2^-60 only); compiled kernels used as found.")

claim("C13", "TLC trace validation of P1/supercell/trigonal re-expressions + model checking of the trigonal basis change",
      "Reexpress.tla states the two trigonal basis changes exactly (integer matrices, Gram congruence) and what 'same arrangement' means. MC_Reexpress checks for "
      "the seven R-lattice groups (operation lists of both settings exported from the tree) and the listed sites of the N=12 grid (all 1728 in thorough) that the "
      "hexagonal and rhombohedral descriptions coincide atom by atom modulo the lattice with counts 3:1, and that H->R->H and R->H->R restore the state. Real crystals "
      "(molecular and atomic, all settings in thorough, cells from parameters / lattice vectors / arbitrarily rotated lattice vectors) go through as_P1, as_P1_supercell, "
      "to_translational_symmetry (sizes to 3x3x3) and choose_trigonal_lattice from either setting and back; TLC checks P1-ness, the supercell Gram matrix, the exact atom "
      "set modulo the supercell, atom and volume ratios, density, the switched state against SwitchTrigonal, and the round trip. Other structures (a CIF in an untabulated setting, a POSCAR) are loaded in the same process before the judged calls. General sites may be partially occupied. Two occupants of one site are judged on the density of the crystal against its P1 form.",
      "Cells are seen through their integer Gram matrix; coordinates projected to the grid (residual > 1e-6 rejected); density to 1e-6 relative; fresh objects only (staleness is C14).")

claim("C14", "TLC model checking of the memo/mutation state machine + TLC-enumerated histories replayed on real objects and trace-validated",
      "CrystalObject.tla models a Crystal as an object with an exact structural state (setting, integer Gram matrix, grid sites), read-only queries, the in-place "
      "trigonal switch (computed exactly by Reexpress!SwitchTrigonal) and deep copies, with the memo bookkeeping of the implementation. MC_CrystalObject proves for all "
      "histories up to depth 5 (quick) / 6 (thorough) with 2 objects that the specified design never answers from a stale memo and that queries do not mutate, and "
      "exhibits the shortest stale history of the design found at the pinned commit. TLC then prints every history up to length 2 over all 14 queries and length 3 over the "
      "8-query core (thorough: 3 / 4); each is replayed on real objects of three structures (built in memory, loaded from CIF, loaded from SHELX) plus random histories "
      "of length 5-12, and Trace_CrystalObject validates every event: the answer equals the answer of a freshly constructed crystal with the same cell, space group and "
      "asymmetric unit, every answer to the same (query, state) is the same (register), queries leave the state untouched, a switch produces exactly the state the spec computes. Requests the object must refuse (misspelt choices; a switch asked of P1 / P3_1) are events of their own (SpecRefused: state unchanged); symmetry_unique_dimers is in the alphabet; ask - change - ask again is replayed for every query. normalize_hydrogen_bondlengths - the second in-place state change named in the anchors - is an operation of the model (Normalize) and of the replayed histories: what may move is checked (NormalizeClause), the state after it is known by the signature of its exact floats (an opaque state), and answers of off-grid states are digested 2^14 times finer.",
      "Answers are compared as digests of canonical projections; exported texts are compared through the structure they load back to; the only state-changing "
      "operation offered by the API in scope is choose_trigonal_lattice.")

claim("C19", "TLC trace validation against an exact half-space intersection computed in TLA+ + model checking of the construction pipeline on named polyhedra",
      "Wulff.tla computes, in exact integer/BigInt arithmetic on rational unit normals (Pythagorean quadruples) and rational energies, the vertices of {x : n_i.x <= e_i} "
      "from all plane triples (Cramer), facet membership, edges and the volume. MC_Wulff runs the code's pipeline step by step (dual points, hull simplices, vertices and "
      "facet lists, prune and CCW order, fan triangles) on 9 named polyhedra x 5 rational scales x 3 simplex rotations against hand-computed vertex sets and volumes and the "
      "scaling law. Real WulffConstruction objects (named/degenerate shapes, generic centrosymmetric and non-centrosymmetric facet sets of 6-20 facets in quick, up to 60 in "
      "thorough, energies within a factor two) are validated by TLC: vertex set equality, all inequalities, >= 3 facets per vertex, exact facet lists, outward closed mesh "
      "(raw triangles merged by position and to_trimesh), edge set, exact and float volume, and scaling by a rational factor. The list-of-planes route (from_gmf_and_crystal) runs on 34 settings including A-, C-, F- and I-centred ones. The shape is also asked for its spherical-harmonic form at another scale, and the same planes are expanded earlier for another setting of the same type.",
      "Vertices are projected to the exact rational vertex set (residual bound 1e-8); needle-like shapes beyond 32 units and vertices closer than 1e-4 are out of domain (guards evaluated by TLC).")

claim("C15", "TLC model checking of the CIF parser state machine + trace validation of the real serialiser/parser on its own bytes",
      "Cif.tla holds a typed data model, the serialiser as operators and the line-dispatch parser as a state machine over byte lines (one action per kind of line, "
      "quote-aware tokeniser, ParseValue with uncertainty stripping); as-built deviations are named and used only by --explain. MC_Cif exhaustively checks "
      "Parse(Ser(d)) = d with the parser actions taken step by step for all small data sets (<= 2 blocks, <= 3 items, <= 3 cells, a 10-value alphabet incl. negative "
      "ints, integer-valued decimals, uncertainty forms, strings with blanks/commas/quotes/double blanks): 616k states quick, ~15M thorough. Seeded random dictionaries, "
      "the repository's CIF files, the dictionaries written by real Crystal objects (Crystal.to_cif_data: the CIF leg of C10 at byte level) and parse_value forms go through the real Cif(d).to_string()/Cif.from_string; TLC checks block names, item names, row alignment, value "
      "types and values against the original, then runs the spec's own parser on the written bytes and demands agreement with the library's parser. Tables include rows of more than 2048 characters, long free text (thorough) and strings that contain a reserved word inside. The empty string is inside the domain; a file route rewrites and rereads one path.",
      "Domain guard evaluated by TLC (empty blocks/strings, strings needing nested quotes, number-like strings are out of domain as the statement says); floats shipped as exact digit sequences, loop-cell floats compared to 5e-13 + 1e-15|x|.")

claim("C10", "TLC trace validation of file content and reloaded crystals for all 530 settings x 3 formats + MC of the LATT/SYMM round trip",
      "CrystalFile.tla states what each format must carry: a .res text denotes a space group through SHELX semantics (SpaceGroup!Expand of LATT + SYMM, each SYMM text "
      "certified as Symop!ToText of its operation), CELL to 6 decimals, SFAC/atom lines; a POSCAR holds every unit-cell atom (Crystal orbit) of a P1 crystal with the same "
      "Gram matrix; a reloaded CIF/.res crystal has the same IT number, operation set, cell parameters (written precision), labels, elements, grid coordinates and (CIF) "
      "occupancies. Every tabulated setting is exercised in all three formats in both tiers, through the string functions and save()/load() on real files, with crystals "
      "built in memory or themselves loaded from CIF/.res. MC_SpaceGroup (shared with C02) establishes the reduce/expand round trip on the exported table. A POSCAR composed as other programs write it must load as what it says. Beyond the listed statement (EXTENSION-NOTE only): Trace_GenFile and Trace_PdbFile hold crystals read from .gen files (kinds F and S) and from PDB files whose records the specification itself writes (PdbFile!PdbText).",
      "Coordinates projected to the grid (residual <= 1e-8); cells compared at 1e-6 (2e-6 for .res); occupancy is not demanded for .res (the dialect chmpy writes has no such column); the reference is the crystal actually written.")

claim("C17", "TLC enumeration of the complete spelling domain from an independent symbol table + trace validation of every real lookup",
      "Element.tla carries its own periodic table (letter codes of the 103 symbols), generates every spelling a user may type (letter cases, padding, number strings, "
      "atom-site labels = symbol + digits + suffix, and every 1-2 letter string that is no symbol) and states what each must resolve to; MC_Element checks the table and "
      "grammar at design level (distinct symbols, unambiguous spellings, rejected strings never coincide with accepted ones, Less is a strict total order with carbon "
      "first) and prints the whole finite domain. Every printed spelling goes through Element[...], from_string and from_label; all integers -200..300 through Element[n], "
      "from_atomic_number and a numpy integer; the library's own name of every Z in three letter cases; radii/mass by four routes; random multisets through sorted() and "
      "chemical_formula. TLC validates each observation against Element!Lookup / SortSpec / Formula. Spellings include the kind prefixed (a non-letter in front of a symbol names no element); non-integral numbers must be rejected; atomic numbers arrive in every numpy integer type (lookups, comparisons, sorting). Digit strings decorated as int() tolerates (+6, 1_0) must be rejected; empty arrays have empty answers. ElementProofs.tla (TLAPS) proves that the ordering is a strict total order on all integers.",
      "Names and numeric columns are the library's own data (consistency across routes only); 'D' is deliberately hydrogen; quick tier enumerates every third rejected code, thorough all.")

claim("C12", "TLC trace validation of every UnitCell construction route in exact BigInt arithmetic + model checking of the lattice identities",
      "Lattice.tla defines the exact geometry of an integer lattice / integer Gram matrix with rational scale (Gram, adjugate inverse, reciprocal metric, squared lengths, "
      "signed cos^2, volume^2) and the constructors as actions. MC_Lattice checks the polynomial identities (adj L . L = det I, adj G . G = det G I, det G = det(L)^2, star "
      "formulas = reciprocal metric, the identities behind the lower-triangular direct/inverse matrices, BigInt = plain arithmetic) over all lattices with entries -2..2 up "
      "to symmetry (334k states quick, 4.8M thorough) and prints lattices for replay. Real cells (random, near-degenerate 8..170 degrees, six crystal families, TLC-emitted) go "
      "through UnitCell(vectors), from_lengths_and_angles, triclinic and all seven named constructors in radians and degrees; TLC checks Gram, mutual inverses, aliases, "
      "reciprocal metric, lengths, angles, volume = determinant, star quantities, to_cartesian, the fractional round trip and route-vs-route agreement. Routes include unit keywords made at run time, cells re-specified after a near twin (7th digit) and a near twin built earlier in the process. Beyond the listed statement (EXTENSION-NOTE only): Trace_Reflections holds reflections() / unique_reflections on integer reciprocal lattices against Reflections.tla.",
      "Floats shipped as round(x 2^44) BigInts; slack 2^-30 x (abc/V)^2 computed exactly from G (measured noise <= 3e-15 x (abc/V)^2); guards: lengths 1..100, angles 8..170 degrees.")
claim("C18", "TLC trace validation with an exact optimality certificate and a rational rotation net + model checking of the post-SVD steps",
      "Kabsch.tla states orthogonality, determinant +1, exact superposition, the first/second-order optimality certificate (R^T H symmetric, tr(M) I - M positive semidefinite "
      "by principal minors) and optimality against a net of exact rational rotations from integer quaternions. MC_Kabsch shows for every integer covariance with entries -1..1 that "
      "the certificate implies optimality in the net and that the code's post-SVD steps on integer SVDs always give a certified proper rotation (69k states; as-built deviation "
      "without determinant correction named). Real kabsch_rotation_matrix / reorient_points / rmsd_points / Dimer(transform_ab='calculate') run on integer point sets (generic, "
      "planar, collinear; rotated, mirrored, noisy; 3..50 points; TLC-emitted degenerate covariances); TLC checks Orthogonal, Det1, Superposes, both certificate clauses, "
      "NoBetterInNet (|q|^2 <= 30, ~2200 rotations), Reorient and Rmsd on outputs quantised to 2^-20. Inputs are also given in other length units (exact powers of two down to 2^-34), reorientation is requested in other spellings (honoured or refused), and dimers are built from two molecules of one asymmetric unit. Beyond the listed statement (EXTENSION-NOTE only): MC_MoleculeObject and Trace_MoleculeObject hold Molecule objects under translate/rotate/transform, their copying forms, mask and deepcopy against MoleculeObject.tla.",
      "Optimality over SO(3) is decided by the exact certificate on the quantised output plus the finite net, with slack tau = 2^-13 (|A|^2+|B|^2)/2; the SVD itself is not modelled.")

claim("C06", "TLC trace validation of real meshes (static clauses + cell-by-cell sweep replay) + model checking of the sweep invariant",
      "IsoMesh.tla defines, on integer fields with half-integer levels, exact edge crossings, the vertex-on-level rule (grid-edge crossing or Lewiner interior vertex "
      "inside a straddling cell), one vertex per straddling edge, closed manifold (valid faces, each directed edge once, its twin once), orientation by exact signed "
      "volume (BigInt), reversal under the other gradient direction, sphere volume bounds with 333/106 < pi < 355/113, exact integer ray casting for enclosure, and the "
      "sweep action ProcessCell with its inductive invariant. MC_IsoMesh model-checks a reference mesher over all binary 2x2x2-cell fields (both paddings, values 0..2 in "
      "thorough) cell by cell. Real chmpy.mc.marching_cubes output for all 255 corner patterns x 3 levels (all 189,790 single-cube fields in thorough), random multi-blob grids "
      "with anisotropic spacing and both directions, integer spheres, and the six surface entry points (surface.py functions, Molecule/Crystal wrappers at separations "
      "1.0/0.5/0.3/0.2) is validated by TLC, including a replay of the sweep on the real mesh partitioned by cell, enclosure of own atoms / exclusion of neighbours, and the "
      "level-residual trend across separations.",
      "Compiled Lewiner kernel used as found; vertices shipped at 1/3072 with slack 8 units; open known finding C06-lewiner-membrane (twinned faces on ambiguous cell faces) is tagged by a TLC predicate and reported as KNOWN-FINDING.")

claim("C09", "TLC-certified poses + relational trace validation of real descriptor entry points; model checking of the pose group",
      "Descriptor.tla models the pose of a molecule (and its environment) exactly on an integer grid under a group of actions (translations up to 50 A, cube rotations, "
      "rational rotations from integer quaternions, adjacent transpositions of interior and exterior atoms). MC_Descriptor checks rigidity, closure and orthogonality of that "
      "group and prints every action word up to a depth. For each word the real code (promolecule_density_descriptor, Molecule.shape_descriptors, "
      "stockholder_weight_descriptor; channels none/d_norm/esp; l_max 4..12) is run on coordinates that TLC certifies to be the word applied to the base, and the descriptor "
      "must equal the identity-pose descriptor within Tol(word class, l_max): 5e-3 for translation/permutation words, a non-increasing table (0.15/0.10/0.08) for words "
      "containing a rotation. Radii returned by the public radial solvers must lie in the bounds and satisfy the isovalue equation (2e-3), and probes whose bounds cannot "
      "contain the surface must raise. Molecules and atoms in their crystal: Crystal.molecular_shape_descriptors and "
      "Crystal.atomic_shape_descriptors on different listings of one P1 crystal (cell origin moved, atoms re-ordered, a doubled cell; each listing certified by "
      "Descriptor!CApplyWord) must give the same set of descriptor rows within 5e-3. Crystal objects are also used with short radii first; methyl compounds and H2S are listed hydrogens first; a listing on which no surface lies inside the bounds must say so in every listing (then out of domain).",
      "Relational oracle only (the thinnest specification of the twenty, as the design says): the descriptor values themselves are not computed in TLA+; rotation tolerance is "
      "dominated by the discretisation error of the non-band-limited radial function, so sub-percent rotation defects (e.g. the N-slice defect, caught exactly by C08) are below it; "
      "Molecule.atomic_shape_descriptors and the functional-group descriptors of Crystal are not driven; molecules are bonded clusters "
      "(TLC guard OneMolecule: scattered atoms are not a molecule and the radial search may legitimately find no single surface).")

claim("C07", "TLC trace validation against scipy reference harmonics with exact Gaussian-integer coefficient state + model checking of layouts, grid rule and completion",
      "SHT.tla keeps the abstract state of a function as its exact coefficient vector over Gaussian integers plus a representation tag, and specifies the two coefficient "
      "layouts, the grid-size rule with its sufficiency conditions, Hermitian completion, power, scaling/addition and Parseval exactly. MC_SHT (121k states, L <= 4; thorough "
      "L <= 5) checks that both layouts are bijections in kernel order, the transcribed grid rule is sufficient for every L in 0..64, completion is injective/linear/power "
      "preserving, and the as-coded loops equal the declarative operators. Real SHT objects for L in {0..12,16,23,32,47} (thorough 0..64) run event sequences (Load, Sample "
      "from scipy sph_harm_y, Synthesis/Analysis compiled and pure Python, real and complex, Complete, PowerSpectrum, EvalAt, Combine) on dense vectors and every single "
      "channel; TLC checks each observation (reference synthesis, exact coefficients, route agreement, completion, power, Parseval in BigInt, point evaluation). Grids chosen by the caller (smallest exact grid, odd numbers of latitudes) are driven as well. Azimuths outside [0, 2 pi) and band limits given as numpy integers are used.",
      "Y_lm values are imported from scipy as 2^-40 fixed-point data (not computable in TLA+); slack 2^-30 relative; compiled kernels used as found; L = 0 complex skipped as in the statement.")
claim("C08", "TLC exact oracle for N invariants / power spectrum / P ordering + relational rotation checks; model checking of the exact rotation subgroup",
      "Invariants.tla computes N2(l), Power(l) and the P-triple selection (number, order, cap) exactly on Gaussian-integer coefficient vectors and defines the exact rotations "
      "RotZ4 and FlipY. MC_Invariants (175k / 480k states) checks that N2 and Power are constant on every orbit of the order-8 group they generate, locality of N2 in the degree, "
      "and that the kernel's triple loop equals the declarative selection for l_max 0..26. Real make_N_invariants / make_invariants / p_invariants_c / power_spectrum outputs "
      "(l_max 1..12 and 22..26, complex and Hermitian vectors) must equal the exact N2/Power, have the specified length/order, be local in the degree, and be unchanged under "
      "all D4 words (exact) and 50 / 1152 general rotations supplied by the harness and guarded by TLC (N2 preserved, else out of domain).",
      "P-invariant values have no exact oracle (Clebsch-Gordan coefficients): checked relationally on their cubes; general rotations are numerical (scipy + least squares) and only trusted under the TLC guard.")
