#!/venv/bin/python
"""Regenerates /verif/MANIFEST.json from the table below (kept in one place so it stays valid)."""
import json, os
HERE = os.path.dirname(os.path.dirname(os.path.abspath(__file__)))
PROPS = [json.loads(l) for l in open(os.path.join(HERE, "properties.jsonl"))]

# id -> (category, technique, text, note, design_ref)
CLAIMS = {}
def claim(pid, technique, text, note, cat="model_checking", ref=None):
    CLAIMS[pid] = dict(cat=cat, technique=technique, text=text, note=note, ref=ref or "DESIGN.md section 5 (%s)" % pid)

exec(open(os.path.join(HERE, "tools", "claims.py")).read())

checks = []
for p in PROPS:
    pid = p["id"]
    if pid not in CLAIMS:
        continue
    c = CLAIMS[pid]
    checks.append({
        "property_id": pid,
        "quick_cmd": "./check %s --tier quick" % pid,
        "thorough_cmd": "./check %s --tier thorough" % pid,
        "evidence_file": "/verif/evidence/%s.json" % pid,
        "replay_cmd_template": "./check %s --replay {path}" % pid,
        "engine": "tlc",
        "level_claimed": {"category": c["cat"], "text": c["text"], "design_ref": c["ref"]},
        "level_note": c["note"],
        "technique": c["technique"],
    })
na = [{"property_id": p["id"], "reason": NOT_APPLICABLE.get(p["id"], "check not built yet in this round; planned in DESIGN.md section 5")}
      for p in PROPS if p["id"] not in CLAIMS]
m = {
    "version": 1,
    "setup_cmd": "cd /verif && ./tools/setup.sh",
    "hooks": {
        "guard": "CHMPY_VERIF",
        "enable": "checks import /repo/src directly (editable install; nothing to build) with CHMPY_VERIF=1 in the environment (set by harness/common.py) and install a tracer through chmpy.util._verif.install(); two add-only hook sites emit one event per iteration of reduced_symmetry_list and per BFS tree edge of unit_cell_molecules; all other events are recorded at the return of public calls by wrappers in /verif/harness",
        "baseline_off_cmd": "cd /repo && env -u CHMPY_VERIF /venv/bin/python -m pytest -ra -q -p no:cacheprovider --timeout=900 --continue-on-collection-errors",
        "source_commits": HOOK_COMMITS,
        "add_only": True,
    },
    "engines": [{"name": "tlc", "path": "/verif/harness/tlc.py", "serves_properties": sorted(CLAIMS),
                 "kind_free_text": "TLA+ specification under /verif/specs checked by TLC 1.8 (bounded exhaustive model checking of MC_* instances; trace validation of executions recorded from the real code against Trace_* modules)"}],
    "checks": checks,
    "notes": NOTES,
    "not_applicable": na,
}
json.dump(m, open(os.path.join(HERE, "MANIFEST.json"), "w"), indent=1)
print("claimed:", sorted(CLAIMS), "not claimed:", [x["property_id"] for x in na])
