#!/venv/bin/python
"""tools/seed_eval.py /tmp/brk_cNN_out [check ids to run, default CNN]

Confirms each change_k.diff produced by an independent breaker agent (who saw only the property text) in a scratch
worktree of /repo (never in /repo): the repo's tests stay at baseline, demo_k.py fails with the change and passes
without it. Confirmed changes are stored under /verif/seeded/<Cxx>-<k>/ (patch.diff, demo.py, notes.md, meta.json) and the
registered checks are run against the changed tree (VERIF_REPO); the outcome is recorded in meta.json.
"""
import glob
import json
import os
import re
import shutil
import subprocess
import sys
import time

VERIF = os.path.dirname(os.path.dirname(os.path.abspath(__file__)))
BASELINE_FAIL = {"src/chmpy/tests/promolecule/test_density.py::PromoleculeDensityTestCase::test_repr"}


def sh(cmd, **kw):
    return subprocess.run(cmd, shell=True, text=True, stdout=subprocess.PIPE, stderr=subprocess.STDOUT, **kw)


def worktree():
    w = "/var/tmp/seed-%d" % os.getpid()
    sh("git -C /repo worktree remove --force %s" % w)
    r = sh("git -C /repo worktree add -q --detach %s HEAD" % w)
    assert r.returncode == 0, r.stdout
    sh("cd /repo && rsync -a --include='*/' --include='*.so' --exclude='*' src/ %s/src/" % w)
    return w


def run_tests(w):
    r = sh("cd %s && env -u CHMPY_VERIF PYTHONPATH=%s/src /venv/bin/python -m pytest -q -p no:cacheprovider --timeout=900 -rf src/chmpy/tests 2>&1 | tail -15" % (w, w))
    failed = set(re.findall(r"^FAILED (\S+)", r.stdout, re.M))
    errors = re.findall(r"^ERROR (\S+)", r.stdout, re.M)
    m = re.search(r"(\d+) passed", r.stdout)
    return failed, errors, int(m.group(1)) if m else 0, r.stdout[-600:]


def run_demo(demo, src):
    r = sh("cd /var/tmp && CHMPY_SRC=%s PYTHONPATH=%s /venv/bin/python %s 2>&1 | tail -5" % (src, src, demo), timeout=1200)
    p = subprocess.run("cd /var/tmp && CHMPY_SRC=%s PYTHONPATH=%s /venv/bin/python %s > /dev/null 2>&1" % (src, src, demo), shell=True, timeout=1200)
    return p.returncode, r.stdout[-400:]


def main():
    offset = 0
    for a in list(sys.argv):
        if a.startswith("--offset="):
            offset = int(a.split("=")[1])
            sys.argv.remove(a)
    out = sys.argv[1]
    m = re.search(r"brk_(c\d+)_out", out)
    assert m, "directory must be named brk_cNN_out (the property the breaker was given)"
    pid = m.group(1).upper()                       # owner = the property the breaker agent was given
    checks = [c.upper() for c in sys.argv[2:]] or [pid]
    for diff in sorted(glob.glob(os.path.join(out, "change_*.diff"))):
        k = re.search(r"change_(\d+)\.diff", diff).group(1)
        demo = os.path.join(out, "demo_%s.py" % k)
        notes = os.path.join(out, "notes_%s.md" % k)
        sid = "%s-%d" % (pid, int(k) + offset)
        w = worktree()
        meta = {"id": sid, "property": pid, "source": "independent sub-agent given only the property text", "confirmed": False,
                "evaluated_at_repo_commit": sh("git -C /repo log --format=%h -1").stdout.strip()}
        try:
            rc_clean, out_clean = run_demo(demo, w + "/src")
            ap = sh("git -C %s apply %s" % (w, diff))
            if ap.returncode != 0:
                ap = sh("cd %s && patch -p1 -F3 -s --no-backup-if-mismatch < %s" % (w, diff))
            meta["applies"] = ap.returncode == 0
            if ap.returncode != 0:
                meta["note"] = "patch does not apply to the current tree: " + ap.stdout[-300:]
                print(sid, "DOES-NOT-APPLY")
                continue
            failed, errors, passed, tail = run_tests(w)
            rc_mut, out_mut = run_demo(demo, w + "/src")
            meta.update(tests_failed=sorted(failed), tests_errors=errors, tests_passed=passed, demo_without_change_exit=rc_clean,
                        demo_with_change_exit=rc_mut, demo_output_with_change=out_mut)
            ok = failed <= BASELINE_FAIL and not errors and passed >= 90 and rc_clean == 0 and rc_mut != 0
            meta["confirmed"] = bool(ok)
            if not ok:
                print(sid, "NOT-CONFIRMED tests_failed=%s errors=%s demo clean=%s mutated=%s" % (sorted(failed), errors, rc_clean, rc_mut))
                continue
            res = {}
            for c in checks:
                t0 = time.time()
                r = sh("cd %s && VERIF_REPO=%s VERIF_EVIDENCE_DIR=/var/tmp/seed-ev-%d ./check %s 2>&1 | grep -v -E 'Warning|theta'" % (VERIF, w, os.getpid(), c))
                if "MACHINERY-FAILURE" in r.stdout:
                    open("/var/tmp/seed-fail-%s-%s.log" % (sid, c), "w").write(r.stdout)
                viol = re.findall(r"^VIOLATION .*clause=(\S+)", r.stdout, re.M)
                summ = [l for l in r.stdout.splitlines() if l.startswith(c + " tier=")]
                mach = "MACHINERY-FAILURE" in r.stdout
                res[c] = {"detected": bool(viol), "clauses": sorted(set(viol))[:8], "summary": summ[-1] if summ else r.stdout[-300:],
                          "machinery_failure": mach, "wall_s": round(time.time() - t0, 1)}
                print(sid, c, "DETECTED" if viol else ("MACHINERY-FAILURE" if mach else "MISSED"), sorted(set(viol))[:4])
            d0 = os.path.join(VERIF, "seeded", sid, "meta.json")
            if os.path.exists(d0):
                try:
                    old = json.load(open(d0)).get("checks", {})
                    for c0, v0 in old.items():
                        res.setdefault(c0, v0)
                except Exception:
                    pass
            meta["checks"] = res
            meta["needs"] = open(notes).read()[:1500] if os.path.exists(notes) else ""
            d = os.path.join(VERIF, "seeded", sid)
            os.makedirs(d, exist_ok=True)
            shutil.copy(diff, os.path.join(d, "patch.diff"))
            shutil.copy(demo, os.path.join(d, "demo.py"))
            if os.path.exists(notes):
                shutil.copy(notes, os.path.join(d, "notes.md"))
            meta["ran"] = ["git worktree add <scratch> HEAD; git apply patch.diff; pytest src/chmpy/tests (baseline kept); demo.py with and without the change; "
                           "VERIF_REPO=<scratch> ./check " + " ".join(checks)]
            json.dump(meta, open(os.path.join(d, "meta.json"), "w"), indent=1)
        finally:
            sh("git -C /repo worktree remove --force %s" % w)
            shutil.rmtree("/var/tmp/seed-ev-%d" % os.getpid(), ignore_errors=True)


if __name__ == "__main__":
    main()
