#!/bin/sh
# usage: tools/seed_reeval.sh <seeded id e.g. C03-3> <check ids...>
# Re-evaluates a stored seeded change against the current checks (after a check was strengthened): rebuilds the breaker-style
# input directory from seeded/<id>/ and runs tools/seed_eval.py on it, which refreshes seeded/<id>/meta.json.
set -eu
sid=$1; shift
pid=$(echo "$sid" | cut -d- -f1 | tr 'A-Z' 'a-z'); k=$(echo "$sid" | cut -d- -f2)
d=/var/tmp/reeval-$$/brk_${pid}_out
mkdir -p "$d"
cp /verif/seeded/$sid/patch.diff "$d/change_$k.diff"
cp /verif/seeded/$sid/demo.py "$d/demo_$k.py"
[ -f /verif/seeded/$sid/notes.md ] && cp /verif/seeded/$sid/notes.md "$d/notes_$k.md"
/verif/tools/seed_eval.py "$d" "$@"
rm -rf /var/tmp/reeval-$$
