#!/usr/bin/env python3
"""usage: tools/benign_store.py <results.log> [<source prefix, default /tmp/ben_> <tag, default b>] : copies the evaluated property-preserving changes of /tmp/ben_N_out into
/verif/benign/<Cxx>-b<N>-<k>/ (patch.diff unless larger than 300 kB, notes.md, result.json) and prints the table of DESIGN 9.9."""
import json
import os
import re
import shutil
import sys

PREFIX = sys.argv[2] if len(sys.argv) > 2 else "/tmp/ben_"
TAG = sys.argv[3] if len(sys.argv) > 3 else "b"
rows = {}
for line in open(sys.argv[1]):
    m = re.match(r"\[(\d+)\] BENIGN (C\d\d) change_(\d+) seed=(\d+) exit=(\d+) violations=(\d+) tests=\[(.*?)\] first=(\S*) ::", line)
    if not m:
        continue
    n, pid, k, seed, rc, nv, tests, first = m.groups()
    rows.setdefault((pid, int(n), int(k)), []).append({"seed": int(seed), "exit": int(rc), "violations": int(nv), "first_clause": first,
                                                          "repo_tests": tests})
out = []
for (pid, n, k), runs in sorted(rows.items()):
    src = "%s%d_out" % (PREFIX, n)
    d = "/verif/benign/%s-%s%d-%d" % (pid, TAG, n, k)
    os.makedirs(d, exist_ok=True)
    diff = os.path.join(src, "change_%d.diff" % k)
    if os.path.exists(diff):
        if os.path.getsize(diff) <= 300000:
            shutil.copy(diff, os.path.join(d, "patch.diff"))
        else:
            open(os.path.join(d, "patch.diff.omitted"), "w").write("binary patch of %d bytes (a data file re-saved with extra entries); not kept\n" % os.path.getsize(diff))
    notes = os.path.join(src, "notes_%d.md" % k)
    title = ""
    if os.path.exists(notes):
        shutil.copy(notes, os.path.join(d, "notes.md"))
        for ln in open(notes):
            ln = ln.strip().lstrip("#").strip()
            if ln and not ln.lower().startswith("property:"):
                title = ln
                break
    old = {}
    if os.path.exists(os.path.join(d, "result.json")):
        old = json.load(open(os.path.join(d, "result.json")))
    res = {"property": pid, "source": "independent sub-agent given only the property text" if not (n == 8 and TAG == "b") else "builder (the sub-agent for C17/C18 was stopped by the content filter)",
           "first_evaluation": old.get("first_evaluation", runs[0]), "latest_evaluation": runs[-1]}
    json.dump(res, open(os.path.join(d, "result.json"), "w"), indent=1)
    first, last = res["first_evaluation"], res["latest_evaluation"]
    verdict = "quiet" if first["violations"] == 0 and first["exit"] == 0 else ("ALARM (%s) -> %s" % (first["first_clause"], "quiet after the correction" if last["violations"] == 0 and last["exit"] == 0 else "still raised"))
    out.append("| %s-%s%d-%d | %s | %s |" % (pid, TAG, n, k, title[:150].replace("|", "/"), verdict))
print("| change | what it does | check of the property |\n|---|---|---|")
print("\n".join(out))
