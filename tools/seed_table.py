#!/venv/bin/python
"""Regenerates the table of independently seeded changes in DESIGN.md (between the SEEDED markers) from seeded/*/meta.json."""
import glob, json, os, re
V = os.path.dirname(os.path.dirname(os.path.abspath(__file__)))
rows = []
for f in sorted(glob.glob(os.path.join(V, "seeded", "*", "meta.json")), key=lambda p: (p.split("/")[-2].split("-")[0], int(p.split("/")[-2].split("-")[1]))):
    m = json.load(open(f))
    notes = os.path.join(os.path.dirname(f), "notes.md")
    diff = open(os.path.join(os.path.dirname(f), "patch.diff")).read()
    files = sorted(set(re.findall(r"^\+\+\+ b/(\S+)", diff, re.M)))
    det = [c + " (" + ", ".join(v["clauses"][:2]) + ")" for c, v in m.get("checks", {}).items() if v.get("detected")]
    miss = [c for c, v in m.get("checks", {}).items() if not v.get("detected")]
    rows.append("| %s | %s | %s | %s |" % (m["id"], ", ".join(x.replace("src/chmpy/", "") for x in files), "; ".join(det) or "**none**",
                                        ", ".join(miss) or "-"))
table = ("| seeded id | files changed | detected by (clause) | also run, silent |\n|---|---|---|---|\n" + "\n".join(rows) +
         "\n\n%d confirmed changes; %d detected by at least one registered check.\n" % (
             len(rows), sum(1 for r in rows if "**none**" not in r)))
p = os.path.join(V, "DESIGN.md")
s = open(p).read()
a, b = "<!-- SEEDED-BEGIN -->", "<!-- SEEDED-END -->"
if a in s:
    s = s[:s.index(a) + len(a)] + "\n" + table + s[s.index(b):]
else:
    s += "\n### 9.6 Independently seeded changes (fresh sub-agents given only the property text)\n\n" \
         "Each change was confirmed in a scratch worktree (repo tests at baseline, demo fails with / passes without) by `tools/seed_eval.py`, " \
         "stored under `seeded/<id>/`, and the registered quick checks were run against it with `VERIF_REPO`.\n\n" + a + "\n" + table + b + "\n"
open(p, "w").write(s)
print(table)
