"""C06 - isosurfaces are closed, consistently oriented meshes on the requested level.

(M) MC_IsoMesh: on every small grid the cell sweep fed by the spec's reference mesher keeps the
    inductive invariant and ends in a closed oriented manifold on the level (design level).
(T) traces of the real code -> Trace_IsoMesh:
    "mc"     chmpy.mc.marching_cubes on integer fields (single-cube liftings, random multi-blob grids,
             integer spheres), both gradient directions, mesh partitioned by cell for the sweep replay;
    "sphere" the family R^2 - r^2 for the volume clauses;
    "surf"   surface wrappers (surface.py functions, Molecule / Crystal methods) quantised to 0.01 A;
    "trend"  level residuals of the wrappers over decreasing separations.
Python only drives the API, projects floats to integers and ships JSON; every verdict is TLC's.
"""
import math
import os
import random

from harness.common import REPO, main, pool_map
from harness import tlc

Q = 3072             # = 12 * 256 length units per unit of real length (mc traces)
TOL = 8              # comparison slack in 1/Q units (2.6e-3): rounding <= 0.5 unit, float32 noise measured 6.4e-7 = 0.002 unit
LIM = 2 ** 31 - 1

MC_CFG = """SPECIFICATION Spec
CHECK_DEADLOCK FALSE
CONSTANTS
  N1 = %d
  N2 = %d
  N3 = %d
  S1 = %d
  S2 = %d
  S3 = %d
  VMax = %d
  K = %d
  PadVal = %d
INVARIANT InvExactGrid
INVARIANT InvProgress
INVARIANT InvSweep
INVARIANT InvBndSeen
INVARIANT InvClosed
INVARIANT InvOnLevel
INVARIANT InvOriented
INVARIANT InvReversed
"""


# ------------------------------------------------------------------------------ fields (integers)
def field_cube(vals, pad=0):
    """4x4x4 grid: the 8 given corner values of the central cube, padded by `pad`."""
    f = [pad] * 64
    it = iter(vals)
    for i in (1, 2):
        for j in (1, 2):
            for k in (1, 2):
                f[(i * 4 + j) * 4 + k] = next(it)
    return [4, 4, 4], f


def field_blobs(seed):
    """Random multi-blob integer field, values 0..3, boundary layer constant."""
    rng = random.Random(seed)
    n = [rng.randint(3, 9) for _ in range(3)]
    sp = [rng.randint(1, 4) for _ in range(3)]
    vol = {}
    pts = [(i, j, k) for i in range(1, n[0] - 1) for j in range(1, n[1] - 1) for k in range(1, n[2] - 1)]
    for _ in range(rng.randint(1, 4)):
        c = [rng.randint(1, max(1, m - 2)) for m in n]
        r2 = rng.randint(1, 8)
        h = rng.randint(1, 3)
        w = [rng.randint(1, 3) for _ in range(3)]
        for g in pts:
            d2 = sum(w[a] * (g[a] - c[a]) ** 2 for a in range(3))
            if d2 <= r2 * 2:
                vol[g] = max(vol.get(g, 0), max(0, h - (d2 * h) // (2 * r2 + 1)))
    if rng.random() < 0.6:
        for _ in range(rng.randint(1, 12)):
            vol[rng.choice(pts)] = rng.randint(0, 3)
    k = rng.randint(0, 2)
    if not any(v > k for v in vol.values()):
        vol[rng.choice(pts)] = 3
    invert = rng.random() < 0.3            # "exterior greater than object"
    f = []
    for i in range(n[0]):
        for j in range(n[1]):
            for kk in range(n[2]):
                v = vol.get((i, j, kk), 0)
                f.append(3 - v if invert else v)
    if invert:
        k = 2 - k
    gd = rng.choice(["descent", "ascent"])
    return n, f, k, sp, gd


def field_sphere(R, pad, sp):
    n = [2 * R + 1 + 2 * pad] * 3
    c = [R + pad] * 3
    f = []
    for i in range(n[0]):
        for j in range(n[1]):
            for k in range(n[2]):
                f.append(R * R - ((i - c[0]) ** 2 + (j - c[1]) ** 2 + (k - c[2]) ** 2))
    return n, f, c


def build_field(recipe):
    g = recipe["gen"]
    if g == "cube":
        n, f = field_cube(recipe["vals"], recipe.get("pad", 0))
        return n, f, recipe["k"], recipe.get("sp", [1, 1, 1]), recipe.get("gd", "descent")
    if g == "blobs":
        return field_blobs(recipe["seed"])
    if g == "sphere":
        n, f, _ = field_sphere(recipe["R"], recipe.get("pad", 2), recipe.get("sp", [1, 1, 1]))
        return n, f, 0, recipe.get("sp", [1, 1, 1]), recipe.get("gd", "descent")
    raise ValueError(g)


# ------------------------------------------------------------------------------ projection
def project_vertices(verts, scale):
    """float vertices -> integer triples round(x*scale); offgrid when not finite / not shippable."""
    out, off = [], False
    for v in verts:
        row = []
        for x in v:
            x = float(x)
            if not math.isfinite(x) or abs(x * scale) >= LIM:
                off = True
                row.append(0)
            else:
                row.append(int(round(x * scale)))
        out.append(row)
    return out, off


def run_mc(n, f, k, sp, gd, enc=None):
    """One call of the real marching_cubes; returns the projected observation.
    enc = {dtype, base, none}: the same field handed over as another array type, shifted by a constant (values f + base, level
    k + 1/2 + base: the same surface), and - when the level is the middle of the value range - with the level left to the default."""
    import numpy as np
    from chmpy.mc import marching_cubes
    enc = enc or {}
    base = enc.get("base", 0)
    if enc.get("zero_level"):
        base = -(k + 0.5)                                   # a signed field whose surface is the level 0 exactly
    vol = (np.array(f, dtype=np.int64).reshape(n) + base).astype(getattr(np, enc.get("dtype", "float32")))
    level = None if enc.get("none") else k + 0.5 + base
    r = {"exc": "", "offgrid": False, "nv": 0, "nf": 0, "V": [], "F": []}
    try:
        verts, faces, _normals, _values = marching_cubes(
            vol, level, spacing=tuple(float(s) for s in sp), gradient_direction=gd)
    except Exception as e:      # an exception of the implementation is an observation
        r["exc"] = type(e).__name__
        return r
    r["V"], r["offgrid"] = project_vertices(verts, Q)
    r["F"] = [[int(a) + 1 for a in face] for face in faces]      # vertex ids 1..nv
    r["nv"], r["nf"] = int(len(verts)), int(len(faces))
    return r


def partition_by_cell(run, n, sp):
    """Witness for the sweep: group the faces by a grid cell containing all three vertices (TLC
    verifies containment, order and the invariant; nothing is decided here)."""
    pitch = [s * Q for s in sp]

    def axis_cells(x, a):
        near = (2 * x + pitch[a]) // (2 * pitch[a])
        if abs(x - near * pitch[a]) <= TOL:
            return {near - 1, near}
        return {x // pitch[a]}

    groups = {}
    for fi, face in enumerate(run["F"]):
        cell = []
        for a in range(3):
            s = None
            for vid in face:
                if 1 <= vid <= len(run["V"]):
                    c = axis_cells(run["V"][vid - 1][a], a)
                    s = c if s is None else (s & c)
            s = {c for c in (s or set()) if 0 <= c <= n[a] - 2} or (s or {0})
            cell.append(min(s) if s else 0)
        groups.setdefault(tuple(cell), []).append(fi + 1)
    cells = [{"c": list(c), "fi": groups[c]} for c in sorted(groups)]
    return cells


def drive_mc(recipe):
    n, f, k, sp, gd = build_field(recipe)
    other = "ascent" if gd == "descent" else "descent"
    enc = dict(recipe.get("enc") or {})
    if enc.get("none") and min(f) + max(f) != 2 * k + 1:
        enc["none"] = False                      # the default level is the middle of the range: only then is it the level k + 1/2
    run = run_mc(n, f, k, sp, gd, enc)
    has_rev = bool(recipe.get("rev", True))
    t = {"kind": "mc", "n": n, "f": f, "k": k, "sp": sp, "q": Q, "tol": TOL, "gd": gd,
         "run": run, "has_rev": has_rev,
         "rev": run_mc(n, f, k, sp, other, enc) if has_rev else {"exc": "skipped", "offgrid": False, "nv": 0,
                                                            "nf": 0, "V": [], "F": []},
         "cells": [], "ncellfaces": 0,
         "meta": {"recipe": recipe, "source": recipe["gen"],
                  "impl_call": "chmpy.mc.marching_cubes(volume%s, level=%s, spacing=%s, gradient_direction=%r)"
                               % (tuple(n), k + 0.5, tuple(sp), gd),
                  "nontrivial": run["nf"] > 0}}
    if run["exc"] == "" and not run["offgrid"]:
        t["cells"] = partition_by_cell(run, n, sp)
        t["ncellfaces"] = sum(len(c["fi"]) for c in t["cells"])
    if "corrupt" in recipe:
        corrupt(t, recipe["corrupt"])
    return t


def drive_sphere(recipe):
    items = []
    for it in recipe["items"]:
        n, f, c = field_sphere(it["R"], it["pad"], it["sp"])
        items.append({"R": it["R"], "c": c, "n": n, "f": f, "sp": it["sp"], "gd": it["gd"],
                      "run": run_mc(n, f, 0, it["sp"], it["gd"])})
    return {"kind": "sphere", "q": Q, "tol": TOL, "items": items,
            "meta": {"recipe": recipe, "source": "sphere-family",
                     "impl_call": "chmpy.mc.marching_cubes(R^2 - r^2, 0.5) for R = %s" % [i["R"] for i in recipe["items"]],
                     "nontrivial": True}}


def corrupt(t, what):
    """Self-test only: damage one recorded field (the recipe carries the request)."""
    r = t["run"]
    if what == "vertex" and r["V"]:
        r["V"][0][0] += Q // 12
    elif what == "face" and r["F"]:
        r["F"][0] = [r["F"][0][1], r["F"][0][0], r["F"][0][2]]
    elif what == "dropface" and r["F"]:
        r["F"].pop()
        r["nf"] -= 1
    elif what == "cell" and len(t["cells"]) > 1:
        t["cells"][1]["fi"].append(t["cells"][0]["fi"].pop())


# ------------------------------------------------------------------------------ surfaces
WATER = {"els": [8, 1, 1], "pos": [[1, 1, 11], [1, 75, -47], [1, -75, -47]]}      # 0.01 A, odd integers
ELEMENTS = [1, 6, 7, 8, 9, 16, 17]
ISO = {"rho": 0.002, "weight": 0.5}
WRAPPERS = ("Molecule.promolecule_density_isosurface", "Crystal.promolecule_density_isosurfaces",
            "Crystal.hirshfeld_surfaces", "Crystal.stockholder_weight_isosurfaces")


def synth_molecule(seed, natoms):
    """A bonded cluster on the odd-integer 0.01 A lattice: every new atom 1.0-1.5 A from an earlier
    one and >= 0.95 A from all others."""
    rng = random.Random(seed)
    pos = [[1, 1, 1]]
    els = [rng.choice(ELEMENTS[1:])]
    while len(pos) < natoms:
        base = rng.choice(pos)
        d = [rng.randint(-150, 150) // 2 * 2 for _ in range(3)]
        r2 = sum(x * x for x in d)
        if not (100 ** 2 <= r2 <= 150 ** 2):
            continue
        cand = [base[a] + d[a] for a in range(3)]
        if all(sum((cand[a] - q[a]) ** 2 for a in range(3)) >= 95 ** 2 for q in pos):
            pos.append(cand)
            els.append(rng.choice(ELEMENTS))
    return {"els": els, "pos": pos}


def dense_environment(mol, seed):
    """Copies of the molecule on a lattice around it (even translations keep coordinates odd)."""
    rng = random.Random(seed)
    ext = [max(p[a] for p in mol["pos"]) - min(p[a] for p in mol["pos"]) for a in range(3)]
    T = [(ext[a] + rng.randint(300, 360)) // 2 * 2 for a in range(3)]
    els, pos = [], []
    for i in range(-2, 3):
        for j in range(-2, 3):
            for k in range(-2, 3):
                if (i, j, k) == (0, 0, 0):
                    continue
                for e, p in zip(mol["els"], mol["pos"]):
                    els.append(e)
                    pos.append([p[0] + i * T[0], p[1] + j * T[1], p[2] + k * T[2]])
    return {"els": els, "pos": pos, "T": T}


def _boundary_max(field, bb, sep):
    """Largest field value on the six faces of the sampling grid the wrapper builds."""
    import numpy as np
    l, u = bb
    g = [np.arange(l[a], u[a], sep, dtype=np.float32) for a in range(3)]
    best = 0.0
    for a in range(3):
        o = [b for b in range(3) if b != a]
        A, B = np.meshgrid(g[o[0]], g[o[1]], indexing="ij")
        for end in (g[a][0], g[a][-1]):
            pts = np.empty((A.size, 3), dtype=np.float32)
            pts[:, a] = end
            pts[:, o[0]] = A.ravel()
            pts[:, o[1]] = B.ravel()
            best = max(best, float(np.max(field(pts))))
    return best


def _odd(x):
    return 2 * int(math.floor(float(x) * 50.0)) + 1


def surf_trace(api, kind, sep, verts, faces, exc, own, nbr, bb, iso, bmax, res, recipe, part):
    """Quantise one surface to the 0.01 A integer lattice (vertices even, atoms odd)."""
    origin = [2 * int(math.floor(float(bb[0][a]) * 50.0)) for a in range(3)]
    V, off = [], False
    for v in verts:
        row = []
        for a in range(3):
            x = float(v[a])
            if not math.isfinite(x) or abs(x) > 5000.0:
                off = True
                row.append(0)
            else:
                row.append(2 * int(round(x * 50.0)) - origin[a])
        V.append(row)
    scale = 2.0 ** 24 / iso
    t = {"kind": "surf", "api": api, "field": kind, "sep": int(round(sep * 100)), "exc": exc, "offgrid": off,
         "nv": len(V), "nf": len(faces), "V": V, "F": [[int(a) + 1 for a in f] for f in faces],
         "own": [[p[a] - origin[a] for a in range(3)] for p in own],
         "nbr": [[p[a] - origin[a] for a in range(3)] for p in nbr],
         "box": {"lo": [int(math.floor(float(bb[0][a]) * 100.0)) - 2 - origin[a] for a in range(3)],
                 "hi": [int(math.ceil(float(bb[1][a]) * 100.0)) + 2 - origin[a] for a in range(3)]},
         "iso": int(round(iso * scale)), "bmax": min(LIM, int(round(max(bmax, 0.0) * scale))),
         "res": min(LIM, int(round(res * scale))),
         "meta": {"recipe": recipe, "source": recipe["src"], "part": part,
                  "impl_call": "%s(separation=%s) on %s" % (api, sep, recipe["src"]),
                  "nontrivial": len(faces) > 0}}
    return t


def drive_surface(recipe):
    """All traces of one (api, system): one "surf" trace per separation and mesh, one "trend" trace
    per mesh.  Returns {"__multi__": [...]}."""
    import numpy as np
    from chmpy import PromoleculeDensity, StockholderWeight
    api = recipe["api"]
    seps = recipe["seps"]
    kind = "weight" if ("stockholder" in api or "hirshfeld" in api) else "rho"
    iso = float(recipe.get("iso", ISO[kind]))
    systems = []          # (own_els, own_pos(float), own_int, nbr_els, nbr_pos(float), nbr_int)
    crystal = None
    if recipe["src"].startswith("cif:") or recipe["src"].startswith("crystal:"):
        from chmpy.crystal import Crystal, UnitCell, SpaceGroup, AsymmetricUnit
        if recipe["src"].startswith("cif:"):
            crystal = Crystal.load(os.path.join(REPO, "src/chmpy/tests/test_files", recipe["src"][4:]))
        else:
            mol = recipe["mol"]
            cell = recipe["cell"]
            uc = UnitCell.from_lengths_and_angles([c / 100.0 for c in cell], [90.0, 90.0, 90.0], unit="degrees")
            from chmpy.core.element import Element
            frac = np.array(mol["pos"], dtype=float) / np.array(cell, dtype=float)
            asym = AsymmetricUnit([Element.from_atomic_number(z) for z in mol["els"]], frac)
            crystal = Crystal(uc, SpaceGroup(1), asym)
        for (m, n_e, n_p) in crystal.molecule_environments(radius=12.0):
            systems.append((np.array(m.atomic_numbers), np.array(m.positions, dtype=float),
                            [[_odd(x) for x in p] for p in m.positions],
                            np.array(n_e), np.array(n_p, dtype=float), [[_odd(x) for x in p] for p in n_p]))
    else:
        mol = recipe["mol"]
        env = recipe.get("env") or {"els": [], "pos": []}
        systems.append((np.array(mol["els"]), np.array(mol["pos"], dtype=float) / 100.0, mol["pos"],
                        np.array(env["els"]), np.array(env["pos"], dtype=float).reshape(-1, 3) / 100.0, env["pos"]))
    fields, bbs = [], []

    def documented_box(els_, pos_):
        # the sampling box as documented: every atom of the molecule +- (its van der Waals radius + 3.8 A), computed here - the
        # domain guard ("the level set stays inside the box") must not follow the library if it moves or shrinks its box
        from chmpy.core.element import vdw_radii
        ext = np.asarray(vdw_radii(np.asarray(els_)), dtype=float)[:, None] + 3.8
        p_ = np.asarray(pos_, dtype=float)
        return (np.min(p_ - ext, axis=0).astype(np.float32), np.max(p_ + ext, axis=0).astype(np.float32))
    for (oe, op, _oi, ne, npos, _ni) in systems:
        if kind == "rho":
            d = PromoleculeDensity((oe, op))
            fields.append(d.rho)
        else:
            s = StockholderWeight.from_arrays(oe, op, ne, npos)
            fields.append(lambda pts, s=s: s.weights(np.asarray(pts, dtype=np.float32)))
        bbs.append(documented_box(oe, op))
    out = []
    residuals = [[] for _ in systems]
    excs = [""] * len(systems)
    for sep in seps:
        sepf = sep / 100.0
        meshes, exc = [], ""
        try:
            if api == "surface.promolecule_density_isosurface":
                from chmpy.surface import promolecule_density_isosurface
                iso_m = promolecule_density_isosurface(PromoleculeDensity((systems[0][0], systems[0][1])),
                                                       isovalue=iso, sep=sepf, **recipe.get("kw", {}))
                meshes = [(iso_m.vertices, iso_m.faces)]
            elif api == "surface.stockholder_weight_isosurface":
                from chmpy.surface import stockholder_weight_isosurface
                s0 = systems[0]
                iso_m = stockholder_weight_isosurface(StockholderWeight.from_arrays(s0[0], s0[1], s0[3], s0[4]),
                                                      isovalue=iso, sep=sepf, **recipe.get("kw", {}))
                meshes = [(iso_m.vertices, iso_m.faces)]
            elif api == "Molecule.promolecule_density_isosurface":
                from chmpy import Molecule
                m = Molecule.from_arrays(systems[0][0], systems[0][1])
                tm = m.promolecule_density_isosurface(separation=sepf, isovalue=iso, **recipe.get("kw", {}))
                meshes = [(tm.vertices, tm.faces)]
            elif api == "Crystal.promolecule_density_isosurfaces":
                meshes = [(tm.vertices, tm.faces) for tm in
                          crystal.promolecule_density_isosurfaces(separation=sepf, isovalue=iso)]
            elif api == "Crystal.hirshfeld_surfaces":
                meshes = [(tm.vertices, tm.faces) for tm in
                          crystal.hirshfeld_surfaces(separation=sepf, isovalue=iso, **recipe.get("kw", {}))]
            elif api == "Crystal.stockholder_weight_isosurfaces":
                meshes = [(tm.vertices, tm.faces) for tm in
                          crystal.stockholder_weight_isosurfaces(separation=sepf, isovalue=iso)]
            else:
                raise ValueError(api)
            if len(meshes) != len(systems):
                exc = "MeshCountMismatch"
        except Exception as e:            # an exception of the implementation is an observation
            exc = type(e).__name__
        for i, sysm in enumerate(systems):
            bmax = _boundary_max(fields[i], bbs[i], sepf)
            if exc:
                verts, faces, res = [], [], 0.0
                excs[i] = excs[i] or exc
            else:
                verts = np.asarray(meshes[i][0], dtype=float)
                faces = np.asarray(meshes[i][1])
                vals = np.asarray(fields[i](verts.astype(np.float32)), dtype=float)
                res = float(np.sqrt(np.mean((vals - iso) ** 2))) if len(vals) else 0.0
            own_int, nbr_int = sysm[2], (sysm[5] if kind == "weight" else [])
            t = surf_trace(api, kind, sepf, verts, faces, exc, own_int, nbr_int, bbs[i], iso, bmax, res,
                           recipe, {"sep": sep, "mesh": i})
            residuals[i].append(t["res"])
            out.append(t)
    for i in range(len(systems)):
        bm = max(t["bmax"] for t in out if t["meta"]["part"].get("mesh") == i)
        out.append({"kind": "trend", "api": api, "field": kind, "exc": excs[i], "seps": list(seps),
                    "res": residuals[i], "iso": out[0]["iso"], "bmax": bm,
                    "meta": {"recipe": recipe, "source": recipe["src"], "part": {"trend": i},
                             "impl_call": "%s(separation=s) for s in %s on %s" % (api, [s / 100.0 for s in seps], recipe["src"]),
                             "nontrivial": True}})
    return {"__multi__": out, "meta": {"recipe": recipe}}


def drive(recipe):
    kind = recipe.get("kind", "mc")
    if kind == "mc":
        return drive_mc(recipe)
    if kind == "sphere":
        return drive_sphere(recipe)
    if kind == "surface":
        return drive_surface(recipe)
    raise ValueError(kind)


def flatten(results):
    out = []
    for r in results:
        out.extend(r["__multi__"]) if "__multi__" in r else out.append(r)
    return out


# ------------------------------------------------------------------------------ recipes
def cube_recipes(ctx):
    rng = ctx.rng
    out = []
    if ctx.quick:
        for pat in range(1, 256):
            for k in (0, 1, 2):
                vals = [(rng.randint(k + 1, 3) if (pat >> b) & 1 else rng.randint(0, k)) for b in range(8)]
                out.append({"kind": "mc", "gen": "cube", "vals": vals, "k": k,
                            "gd": "descent" if (pat + k) % 2 else "ascent",
                            "sp": [1, 1, 1] if pat % 3 else [rng.randint(1, 4) for _ in range(3)]})
                if pat % 7 == 3:
                    out[-1]["enc"] = {"dtype": rng.choice(["float32", "float64"]), "zero_level": True, "none": False}
                if pat % 5 == 0:
                    # other array types for the same field (image data: uint8 with a background, int16, float64 ...)
                    out[-1]["enc"] = rng.choice([{"dtype": "uint8", "base": rng.choice([0, 100, 126, 127, 200, 252])},
                                                 {"dtype": "int8", "base": rng.choice([-128, -3, 62, 63, 124])},
                                                 {"dtype": "int16", "base": rng.choice([-32768, 0, 16382, 16383, 32764])},
                                                 {"dtype": "float64", "base": rng.choice([0, -7, 1000])},
                                                 {"dtype": "int64", "base": rng.choice([0, 5])}])
                    out[-1]["enc"]["none"] = True
    else:
        for code in range(4 ** 8):
            vals = [(code >> (2 * b)) & 3 for b in range(8)]
            for k in (0, 1, 2):
                if any(v > k for v in vals):
                    out.append({"kind": "mc", "gen": "cube", "vals": vals, "k": k,
                                "gd": "descent" if (code + k) % 2 else "ascent", "rev": code % 8 == 0})
    return out


def synth_crystal(seed, natoms):
    """Orthorhombic P1 cell holding one synthetic molecule with 3.4-4 A of room per axis."""
    rng = random.Random(seed)
    mol = synth_molecule(seed, natoms)
    lo = [min(p[a] for p in mol["pos"]) for a in range(3)]
    hi = [max(p[a] for p in mol["pos"]) for a in range(3)]
    cell = [hi[a] - lo[a] + rng.randint(340, 400) for a in range(3)]
    pos = [[p[a] - lo[a] + 100 for a in range(3)] for p in mol["pos"]]
    return {"els": mol["els"], "pos": pos}, cell


def surface_recipes(ctx):
    seps = ctx.pick([100, 50, 30], [100, 50, 30, 20])
    nsyn = ctx.pick(3, 8)
    mols = [("water", WATER)]
    for i in range(nsyn):
        seed = ctx.seed * 1009 + 100 + i
        mols.append(("synthetic-molecule(seed=%d)" % seed, synth_molecule(seed, 3 + (i * 5 + ctx.seed) % 6)))
    # straight rods along each Cartesian axis (the sampling box is much longer in one direction than in the others)
    for ax in range(3):
        pos = [[1 + (130 * i if a == ax else 0) for a in range(3)] for i in range(6 + ax % 2)]
        mols.append(("rod-%s" % "xyz"[ax], {"els": [6] * len(pos), "pos": pos}))
    # a lopsided atom set: a compact group and one atom 13 A away (the centroid is far from the middle of the bounding box)
    mols.append(("lopsided", {"els": [6, 6, 6, 6, 6, 8], "pos": [[1, 1, 1], [155, 1, 1], [1, 155, 1], [1, 1, 155], [-153, -153, -153], [1301, 1, 1]]}))
    out = []
    for mi, (name, m) in enumerate(mols):
        for api in ("surface.promolecule_density_isosurface", "Molecule.promolecule_density_isosurface"):
            out.append({"kind": "surface", "api": api, "src": name, "mol": m, "seps": seps})
            if mi % 2 == 0:
                # a level other than the default, through the function and through the object method
                out.append({"kind": "surface", "api": api, "src": name, "mol": m, "seps": seps, "iso": (0.01, 0.005)[(mi // 2) % 2]})
        out.append({"kind": "surface", "api": "surface.stockholder_weight_isosurface", "src": name + " in a 5x5x5 lattice of copies",
                    "mol": m, "env": dense_environment(m, ctx.seed + 7), "seps": seps})
        if mi % 3 == 1:
            # the raw mesh, without the smoothing pass
            out.append({"kind": "surface", "api": "surface.stockholder_weight_isosurface", "src": name + " in a 5x5x5 lattice of copies",
                        "mol": m, "env": dense_environment(m, ctx.seed + 7), "seps": seps, "kw": {"smoothing": None}})
            out.append({"kind": "surface", "api": "surface.promolecule_density_isosurface", "src": name, "mol": m, "seps": seps,
                        "kw": {"smoothing": None}})
    for api in ("Crystal.hirshfeld_surfaces", "Crystal.promolecule_density_isosurfaces"):
        out.append({"kind": "surface", "api": api, "src": "cif:acetic_acid.cif", "seps": seps})
    out.append({"kind": "surface", "api": "Crystal.promolecule_density_isosurfaces", "src": "cif:acetic_acid.cif", "seps": seps, "iso": 0.008})
    # other vertex colourings (the property evaluated on the surface must leave the surface where it is)
    out.append({"kind": "surface", "api": "Molecule.promolecule_density_isosurface", "src": "water", "mol": WATER, "seps": seps,
                "kw": {"color": "esp"}})
    out.append({"kind": "surface", "api": "Molecule.promolecule_density_isosurface", "src": "water", "mol": WATER, "seps": seps,
                "kw": {"color": "d_i"}})
    out.append({"kind": "surface", "api": "Crystal.hirshfeld_surfaces", "src": "cif:acetic_acid.cif", "seps": seps, "kw": {"color": "esp"}})
    out.append({"kind": "surface", "api": "Crystal.hirshfeld_surfaces", "src": "cif:acetic_acid.cif", "seps": seps, "iso": 0.4})
    for i in range(ctx.pick(1, 3)):
        seed = ctx.seed * 31 + 500 + i
        mol, cell = synth_crystal(seed, 4 + i)
        for api in ("Crystal.hirshfeld_surfaces",) + (() if ctx.quick else ("Crystal.stockholder_weight_isosurfaces",
                                                                            "Crystal.promolecule_density_isosurfaces")):
            out.append({"kind": "surface", "api": api, "src": "crystal:P1 synthetic(seed=%d)" % seed, "mol": mol,
                        "cell": cell, "seps": seps})
    # a compressed crystal: every point of the Hirshfeld surface is closer to a nucleus than the van der Waals radius on
    # both sides (d_norm < 0 on the whole surface)
    dense = {"els": [7, 7], "pos": [[100, 140, 160], [210, 140, 160]]}
    out.append({"kind": "surface", "api": "Crystal.hirshfeld_surfaces", "src": "crystal:P1 compressed N2 (a = 3.0, 3.1, 3.2 A)",
                "mol": dense, "cell": [300, 310, 320], "seps": seps})
    out.append({"kind": "surface", "api": "Crystal.hirshfeld_surfaces", "src": "crystal:P1 compressed monatomic N (a = 1.80, 1.85, 1.90 A)",
                "mol": {"els": [7], "pos": [[90, 92, 95]]}, "cell": [180, 185, 190], "seps": [50, 30] + ([20] if not ctx.quick else [])})
    # a loosely packed crystal: the half-way surface lies far outside the van der Waals envelope of the atom (a noble gas on a
    # wide primitive cubic lattice), still well inside the documented sampling box
    out.append({"kind": "surface", "api": "Crystal.hirshfeld_surfaces", "src": "crystal:P1 primitive cubic Kr (a = 8.8 A)",
                "mol": {"els": [36], "pos": [[410, 450, 430]]}, "cell": [880, 880, 880], "seps": [80, 50] + ([30] if not ctx.quick else [])})
    out.append({"kind": "surface", "api": "Crystal.hirshfeld_surfaces", "src": "crystal:P1 wide N2 (a = 7.6, 7.9, 8.2 A)",
                "mol": {"els": [7, 7], "pos": [[330, 390, 410], [440, 390, 410]]}, "cell": [760, 790, 820], "seps": [80, 50]})
    return out


def sphere_recipes(ctx):
    rng = random.Random(ctx.seed * 17 + 3)
    radii = ctx.pick([3, 4, 6, 8], [3, 4, 5, 6, 8, 10, 12])
    items = [{"R": R, "pad": 2, "sp": [rng.randint(1, 3) for _ in range(3)],
              "gd": rng.choice(["descent", "ascent"])} for R in radii]
    fam = [{"kind": "sphere", "items": items}]
    single = [{"kind": "mc", "gen": "sphere", "R": it["R"], "pad": it["pad"], "sp": it["sp"], "gd": it["gd"]}
              for it in items]
    return fam, single


MEMBRANE_SEEDS = [1094, 1755, 2886, 9389, 19956]        # found by the thorough tier / a 40000-seed campaign

MC_MODELS = [            # (N1,N2,N3, S1,S2,S3, VMax, K, PadVal), label, tiers
    ((4, 4, 4, 1, 2, 3, 1, 0, 0), "4x4x4 grid, all 256 binary cubes padded low, spacing (1,2,3)", ("quick", "thorough")),
    ((4, 4, 4, 1, 1, 1, 1, 0, 1), "4x4x4 grid, all 256 binary cubes padded high", ("thorough",)),
    ((4, 4, 4, 2, 1, 1, 2, 1, 0), "4x4x4 grid, all 6561 cubes with values 0..2, level 1.5", ("thorough",)),
]


def run(ctx, explain=False):
    import threading
    # (T) drive the real code first (forked workers), then run TLC: model checking in a side
    # thread, trace validation in the main thread
    light = cube_recipes(ctx)
    ncube = len(light)
    light += [{"kind": "mc", "gen": "blobs", "seed": ctx.seed * 100003 + i} for i in range(ctx.pick(200, 3000))]
    # regression inputs: random grids on which the kernel emits membranes (finding C06-lewiner-membrane)
    light += [{"kind": "mc", "gen": "blobs", "seed": s} for s in MEMBRANE_SEEDS]
    fam, single = sphere_recipes(ctx)
    light += single
    heavy = fam + surface_recipes(ctx)
    heavy_traces = flatten(pool_map(drive, heavy, chunksize=1))
    light_traces = pool_map(drive, light)

    results = []

    def model_thread():
        for consts, label, tiers in MC_MODELS:
            if ctx.tier in tiers:
                try:
                    results.append((label, tlc.run("mc/MC_IsoMesh.tla", MC_CFG % consts, timeout=1500,
                                                   workers=ctx.pick(8, 16), tag="MC_IsoMesh-%d" % len(results))))
                except Exception as e:          # re-raised in the main thread
                    results.append((label, e))

    th = threading.Thread(target=model_thread)
    th.start()
    try:
        ctx.validate("trace/Trace_IsoMesh.tla", heavy_traces, timeout=1500, nblocks=max(1, len(heavy_traces)),
                     name="Trace_IsoMesh(surfaces, spheres)")
        ctx.validate("trace/Trace_IsoMesh.tla", light_traces, timeout=1500, batch=20000,
                     name="Trace_IsoMesh(marching_cubes)")
    finally:
        th.join()
    for label, res in results:
        if isinstance(res, Exception):
            raise res
        ctx._account(res, "MC_IsoMesh(%s)" % label)
        if not res.ok:
            raise tlc.TLCFailure("design-level model MC_IsoMesh (%s) violated %s / %s\n%s" % (
                label, res.violated, res.errors, res.stdout[-3000:]))
    nsurf = sum(1 for t in heavy_traces if t["kind"] == "surf")
    ctx.exhaustive = not ctx.quick
    ctx.rule = ("chmpy.mc.marching_cubes on %d single-cube fields (%s), %d random multi-blob integer grids "
                "(3..9 points per axis, integer spacings 1..4, both directions, 30%% with the exterior high) plus 5 "
                "regression grids of finding C06-lewiner-membrane, "
                "%d integer spheres individually and as one family for the volume clauses; %d surfaces from "
                "surface.py / Molecule / Crystal wrappers at separations %s A plus their level-residual trends; "
                "non-trivial = the mesh has at least one face" % (
                    ncube, "all 255 non-empty corner sign patterns x levels 0.5/1.5/2.5 with seeded value liftings"
                    if ctx.quick else "every one of the 4^8 fields with values 0..3 x every level 0.5/1.5/2.5 that it reaches",
                    len(light) - ncube - len(single) - len(MEMBRANE_SEEDS), len(single), nsurf,
                    [s / 100.0 for s in ctx.pick([100, 50, 30], [100, 50, 30, 20])]))
    ctx.explanation = ("model checking: every assignment of the listed values to the 8 free corners, both gradient "
                       "directions, complete sweep (all reachable states). trace validation: %s; the other "
                       "inputs are seeded samples" % (
                           "the single-cube domain (values 0..3, three levels) is enumerated completely" if not ctx.quick
                           else "the 255 corner sign patterns are enumerated completely, value liftings sampled"))
    ctx.assumptions = [
        "the compiled Lewiner kernel (_mc_lewiner*.so) is used as found; it cannot be rebuilt here",
        "vertices are shipped as round(x*%d) and compared with slack %d units (%.1e): rounding <= 0.5 unit, "
        "float32 noise measured on the tree 6.4e-7 = 0.002 unit" % (Q, TOL, TOL / Q),
        "surface meshes are quantised to 0.02 A (vertices) and atoms to the nearest odd 0.01 A for the exact ray "
        "casting; atoms of the probed systems are >= 0.5 A from the surfaces",
        "level-residual clause: the wrappers smooth the mesh, so only a trend is demanded (no step grows by more "
        "than 1/4, finest <= half the coarsest); measured ratios between consecutive separations are 2.3-4.1",
        "sphere volume bound 2/R^2 relative (measured 1.50/R^2 for R = 2..12), pi bracketed by 333/106 and 355/113",
    ]
    ctx.notes["slack"] = {"Q": Q, "TOL": TOL, "trend_step": "5/4", "trend_total": "1/2", "sphere_bound": "2/R^2"}


def replay(ctx, rec):
    ts = flatten([drive(rec["record"]["meta"]["recipe"])])
    ctx.validate("trace/Trace_IsoMesh.tla", ts, nblocks=len(ts))


if __name__ == "__main__":
    raise SystemExit(main("C06", run, replay))
