"""C06 - isosurfaces are closed, consistently oriented meshes on the requested level.

(M) MC_IsoMesh: on every small grid the cell sweep fed by the spec's reference mesher keeps the
    inductive invariant and ends in a closed oriented manifold on the level (design level).
(T) traces of the real code -> Trace_IsoMesh:
    "mc"     chmpy.mc.marching_cubes on integer fields (single-cube liftings, random multi-blob grids,
             integer spheres), both gradient directions, mesh partitioned by cell for the sweep replay;
    "sphere" the family R^2 - r^2 for the volume clauses;
    "surf"   surface wrappers (surface.py functions, Molecule / Crystal methods) quantised to 0.01 A;
    "trend"  level residuals of the wrappers over decreasing separations.
Python only drives the API, projects floats to integers and ships JSON; every verdict is TLC's.
"""
import math
import os
import random

from harness.common import REPO, main, pool_map
from harness import tlc

Q = 3072             # = 12 * 256 length units per unit of real length (mc traces)
TOL = 8              # comparison slack in 1/Q units (2.6e-3): rounding <= 0.5, float32 noise measured <= 0.05
LIM = 2 ** 31 - 1

MC_CFG = """SPECIFICATION Spec
CHECK_DEADLOCK FALSE
CONSTANTS
  N1 = %d
  N2 = %d
  N3 = %d
  S1 = %d
  S2 = %d
  S3 = %d
  VMax = %d
  K = %d
  PadVal = %d
INVARIANT InvExactGrid
INVARIANT InvProgress
INVARIANT InvSweep
INVARIANT InvBndSeen
INVARIANT InvClosed
INVARIANT InvOnLevel
INVARIANT InvOriented
INVARIANT InvReversed
"""


# ------------------------------------------------------------------------------ fields (integers)
def field_cube(vals, pad=0):
    """4x4x4 grid: the 8 given corner values of the central cube, padded by `pad`."""
    f = [pad] * 64
    it = iter(vals)
    for i in (1, 2):
        for j in (1, 2):
            for k in (1, 2):
                f[(i * 4 + j) * 4 + k] = next(it)
    return [4, 4, 4], f


def field_blobs(seed):
    """Random multi-blob integer field, values 0..3, boundary layer constant."""
    rng = random.Random(seed)
    n = [rng.randint(3, 9) for _ in range(3)]
    sp = [rng.randint(1, 4) for _ in range(3)]
    vol = {}
    pts = [(i, j, k) for i in range(1, n[0] - 1) for j in range(1, n[1] - 1) for k in range(1, n[2] - 1)]
    for _ in range(rng.randint(1, 4)):
        c = [rng.randint(1, max(1, m - 2)) for m in n]
        r2 = rng.randint(1, 8)
        h = rng.randint(1, 3)
        w = [rng.randint(1, 3) for _ in range(3)]
        for g in pts:
            d2 = sum(w[a] * (g[a] - c[a]) ** 2 for a in range(3))
            if d2 <= r2 * 2:
                vol[g] = max(vol.get(g, 0), max(0, h - (d2 * h) // (2 * r2 + 1)))
    if rng.random() < 0.6:
        for _ in range(rng.randint(1, 12)):
            vol[rng.choice(pts)] = rng.randint(0, 3)
    k = rng.randint(0, 2)
    if not any(v > k for v in vol.values()):
        vol[rng.choice(pts)] = 3
    invert = rng.random() < 0.3            # "exterior greater than object"
    f = []
    for i in range(n[0]):
        for j in range(n[1]):
            for kk in range(n[2]):
                v = vol.get((i, j, kk), 0)
                f.append(3 - v if invert else v)
    if invert:
        k = 2 - k
    gd = rng.choice(["descent", "ascent"])
    return n, f, k, sp, gd


def field_sphere(R, pad, sp):
    n = [2 * R + 1 + 2 * pad] * 3
    c = [R + pad] * 3
    f = []
    for i in range(n[0]):
        for j in range(n[1]):
            for k in range(n[2]):
                f.append(R * R - ((i - c[0]) ** 2 + (j - c[1]) ** 2 + (k - c[2]) ** 2))
    return n, f, c


def build_field(recipe):
    g = recipe["gen"]
    if g == "cube":
        n, f = field_cube(recipe["vals"], recipe.get("pad", 0))
        return n, f, recipe["k"], recipe.get("sp", [1, 1, 1]), recipe.get("gd", "descent")
    if g == "blobs":
        return field_blobs(recipe["seed"])
    if g == "sphere":
        n, f, _ = field_sphere(recipe["R"], recipe.get("pad", 2), recipe.get("sp", [1, 1, 1]))
        return n, f, 0, recipe.get("sp", [1, 1, 1]), recipe.get("gd", "descent")
    raise ValueError(g)


# ------------------------------------------------------------------------------ projection
def project_vertices(verts, scale):
    """float vertices -> integer triples round(x*scale); offgrid when not finite / not shippable."""
    out, off = [], False
    for v in verts:
        row = []
        for x in v:
            x = float(x)
            if not math.isfinite(x) or abs(x * scale) >= LIM:
                off = True
                row.append(0)
            else:
                row.append(int(round(x * scale)))
        out.append(row)
    return out, off


def run_mc(n, f, k, sp, gd):
    """One call of the real marching_cubes; returns the projected observation."""
    import numpy as np
    from chmpy.mc import marching_cubes
    vol = np.array(f, dtype=np.float32).reshape(n)
    r = {"exc": "", "offgrid": False, "nv": 0, "nf": 0, "V": [], "F": []}
    try:
        verts, faces, _normals, _values = marching_cubes(
            vol, k + 0.5, spacing=tuple(float(s) for s in sp), gradient_direction=gd)
    except Exception as e:      # an exception of the implementation is an observation
        r["exc"] = type(e).__name__
        return r
    r["V"], r["offgrid"] = project_vertices(verts, Q)
    r["F"] = [[int(a) + 1 for a in face] for face in faces]      # vertex ids 1..nv
    r["nv"], r["nf"] = int(len(verts)), int(len(faces))
    return r


def partition_by_cell(run, n, sp):
    """Witness for the sweep: group the faces by a grid cell containing all three vertices (TLC
    verifies containment, order and the invariant; nothing is decided here)."""
    pitch = [s * Q for s in sp]

    def axis_cells(x, a):
        near = (2 * x + pitch[a]) // (2 * pitch[a])
        if abs(x - near * pitch[a]) <= TOL:
            return {near - 1, near}
        return {x // pitch[a]}

    groups = {}
    for fi, face in enumerate(run["F"]):
        cell = []
        for a in range(3):
            s = None
            for vid in face:
                if 1 <= vid <= len(run["V"]):
                    c = axis_cells(run["V"][vid - 1][a], a)
                    s = c if s is None else (s & c)
            s = {c for c in (s or set()) if 0 <= c <= n[a] - 2} or (s or {0})
            cell.append(min(s) if s else 0)
        groups.setdefault(tuple(cell), []).append(fi + 1)
    cells = [{"c": list(c), "fi": groups[c]} for c in sorted(groups)]
    return cells


def drive_mc(recipe):
    n, f, k, sp, gd = build_field(recipe)
    other = "ascent" if gd == "descent" else "descent"
    run = run_mc(n, f, k, sp, gd)
    has_rev = bool(recipe.get("rev", True))
    t = {"kind": "mc", "n": n, "f": f, "k": k, "sp": sp, "q": Q, "tol": TOL, "gd": gd,
         "run": run, "has_rev": has_rev,
         "rev": run_mc(n, f, k, sp, other) if has_rev else {"exc": "skipped", "offgrid": False, "nv": 0,
                                                            "nf": 0, "V": [], "F": []},
         "cells": [], "ncellfaces": 0,
         "meta": {"recipe": recipe, "source": recipe["gen"],
                  "impl_call": "chmpy.mc.marching_cubes(volume%s, level=%s, spacing=%s, gradient_direction=%r)"
                               % (tuple(n), k + 0.5, tuple(sp), gd),
                  "nontrivial": run["nf"] > 0}}
    if run["exc"] == "" and not run["offgrid"]:
        t["cells"] = partition_by_cell(run, n, sp)
        t["ncellfaces"] = sum(len(c["fi"]) for c in t["cells"])
    if "corrupt" in recipe:
        corrupt(t, recipe["corrupt"])
    return t


def drive_sphere(recipe):
    items = []
    for it in recipe["items"]:
        n, f, c = field_sphere(it["R"], it["pad"], it["sp"])
        items.append({"R": it["R"], "c": c, "n": n, "f": f, "sp": it["sp"], "gd": it["gd"],
                      "run": run_mc(n, f, 0, it["sp"], it["gd"])})
    return {"kind": "sphere", "q": Q, "tol": TOL, "items": items,
            "meta": {"recipe": recipe, "source": "sphere-family",
                     "impl_call": "chmpy.mc.marching_cubes(R^2 - r^2, 0.5) for R = %s" % [i["R"] for i in recipe["items"]],
                     "nontrivial": True}}


def corrupt(t, what):
    """Self-test only: damage one recorded field (the recipe carries the request)."""
    r = t["run"]
    if what == "vertex" and r["V"]:
        r["V"][0][0] += Q // 12
    elif what == "face" and r["F"]:
        r["F"][0] = [r["F"][0][1], r["F"][0][0], r["F"][0][2]]
    elif what == "dropface" and r["F"]:
        r["F"].pop()
        r["nf"] -= 1
    elif what == "cell" and len(t["cells"]) > 1:
        t["cells"][1]["fi"].append(t["cells"][0]["fi"].pop())


def drive(recipe):
    kind = recipe.get("kind", "mc")
    if kind == "mc":
        return drive_mc(recipe)
    if kind == "sphere":
        return drive_sphere(recipe)
    raise ValueError(kind)


# ------------------------------------------------------------------------------ recipes
def cube_recipes(ctx):
    rng = ctx.rng
    out = []
    if ctx.quick:
        for pat in range(1, 256):
            for k in (0, 1, 2):
                vals = [(rng.randint(k + 1, 3) if (pat >> b) & 1 else rng.randint(0, k)) for b in range(8)]
                out.append({"kind": "mc", "gen": "cube", "vals": vals, "k": k,
                            "gd": "descent" if (pat + k) % 2 else "ascent",
                            "sp": [1, 1, 1] if pat % 3 else [rng.randint(1, 4) for _ in range(3)]})
    else:
        for code in range(4 ** 8):
            vals = [(code >> (2 * b)) & 3 for b in range(8)]
            for k in (0, 1, 2):
                if any(v > k for v in vals):
                    out.append({"kind": "mc", "gen": "cube", "vals": vals, "k": k,
                                "gd": "descent" if (code + k) % 2 else "ascent", "rev": code % 8 == 0})
    return out


def run(ctx, explain=False):
    ctx.model_check("mc/MC_IsoMesh.tla", MC_CFG % (4, 4, 4, 1, 2, 3, 1, 0, 0),
                    name="MC_IsoMesh(4x4x4, values 0..1, level 1/2)", timeout=900)
    recipes = cube_recipes(ctx)
    recipes += [{"kind": "mc", "gen": "blobs", "seed": ctx.seed * 100003 + i} for i in range(ctx.pick(200, 3000))]
    traces = pool_map(drive, recipes)
    ctx.validate("trace/Trace_IsoMesh.tla", traces, timeout=1500, batch=20000)
    ctx.rule = "TODO"


def replay(ctx, rec):
    t = drive(rec["record"]["meta"]["recipe"])
    ctx.validate("trace/Trace_IsoMesh.tla", [t])


if __name__ == "__main__":
    raise SystemExit(main("C06", run, replay))
