"""C12 - unit-cell geometry is self-consistent however the cell was specified.

(M) MC_Lattice: the polynomial identities behind every closed form of crystal/unit_cell.py
    (adjugate inverse, Gram determinant, volume formula, starred lengths/angles, the lower
    triangular direct/inverse matrices of set_lengths_and_angles) over all integer lattices with
    small entries, in plain integers and again through the BigInt operators used for traces.
(T) exact integer cells (lattice L or Gram matrix G, rational scale) built through every
    construction route of the real UnitCell; all reported floats are shipped as integers
    round(x * 2^K) and judged by TLC (Trace_Lattice) against the exact rationals.
"""
import math
import random
import os
from fractions import Fraction

from harness.common import main, pool_map
from harness import tlc
from harness.project import scaled_big

K = 44                       # observed floats are shipped as round(x * 2^K)
NGRID = 12                   # fractional grid points p / NGRID
BIG0 = {"s": 0, "d": []}

ROUTES_GENERIC = ["vectors", "params_rad", "params_deg", "triclinic_rad", "triclinic_deg", "respec_vectors", "respec_params"]
FAMILY_ROUTES = {
    "cubic": ["cubic"],
    "tetragonal": ["tetragonal_rad", "tetragonal_deg"],
    "orthorhombic": ["orthorhombic", "orthorhombic_deg"],
    "hexagonal": ["hexagonal", "hexagonal_deg"],
    "rhombohedral": ["rhombohedral_rad", "rhombohedral_deg"],
    "monoclinic": ["monoclinic_rad", "monoclinic_deg"],
    "triclinic": [],
}


# ----------------------------------------------------------------------------- exact helpers
def gram_of(L):
    return [[sum(L[i][k] * L[j][k] for k in range(3)) for j in range(3)] for i in range(3)]


def det3(m):
    return (m[0][0] * (m[1][1] * m[2][2] - m[1][2] * m[2][1])
            - m[0][1] * (m[1][0] * m[2][2] - m[1][2] * m[2][0])
            + m[0][2] * (m[1][0] * m[2][1] - m[1][1] * m[2][0]))


def float_inputs(recipe):
    """The float arguments the API takes, computed from the exact integers of the recipe."""
    G = recipe["G"] if recipe["kind"] == "G" else gram_of(recipe["L"])
    s = recipe["sn"] / recipe["sd"]
    lengths = [s * math.sqrt(G[i][i]) for i in range(3)]
    pairs = [(1, 2), (0, 2), (0, 1)]            # alpha, beta, gamma
    angles = []
    for (i, j) in pairs:
        # cos = G_ij / sqrt(G_ii G_jj); isqrt keeps the radicand exact
        c = G[i][j] / math.sqrt(G[i][i] * G[j][j])
        angles.append(math.acos(max(-1.0, min(1.0, c))))
    return G, s, lengths, angles


# ----------------------------------------------------------------------------- observation
def _sb(x):
    return scaled_big(float(x), K)


def _finite(*arrs):
    import numpy as np
    return all(bool(np.all(np.isfinite(np.asarray(a, dtype=float)))) for a in arrs)


def observe(uc, pts):
    """Everything C12 talks about, read from a real UnitCell through its public interface."""
    import numpy as np
    D = np.asarray(uc.direct, dtype=float)
    I = np.asarray(uc.inverse, dtype=float)
    R = np.asarray(uc.reciprocal_lattice, dtype=float)
    lens = [uc.a, uc.b, uc.c]
    angs = [uc.alpha, uc.beta, uc.gamma]
    degs = [uc.alpha_deg, uc.beta_deg, uc.gamma_deg]
    vol = uc.volume()
    star = [uc.a_star, uc.b_star, uc.c_star]
    sang = [uc.alpha_star, uc.beta_star, uc.gamma_star]
    par = np.asarray(uc.parameters, dtype=float)
    frac = np.asarray(pts, dtype=float) / NGRID
    xs = np.asarray(uc.to_cartesian(frac), dtype=float)
    fs = np.asarray(uc.to_fractional(xs), dtype=float)
    vstar = np.array([uc.v_a_star, uc.v_b_star, uc.v_c_star], dtype=float)
    vdir = np.array([uc.v_a, uc.v_b, uc.v_c], dtype=float)
    alias = np.asarray(uc.lattice, dtype=float)
    ok = _finite(D, I, R, lens, angs, degs, [vol], star, sang, par, xs, fs, vstar, vdir, alias)
    if not ok:
        return None

    def mat(m):
        return [[_sb(x) for x in row] for row in m]

    def vec(v):
        return [_sb(x) for x in v]
    return {
        "D": mat(D), "Inv": mat(I), "Rec": mat(R), "VStar": mat(vstar), "VDir": mat(vdir),
        "Alias": mat(alias),
        "len": vec(lens),
        "cosang": vec(np.cos(angs)), "sinang": vec(np.sin(angs)),
        "cosdeg": vec(np.cos(np.radians(degs))), "sindeg": vec(np.sin(np.radians(degs))),
        "vol": _sb(vol),
        "star": vec(star),
        "cosstar": vec(np.cos(sang)), "sinstar": vec(np.sin(sang)),
        "plen": vec(par[:3]),
        "pcos": vec(np.cos(np.radians(par[3:]))), "psin": vec(np.sin(np.radians(par[3:]))),
        "xs": mat(xs), "fs": mat(fs),
    }


EMPTY_OBS = {
    "D": [], "Inv": [], "Rec": [], "VStar": [], "VDir": [], "Alias": [], "len": [], "cosang": [],
    "sinang": [], "cosdeg": [], "sindeg": [], "vol": BIG0, "star": [], "cosstar": [], "sinstar": [],
    "plen": [], "pcos": [], "psin": [], "xs": [], "fs": [],
}


class ArgumentMutated(Exception):
    """A constructor changed the arrays it was handed."""


def build(route, recipe):
    """Construct the real UnitCell through one route. Returns (cell, call text)."""
    import numpy as np
    from chmpy.crystal.unit_cell import UnitCell
    G, s, lengths, angles = float_inputs(recipe)
    a, b, c = lengths
    al, be, ga = angles
    deg = [math.degrees(x) for x in angles]
    if route in ("params_rad_np", "params_deg_np"):
        # parameters held in float64 arrays by the caller (who goes on using them): two cells from the same arrays
        la = np.array(lengths, dtype=np.float64)
        aa = np.array(deg if route.endswith("deg_np") else angles, dtype=np.float64)
        la0, aa0 = la.copy(), aa.copy()
        kw = {"unit": "degrees"} if route.endswith("deg_np") else {}
        UnitCell.from_lengths_and_angles(la, aa, **kw)
        cell = UnitCell.from_lengths_and_angles(la, aa, **kw)
        if not (np.array_equal(la, la0) and np.array_equal(aa, aa0)):
            raise ArgumentMutated(route)
        return cell, "UnitCell.from_lengths_and_angles(np.array(%r), np.array(%r)%s) twice" % (lengths, aa0.tolist(), ", unit='degrees'" if kw else "")
    if route == "vectors":
        V = np.array(recipe["L"], dtype=float) * s
        return UnitCell(V), "UnitCell(%r)" % (V.tolist(),)
    if route in ("vectors_fortran", "vectors_colT"):
        # the caller holds its lattice in column-major memory (np.asfortranarray, or the transpose of a column-vector matrix)
        V = np.array(recipe["L"], dtype=float) * s
        held = np.asfortranarray(V) if route == "vectors_fortran" else np.ascontiguousarray(V.T).T
        held0 = held.copy()
        cell = UnitCell(held)
        if not np.array_equal(held, held0):
            raise ArgumentMutated(route)
        return cell, "UnitCell(<column-major copy of> %r)" % (V.tolist(),)
    if route == "params_rad":
        return (UnitCell.from_lengths_and_angles(lengths, angles),
                "UnitCell.from_lengths_and_angles(%r, %r)" % (lengths, angles))
    if route == "params_deg":
        return (UnitCell.from_lengths_and_angles(lengths, deg, unit="degrees"),
                "UnitCell.from_lengths_and_angles(%r, %r, unit='degrees')" % (lengths, deg))
    if route == "triclinic_rad":
        return UnitCell.triclinic(a, b, c, al, be, ga), "UnitCell.triclinic(%r)" % ([a, b, c, al, be, ga],)
    if route == "triclinic_deg":
        return (UnitCell.triclinic(a, b, c, *deg, unit="degrees"),
                "UnitCell.triclinic(%r, unit='degrees')" % ([a, b, c] + deg,))
    if route == "cubic":
        return UnitCell.cubic(a), "UnitCell.cubic(%r)" % a
    if route == "orthorhombic":
        return UnitCell.orthorhombic(a, b, c), "UnitCell.orthorhombic(%r, %r, %r)" % (a, b, c)
    if route == "tetragonal_rad":
        return UnitCell.tetragonal(a, c), "UnitCell.tetragonal(%r, %r)" % (a, c)
    if route == "tetragonal_deg":
        return UnitCell.tetragonal(a, c, unit="degrees"), "UnitCell.tetragonal(%r, %r, unit='degrees')" % (a, c)
    if route == "hexagonal":
        return UnitCell.hexagonal(a, c), "UnitCell.hexagonal(%r, %r)" % (a, c)
    if route == "hexagonal_deg":         # the unit keyword only concerns angles the caller passes: there are none here
        return UnitCell.hexagonal(a, c, unit="degrees"), "UnitCell.hexagonal(%r, %r, unit='degrees')" % (a, c)
    if route == "orthorhombic_deg":
        return UnitCell.orthorhombic(a, b, c, unit="degrees"), "UnitCell.orthorhombic(%r, %r, %r, unit='degrees')" % (a, b, c)
    if route == "respec_vectors":
        # an existing cell of another geometry, used (volume, reciprocal lengths queried), then re-specified in place
        V = np.array(recipe["L"], dtype=float) * s
        cell = UnitCell.from_lengths_and_angles([2.5 * a, 0.7 * b, 1.3 * c], [1.2, 1.4, 1.9])
        cell.volume(), cell.a_star, cell.b_star, cell.c_star, cell.parameters
        cell.set_vectors(V)
        return cell, "UnitCell.from_lengths_and_angles(other).volume(); .set_vectors(%r)" % (V.tolist(),)
    if route == "respec_params":
        # the cell re-specified was built on an array the caller still holds (another cell uses it): integer-typed for every
        # second recipe (UnitCell(np.array([[7, 0, 0], ...])))
        if (recipe["sn"] + recipe["sd"]) % 2:
            held = np.array([[7, 0, 0], [1, 9, 0], [1, -2, 5]])
        else:
            held = np.array([[3.1 * a, 0.0, 0.0], [0.4, 1.7 * b, 0.0], [0.3, -0.5, 0.6 * c]])
        held0 = held.copy()
        first = UnitCell(held)
        cell = UnitCell(first.direct)
        cell.volume(), cell.a_star, cell.b_star, cell.c_star, cell.parameters
        cell.set_lengths_and_angles(lengths, angles)
        if not (np.array_equal(held, held0) and np.array_equal(np.asarray(first.direct), held0)):
            raise ArgumentMutated(route)
        return cell, "UnitCell(other vectors).volume(); .set_lengths_and_angles(%r, %r)" % (lengths, angles)
    if route in ("params_rad_rt", "params_deg_rt", "triclinic_rad_rt"):
        # the unit keyword as a caller gets it from a configuration file: a string made at run time, equal to the literal
        unit = "".join(["rad", "ians"]) if "rad" in route else "DEGREES".lower()
        aa = angles if "rad" in route else deg
        if route.startswith("triclinic"):
            return UnitCell.triclinic(a, b, c, *aa, unit=unit), "UnitCell.triclinic(%r, unit=<run-time %r>)" % ([a, b, c] + list(aa), unit)
        return (UnitCell.from_lengths_and_angles(lengths, aa, unit=unit),
                "UnitCell.from_lengths_and_angles(%r, %r, unit=<run-time %r>)" % (lengths, aa, unit))
    if route in ("nudged_vectors", "nudged_params", "twin_vectors", "twin_params"):
        # a cell that differs from the judged one in the 7th digit (the previous step of a cell optimisation), used, and then
        # either re-specified in place with the judged parameters (nudged_*) or left alone while a second cell object is
        # built from the judged parameters (twin_*): the judged cell owes nothing to the earlier one
        eps = 1.0 + 3.0e-7
        V = np.array(recipe["L"], dtype=float) * s if recipe.get("L") is not None else None
        if route.endswith("vectors"):
            other = UnitCell(V * eps)
        else:
            other = UnitCell.from_lengths_and_angles([x * eps for x in lengths], [x * (1.0 + 1.0e-7) for x in angles])
        other.volume(), other.a_star, other.parameters, other.reciprocal_lattice
        if route == "nudged_vectors":
            other.set_vectors(V)
            return other, "UnitCell(V * (1 + 3e-7)); .set_vectors(%r)" % (V.tolist(),)
        if route == "nudged_params":
            other.set_lengths_and_angles(lengths, angles)
            return other, "UnitCell.from_lengths_and_angles(nearly the same); .set_lengths_and_angles(%r, %r)" % (lengths, angles)
        if route == "twin_vectors":
            return UnitCell(V), "UnitCell(V * (1 + 3e-7)) earlier; UnitCell(%r)" % (V.tolist(),)
        return (UnitCell.from_lengths_and_angles(lengths, angles),
                "UnitCell.from_lengths_and_angles(nearly the same) earlier; UnitCell.from_lengths_and_angles(%r, %r)" % (lengths, angles))
    if route == "rhombohedral_rad":
        return UnitCell.rhombohedral(a, al), "UnitCell.rhombohedral(%r, %r)" % (a, al)
    if route == "rhombohedral_deg":
        return (UnitCell.rhombohedral(a, deg[0], unit="degrees"),
                "UnitCell.rhombohedral(%r, %r, unit='degrees')" % (a, deg[0]))
    if route == "monoclinic_rad":
        return UnitCell.monoclinic(a, b, c, be), "UnitCell.monoclinic(%r, %r, %r, %r)" % (a, b, c, be)
    if route == "monoclinic_deg":
        return (UnitCell.monoclinic(a, b, c, deg[1], unit="degrees"),
                "UnitCell.monoclinic(%r, %r, %r, %r, unit='degrees')" % (a, b, c, deg[1]))
    if route.startswith("unique_"):
        # from_unique_parameters dispatches on the cell type name (radians)
        fam = route[len("unique_"):]
        params = {"cubic": (a,), "tetragonal": (a, c), "orthorhombic": (a, b, c), "hexagonal": (a, c),
                  "rhombohedral": (a, al), "monoclinic": (a, b, c, be),
                  "triclinic": (a, b, c, al, be, ga)}[fam]
        return (UnitCell.from_unique_parameters(params, cell_type=fam),
                "UnitCell.from_unique_parameters(%r, cell_type=%r)" % (params, fam))
    raise ValueError("unknown route " + route)


def drive_reflections(rec):
    """reflections() on a real P1 crystal whose reciprocal lattice is the integer unimodular matrix M (extension, Reflections.tla)."""
    import numpy as np
    from chmpy.crystal import Crystal, UnitCell, SpaceGroup, AsymmetricUnit
    from chmpy.core.element import Element
    M = np.array(rec["M"], dtype=float)
    K = rec["K"]
    lam = 2.0 / math.sqrt(K + 0.5)
    t = {"M": rec["M"], "Minv": rec["Minv"], "K": K, "sorted": bool(rec["sort"]), "exc": "", "off": False, "hkl": [], "G": [], "q2": [],
         "meta": {"recipe": rec, "source": "unimodular-reciprocal-lattice", "nontrivial": True,
                  "impl_call": "Crystal(P1, reciprocal lattice %r).unique_reflections(wavelength=2/sqrt(%d.5), dmin=wavelength/2, sort=%r)" % (rec["M"], K, rec["sort"])}}
    try:
        cr = Crystal(UnitCell(np.linalg.inv(M.T)), SpaceGroup(1), AsymmetricUnit([Element["C"]], np.array([[0.1, 0.2, 0.3]])))
        r = cr.unique_reflections(wavelength=lam, dmin=lam / 2, sort=rec["sort"]) if rec["via"] == "crystal" else None
        if r is None:
            from chmpy.crystal.sfac import reflections
            r = reflections(cr, wavelength=lam, dmin=lam / 2, sort=rec["sort"])
        hkl, G, q = np.asarray(r.hkl), np.asarray(r.q, dtype=float), np.asarray(r.q_mag, dtype=float)
        t["hkl"] = [[int(x) for x in row] for row in hkl]
        t["G"] = [[int(round(x)) for x in row] for row in G]
        t["q2"] = [int(round(x * x)) for x in q]
        t["off"] = bool(np.any(np.abs(G - np.round(G)) > 1e-9) or np.any(np.abs(q * q - np.round(q * q)) > 1e-9)
                        or not np.issubdtype(hkl.dtype, np.integer))
    except Exception as e:
        t["exc"] = type(e).__name__
    return t


def reflection_recipes(rng, count):
    import numpy as np
    out = []
    while len(out) < count:
        M = np.eye(3, dtype=int)
        for _ in range(rng.randint(0, 3)):
            i, j = rng.sample(range(3), 2)
            S = np.eye(3, dtype=int)
            S[i, j] = rng.choice([-1, 1])
            M = M @ S
        if rng.random() < 0.3:
            M = M[[1, 2, 0]] if rng.random() < 0.5 else -M
            if round(np.linalg.det(M)) < 0:
                M[0] = -M[0]
        Minv = np.round(np.linalg.inv(M)).astype(int)
        if np.max(np.abs(M)) > 3 or np.max(np.abs(Minv)) > 3:
            continue
        out.append({"M": [[int(x) for x in r] for r in M], "Minv": [[int(x) for x in r] for r in Minv], "K": rng.randint(1, 14),
                    "sort": rng.random() < 0.7, "via": rng.choice(["crystal", "module"])})
    return out


def drive(recipe):
    """recipe: kind 'L'|'G', L / G integer matrices, sn/sd scale, family, routes, pts."""
    import warnings
    import logging
    logging.disable(logging.CRITICAL)
    from chmpy.crystal.unit_cell import UnitCell  # noqa: F401  (an import failure is machinery, not an observation)
    G = recipe["G"] if recipe["kind"] == "G" else gram_of(recipe["L"])
    t = {"kind": recipe["kind"], "L": recipe.get("L") or [[0] * 3] * 3, "G": G,
         "sn": recipe["sn"], "sd": recipe["sd"], "family": recipe["family"],
         "n": NGRID, "pts": recipe["pts"], "routes": [],
         "meta": {"recipe": recipe, "source": recipe.get("source", "random"), "impl_call": "",
                  "nontrivial": any(G[i][j] != 0 for (i, j) in ((0, 1), (0, 2), (1, 2)))}}
    calls = []
    for route in recipe["routes"]:
        o = dict(EMPTY_OBS)
        o.update({"name": route, "exc": "", "finite": True})
        try:
            with warnings.catch_warnings():
                warnings.simplefilter("ignore")
                uc, call = build(route, recipe)
                calls.append(call)
                obs = observe(uc, recipe["pts"])
            if obs is None:
                o["finite"] = False
            else:
                o.update(obs)
        except (ValueError, KeyError) as e:
            if isinstance(e, ValueError) and str(e).startswith("unknown route"):
                raise
            o["exc"] = type(e).__name__
        except Exception as e:      # an exception of the implementation is an observation
            o["exc"] = type(e).__name__
        t["routes"].append(o)
    t["meta"]["impl_call"] = "; ".join(calls)[:600]
    return t


# ----------------------------------------------------------------------------- cells off the exact domain (Trace_LatticeF)
def float_recipes(ctx):
    """Cells given by arbitrary decimals: angles a few ten-thousandths of a degree to a few hundredths away from 90 / 120,
    edges a hair apart, ordinary triclinic ones as controls."""
    rng = random.Random(ctx.seed * 7561 + 3)
    out = []
    deltas = [1.0e-4, 4.0e-4, 8.0e-4, 3.0e-3, 2.0e-2, 5.0e-2, 0.3]
    for i in range(ctx.pick(60, 900)):
        lengths = [round(rng.uniform(3.0, 40.0), 4) for _ in range(3)]
        if i % 5 == 0:
            lengths[1] = lengths[0] + rng.choice([1e-7, 4e-7, 3e-6, 2e-5, 7e-5, 1e-4])        # two edges a hair apart
        base = rng.choice([[90, 90, 90], [90, 90, 120], [90, 100 + rng.randint(0, 20), 90], [90, 90, 90],
                           [rng.randint(70, 110), rng.randint(70, 110), rng.randint(70, 110)]])
        angles = [float(b) for b in base]
        for k in rng.sample(range(3), rng.randint(1, 3)):
            angles[k] = angles[k] + rng.choice([-1, 1]) * rng.choice(deltas)
        if i % 7 == 3:
            # two angles a few ten-thousandths of a degree apart (119.9997 next to 120)
            k1, k2 = rng.sample(range(3), 2)
            angles[k2] = angles[k1] + rng.choice([-1, 1]) * rng.choice([3e-6, 2e-4, 6e-4, 1e-3])
        route = rng.choice(["params_deg", "params_rad", "triclinic_deg", "vectors", "vectors_rot", "respec_params", "vectors_upper", "vectors_upper"])
        out.append({"kind": "F", "lengths": lengths, "angles_deg": angles, "route": route, "pts": rand_points(rng),
                    "rot": [rng.gauss(0, 1) for _ in range(4)], "source": "decimal-parameters"})
    return out


def drive_float(recipe):
    import warnings
    import logging
    import numpy as np
    logging.disable(logging.CRITICAL)
    from chmpy.crystal.unit_cell import UnitCell
    lengths = [float(x) for x in recipe["lengths"]]
    deg = [float(x) for x in recipe["angles_deg"]]
    rad = [math.radians(x) for x in deg]
    a, b, c = lengths
    ca, cb, cg = (math.cos(x) for x in rad)
    sg = math.sin(rad[2])
    # the metric these parameters describe, and the standard embedding (a along x, b in the xy plane), both by this harness
    ge = [[a * a, a * b * cg, a * c * cb], [0.0, b * b, b * c * ca], [0.0, 0.0, c * c]]
    vol = a * b * c * math.sqrt(max(1e-300, 1 - ca * ca - cb * cb - cg * cg + 2 * ca * cb * cg))
    D0 = np.array([[a, 0.0, 0.0], [b * cg, b * sg, 0.0], [c * cb, c * (ca - cb * cg) / sg, vol / (a * b * sg)]])
    route = recipe["route"]
    if route == "vectors_rot":
        q = np.array(recipe["rot"], dtype=float)
        q = q / np.linalg.norm(q)
        w, x, y, z = q
        Rm = np.array([[1 - 2 * (y * y + z * z), 2 * (x * y - z * w), 2 * (x * z + y * w)],
                       [2 * (x * y + z * w), 1 - 2 * (x * x + z * z), 2 * (y * z - x * w)],
                       [2 * (x * z - y * w), 2 * (y * z + x * w), 1 - 2 * (x * x + y * y)]])
        D0 = D0 @ Rm.T
    if route == "vectors_upper":
        # the same lattice in the "c along z" orientation: a = (ax, ay, az), b = (0, by, bz), c = (0, 0, cz) - the standard embedding
        # of the axes taken in the order c, b, a with rows and coordinates reversed (a proper rotation of the standard one)
        cc, cb2, ca2 = math.cos(rad[0]), math.cos(rad[1]), math.cos(rad[2])          # alpha = (b,c), beta = (a,c), gamma = (a,b)
        sal = math.sin(rad[0])
        # order c, b, a: first axis c along x; second axis b in the xy plane (angle alpha to c); third axis a
        Dp = np.array([[c, 0.0, 0.0], [b * cc, b * sal, 0.0], [a * cb2, a * (ca2 - cb2 * cc) / sal, vol / (c * b * sal)]])
        D0 = Dp[::-1, ::-1].copy()
    if route in ("vectors", "vectors_rot", "vectors_upper"):
        G0 = D0 @ D0.T
        ge = [[float(G0[0, 0]), float(G0[0, 1]), float(G0[0, 2])], [0.0, float(G0[1, 1]), float(G0[1, 2])], [0.0, 0.0, float(G0[2, 2])]]
    cI = int(min(99999, math.ceil((a * b * c / vol) ** 2 * 1.001) + 1))
    t = {"kind": "F", "n": NGRID, "pts": recipe["pts"], "cI": cI,
         "ge": [[scaled_big(x, K) for x in row] for row in ge], "routes": [],
         "meta": {"recipe": recipe, "source": recipe.get("source", "decimal-parameters"), "impl_call": "", "nontrivial": True}}
    o = dict(EMPTY_OBS)
    o.update({"name": route, "exc": "", "finite": True})
    try:
        with warnings.catch_warnings():
            warnings.simplefilter("ignore")
            if route == "params_deg":
                uc = UnitCell.from_lengths_and_angles(lengths, deg, unit="degrees")
            elif route == "params_rad":
                uc = UnitCell.from_lengths_and_angles(lengths, rad)
            elif route == "triclinic_deg":
                uc = UnitCell.triclinic(a, b, c, *deg, unit="degrees")
            elif route == "respec_params":
                uc = UnitCell.cubic(7.0)
                uc.volume(), uc.parameters
                uc.set_lengths_and_angles(lengths, rad)
            else:
                uc = UnitCell(D0.copy())
            t["meta"]["impl_call"] = "UnitCell via %s: lengths %r angles %r deg" % (route, lengths, deg)
            obs = observe(uc, recipe["pts"])
        if obs is None:
            o["finite"] = False
        else:
            o.update(obs)
    except Exception as e:      # an exception of the implementation is an observation
        o["exc"] = type(e).__name__
    t["routes"].append(o)
    return t


# ----------------------------------------------------------------------------- generators
SCALES = [(1, 2), (1, 1), (3, 2), (5, 4), (2, 1), (3, 1), (7, 2), (5, 1), (7, 4), (9, 1), (25, 8), (12, 1)]
COND_MAX = 100000
MC_CFG = """SPECIFICATION Spec
CHECK_DEADLOCK FALSE
CONSTANTS
  N = %d
  BigN = %d
  Canon = %s
  Emit = %s
INVARIANT History
INVARIANT AdjugateInverse
INVARIANT GramDeterminant
INVARIANT GramAdjugate
INVARIANT VolumeFormula
INVARIANT StarFormulas
INVARIANT Cholesky
INVARIANT Hadamard
INVARIANT RoutesAgree
INVARIANT BigAgrees
"""


def adj3(m):
    def cof(i, j):
        a, b = (i + 1) % 3, (i + 2) % 3
        c, d = (j + 1) % 3, (j + 2) % 3
        return m[a][c] * m[b][d] - m[a][d] * m[b][c]
    return [[cof(j, i) for j in range(3)] for i in range(3)]


def in_domain(G, sn, sd):
    """Generator-side pre-filter (shapes the distribution only; the guard that decides is
    Trace_Lattice!Guard, evaluated by TLC on every trace)."""
    A = adj3(G)
    d = det3(G)
    if not (G[0][0] > 0 and A[2][2] > 0 and d > 0):
        return False
    if max(abs(x) for r in G for x in r) > 400:
        return False
    for (i, j) in ((1, 2), (0, 2), (0, 1)):
        lim = 98 if G[i][j] >= 0 else 96
        if 100 * G[i][j] ** 2 > lim * G[i][i] * G[j][j]:
            return False
    if (G[0][0] * G[1][1] * G[2][2]) // d >= COND_MAX:
        return False
    return all(sd * sd <= sn * sn * G[i][i] <= 10000 * sd * sd for i in range(3))


def pick_scale(rng, G):
    for _ in range(50):
        sn, sd = rng.choice(SCALES)
        if in_domain(G, sn, sd):
            return sn, sd
    return None


def rand_points(rng, n=4):
    pts = [[rng.randint(-30, 30) for _ in range(3)] for _ in range(n - 1)]
    pts.append([NGRID * rng.randint(-2, 2) for _ in range(3)])       # a lattice translation
    return pts


def family_of(G):
    off0 = G[0][1] == 0 and G[0][2] == 0 and G[1][2] == 0
    if off0 and G[0][0] == G[1][1] == G[2][2]:
        return "cubic"
    if off0 and G[0][0] == G[1][1]:
        return "tetragonal"
    if off0:
        return "orthorhombic"
    if G[0][0] == G[1][1] and 2 * G[0][1] == -G[0][0] and G[0][2] == 0 and G[1][2] == 0:
        return "hexagonal"
    if G[0][0] == G[1][1] == G[2][2] and G[0][1] == G[0][2] == G[1][2]:
        return "rhombohedral"
    if G[0][1] == 0 and G[1][2] == 0:
        return "monoclinic"
    return "triclinic"


def recipe_for(rng, kind, M, source, family=None, all_routes=False):
    G = M if kind == "G" else gram_of(M)
    sc = pick_scale(rng, G)
    if sc is None:
        return None
    fam = family or family_of(G)
    wrappers = ["triclinic_rad", "triclinic_deg", "unique_triclinic"]
    routes = (["vectors", "respec_vectors"] if kind == "L" else []) + ["params_rad", "params_deg", "respec_params",
                                                                      "params_rad_np", "params_deg_np"]
    routes += wrappers if all_routes else [rng.choice(wrappers)]
    if kind == "L":
        routes.append(rng.choice(["vectors_fortran", "vectors_colT"]))
    extra = ["params_rad_rt", "params_deg_rt", "triclinic_rad_rt", "nudged_params", "twin_params"] + (["nudged_vectors", "twin_vectors"] if kind == "L" else [])
    routes += extra if all_routes else rng.sample(extra, 2)
    # the twin routes come first: nothing in the process has yet described the judged cell when its near twin is built
    routes.sort(key=lambda r: 0 if r.startswith("twin_") else 1)
    if fam != "triclinic":
        routes += FAMILY_ROUTES[fam] + ["unique_" + fam]
    r = {"kind": kind, "sn": sc[0], "sd": sc[1], "family": fam, "routes": routes,
         "pts": rand_points(rng), "source": source}
    r["L" if kind == "L" else "G"] = M
    if kind == "G":
        r["L"] = None
    return r


def rand_lattice(rng, lim=6):
    while True:
        L = [[rng.randint(-lim, lim) for _ in range(3)] for _ in range(3)]
        if det3(L) > 0:
            return L


def near_right(rng):
    """Lattice vectors with an angle 0.15-0.8 degrees away from 90 (|a.b| = 1 or 2 with |a||b| up to 400: the closest the exact
    domain of Lattice.tla, entries <= 20, allows)."""
    while True:
        p, q = rng.randint(12, 19), rng.randint(1, 6)
        a = [p, q, 0]
        b = [-q, p, rng.choice([0, 0, 1])]
        b[rng.randrange(2)] += rng.choice([-1, 1])             # a.b = +-p or +-q ... keep only tiny ones
        dot = sum(x * y for x, y in zip(a, b))
        if abs(dot) not in (1, 2):
            continue
        c = [rng.randint(-3, 3), rng.randint(-3, 3), rng.randint(8, 19)]
        L = [a, b, c]
        rng.shuffle(L)
        if det3(L) < 0:
            L[0], L[1] = L[1], L[0]
        if det3(L) > 0:
            return L


def near_degenerate(rng):
    """Long vectors with a small determinant: angles near the 8 / 170 degree ends."""
    while True:
        L = rand_lattice(rng)
        G = gram_of(L)
        d = det3(G)
        if (G[0][0] * G[1][1] * G[2][2]) // d >= 200:
            return L


def rand_gram(rng):
    """A positive definite integer Gram matrix that need not be L L^T for an integer L."""
    while True:
        d = [rng.randint(2, 300) for _ in range(3)]
        G = [[0] * 3 for _ in range(3)]
        for i in range(3):
            G[i][i] = d[i]
        for (i, j) in ((0, 1), (0, 2), (1, 2)):
            m = int(math.isqrt(d[i] * d[j]))
            G[i][j] = G[j][i] = rng.randint(-m, m)
        if det3(G) > 0 and G[0][0] * G[1][1] - G[0][1] ** 2 > 0:
            return G


def family_gram(rng, fam):
    a, b, c = rng.sample(range(2, 200), 3)
    if fam == "cubic":
        return [[a, 0, 0], [0, a, 0], [0, 0, a]]
    if fam == "tetragonal":
        return [[a, 0, 0], [0, a, 0], [0, 0, c]]
    if fam == "orthorhombic":
        return [[a, 0, 0], [0, b, 0], [0, 0, c]]
    if fam == "hexagonal":
        a = 2 * (a // 2 + 1)
        return [[a, -a // 2, 0], [-a // 2, a, 0], [0, 0, c]]
    if fam == "rhombohedral":
        h = rng.randint(-(a // 2) + 1, a - 1)
        return [[a, h, h], [h, a, h], [h, h, a]]
    if fam == "monoclinic":
        m = int(math.isqrt(a * c))
        h = rng.randint(-m, m)
        return [[a, 0, h], [0, b, 0], [h, 0, c]]
    raise ValueError(fam)


def family_lattice(rng, fam):
    """Integer lattices of the named families (so that the vectors route applies too)."""
    m, n, k = rng.sample(range(1, 7), 3)
    if fam in ("cubic", "tetragonal", "orthorhombic") and rng.random() < 0.5:
        # the same metric with lattice vectors that do not lie along x, y, z: a 3-4-5 rotation about one axis, axes permuted
        # cyclically (right-handed), or both
        lens = {"cubic": (5, 5, 5), "tetragonal": (5, 5, rng.choice([1, 2, 3, 4, 6])), "orthorhombic": (5, 10, rng.choice([2, 3, 4, 7]))}[fam]
        L = [[3 * lens[0] // 5, 4 * lens[0] // 5, 0], [-4 * lens[1] // 5, 3 * lens[1] // 5, 0], [0, 0, lens[2]]]
        if rng.random() < 0.5:
            L = [[lens[0], 0, 0], [0, lens[1], 0], [0, 0, lens[2]]]
        sh = rng.randrange(3)
        L = [row[sh:] + row[:sh] for row in L]           # cyclic permutation of the Cartesian axes (a proper rotation)
        if det3(L) > 0:
            return L
    if fam == "cubic":
        return [[m, 0, 0], [0, m, 0], [0, 0, m]]
    if fam == "tetragonal":
        return [[m, 0, 0], [0, m, 0], [0, 0, n]]
    if fam == "orthorhombic":
        return [[m, 0, 0], [0, n, 0], [0, 0, k]]
    if fam == "hexagonal":          # a = (m,-m,0), b = (0,m,-m): |a|^2 = 2m^2, a.b = -m^2; c along (1,1,1)
        return [[m, -m, 0], [0, m, -m], [n, n, n]]
    if fam == "rhombohedral":       # cyclic permutations of (m, n, n)
        L = [[m, n, n], [n, m, n], [n, n, m]]
        return L if det3(L) > 0 else [L[1], L[0], L[2]]
    if fam == "monoclinic":
        h = rng.randint(-5, 5)
        return [[m, 0, 0], [0, n, 0], [h, 0, k]]
    raise ValueError(fam)


def emitted_lattices(res):
    """Lattices printed by MC_Lattice (action FromVectors with Emit): 'G|<<<<a, b, c>>, <<..>>, <<..>>>>'."""
    import re
    out = []
    for line in res.printed:
        if line.startswith("G|"):
            v = [int(x) for x in re.findall(r"-?\d+", line[2:])]
            if len(v) == 9:
                out.append([v[0:3], v[3:6], v[6:9]])
    return sorted(out)


def make_recipes(ctx, emitted=()):
    rng = ctx.rng
    recipes = []

    def add(r):
        if r is not None:
            recipes.append(r)
    ar = not ctx.quick
    n_rand = ctx.pick(110, 2500)
    n_deg = ctx.pick(40, 1000)
    n_gram = ctx.pick(40, 1000)
    n_fam = ctx.pick(4, 80)
    for _ in range(n_rand):
        add(recipe_for(rng, "L", rand_lattice(rng), "random-lattice", all_routes=ar))
    for _ in range(n_deg):
        add(recipe_for(rng, "L", near_degenerate(rng), "near-degenerate-lattice", all_routes=ar))
    for _ in range(n_gram):
        add(recipe_for(rng, "G", rand_gram(rng), "random-gram", all_routes=ar))
    for _ in range(ctx.pick(30, 600)):
        add(recipe_for(rng, "L", near_right(rng), "near-right-angle-lattice", all_routes=ar))
    for fam in ("cubic", "tetragonal", "orthorhombic", "hexagonal", "rhombohedral", "monoclinic"):
        for _ in range(n_fam):
            add(recipe_for(rng, "G", family_gram(rng, fam), "family-gram", all_routes=ar))
            add(recipe_for(rng, "L", family_lattice(rng, fam), "family-lattice", all_routes=ar))
    small = list(emitted)
    k = ctx.pick(30, 1000)
    if len(small) > k:
        small = rng.sample(small, k)
    for L in small:
        add(recipe_for(rng, "L", L, "tlc-enumerated-lattice", all_routes=ar))
    # deliberately outside the domain (must come back OOD, never judged)
    add({"kind": "L", "L": [[6, 0, 0], [12, 1, 0], [0, 0, 1]], "G": None, "sn": 1, "sd": 1, "family": "triclinic",
         "routes": ["vectors", "params_rad"], "pts": [[1, 2, 3]], "source": "out-of-domain"})
    return recipes


CONSTS = "  K = %d\n  CondMax = %d\n" % (K, COND_MAX)


def run(ctx):
    # Canon = first row 0 <= x <= y <= z: every Gram matrix of the full range is still visited
    res = ctx.model_check("mc/MC_Lattice.tla", MC_CFG % (2, 1, "TRUE", "TRUE"),
                          name="MC_Lattice(-2..2, first row canonical; BigInt cross-check and emission on -1..1)",
                          timeout=900)
    emitted = emitted_lattices(res)
    if not emitted:
        raise tlc.TLCFailure("MC_Lattice emitted no lattice")
    if not ctx.quick:
        ctx.model_check("mc/MC_Lattice.tla", MC_CFG % (2, 0, "FALSE", "FALSE"), name="MC_Lattice(-2..2, all)",
                        timeout=1400)
    recipes = make_recipes(ctx, emitted)
    traces = pool_map(drive, recipes)
    ctx.validate("trace/Trace_Lattice.tla", traces, consts=CONSTS, batch=1000, timeout=1400)
    # cells off the exact domain: decimal parameters, angles next to 90 / 120 degrees, edges a hair apart
    ftraces = pool_map(drive_float, float_recipes(ctx))
    ctx.validate("trace/Trace_LatticeF.tla", ftraces, consts="  K = %d\n" % K, timeout=900)
    # beyond the listed property: the reflections inside the limiting sphere, which rest on the reciprocal lattice (Reflections.tla)
    rtraces = pool_map(drive_reflections, reflection_recipes(random.Random(ctx.seed * 31 + 12), ctx.pick(60, 600)))
    ctx.validate("trace/Trace_Reflections.tla", rtraces, name="Trace_Reflections (extension)", extension=True, timeout=900)
    ctx.notes["decimal_parameter_cells"] = len(ftraces)
    ctx.rule = ("exact integer cells (lattice L with entries -6..6 and det > 0, or a positive definite integer "
                "Gram matrix; rational scale) built through every applicable construction route of the real "
                "UnitCell; non-trivial = at least one non-right angle (an off-diagonal Gram entry is non-zero)")
    ctx.explanation = ("MC_Lattice is exhaustive over its integer ranges (a design-level model); the cells "
                       "driven through the implementation are sampled (random, near-degenerate, per crystal family) "
                       "plus lattices enumerated by TLC in MC_Lattice (entries -1..1, first row canonical)")
    ctx.assumptions = [
        "float arguments (lengths s*sqrt(G_ii), angles acos(G_ij/sqrt(G_ii G_jj))) are computed by the harness "
        "from the exact integers with correctly rounded libm calls; their rounding (<= 2 ulp) is covered by the slack",
        "cos/sin of a reported angle are taken with numpy in the harness to project the angle onto the algebraic "
        "quantity the spec knows exactly (cos^2 with sign, sin^2)",
        "domain: lengths 1..100 A, angles 8..170 degrees, (abc/V)^2 < %d" % COND_MAX,
    ]
    ctx.notes["slack"] = ("relative 2^-30 x (floor((abc/V)^2) + 1), (abc/V)^2 = G11 G22 G33 / det G computed exactly by "
                          "the spec; products direct x inverse additionally x kI >= sqrt(tr G tr G*); measured float "
                          "noise on the unchanged tree <= 3e-15 x (abc/V)^2 in every clause")
    ctx.notes["scale"] = "observed floats shipped as round(x * 2^%d)" % K
    ctx.notes["routes"] = sorted({r for rec in recipes for r in rec["routes"]})
    ctx.notes["cases"] = {}
    for rec in recipes:
        ctx.notes["cases"][rec["source"]] = ctx.notes["cases"].get(rec["source"], 0) + 1
    ctx.notes["route_observations"] = sum(len(rec["routes"]) for rec in recipes)


def replay(ctx, rec):
    recipe = rec["record"]["meta"]["recipe"]
    if recipe.get("kind") == "F":
        ctx.validate("trace/Trace_LatticeF.tla", [drive_float(recipe)], consts="  K = %d\n" % K)
        return
    t = drive(recipe)
    ctx.validate("trace/Trace_Lattice.tla", [t], consts=CONSTS)


if __name__ == "__main__":
    raise SystemExit(main("C12", run, replay))
