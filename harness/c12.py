"""C12 - unit-cell geometry is self-consistent however the cell was specified.

(M) MC_Lattice: the polynomial identities behind every closed form of crystal/unit_cell.py
    (adjugate inverse, Gram determinant, volume formula, starred lengths/angles, the lower
    triangular direct/inverse matrices of set_lengths_and_angles) over all integer lattices with
    small entries, in plain integers and again through the BigInt operators used for traces.
(T) exact integer cells (lattice L or Gram matrix G, rational scale) built through every
    construction route of the real UnitCell; all reported floats are shipped as integers
    round(x * 2^K) and judged by TLC (Trace_Lattice) against the exact rationals.
"""
import math
import os
from fractions import Fraction

from harness.common import main, pool_map
from harness import tlc
from harness.project import scaled_big

K = 48                       # observed floats are shipped as round(x * 2^K)
NGRID = 12                   # fractional grid points p / NGRID
BIG0 = {"s": 0, "d": []}

ROUTES_GENERIC = ["vectors", "params_rad", "params_deg", "triclinic_rad", "triclinic_deg"]
FAMILY_ROUTES = {
    "cubic": ["cubic"],
    "tetragonal": ["tetragonal_rad", "tetragonal_deg"],
    "orthorhombic": ["orthorhombic"],
    "hexagonal": ["hexagonal"],
    "rhombohedral": ["rhombohedral_rad", "rhombohedral_deg"],
    "monoclinic": ["monoclinic_rad", "monoclinic_deg"],
    "triclinic": [],
}


# ----------------------------------------------------------------------------- exact helpers
def gram_of(L):
    return [[sum(L[i][k] * L[j][k] for k in range(3)) for j in range(3)] for i in range(3)]


def det3(m):
    return (m[0][0] * (m[1][1] * m[2][2] - m[1][2] * m[2][1])
            - m[0][1] * (m[1][0] * m[2][2] - m[1][2] * m[2][0])
            + m[0][2] * (m[1][0] * m[2][1] - m[1][1] * m[2][0]))


def float_inputs(recipe):
    """The float arguments the API takes, computed from the exact integers of the recipe."""
    G = recipe["G"] if recipe["kind"] == "G" else gram_of(recipe["L"])
    s = recipe["sn"] / recipe["sd"]
    lengths = [s * math.sqrt(G[i][i]) for i in range(3)]
    pairs = [(1, 2), (0, 2), (0, 1)]            # alpha, beta, gamma
    angles = []
    for (i, j) in pairs:
        # cos = G_ij / sqrt(G_ii G_jj); isqrt keeps the radicand exact
        c = G[i][j] / math.sqrt(G[i][i] * G[j][j])
        angles.append(math.acos(max(-1.0, min(1.0, c))))
    return G, s, lengths, angles


# ----------------------------------------------------------------------------- observation
def _sb(x):
    return scaled_big(float(x), K)


def _finite(*arrs):
    import numpy as np
    return all(bool(np.all(np.isfinite(np.asarray(a, dtype=float)))) for a in arrs)


def observe(uc, pts):
    """Everything C12 talks about, read from a real UnitCell through its public interface."""
    import numpy as np
    D = np.asarray(uc.direct, dtype=float)
    I = np.asarray(uc.inverse, dtype=float)
    R = np.asarray(uc.reciprocal_lattice, dtype=float)
    lens = [uc.a, uc.b, uc.c]
    angs = [uc.alpha, uc.beta, uc.gamma]
    degs = [uc.alpha_deg, uc.beta_deg, uc.gamma_deg]
    vol = uc.volume()
    star = [uc.a_star, uc.b_star, uc.c_star]
    sang = [uc.alpha_star, uc.beta_star, uc.gamma_star]
    par = np.asarray(uc.parameters, dtype=float)
    frac = np.asarray(pts, dtype=float) / NGRID
    xs = np.asarray(uc.to_cartesian(frac), dtype=float)
    fs = np.asarray(uc.to_fractional(xs), dtype=float)
    vstar = np.array([uc.v_a_star, uc.v_b_star, uc.v_c_star], dtype=float)
    vdir = np.array([uc.v_a, uc.v_b, uc.v_c], dtype=float)
    alias = np.asarray(uc.lattice, dtype=float)
    ok = _finite(D, I, R, lens, angs, degs, [vol], star, sang, par, xs, fs, vstar, vdir, alias)
    if not ok:
        return None

    def mat(m):
        return [[_sb(x) for x in row] for row in m]

    def vec(v):
        return [_sb(x) for x in v]
    return {
        "D": mat(D), "Inv": mat(I), "Rec": mat(R), "VStar": mat(vstar), "VDir": mat(vdir),
        "Alias": mat(alias),
        "len": vec(lens),
        "cosang": vec(np.cos(angs)), "sinang": vec(np.sin(angs)),
        "cosdeg": vec(np.cos(np.radians(degs))), "sindeg": vec(np.sin(np.radians(degs))),
        "vol": _sb(vol),
        "star": vec(star),
        "cosstar": vec(np.cos(sang)), "sinstar": vec(np.sin(sang)),
        "plen": vec(par[:3]),
        "pcos": vec(np.cos(np.radians(par[3:]))), "psin": vec(np.sin(np.radians(par[3:]))),
        "xs": mat(xs), "fs": mat(fs),
    }


EMPTY_OBS = {
    "D": [], "Inv": [], "Rec": [], "VStar": [], "VDir": [], "Alias": [], "len": [], "cosang": [],
    "sinang": [], "cosdeg": [], "sindeg": [], "vol": BIG0, "star": [], "cosstar": [], "sinstar": [],
    "plen": [], "pcos": [], "psin": [], "xs": [], "fs": [],
}


def build(route, recipe):
    """Construct the real UnitCell through one route. Returns (cell, call text)."""
    import numpy as np
    from chmpy.crystal.unit_cell import UnitCell
    G, s, lengths, angles = float_inputs(recipe)
    a, b, c = lengths
    al, be, ga = angles
    deg = [math.degrees(x) for x in angles]
    if route == "vectors":
        V = np.array(recipe["L"], dtype=float) * s
        return UnitCell(V), "UnitCell(%r)" % (V.tolist(),)
    if route == "params_rad":
        return (UnitCell.from_lengths_and_angles(lengths, angles),
                "UnitCell.from_lengths_and_angles(%r, %r)" % (lengths, angles))
    if route == "params_deg":
        return (UnitCell.from_lengths_and_angles(lengths, deg, unit="degrees"),
                "UnitCell.from_lengths_and_angles(%r, %r, unit='degrees')" % (lengths, deg))
    if route == "triclinic_rad":
        return UnitCell.triclinic(a, b, c, al, be, ga), "UnitCell.triclinic(%r)" % ([a, b, c, al, be, ga],)
    if route == "triclinic_deg":
        return (UnitCell.triclinic(a, b, c, *deg, unit="degrees"),
                "UnitCell.triclinic(%r, unit='degrees')" % ([a, b, c] + deg,))
    if route == "cubic":
        return UnitCell.cubic(a), "UnitCell.cubic(%r)" % a
    if route == "orthorhombic":
        return UnitCell.orthorhombic(a, b, c), "UnitCell.orthorhombic(%r, %r, %r)" % (a, b, c)
    if route == "tetragonal_rad":
        return UnitCell.tetragonal(a, c), "UnitCell.tetragonal(%r, %r)" % (a, c)
    if route == "tetragonal_deg":
        return UnitCell.tetragonal(a, c, unit="degrees"), "UnitCell.tetragonal(%r, %r, unit='degrees')" % (a, c)
    if route == "hexagonal":
        return UnitCell.hexagonal(a, c), "UnitCell.hexagonal(%r, %r)" % (a, c)
    if route == "rhombohedral_rad":
        return UnitCell.rhombohedral(a, al), "UnitCell.rhombohedral(%r, %r)" % (a, al)
    if route == "rhombohedral_deg":
        return (UnitCell.rhombohedral(a, deg[0], unit="degrees"),
                "UnitCell.rhombohedral(%r, %r, unit='degrees')" % (a, deg[0]))
    if route == "monoclinic_rad":
        return UnitCell.monoclinic(a, b, c, be), "UnitCell.monoclinic(%r, %r, %r, %r)" % (a, b, c, be)
    if route == "monoclinic_deg":
        return (UnitCell.monoclinic(a, b, c, deg[1], unit="degrees"),
                "UnitCell.monoclinic(%r, %r, %r, %r, unit='degrees')" % (a, b, c, deg[1]))
    if route == "from_unique":
        # from_unique_parameters dispatches on the cell type name (radians)
        fam = recipe["family"]
        params = {"cubic": (a,), "tetragonal": (a, c), "orthorhombic": (a, b, c), "hexagonal": (a, c),
                  "rhombohedral": (a, al), "monoclinic": (a, b, c, be),
                  "triclinic": (a, b, c, al, be, ga)}[fam]
        return (UnitCell.from_unique_parameters(params, cell_type=fam),
                "UnitCell.from_unique_parameters(%r, cell_type=%r)" % (params, fam))
    raise ValueError("unknown route " + route)


def drive(recipe):
    """recipe: kind 'L'|'G', L / G integer matrices, sn/sd scale, family, routes, pts."""
    import warnings
    import logging
    logging.disable(logging.CRITICAL)
    G = recipe["G"] if recipe["kind"] == "G" else gram_of(recipe["L"])
    t = {"kind": recipe["kind"], "L": recipe.get("L") or [[0] * 3] * 3, "G": G,
         "sn": recipe["sn"], "sd": recipe["sd"], "family": recipe["family"],
         "n": NGRID, "pts": recipe["pts"], "routes": [],
         "meta": {"recipe": recipe, "source": recipe.get("source", "random"), "impl_call": "",
                  "nontrivial": any(G[i][j] != 0 for (i, j) in ((0, 1), (0, 2), (1, 2)))}}
    calls = []
    for route in recipe["routes"]:
        o = dict(EMPTY_OBS)
        o.update({"name": route, "exc": "", "finite": True})
        try:
            with warnings.catch_warnings():
                warnings.simplefilter("ignore")
                uc, call = build(route, recipe)
                calls.append(call)
                obs = observe(uc, recipe["pts"])
            if obs is None:
                o["finite"] = False
            else:
                o.update(obs)
        except (ValueError, KeyError) as e:
            if isinstance(e, ValueError) and str(e).startswith("unknown route"):
                raise
            o["exc"] = type(e).__name__
        except Exception as e:      # an exception of the implementation is an observation
            o["exc"] = type(e).__name__
        t["routes"].append(o)
    t["meta"]["impl_call"] = "; ".join(calls)[:600]
    return t
