"""C02 - every tabulated space-group setting is a closed, consistently identified group.

(M) MC_SpaceGroup on the table exported from the current tree (data-driven: a violated invariant
    is a property violation).
(T) one trace per setting recorded from real SpaceGroup objects -> Trace_SpaceGroup.
"""
import json
import os

from harness.common import REPO, main, pool_map, safe_drive
from harness import tlc

MC_CFG = """SPECIFICATION Spec
CHECK_DEADLOCK FALSE
CONSTANTS
  LattRule = "%s"
  NBlocks = 64
INVARIANT TableNoDup
INVARIANT TableIdentity
INVARIANT TableClosed
INVARIANT TableInverses
INVARIANT TableUnimodular
INVARIANT TableCentroFlag
INVARIANT TableLookupUnique
INVARIANT TableCentering
INVARIANT TableSettings
INVARIANT ReduceShrinks
INVARIANT RoundTrip
"""


def table_rows():
    with open(os.path.join(REPO, "src/chmpy/crystal/sgdata.json")) as f:
        d = json.load(f)
    rows = []
    for _, v in d.items():
        for x in v:
            number, short, sch, full, intl, pg, choice, centering, symops, centro = x
            rows.append(dict(number=int(number), choice=choice, centering=centering, lab=[ord(ch) for ch in choice],
                             centro=bool(centro), ops=[int(s) for s in symops]))
    return rows


PG_CFG = """SPECIFICATION Spec
CHECK_DEADLOCK FALSE
INVARIANT TableOK
INVARIANT RowOK
INVARIANT Constructed
INVARIANT ReportOK
"""


def _pg_report(row):
    """What a real SpaceGroup object of this setting says its point group, crystal system and Laue class are."""
    from chmpy.crystal.space_group import SpaceGroup
    from chmpy.crystal.point_group import POINT_GROUP_DATA
    out = {"number": row["number"], "ops": row["ops"], "exc": "", "rep": {"pg": 0, "system": "", "laue": ""}}
    try:
        sg = SpaceGroup(row["number"], choice=row["choice"])
        pg = sg.point_group
        k = [i for i, x in enumerate(POINT_GROUP_DATA) if x is pg]
        out["ops"] = [int(s.integer_code) for s in sg.symmetry_operations]
        out["rep"] = {"pg": (k[0] + 1) if k else 0, "system": str(sg.crystal_system), "laue": str(sg.laue_class)}
        if sg.pg is not pg:
            out["exc"] = "AliasDiffers"
    except Exception as e:
        out["exc"] = type(e).__name__
    return out


def export_point_groups(path, rows):
    from chmpy.crystal.point_group import POINT_GROUP_DATA, PointGroup
    pgs = []
    for i, x in enumerate(POINT_GROUP_DATA):
        gens = [int(s.integer_code) for s in x.symmetry_operations]
        # from_number must hand out this very row for its own (number, choice)
        same = PointGroup.from_number(x.number, choice=x.choice) if x.choice else PointGroup.from_number(x.number)
        first = [y for y in POINT_GROUP_DATA if y.number == x.number and (not x.choice or y.choice == x.choice)][0]
        pgs.append({"number": int(x.number), "gens": gens, "system": x.crystal_system, "laue": x.laue_group,
                    "lookup": bool(same is first)})
    tlc.write_json(path, {"pgs": pgs, "rows": [_pg_report(r) for r in rows]})


def export_table(path):
    rows = table_rows()
    tlc.write_json(path, {"rows": rows})
    return rows


def _lookup(fn):
    try:
        sg = fn()
        return {"exc": "", "number": int(sg.international_tables_number), "choice": sg.choice,
                "ops": [int(s.integer_code) for s in sg.symmetry_operations]}
    except Exception as e:  # an exception of the implementation is an observation
        return {"exc": type(e).__name__, "number": 0, "choice": "", "ops": []}


CENTERING = {1: [], 2: [(6, 6, 6)], 3: [(8, 4, 4), (4, 8, 8)], 4: [(0, 6, 6), (6, 0, 6), (6, 6, 0)],
             5: [(0, 6, 6)], 6: [(6, 0, 6)], 7: [(6, 6, 0)]}
NROT = 19683


def _shift(c, v):
    r, t = c % NROT, c // NROT
    tr = [(t // 144) % 12, (t // 12) % 12, t % 12]
    tr = [(a + b) % 12 for a, b in zip(tr, v)]
    return r + NROT * (tr[0] * 144 + tr[1] * 12 + tr[2])


def _inverted(c):
    r, t = c % NROT, c // NROT
    digs = [(r // 3 ** (8 - k)) % 3 for k in range(9)]
    r2 = sum((2 - d) * 3 ** (8 - k) for k, d in enumerate(digs))
    tr = [(-((t // 144) % 12)) % 12, (-((t // 12) % 12)) % 12, (-(t % 12)) % 12]
    return r2 + NROT * (tr[0] * 144 + tr[1] * 12 + tr[2])


def ref_reduce(codes, latt):
    """A SHELX-style reduction of a full operation list for the given LATT, written independently of the library: keep an
    operation unless it, or (LATT > 0) its inversion partner, or a centring translate of either is already kept."""
    vecs = [(0, 0, 0)] + CENTERING[abs(latt)]
    kept = [16484]
    for c in codes:
        images = set()
        for v in vecs:
            x = _shift(c, v)
            images.add(x)
            if latt > 0:
                images.add(_inverted(x))
        if not images & set(kept):
            kept.append(c)
    return kept


def drive(recipe):
    import random
    from chmpy.crystal.space_group import SpaceGroup
    from chmpy.crystal.symmetry_operation import reduced_symmetry_list
    row = recipe["row"]
    t = {"number": row["number"], "choice": row["choice"], "table_ops": row["ops"],
         "exc": "", "ops": [], "nops": 0, "centro": False, "latt": 1, "reduced": [],
         "steps": [], "number_reported": 0, "lookup_full": {"exc": "skipped", "number": 0, "choice": "", "ops": []},
         "lookup_reduced": {"exc": "skipped", "number": 0, "choice": "", "ops": []},
         "lookup_reduced_again": {"exc": "skipped", "number": 0, "choice": "", "ops": []}, "perms": [],
         "meta": {"recipe": recipe, "source": "table-row",
                  "impl_call": "SpaceGroup(%d, choice=%r)" % (row["number"], row["choice"])}}
    try:
        sg = SpaceGroup(row["number"], choice=row["choice"]) if row["choice"] else SpaceGroup(row["number"])
    except Exception as e:
        t["exc"] = type(e).__name__
        return t
    t["ops"] = [int(s.integer_code) for s in sg.symmetry_operations]
    t["nops"] = len(sg)
    t["centro"] = bool(sg.centrosymmetric)
    t["number_reported"] = int(sg.international_tables_number)
    t["choice_reported"] = sg.choice
    t["steps"] = []
    try:
        t["latt"] = int(sg.latt)
        try:
            from chmpy.util import _verif          # step events (hook commit in /repo, guard CHMPY_VERIF=1)
            _verif.install(lambda ev: t["steps"].append({"next": ev[1], "red": ev[2]}) if ev[0] == "reduce_pop" else None)
        except ImportError:
            _verif = None
        try:
            t["reduced"] = [int(s.integer_code) for s in sg.reduced_symmetry_operations()]
        finally:
            if _verif is not None:
                _verif.install(None)
    except Exception as e:
        t["exc"] = "latt/reduce:" + type(e).__name__
        return t
    t["lookup_full"] = _lookup(lambda: SpaceGroup.from_symmetry_operations(list(sg.symmetry_operations)))
    t["lookup_reduced"] = _lookup(lambda: SpaceGroup.from_symmetry_operations(
        sg.reduced_symmetry_operations(), expand_latt=sg.latt))
    # a caller keeps its list: looking the group up twice from the same list object must give the same answer
    keep = sg.reduced_symmetry_operations()
    first = _lookup(lambda: SpaceGroup.from_symmetry_operations(keep, expand_latt=sg.latt))
    t["lookup_reduced_again"] = _lookup(lambda: SpaceGroup.from_symmetry_operations(keep, expand_latt=sg.latt))
    if first != t["lookup_reduced"]:
        t["lookup_reduced_again"] = first if first["exc"] else dict(first, exc="FirstCallDiffers")
    # the reduced description in the forms callers hold it: sorted (the identity need not come first), and as SHELX writes it
    # (SYMM lines without the identity), each looked up twice from the same list object
    if not t["lookup_reduced_again"]["exc"]:
        ident = 16484
        forms = [sorted(sg.reduced_symmetry_operations()),
                 [s for s in sg.reduced_symmetry_operations() if int(s.integer_code) != ident],
                 list(reversed(sg.reduced_symmetry_operations()))]
        for lst in forms:
            for _ in range(2):
                r = _lookup(lambda: SpaceGroup.from_symmetry_operations(lst, expand_latt=sg.latt))
                if r != t["lookup_reduced"]:
                    t["lookup_reduced_again"] = r if r["exc"] else dict(r, exc="OtherFormDiffers")
    # every other genuine SHELX description of the same group: any lattice type whose centring vectors are translations of
    # the group (B-centred cells are LATT 6 whatever the table calls them), with a negative sign when the inversion-related
    # operations are listed explicitly.  The library reduces the list for that LATT, and so does the harness (ref_reduce);
    # whether a (list, LATT) pair IS a description of the group is decided by TLC (Describes).
    import numpy as _np
    t["alts"] = []
    for latt in (1, -1, 2, -2, 3, -3, 4, -4, 5, -5, 6, -6, 7, -7):
        a = {"latt": latt, "lib": [], "lib_exc": "", "ref": ref_reduce(t["ops"], latt),
             "lk_lib": {"exc": "skipped", "number": 0, "choice": "", "ops": []},
             "lk_ref": {"exc": "skipped", "number": 0, "choice": "", "ops": []}}
        try:
            red = reduced_symmetry_list(list(sg.symmetry_operations), latt)
            a["lib"] = [int(s.integer_code) for s in red]
            # LATT values come as plain ints or out of integer arrays (a column of a table of structures)
            latt_arg = (latt, _np.int64(latt), _np.int32(latt), _np.int8(latt))[(abs(latt) + row["number"]) % 4]
            a["lk_lib"] = _lookup(lambda: SpaceGroup.from_symmetry_operations(list(red), expand_latt=latt_arg))
        except Exception as e:
            a["lib_exc"] = type(e).__name__
        by_code = {int(s.integer_code): s for s in sg.symmetry_operations}
        if all(c in by_code for c in a["ref"]):
            a["lk_ref"] = _lookup(lambda: SpaceGroup.from_symmetry_operations([by_code[c] for c in a["ref"]], expand_latt=latt))
        t["alts"].append(a)
    # the full list with matrices that were computed rather than decoded (entries one rounding step away from -1, 0, 1)
    import numpy as _np
    from chmpy.crystal.symmetry_operation import SymmetryOperation as _SO
    t["lookup_noisy"] = []
    for scale, shift in ((1.0 - 2.3e-16, 0.0), (1.0 + 2.3e-16, 1e-17), (1.0 - 4.5e-16, -1e-17)):
        ops = [_SO(_np.asarray(s.rotation, dtype=float) * scale + shift, _np.asarray(s.translation, dtype=float) * scale)
               for s in sg.symmetry_operations]
        t["lookup_noisy"].append(_lookup(lambda: SpaceGroup.from_symmetry_operations(ops)))
    rng = random.Random(recipe["seed"])
    for _ in range(recipe["nperm"]):
        lst = list(sg.symmetry_operations)
        rng.shuffle(lst)
        try:
            red = reduced_symmetry_list(lst, sg.latt)
            p = {"list": [int(s.integer_code) for s in lst],
                 "reduced": [int(s.integer_code) for s in red],
                 "lookup": _lookup(lambda: SpaceGroup.from_symmetry_operations(list(red), expand_latt=sg.latt))}
        except Exception as e:
            p = {"list": [int(s.integer_code) for s in lst], "reduced": [],
                 "lookup": {"exc": type(e).__name__, "number": 0, "choice": "", "ops": []}}
        t["perms"].append(p)
    # a caller may edit the operations of its own SpaceGroup object in place (e.g. to move the origin); a group constructed
    # afterwards must not see those edits: its matrices (read directly, not through memoised codes) are the setting's
    import numpy as np
    t["fresh"] = {"exc": "", "off": False, "mats": []}
    saved = []
    try:
        saved = [(s, np.array(s.translation, copy=True), np.array(s.rotation, copy=True)) for s in sg.symmetry_operations]
        for s in sg.symmetry_operations:
            try:
                s.translation[:] = (np.asarray(s.translation) + 0.25) % 1
                s.rotation[:] = -np.asarray(s.rotation)
            except ValueError:
                break                      # operations handed out read-only: there is nothing a caller could edit
        sg2 = SpaceGroup(row["number"], choice=row["choice"]) if row["choice"] else SpaceGroup(row["number"])
        off = False
        for s in sg2.symmetry_operations:
            rot = np.asarray(s.rotation, dtype=float).ravel()
            tr = np.asarray(s.translation, dtype=float).ravel() * 12
            off |= bool(np.any(np.abs(rot - np.round(rot)) > 1e-9) or np.any(np.abs(tr - np.round(tr)) > 1e-9))
            t["fresh"]["mats"].append([[int(round(x)) for x in rot], [int(round(x)) % 12 for x in tr]])
        t["fresh"]["off"] = off
    except Exception as e:
        t["fresh"]["exc"] = type(e).__name__
    finally:
        # the edits are undone: where operation objects are shared between groups they must not reach the next trace
        try:
            for s_, tr_, rot_ in saved:
                s_.translation[:] = tr_
                s_.rotation[:] = rot_
        except Exception:
            pass
    t["meta"]["nontrivial"] = len(t["ops"]) > 1
    return t


def run(ctx, explain=False):
    d = tlc.scratch_dir("c02")
    try:
        sgfile = os.path.join(d, "sg.json")
        rows = export_table(sgfile)
        ctx.model_check("mc/MC_SpaceGroup.tla", MC_CFG % "origin", name="MC_SpaceGroup(table,origin)",
                        data_driven=True, env={"SG_FILE": sgfile}, timeout=600)
        # beyond the listed property: the point group, crystal system and Laue class each setting reports (PointGroup.tla)
        pgfile = os.path.join(d, "pg.json")
        export_point_groups(pgfile, rows)
        ctx.model_check("mc/MC_PointGroup.tla", PG_CFG, name="MC_PointGroup(table, 530 settings)", extension=True,
                        env={"PG_FILE": pgfile}, extra=["-continue"], timeout=600)
        if explain:
            res = tlc.run("mc/MC_SpaceGroup.tla", MC_CFG % "asbuilt", env={"SG_FILE": sgfile},
                          extra=["-continue"], timeout=600)
            print("as-built LATT rule (sign from the centrosymmetric flag): RoundTrip violated in",
                  res.stdout.count("Invariant RoundTrip is violated"), "settings")
    finally:
        tlc.cleanup(d)
    nperm = ctx.pick(1, 120)
    recipes = [{"row": r, "seed": ctx.seed * 7919 + i, "nperm": nperm} for i, r in enumerate(rows)]
    traces = pool_map(safe_drive(drive), recipes)
    for t in traces:
        if "__harness_error__" in t:
            raise tlc.TLCFailure(t["__harness_error__"])
    ctx.validate("trace/Trace_SpaceGroup.tla", traces, timeout=1500)
    ctx.exhaustive = True
    ctx.rule = ("all %d (number, choice) rows of sgdata.json in the current tree, each constructed as a real "
                "SpaceGroup; non-trivial = more than one operation; %d seeded permutations of each operation "
                "list through reduced_symmetry_list + from_symmetry_operations" % (len(rows), nperm))
    ctx.explanation = ("exhaustive over the finite domain of tabulated settings; permutations of the list "
                       "order are sampled")
    ctx.assumptions = ["integer_code of an operation is taken as the object reports it (its consistency with "
                       "the matrix and text forms is C11)"]


def replay(ctx, rec):
    t = drive(rec["record"]["meta"]["recipe"])
    ctx.validate("trace/Trace_SpaceGroup.tla", [t])


if __name__ == "__main__":
    raise SystemExit(main("C02", run, replay))
