"""Float -> exact-domain projection helpers. Projection never repairs a value: the residual is
returned so that the trace can carry `offgrid` and TLC rejects with clause OnGrid."""
import math
from fractions import Fraction

B = 10000


def big(n):
    """Python int -> BigInt record of specs/lib/BigInt.tla."""
    n = int(n)
    s = (n > 0) - (n < 0)
    a = abs(n)
    d = []
    while a:
        d.append(a % B)
        a //= B
    return {"s": s, "d": d}


def unbig(x):
    v = 0
    for limb in reversed(x["d"]):
        v = v * B + limb
    return x["s"] * v


def rat(fr):
    fr = Fraction(fr)
    return {"n": big(fr.numerator), "d": big(fr.denominator)}


def scaled_big(x, scale_pow2):
    """Exact value of float x times 2**scale_pow2, rounded to nearest integer, as BigInt."""
    fr = Fraction(x) * (Fraction(2) ** scale_pow2)
    return big(round(fr))


def to_grid(x, n, tol=1e-6):
    """x (float) -> (k, offgrid) with k = round(x*n); offgrid iff |x*n - k| > tol*n."""
    if not math.isfinite(x):
        return 0, True
    v = x * n
    k = int(round(v))
    return k, abs(v - k) > tol * n


def grid_vec(v, n, tol=1e-6):
    ks, off = [], False
    for x in v:
        k, o = to_grid(float(x), n, tol)
        ks.append(k)
        off = off or o
    return ks, off


def ints_ok(obj, limit=2**31 - 1):
    """True when every int in a nested structure is shippable to TLC."""
    if isinstance(obj, bool):
        return True
    if isinstance(obj, int):
        return abs(obj) <= limit
    if isinstance(obj, float) or obj is None:
        return False
    if isinstance(obj, dict):
        return all(ints_ok(v, limit) for v in obj.values())
    if isinstance(obj, (list, tuple)):
        return all(ints_ok(v, limit) for v in obj)
    return True
