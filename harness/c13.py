"""C13 - re-expressing a crystal (P1, supercell, trigonal axes) preserves the structure.

(M) MC_Reexpress: for the seven R-lattice groups and every site of the N=12 grid the hexagonal
    and rhombohedral descriptions are the same arrangement; H->R->H is the identity on states.
(T) as_P1 / as_P1_supercell / to_translational_symmetry and choose_trigonal_lattice on fresh real
    crystals -> Trace_Reexpress.
"""
import math
import os

from harness.common import main, pool_map
from harness import tlc, xtal
from harness.c02 import table_rows
from harness.project import to_grid

RGROUPS = (146, 148, 155, 160, 161, 166, 167)
MC_CFG = """SPECIFICATION Spec
CHECK_DEADLOCK FALSE
CONSTANTS
  NBlocks = 16
  N = 12
INVARIANT BasisIsInverse
INVARIANT SameArrangement
INVARIANT RoundTripState
"""


def gram_of(cr, u):
    import numpy as np
    d = np.asarray(cr.unit_cell.direct, dtype=float)
    g = d @ d.T / (u * u)
    out, off = [], False
    for i in range(3):
        row = []
        for j in range(3):
            k = int(round(g[i, j]))
            # residual relative to the lengths of the two vectors (an off-diagonal entry of 1 between vectors of squared
            # length 2000 carries the absolute rounding error of those vectors)
            if abs(g[i, j] - k) > 1e-6 * max(1.0, abs(k), math.sqrt(abs(g[i, i] * g[j, j]))):
                off = True
            row.append(k)
        out.append(row)
    return out, off


def grid_pts(frac, n):
    pts, off = [], False
    for r in frac:
        p = []
        for x in r:
            k, o = to_grid(float(x), n, 1e-6)
            p.append(k)
            off |= o
        pts.append(p)
    return pts, off


def dens_int(cr):
    return int(round(float(cr.density) * 1e7))


def drive_p1(rec):
    import numpy as np
    n, u = rec["n"], rec["u"]
    xtal.other_structures_loaded_earlier()
    cr = xtal.build_crystal(rec)
    t = {"k": "p1", "n": n, "gram": rec["gram"], "asym": [{"z": s["z"], "p": s["p"]} for s in rec["asym"]],
         "ops": [int(s.integer_code) for s in cr.space_group.symmetry_operations], "size": rec["size"], "call": rec["call"],
         "rotated": bool(rec.get("rot") is not None), "dens_old": 0, "shared": bool(rec.get("shared")),
         "new": {"exc": "", "off": False, "gramoff": False, "number": 0, "nops": 0, "gram": [[0] * 3] * 3, "atoms": [], "dens": 0},
         "meta": {"recipe": rec, "source": "random", "nontrivial": True,
                  "impl_call": "Crystal(%d %r).%s(%s)" % (rec["number"], rec["choice"], rec["call"], rec["size"])}}
    try:
        t["dens_old"] = dens_int(cr)
    except Exception as e:                 # an exception of the implementation is an observation
        t["new"]["exc"] = "DensityBefore:" + type(e).__name__
        return t
    try:
        size = tuple(rec["size"])
        if rec["call"] == "as_P1":
            new = cr.as_P1()
        elif rec["call"] == "as_P1_supercell":
            new = cr.as_P1_supercell(size)
        else:
            new = cr.to_translational_symmetry(supercell=size)
        g, goff = gram_of(new, u)
        frac = np.asarray(new.asymmetric_unit.positions, dtype=float) * np.array(size, dtype=float)[None, :]
        pts, off = grid_pts(frac, n)
        t["new"].update(number=int(new.space_group.international_tables_number), nops=len(new.space_group.symmetry_operations),
                        gram=g, gramoff=bool(goff), off=bool(off), dens=dens_int(new),
                        atoms=[{"z": int(z), "p": p} for z, p in zip(new.asymmetric_unit.atomic_numbers, pts)])
    except Exception as e:
        t["new"]["exc"] = type(e).__name__
    return t


def state_rec(cr, n, u):
    import numpy as np
    g, goff = gram_of(cr, u)
    pts, off = grid_pts(np.asarray(cr.asymmetric_unit.positions, dtype=float), n)
    return {"exc": "", "off": bool(off or goff), "choice": cr.space_group.choice, "n": n, "gram": g, "pts": pts,
            "number": int(cr.space_group.international_tables_number),
            "ops": [int(s.integer_code) for s in cr.space_group.symmetry_operations],
            "natoms": int(len(cr.unit_cell_atoms()["element"])), "vol2": int(xtal.det3(g)), "dens": dens_int(cr)}


EMPTY = {"exc": "", "off": False, "choice": "", "n": 12, "gram": [[0] * 3] * 3, "pts": [], "number": 0, "ops": [],
         "natoms": 0, "vol2": 0, "dens": 0, "p1_natoms": 0, "p1_dens": 0}


def drive_trig(rec):
    n, u = rec["n"], rec["u"]
    cr = xtal.build_crystal(rec)
    try:
        start = state_rec(cr, n, u)
    except Exception as e:                 # an exception of the implementation is an observation
        start = None
        start_exc = type(e).__name__
    t = {"k": "trig", "zs": [s["z"] for s in rec["asym"]], "target": rec["target"],
         "start": start if start is not None else dict(EMPTY, choice=rec["choice"], n=n, gram=rec["gram"], pts=[s["p"] for s in rec["asym"]]),
         "after": dict(EMPTY), "back": dict(EMPTY),
         "meta": {"recipe": rec, "source": "random", "nontrivial": True,
                  "impl_call": "Crystal(%d %r).choose_trigonal_lattice(%r) and back" % (rec["number"], rec["choice"], rec["target"])}}
    n2 = 3 * n if rec["target"] == "H" else n
    if start is None:
        t["after"]["exc"] = "StartState:" + start_exc
        return t
    try:
        cr2 = xtal.build_crystal(rec)
        if rec.get("warm"):
            # the object has been used before it is switched (derived data may be memoised)
            cr2.unit_cell_atoms()
            cr2.unit_cell_molecules()
            cr2.symmetry_unique_molecules()
        import numpy as np
        held_cell = cr2.unit_cell                   # a cell object another crystal (or the caller) may still be using
        direct0 = np.array(held_cell.direct, dtype=float, copy=True)
        cr2.choose_trigonal_lattice(rec["target"])
        t["after"] = state_rec(cr2, n2, u)
        if not np.array_equal(np.asarray(held_cell.direct, dtype=float), direct0):
            t["after"]["exc"] = "SharedCellChanged"
        p1 = cr2.as_P1()
        t["after"]["p1_natoms"] = int(len(p1.asymmetric_unit))
        t["after"]["p1_dens"] = dens_int(p1)
    except Exception as e:
        t["after"] = dict(EMPTY, exc=type(e).__name__)
        return t
    try:
        cr3 = xtal.build_crystal(rec)
        cr3.choose_trigonal_lattice(rec["target"])
        cr3.choose_trigonal_lattice(rec["choice"])
        t["back"] = state_rec(cr3, n, u)
    except Exception as e:
        t["back"] = dict(EMPTY, exc=type(e).__name__)
    return t


def drive(rec):
    return drive_p1(rec) if rec["k"] == "p1" else drive_trig(rec)


def rand_rotation(rng):
    # a proper rotation from a random quaternion (floats; the Gram matrix is what the spec sees)
    q = [rng.gauss(0, 1) for _ in range(4)]
    s = math.sqrt(sum(x * x for x in q))
    a, b, c, d = (x / s for x in q)
    return [[a * a + b * b - c * c - d * d, 2 * (b * c - a * d), 2 * (b * d + a * c)],
            [2 * (b * c + a * d), a * a - b * b + c * c - d * d, 2 * (c * d - a * b)],
            [2 * (b * d - a * c), 2 * (c * d + a * b), a * a - b * b - c * c + d * d]]


def gen(args):
    import random
    kind, row, seed = args
    rng = random.Random(seed)
    none = {"__none__": True, "meta": {}}
    if kind == "p1-long":
        # a cell four times longer along c than along a, X-H bonds along c, stacked three times along c: the supercell is
        # twelve times longer along c than along a
        g1 = rng.randint(20, 60)
        gram = [[g1, 0, 0], [0, rng.randint(g1, 2 * g1), 0], [0, 0, 16 * g1]]
        rec = xtal.gen_molecular(rng, row, nmols=1, sizes=(3, 4), n=48, gram_fn=lambda r: gram, h_axis=2, vol_per_atom=rng.choice([30.0, 40.0]),
                                 max_tries=80)
        if rec is None or not any(s["z"] == 1 for s in rec["asym"]):
            return none
        rec.update(k="p1", call=rng.choice(["as_P1_supercell", "to_translational_symmetry"]), size=rng.choice([[1, 1, 3], [1, 2, 3], [1, 1, 2]]),
                   route="params", src="long cell stacked along its long axis")
        return rec
    if kind == "p1":
        if rng.random() < 0.6 and len(row["ops"]) <= 48:
            rec = xtal.gen_molecular(rng, row, nmols=rng.choice([1, 2]), sizes=(2, 3), n=24 if len(row["ops"]) <= 8 else 48)
            if rec is None:
                return none
        else:
            n = rng.choice([12, 24])
            # partially occupied general sites among them (a disordered group): what the crystal says about its density and what
            # its P1 / supercell form says stay in step
            asym = xtal.gen_asym(rng, row["ops"], n, rng.randint(1, 2), want_special=False, occ_choices=(12, 12, 6, 4, 9))
            asym = [s for s in asym if len(xtal.orbit(row["ops"], s["p"], n)) == len(row["ops"])]
            if not asym:
                return none
            gram = xtal.sym_gram(row["ops"], rng, maxentry=1500)
            vol = max(len(row["ops"]) * len(asym) * 40.0, 120.0)
            rec = {"number": row["number"], "choice": row["choice"], "n": n, "gram": gram,
                   "u": (vol / math.sqrt(xtal.det3(gram))) ** (1 / 3.0), "asym": asym}
        if len(rec["asym"]) >= 2 and "mols" not in rec and rng.random() < 0.45:
            # a second occupant on the first site (mixed Cl/Br, split disorder), listed right after it - not at the end
            first = rec["asym"][0]
            first["occ"] = 7
            rec["asym"].insert(1, {"z": 35 if first["z"] != 35 else 17, "p": list(first["p"]), "occ": 5, "label": "X%d" % (len(rec["asym"]) + 1)})
            rec["shared"] = True
        rec["k"] = "p1"
        rec["call"] = rng.choice(["as_P1", "as_P1_supercell", "as_P1_supercell", "to_translational_symmetry"])
        big = len(row["ops"]) * len(rec["asym"]) > 200
        rec["size"] = [1, 1, 1] if rec["call"] == "as_P1" else [rng.randint(1, 2 if big else 3) for _ in range(3)]
        r = rng.random()
        if r < 0.4:
            rec["route"], rec["rot"] = "vectors", rand_rotation(rng)
        elif r < 0.6:
            rec["route"], rec["rot"] = "vectors", None
        else:
            rec["route"] = "params"
        return rec
    # trigonal switch
    start = rng.choice(["H", "R"])
    rows = [r for r in table_rows() if r["number"] == row["number"] and r["choice"] == start]
    r0 = rows[0]
    n = rng.choice([12, 24])
    asym = xtal.gen_asym(rng, r0["ops"], n, rng.randint(1, 3), want_special=rng.random() < 0.5, occ_choices=(12,))
    if not asym:
        return none
    if start == "H":
        p, q = rng.randint(1, 6), rng.randint(1, 12)
        gram = [[18 * p, -9 * p, 0], [-9 * p, 18 * p, 0], [0, 0, 9 * q]]
    else:
        g = rng.randint(6, 40)
        o = rng.randint(-g // 2 + 1, g - 1)
        gram = [[g, o, o], [o, g, o], [o, o, g]]
        if not xtal.positive_definite(gram):
            return none
    vol = max(len(r0["ops"]) * len(asym) * 15.0, 100.0)
    return {"k": "trig", "number": r0["number"], "choice": start, "target": "R" if start == "H" else "H", "n": n, "gram": gram,
            "u": (vol / math.sqrt(xtal.det3(gram))) ** (1 / 3.0), "asym": asym, "route": rng.choice(["params", "vectors"]),
            "warm": rng.random() < 0.5}


def run(ctx):
    rows = table_rows()
    d = tlc.scratch_dir("c13")
    try:
        f = os.path.join(d, "sg.json")
        rr = [r for r in rows if r["number"] in RGROUPS]
        sites = [[a, b, c] for a in range(12) for b in range(12) for c in range(12)]
        if ctx.quick:
            sites = sites[::7]
        tlc.write_json(f, {"rows": rr, "sites": sites})
        ctx.model_check("mc/MC_Reexpress.tla", MC_CFG, name="MC_Reexpress(%d sites)" % len(sites), data_driven=True,
                        env={"SG_FILE": f}, timeout=900)
    finally:
        tlc.cleanup(d)
    rng = ctx.rng
    sel = rng.sample(rows, ctx.pick(60, 530))
    jobs = [("p1", r, ctx.seed * 31337 + i * 17 + k) for i, r in enumerate(sel) for k in range(ctx.pick(2, 10))]
    low = [r for r in rows if r["number"] <= 74 and len(r["ops"]) <= 8]
    jobs += [("p1-long", low[(j * 37 + ctx.seed) % len(low)], ctx.seed * 2741 + 70000 + j) for j in range(ctx.pick(40, 800))]
    trig_rows = [r for r in rows if r["number"] in RGROUPS and r["choice"] == "H"]
    jobs += [("trig", r, ctx.seed * 4241 + i * 7 + k) for i, r in enumerate(trig_rows) for k in range(ctx.pick(12, 600))]
    recs = [x for x in pool_map(gen, jobs) if "__none__" not in x]
    traces = pool_map(drive, recs)
    ctx.notes["p1_traces"] = sum(1 for t in traces if t["k"] == "p1")
    ctx.notes["trig_traces"] = sum(1 for t in traces if t["k"] == "trig")
    ctx.validate("trace/Trace_Reexpress.tla", traces, batch=2000, timeout=1800)
    ctx.rule = ("P1/supercell: %d settings x seeded molecular and atomic crystals (general positions), sizes up to 3x3x3, cells built "
                "from parameters, from lattice vectors and from arbitrarily rotated lattice vectors, through as_P1, as_P1_supercell and "
                "to_translational_symmetry; trigonal: the 7 R-lattice groups x seeded a, c / a, alpha and asymmetric units (general and "
                "special positions) starting from either setting, switch and switch back on fresh objects" % len(sel))
    ctx.explanation = "structures sampled; MC_Reexpress exhaustive over the 7 R groups x listed N=12 sites"
    ctx.assumptions = ["cells are described to TLC by their integer Gram matrix (rotation independent); coordinates projected to the grid "
                       "(residual > 1e-6 rejected)", "density compared to 1e-6 relative"]


def replay(ctx, rec):
    ctx.validate("trace/Trace_Reexpress.tla", [drive(rec["record"]["meta"]["recipe"])])


if __name__ == "__main__":
    raise SystemExit(main("C13", run, replay))
