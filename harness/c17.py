"""C17 - element lookup is total, exact and consistent across all spellings.

(M)+(G) MC_Element checks the independent symbol table and the spelling grammar at design level and prints the
        complete finite spelling domain; every printed spelling is fed to the real lookups.
(T)     Trace_Element validates each observed (Z, symbol, name) / exception against Element!Lookup, plus all
        integers -200..300, the library's own names in three letter cases, data consistency across routes,
        sorting and formulas of random multisets.
"""
from harness.common import main, pool_map
from harness import tlc

MC_CFG = """SPECIFICATION Spec
CHECK_DEADLOCK FALSE
CONSTANTS
  Emit = %s
  BadStride = %d
INVARIANT TableDistinct
INVARIANT Unambiguous
INVARIANT BadIsNotGood
INVARIANT OrderTotal
INVARIANT FormulaCounts
"""


def route(fn):
    try:
        e = fn()
        return {"exc": "", "z": int(e.atomic_number), "sym": str(e.symbol), "name": str(e.name)}
    except Exception as ex:   # an exception of the implementation is an observation
        return {"exc": type(ex).__name__, "z": 0, "sym": "", "name": ""}


def drive(rec):
    import numpy as np
    from chmpy.core import element as E
    from chmpy.core.element import Element, chemical_formula
    k = rec["k"]
    t = dict(rec)
    t["meta"] = {"recipe": rec, "source": rec.get("src", "enumeration"), "nontrivial": True, "impl_call": "Element %s" % k}
    if k == "spell":
        text = rec["text"]
        routes = [route(lambda: Element[text]), route(lambda: Element.from_string(text))]
        if rec["sk"] in ("label", "badlong", "prefixed") or (rec["sk"] == "bad" and rec["a"] > 0):
            routes.append(route(lambda: Element.from_label(text)))
        t["routes"] = routes
    elif k == "int":
        n = rec["n"]
        t["routes"] = [route(lambda: Element[n]), route(lambda: Element.from_atomic_number(n)),
                       route(lambda: Element[np.int64(n)])]
        # the integer types element arrays come in (crystal.py builds uint8 arrays): same answer whatever the width or sign
        for ty in (np.uint8, np.int8, np.uint16, np.int16, np.uint32, np.int32, np.uint64):
            if np.iinfo(ty).min <= n <= np.iinfo(ty).max:
                t["routes"].append(route(lambda: Element[ty(n)]))
                t["routes"].append(route(lambda: Element.from_atomic_number(ty(n))))
        t["batch0"] = []
        if n % 50 == 0:
            for name in ("cov_radii", "vdw_radii", "element_names", "element_symbols"):
                for arr in (np.array([], dtype=int), np.array([6, n])[:0]):
                    b0 = {"fn": name, "exc": "", "len": -1}
                    try:
                        b0["len"] = len(getattr(E, name)(arr))
                    except Exception as ex:
                        b0["exc"] = type(ex).__name__
                    t["batch0"].append(b0)
        # numbers that are not whole numbers
        from fractions import Fraction
        t["fracs"] = []
        for x in (n + 0.5, n + 0.999, n - 0.25, Fraction(2 * n + 1, 2), np.float64(n) + 0.5):
            t["fracs"].append(route(lambda: Element.from_atomic_number(x)))
            t["fracs"].append(route(lambda: Element[x]))
        # the array functions: the number alone and next to a valid one; an answer must be that of the element itself
        t["batch"] = []
        for name, attr in (("cov_radii", "cov"), ("vdw_radii", "vdw"), ("element_names", "name"), ("element_symbols", "symbol")):
            for arr in (np.array([n]), np.array([6, n])):
                b = {"fn": name, "exc": "", "same": False}
                try:
                    v = getattr(E, name)(arr)
                except Exception as ex:
                    b["exc"] = type(ex).__name__
                else:
                    try:
                        ref = getattr(Element.from_atomic_number(n), attr)
                        b["same"] = bool(len(v) == len(arr) and v[-1] == ref)
                    except Exception:
                        b["same"] = False           # the array function answered for a number the scalar lookup rejects
                t["batch"].append(b)
    elif k == "name":
        z = rec["z"]
        base = route(lambda: Element.from_atomic_number(z))
        name = base["name"]
        t["name"] = name
        t["routes"] = [route(lambda: Element[name]), route(lambda: Element[name.upper()]),
                       route(lambda: Element[name.capitalize()]), route(lambda: Element.from_string("  " + name + " "))]
    elif k == "data":
        z = rec["z"]
        rows = []

        def row(fn):
            try:
                cov, vdw, mass, name, sym = fn()
                return {"exc": "", "cov": int(round(float(cov) * 1e5)), "vdw": int(round(float(vdw) * 1e5)),
                        "mass": int(round(float(mass) * 1e4)), "name": str(name), "sym": str(sym)}
            except Exception as ex:
                return {"exc": type(ex).__name__, "cov": 0, "vdw": 0, "mass": 0, "name": "", "sym": ""}
        e0 = Element.from_atomic_number(z)
        rows.append(row(lambda: (e0.cov, e0.vdw, e0.mass, e0.name, e0.symbol)))

        def by_symbol():
            e1 = Element[e0.symbol]
            return (e1.covalent_radius, e1.vdw_radius, e1.mass, e1.name, e1.symbol)

        def by_label():
            e2 = Element[e0.symbol.upper() + "7"]
            return (e2.cov, e2.vdw, e2.mass, e2.name, e2.symbol)
        rows.append(row(by_symbol))
        rows.append(row(by_label))
        # a caller may change the element object it was handed (scaled radii for one molecule ...): later lookups by the same
        # strings still return the tabulated element
        try:
            for key in (e0.symbol, e0.symbol.upper() + "7", e0.name, z):
                obj = Element[key]
                obj.vdw, obj.cov, obj.mass, obj.name = 99.0, 0.001, 1.0, "scribble"
        except Exception:
            pass
        rows.append(row(by_symbol))
        rows.append(row(by_label))
        rows.append(row(lambda: (lambda e3: (e3.cov, e3.vdw, e3.mass, e3.name, e3.symbol))(Element[e0.name if e0.name != "scribble" else z])))
        a = np.array([z])
        rows.append(row(lambda: (E.cov_radii(a)[0], E.vdw_radii(a)[0], e0.mass, E.element_names(a)[0], E.element_symbols(a)[0])))
        t["rows"] = rows
    elif k == "cmp":
        a = rec["a"]
        t.update(exc="", lt=[], le=[], gt=[], ge=[], eq=[], ne=[], hasheq=[])
        try:
            # fresh objects for every comparison (two carbons, not the same carbon twice)
            for b in range(1, 104):
                # atomic numbers as they come out of element arrays: plain ints, unsigned and signed numpy scalars
                ty = (int, np.uint8, np.int64, np.uint16, np.uint64)[(a + b) % 5]
                x, y = Element.from_atomic_number(ty(a)), Element.from_atomic_number(ty(b))
                t["lt"].append(bool(x < y)); t["le"].append(bool(x <= y)); t["gt"].append(bool(x > y))
                t["ge"].append(bool(x >= y)); t["eq"].append(bool(x == y)); t["ne"].append(bool(x != y))
                t["hasheq"].append(bool(hash(x) == hash(y)))
        except Exception as ex:
            t["exc"] = type(ex).__name__
    elif k == "sort":
        zs = rec["zs"]
        t.update(exc="", sorted=[], formula="", formula_sub="", sorted_idx=[])
        try:
            els = [Element.from_atomic_number(z) for z in (np.array(zs, dtype=np.uint8) if len(zs) % 2 else zs)]
            t["sorted"] = [int(e.atomic_number) for e in sorted(els)]
            # the atoms may arrive as any iterable: a list, a tuple, or a single-pass one (a generator over labels)
            how = len(zs) % 3
            t["formula"] = chemical_formula(els if how == 0 else (tuple(els) if how == 1 else (e for e in els)))
            sub = chemical_formula(els, subscript=True)
            # subscript digits are transliterated to ASCII digits; an ASCII digit in the subscript rendering is not a
            # subscript and is shipped as '#'
            t["formula_sub"] = "".join(chr(ord("0") + ord(ch) - 0x2080) if 0x2080 <= ord(ch) <= 0x2089 else
                                       ("#" if ch.isdigit() else (ch if ord(ch) < 128 else "?")) for ch in sub)
            # sorting is observed on distinguishable objects too: equal elements keep their order of appearance
            tagged = [(e, i + 1) for i, e in enumerate(els)]
            t["sorted_idx"] = [i for _, i in sorted(tagged, key=lambda p: p[0])]
        except Exception as ex:
            t["exc"] = type(ex).__name__
    return t


def run(ctx):
    from harness import tlaps
    ctx.notes["tlaps"] = tlaps.prove("proofs/ElementProofs.tla")     # the ordering is a strict total order on all integers
    res = tlc.run("mc/MC_Element.tla", MC_CFG % ("TRUE", ctx.pick(3, 1)), timeout=900)
    ctx._account(res, "MC_Element(check + emit)")
    if not res.ok:
        raise tlc.TLCFailure("MC_Element emit run failed: %s %s" % (res.violated, res.errors))
    recs = []
    for line in res.printed:
        if not line.startswith("S|"):
            continue
        parts = line.split("|", 8)
        recs.append({"k": "spell", "sk": parts[1], "z": int(parts[2]), "c1": int(parts[3]), "c2": int(parts[4]),
                     "v": int(parts[5]), "a": int(parts[6]), "b": int(parts[7]),
                     "text": parts[8].replace("\\t", "\t").replace("\\n", "\n").replace("\\r", "\r"),
                     "src": "tlc-generated"})
    ctx.notes["spellings_from_tlc"] = len(recs)
    recs += [{"k": "int", "n": n} for n in range(-200, 301)]
    recs += [{"k": "name", "z": z} for z in range(1, 104)]
    recs += [{"k": "data", "z": z} for z in range(1, 104)]
    recs += [{"k": "cmp", "a": z} for z in range(1, 104)]
    rng = ctx.rng
    for _ in range(ctx.pick(300, 5000)):
        m = rng.randint(1, 14)
        pool = [1, 6, 7, 8] * 3 + list(range(1, 104))
        recs.append({"k": "sort", "zs": [rng.choice(pool) for _ in range(m)], "src": "random"})
    for _ in range(ctx.pick(60, 600)):        # formulas with counts of 10 and more
        few = rng.sample(range(1, 104), rng.randint(1, 4)) + [6, 1]
        recs.append({"k": "sort", "zs": [rng.choice(few) for _ in range(rng.randint(25, 70))], "src": "random-large-counts"})
    traces = pool_map(drive, recs)
    ctx.validate("trace/Trace_Element.tla", traces, batch=30000, timeout=1200)
    ctx.exhaustive = True
    ctx.rule = ("the complete finite domain printed by TLC from MC_Element: 103 elements x {4 letter cases, blank/tab padding, number strings "
                "in 4 styles (+ digit strings naming no element), labels = symbol x 4 cases x 5 digit runs x 9 suffixes} and every 1-2 letter "
                "string that is no symbol (x cases x label decorations), all integers -200..300 through Element[n], from_atomic_number and a "
                "numpy integer, the library's own name of every Z in three letter cases, radii/mass by four routes, and seeded random "
                "multisets for sorting and formulas; every case is non-trivial")
    ctx.explanation = "spellings and integers enumerated completely in both tiers; multisets sampled"
    ctx.assumptions = ["symbols come from the table written in Element.tla; names and numeric columns are the library's own data and are only "
                       "checked for consistency across routes", "'D' (deuterium) is deliberately read as hydrogen and is not among the rejected strings"]


def replay(ctx, rec):
    ctx.validate("trace/Trace_Element.tla", [drive(rec["record"]["meta"]["recipe"])])


if __name__ == "__main__":
    raise SystemExit(main("C17", run, replay))
