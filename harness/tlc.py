"""Thin driver around TLC: run a module with a generated cfg, collect statistics and PrintT lines.

All verdicts of the verification are produced by TLC evaluating operators of the modules under
/verif/specs; this file only launches TLC and parses what it printed.
"""
import json
import os
import re
import shutil
import subprocess
import time
from dataclasses import dataclass, field

VERIF = os.path.dirname(os.path.dirname(os.path.abspath(__file__)))
SPECS = os.path.join(VERIF, "specs")
LIBPATH = os.pathsep.join(
    [SPECS, os.path.join(SPECS, "lib"), os.path.join(SPECS, "mc"), os.path.join(SPECS, "trace")]
)


class TLCFailure(Exception):
    """TLC itself failed (parse error, crash, timeout): machinery failure, exit code 2."""


@dataclass
class TLCResult:
    module: str
    returncode: int
    wall_s: float
    generated: int = 0
    distinct: int = 0
    depth: int = 0
    printed: list = field(default_factory=list)      # decoded PrintT values (strings)
    violated: list = field(default_factory=list)     # names of violated invariants / properties
    errors: list = field(default_factory=list)       # other "Error:" lines
    coverage: dict = field(default_factory=dict)     # action -> (distinct, total) when -coverage
    stdout: str = ""
    cmd: str = ""

    @property
    def ok(self):
        return not self.violated and not self.errors


_RE_STATES = re.compile(r"^(\d+) states generated, (\d+) distinct states found", re.M)
_RE_DEPTH = re.compile(r"The depth of the complete state graph search is (\d+)")
_RE_INV = re.compile(r"^Error: Invariant (\S+) is violated", re.M)
_RE_PROP = re.compile(r"^Error: (?:Action|Temporal) propert(?:y|ies) (\S+)? ?(?:is|were) violated", re.M)
_RE_ERR = re.compile(r"^Error: (.*)$", re.M)
_RE_COV = re.compile(r"^<(\w+) line \d+, col \d+ to line \d+, col \d+ of module (\w+)>: (\d+):(\d+)", re.M)
_RE_SIM = re.compile(r"^The number of states generated: (\d+)", re.M)


def scratch_dir(tag):
    d = os.path.join(VERIF, "out", "run-%d-%s" % (os.getpid(), tag))
    os.makedirs(d, exist_ok=True)
    return d


def cleanup(d):
    shutil.rmtree(d, ignore_errors=True)


def run(module_path, cfg_text, env=None, workers=16, timeout=900, simulate=None, depth=None,
        seed=None, coverage=False, extra=None, tag=None, heap="8g", dfs=False):
    """Run TLC on `module_path` (absolute, or relative to /verif/specs) with the given cfg text."""
    if not os.path.isabs(module_path):
        module_path = os.path.join(SPECS, module_path)
    module = os.path.splitext(os.path.basename(module_path))[0]
    tag = tag or module
    d = scratch_dir(tag + "-%d" % (time.time_ns() % 10**9))
    cfg = os.path.join(d, module + ".cfg")
    with open(cfg, "w") as f:
        f.write(cfg_text)
    cmd = ["tlc", "-workers", str(workers), "-metadir", os.path.join(d, "meta"),
           "-noGenerateSpecTE", "-config", cfg]
    if simulate is not None:
        cmd += ["-simulate", simulate]
    if depth is not None:
        cmd += ["-depth", str(depth)]
    if seed is not None:
        cmd += ["-seed", str(seed)]
    if coverage:
        cmd += ["-coverage", "1"]
    if extra:
        cmd += list(extra)
    cmd.append(module_path)
    e = dict(os.environ)
    jopts = "-DTLA-Library=%s -Xmx%s -Xss64m" % (LIBPATH, heap)      # deep RECURSIVE operators: generous thread stacks
    if dfs:
        jopts += " -Dtlc2.tool.queue.IStateQueue=StateDeque"
    e["JAVA_TOOL_OPTIONS"] = jopts
    if env:
        e.update({k: str(v) for k, v in env.items()})
    t0 = time.time()
    try:
        p = subprocess.run(["timeout", str(int(timeout))] + cmd, cwd=d, env=e, text=True,
                           stdout=subprocess.PIPE, stderr=subprocess.STDOUT)
    finally:
        pass
    wall = time.time() - t0
    out = p.stdout
    res = TLCResult(module=module, returncode=p.returncode, wall_s=wall, stdout=out,
                    cmd=" ".join(cmd))
    if p.returncode == 124:
        cleanup(d)
        raise TLCFailure("TLC timed out after %ss on %s" % (timeout, module))
    m = None
    for m in _RE_STATES.finditer(out):
        pass
    if m:
        res.generated, res.distinct = int(m.group(1)), int(m.group(2))
    else:
        m = _RE_SIM.search(out)
        if m:
            res.generated = res.distinct = int(m.group(1))
    m = _RE_DEPTH.search(out)
    if m:
        res.depth = int(m.group(1))
    for line in out.splitlines():
        if line.startswith('"') and line.endswith('"') and len(line) >= 2:
            res.printed.append(line[1:-1].replace('\\"', '"').replace("\\\\", "\\"))
    res.violated = _RE_INV.findall(out)
    for mm in _RE_PROP.finditer(out):
        res.violated.append(mm.group(1) or "property")
    for mm in _RE_ERR.finditer(out):
        msg = mm.group(1)
        if msg.startswith("Invariant ") and "is violated" in msg:
            continue
        if "propert" in msg and "violated" in msg:
            continue
        if msg.startswith("The behavior up to this point") or msg.startswith("The following behavior"):
            continue
        res.errors.append(msg)
    if coverage:
        for mm in _RE_COV.finditer(out):
            res.coverage[mm.group(2) + "." + mm.group(1)] = (int(mm.group(3)), int(mm.group(4)))
    # Failure to even start (parse / semantic / config errors) is a machinery failure.
    if res.generated == 0 and not res.violated:
        cleanup(d)
        raise TLCFailure("TLC produced no states for %s (rc=%d):\n%s" % (module, p.returncode, out[-3000:]))
    cleanup(d)
    return res


def verdicts(res, prefix="V|"):
    """Parse verdict lines 'V|<tid>|<verdict text>' printed by trace specs -> {tid: text}."""
    v = {}
    for s in res.printed:
        if s.startswith(prefix):
            parts = s.split("|", 2)
            if len(parts) == 3:
                v[int(parts[1])] = parts[2]
    return v


def write_json(path, obj):
    with open(path, "w") as f:
        json.dump(obj, f, separators=(",", ":"))
