"""C15 - CIF text written by the library parses back to the same data.

(M) MC_Cif: for all small data sets Parse(Ser(d)) = d with the parser of specs/Cif.tla run one
    action per line (design-level model; `--explain` runs the three as-built deviations).
(T) Trace_Cif: seeded random dictionaries through Cif(d).to_string() / Cif.from_string(text), the
    repository's CIF files (parse -> serialise -> parse), and parse_value on uncertainty / quoted
    forms.  TLC evaluates the domain guard, compares Parse_impl(text) with the data, and runs the
    specification's parser on the very bytes the real serialiser wrote.

Numbers never cross the boundary as floats: a float is shipped as the digits of its shortest
round-trip decimal (sign, integer digits, fraction digits); ints as digit lists; text as bytes.
"""
import glob
import math
import os
import random
from decimal import Decimal

from harness.common import VERIF,  REPO, main, pool_map, safe_drive
from harness import tlc

TRACE = "trace/Trace_Cif.tla"
MC = "mc/MC_Cif.tla"

MC_CFG = """SPECIFICATION Spec
CONSTANTS
  MaxBlocks = %(blocks)d
  MaxItems = %(items)d
  MaxLen = %(maxlen)d
  MaxCells = %(cells)d
  Alpha = {%(alpha)s}
  NamePat = %(pat)d
  Decor = %(decor)s
  Variant = "%(variant)s"
INVARIANT InDomain
INVARIANT LinesAreLines
INVARIANT Total
INVARIANT RoundTrip
INVARIANT Consumed
"""
FULL = "1,2,3,4,5,6,7,8,9,10"


def mc_cfg(blocks, items, maxlen, cells, alpha=FULL, pat=1, decor=False, variant="spec"):
    return MC_CFG % dict(blocks=blocks, items=items, maxlen=maxlen, cells=cells, alpha=alpha, pat=pat,
                         decor="TRUE" if decor else "FALSE", variant=variant)


# ------------------------------------------------------------------ value encoding (exact)
def _digits(s):
    return [ord(c) - 48 for c in s]


def enc_value(v):
    """Python value -> Value record of specs/Cif.tla. No float crosses the boundary."""
    if isinstance(v, bool) or v is None:
        return _other(v)
    if isinstance(v, int):
        return {"k": "int", "neg": v < 0, "a": _digits(str(abs(v))), "b": []}
    if isinstance(v, float):
        if not math.isfinite(v):
            return _other(v)
        sign, digs, exp = Decimal(repr(v)).as_tuple()       # shortest round-trip decimal of the double
        ds = "".join(map(str, digs))
        if exp >= 0:
            ip, fp = ds + "0" * exp, ""
        elif -exp >= len(ds):
            ip, fp = "0", "0" * (-exp - len(ds)) + ds
        else:
            ip, fp = ds[:exp], ds[exp:]
        ip = ip.lstrip("0") or "0"
        fp = fp.rstrip("0")
        if len(fp) > 60:
            return _other(v)
        neg = bool(sign) and not (ip == "0" and fp == "")
        return {"k": "dec", "neg": neg, "a": _digits(ip), "b": _digits(fp)}
    if isinstance(v, str):
        if all(ord(c) < 256 for c in v):
            return {"k": "str", "neg": False, "a": [ord(c) for c in v], "b": []}
        return _other(v)
    return _other(v)


def _other(v):
    return {"k": "other", "neg": False, "a": [ord(c) if ord(c) < 256 else 63 for c in repr(v)[:40]], "b": []}


def enc_name(s):
    s = str(s)
    return [ord(c) if ord(c) < 256 else 0 for c in s]


def enc_data(d):
    """dict of blocks -> Data of specs/Cif.tla, in insertion order."""
    out = []
    for bname, blk in d.items():
        items = []
        if not isinstance(blk, dict):
            blk = {}
        for iname, val in blk.items():
            if isinstance(val, (list, tuple)):
                items.append({"name": enc_name(iname), "col": True, "v": [enc_value(x) for x in val]})
            else:
                items.append({"name": enc_name(iname), "col": False, "v": [enc_value(val)]})
        out.append({"name": enc_name(bname), "items": items})
    return out


# ------------------------------------------------------------------ recipes -> Python data
def dec_value(r):
    tag, s = r
    if tag == "i":
        return int(s)
    if tag == "f":
        return float(s)              # the decimal the generator constructed, as the API takes it
    return s


def build_data(rec):
    d = {}
    for bname, items in rec:
        blk = {}
        for iname, kind, val in items:
            blk[iname] = dec_value(val) if kind == "S" else [dec_value(x) for x in val]
        d[bname] = blk
    return d


def repo_files():
    return sorted(glob.glob(os.path.join(REPO, "src/chmpy/tests/**/*.cif"), recursive=True))


def repo_data(recipe):
    """Data parsed by the library from one of the repository's CIF files, or a sub-dictionary of it
    (the variants are further inputs, not a filter: the full file is always shipped as well)."""
    from chmpy.fmt.cif import Cif
    path = os.path.join(REPO, recipe["file"])
    d = Cif.from_file(path).data
    var = recipe["variant"]
    if var == "full":
        return d
    out = {}
    for b, blk in d.items():
        if var == "columns":
            out[b] = {k: v for k, v in blk.items() if isinstance(v, list)}
        elif var == "no-string-scalars":
            out[b] = {k: v for k, v in blk.items() if not isinstance(v, str)}
        elif var.startswith("drop:"):
            out[b] = {k: v for k, v in blk.items() if k != var[5:]}
        elif var == "twice":                      # the same block under two names: two blocks, loops last
            out[b] = dict(blk)
            out[b + "_copy"] = dict(blk)
    return out


def crystal_data(recipe):
    """The dictionary Crystal.to_cif_data() produces for a real crystal on an exact grid (binds the CIF leg of C10 to
    the byte-level CIF specification): returns (the library's own dict, a plain-Python copy for the encoder)."""
    import numpy as np
    from harness import xtal
    cr = xtal.build_crystal(recipe["rec"])
    raw = cr.to_cif_data(data_block_name=recipe.get("block", "crystal"))

    def scalar(v):
        if isinstance(v, (np.floating, float)):
            return float(v)
        if isinstance(v, (np.integer, int)) and not isinstance(v, bool):
            return int(v)
        return str(v)
    plain = {}
    for b, blk in raw.items():
        plain[str(b)] = {str(k): ([scalar(x) for x in v] if isinstance(v, (list, tuple, np.ndarray)) else scalar(v))
                         for k, v in blk.items()}
    return raw, plain


# ------------------------------------------------------------------ drivers (real code)
def drive(recipe):
    kind = recipe["kind"]
    if kind == "pv":
        return drive_pv(recipe)
    from chmpy.fmt.cif import Cif
    t = {"kind": "rt", "data": [], "exc_ser": "", "text": [], "exc_parse": "", "out": [],
         "s": [], "exc": "", "exc_u": "", "val": _other(None), "val_u": _other(None), "unc": [0],
         "meta": {"recipe": recipe, "source": recipe.get("source", kind),
                  "impl_call": "Cif.from_string(Cif(data).to_string()).data", "nontrivial": False}}
    lib_data = None
    if kind == "rt":
        data = build_data(recipe["data"])
    elif kind == "crystal":
        lib_data, data = crystal_data(recipe)     # what a real Crystal hands to the CIF writer (numpy arrays and all)
    else:
        data = repo_data(recipe)
    t["data"] = enc_data(data)
    t["meta"]["nontrivial"] = any(it["col"] and len(it["v"]) > 0 for b in t["data"] for it in b["items"]) and \
        any(v["k"] != "int" for b in t["data"] for it in b["items"] for v in it["v"])
    try:
        src = lib_data if lib_data is not None else data
        before = enc_data(data)
        text = Cif(src).to_string()
        # writing is repeatable and leaves the caller's dictionary alone
        if Cif(src).to_string() != text:
            t["exc_ser"] = "NotRepeatable"
            return t
        if enc_data(data) != before:
            t["exc_ser"] = "ArgumentMutated"
            return t
    except Exception as e:          # an exception of the implementation is an observation
        t["exc_ser"] = type(e).__name__
        return t
    # a horizontal tab is CIF white space; the values of the domain are printable ASCII, so a tab in written text can only be a
    # separator the writer chose: the specification's parser (which knows the blank) is handed a blank in its place
    t["text"] = [32 if c == "\t" else (ord(c) if ord(c) < 256 else 0) for c in text]
    try:
        if recipe.get("seed", 0) % 4 == 1 and all(ord(c) < 128 for c in text):
            # through a file: the path held another dictionary a moment ago and was read then (a file that keeps being
            # rewritten, current.cif); what is read now is the file as it is now
            import tempfile
            dtmp = tempfile.mkdtemp(prefix="c15-", dir=os.path.join(VERIF, "out"))
            try:
                path = os.path.join(dtmp, "current.cif")
                Cif({"earlier": {"cell_length_a": 1.5, "note": "x"}}).to_file(path)
                Cif.from_file(path).data
                Cif(src).to_file(path)
                with open(path) as fh:
                    if fh.read() != text:
                        t["exc_ser"] = "FileDiffersFromString"
                        return t
                out = Cif.from_file(path).data
                t["meta"]["impl_call"] = "Cif(data).to_file(path); Cif.from_file(path).data (the path was written and read before)"
            finally:
                import shutil
                shutil.rmtree(dtmp, ignore_errors=True)
        else:
            out = Cif.from_string(text).data
    except Exception as e:
        t["exc_parse"] = type(e).__name__
        return t
    t["out"] = enc_data(out)
    return t


def drive_pv(recipe):
    from chmpy.fmt.cif import parse_value
    s = recipe["s"]
    t = {"kind": "pv", "data": [], "exc_ser": "", "text": [], "exc_parse": "", "out": [],
         "s": [ord(c) if ord(c) < 256 else 0 for c in s], "exc": "", "exc_u": "",
         "val": _other(None), "val_u": _other(None), "unc": [0],
         "meta": {"recipe": recipe, "source": "pv-forms", "impl_call": "parse_value(%r[, with_uncertainty=True])" % s,
                  "nontrivial": "(" in s or s[:1] in "'\""}}
    try:
        t["val"] = enc_value(parse_value(s))
    except Exception as e:
        t["exc"] = type(e).__name__
    try:
        r = parse_value(s, with_uncertainty=True)
        if isinstance(r, tuple) and len(r) == 2:
            t["val_u"] = enc_value(r[0])
            u = r[1]
            t["unc"] = _digits(str(u)) if isinstance(u, int) and not isinstance(u, bool) and u >= 0 else [0, 0]
        else:
            t["val_u"] = enc_value(r)
    except Exception as e:
        t["exc_u"] = type(e).__name__
    return t


# ------------------------------------------------------------------ generators (seeded)
WORDS = ["", "O1", "H2A", "C", "Uani", "calc", ".", "?", "x,y,z", "-x+1/2,y,-z", "P21/c", "R-3c:H", "d", "abc",
         "o'c", "a;b", "5'-end", "1a", "e5", "1.2.3", "12(3", "x(1)", "-", "+", "..", "1/2", "N#1", "a_b", "A\"b",
         "(3)", "1e", "dAtA", "Loop", "stop", "--1", "1.5()", "a(b)c", "x[1]", "{y}", "%", "~1", "v=1", "nan", "inf",
         "1_000", "0x10", "1e5x", "1.e", "e", "E1", "+-1", "1-2", "3/4", "1:2", "T", "none", "None", "True"]
SPACED = ["a b", "P 21/c", "R 3 c :H", "-x, y+1/2, -z", "testing purposes", "x , y", "1 2", "12 apples",
          "a 1.5(3)", "- x", "C 2/m (b)", "a # b", "a _b", "a ; b", "one two three", "q data_x", "z loop_"]
MULTIBLANK = ["a  b", "P  21/c", "x   y z", "1  2"]
OUTSIDE = ["", " a", "a ", "12", "-7", "1.5", "1.5(3)", ".5", "5.", "1e5", "+2", "1,5", "data_x", "DATA_q", "loop_",
           "_abc", "#c", ";x", "$f", "[1]", "save_", "global_", "stop_x", "it's here", "say \"hi\" now", "'q'",
           "\"q\"", "'a b'", "a\tb", "caf\xe9", "loop_ x", "Data_ y z"]
PREFIXES = ["atom_site", "cell", "symmetry", "geom", "a", "b", "x1", "refine"]
SUFFIXES = ["label", "x", "y", "z", "id", "type", "U", "occ", "flag", "len", "n", "1", "2"]


def g_name(rng, used, flat=False):
    for _ in range(100):
        if flat or rng.random() < 0.15:
            n = rng.choice(["name", "id", "Z", "volume", "T", "k%d" % rng.randrange(100)])
        else:
            n = rng.choice(PREFIXES) + "_" + rng.choice(SUFFIXES)
            if rng.random() < 0.2:
                n += "_%d" % rng.randrange(10)
        if n not in used:
            used.add(n)
            return n
    n = "n%d" % len(used)
    used.add(n)
    return n


def g_int(rng, wide=False):
    r = rng.random()
    if wide and r < 0.5:
        n = rng.randrange(10 ** rng.randrange(1, 20))
    elif r < 0.6:
        n = rng.randrange(0, 200)
    else:
        n = rng.randrange(10 ** rng.randrange(1, 10))
    return ["i", str(-n if rng.random() < 0.3 else n)]


def g_float(rng, mode):
    """Decimal strings; the float handed to the library is float(<this string>).
    mode 'plain': non-integer, <= 12 fraction digits, |x| < 1000 (the bulk: what crystallographic
    CIFs hold); 'wide': any magnitude fitting 20.12f, up to 15 significant digits, tiny values;
    'whole': integer-valued."""
    sign = "-" if rng.random() < 0.3 else ""
    if mode == "whole":
        return ["f", sign + str(rng.randrange(0, 10 ** rng.randrange(1, 7))) + ".0"]
    if mode == "plain":
        ip = str(rng.randrange(0, 10 ** rng.randrange(0, 4)))
        nf = rng.randrange(1, 13)
        fp = "".join(rng.choice("0123456789") for _ in range(nf - 1)) + rng.choice("123456789")
        return ["f", sign + ip + "." + fp]
    # wide
    r = rng.random()
    if r < 0.35:                                  # large magnitude, 15 significant digits at most
        ni = rng.randrange(4, 7 if sign else 8)
        ip = rng.choice("123456789") + "".join(rng.choice("0123456789") for _ in range(ni - 1))
        nf = rng.randrange(1, 16 - ni)
        fp = "".join(rng.choice("0123456789") for _ in range(nf - 1)) + rng.choice("123456789")
        return ["f", sign + ip + "." + fp]
    if r < 0.7:                                   # small magnitude, more than 12 fraction digits
        nz = rng.randrange(0, 14)
        nd = rng.randrange(1, 16)
        fp = "0" * nz + "".join(rng.choice("0123456789") for _ in range(nd - 1)) + rng.choice("123456789")
        return ["f", sign + "0." + fp]
    ip = str(rng.randrange(0, 1000))
    nf = rng.randrange(1, 16 - len(ip))
    fp = "".join(rng.choice("0123456789") for _ in range(nf - 1)) + rng.choice("123456789")
    return ["f", sign + ip + "." + fp]


def g_word(rng):
    if rng.random() < 0.6:
        return rng.choice(WORDS)
    n = rng.randrange(1, 8)
    alpha = "abcdefghijklmnopqrstuvwxyzABCXYZ0123456789+-/,.:()=*"
    return rng.choice("abcdefghxyzABCOHN") + "".join(rng.choice(alpha) for _ in range(n - 1))


def g_str(rng, spaced=0.35):
    if rng.random() < spaced:
        if rng.random() < 0.6:
            return ["s", rng.choice(SPACED)]
        return ["s", " ".join(g_word(rng).replace("'", "").replace('"', "") or "w" for _ in range(rng.randrange(2, 4)))]
    return ["s", g_word(rng)]


def g_value(rng, fam):
    r = rng.random()
    if fam == "numeric":
        if r < 0.3:
            return g_int(rng, wide=False)
        return g_float(rng, "wide" if r < 0.8 else "plain")
    if fam == "bigint":
        return g_int(rng, wide=True) if r < 0.6 else g_float(rng, "plain")
    if fam == "whole":
        if r < 0.4:
            return g_float(rng, "whole")
        return g_float(rng, "plain") if r < 0.7 else g_int(rng)
    if fam == "strings":
        if r < 0.8:
            return g_str(rng, 0.5)
        return g_int(rng) if r < 0.9 else g_float(rng, "plain")
    if fam == "multiblank":
        if r < 0.3:
            return ["s", rng.choice(MULTIBLANK)]
        return g_str(rng) if r < 0.7 else g_int(rng)
    if fam == "outside":
        if r < 0.25:
            return ["s", rng.choice(OUTSIDE)]
        return g_str(rng) if r < 0.6 else g_int(rng)
    # mixed
    if r < 0.3:
        return g_int(rng)
    if r < 0.6:
        return g_float(rng, "plain")
    return g_str(rng)


def g_block(rng, fam, nitems, scalars_only=False):
    used = set()
    items = []
    flat = rng.random() < 0.1
    # columns come in runs sharing a prefix and often a length, as real CIF loops do
    while len(items) < nitems:
        if scalars_only or rng.random() < 0.45:
            items.append([g_name(rng, used, flat), "S", g_value(rng, fam)])
        else:
            run = rng.randrange(1, 4)
            ln = rng.choice([0, 1, 1, 2, 2, 3, 4, 5])
            pre = rng.choice(PREFIXES)
            for _ in range(run):
                if len(items) >= nitems:
                    break
                n = g_name(rng, used, flat)
                if rng.random() < 0.7 and not flat:
                    n2 = pre + "_" + n.split("_")[-1]
                    if n2 not in used:
                        used.discard(n)
                        used.add(n2)
                        n = n2
                l = ln if rng.random() < 0.8 else rng.randrange(0, 5)
                items.append([n, "C", [g_value(rng, fam) for _ in range(l)]])
    return items


INSIDE = ["metadata_1", "raw_data_2", "powder_data_set", "myloop_", "xloop_1", "nodata", "predata_", "a_data_b", "unloop_",
          "global_x", "xglobal_", "save_me", "unsave_", "stop", "nonstop_", "x_data_", "DATA", "Metadata_7"]


def g_wide_block(rng, kind):
    """Tables of real-world width: one category with a hundred-odd columns (a row of more than 2048 characters), a column of
    free text thousands of characters long, and strings that merely CONTAIN a reserved word in the leading column."""
    if kind == "wide":
        ncol, ln = rng.randrange(98, 112), 1
        cols = [["wide_c%d" % i, "C", [g_int(rng) if (i + j) % 3 else g_float(rng, "plain") for j in range(ln)]] for i in range(ncol)]
        return cols + [["after", "S", g_value(rng, "mixed")]]
    if kind == "longtext":
        ln = rng.randrange(1, 4)
        text = lambda: ["s", " ".join(g_word(rng).replace("'", "").replace('"', "") or "w" for _ in range(rng.randrange(400, 460)))]
        return [["note_id", "C", [g_int(rng) for _ in range(ln)]], ["note_text", "C", [text() for _ in range(ln)]],
                ["note_flag", "C", [g_str(rng, 0.0) for _ in range(ln)]], ["long_scalar", "S", text()]]
    ln = rng.randrange(2, 6)
    first = [["s", rng.choice(INSIDE)] if rng.random() < 0.7 else g_str(rng, 0.0) for _ in range(ln)]
    return [["lead_name", "C", first], ["lead_x", "C", [g_value(rng, "mixed") for _ in range(ln)]],
            ["lead_y", "C", [g_int(rng) for _ in range(ln)]], ["tail", "S", ["s", rng.choice(INSIDE)]]]


def g_recipe(seed, fam, shape):
    if fam == "tables":
        rng = random.Random(seed)
        return {"kind": "rt", "source": "random:tables/%s" % shape, "seed": seed, "data": [["tab", g_wide_block(rng, shape)]]}
    """shape: 'single' (one block), 'multi' (2-3 blocks), 'multi-scalars-first' (every block but the
    last holds scalars only)."""
    rng = random.Random(seed)
    nb = 1 if shape == "single" else rng.randrange(2, 4)
    names = rng.sample(["x", "y", "z", "iceii", "r3c", "acetic_acid", "A1", "blk-2", "global", "1", "metadata_1", "xrd_data_300K",
                        "data_set_2", "run_1", "run_data_1", "DATA_x", "loop_1", "data"], nb)
    data = []
    for i, bn in enumerate(names):
        so = shape == "multi-scalars-first" and i < nb - 1
        data.append([bn, g_block(rng, fam, rng.randrange(1, 7), scalars_only=so)])
    return {"kind": "rt", "source": "random:%s/%s" % (fam, shape), "seed": seed, "data": data}


def pv_recipes(rng, n):
    fixed = ["1.234(5)", "2.0(1)", "12(3)", "-0.5e-3(12)", ".5", "5.", "5.(2)", "+7", "-0", "0.0", "1e5", "1.5E+2(3)",
             "100", "1.00", "0.000", "-3.140(15)", "12345678901234567890", "9007199254740993", "9007199254740992",
             "1,5", "1.5e400", "'a b'", '"x y"', "'12'", "'1.5(3)'", "'it\"s'", '"o\'c d"', "''", "'a", "a'", "abc",
             "x,y,z", "1.2.3", "12(3", "(3)", "1.5()", "1.5(3)x", "e5", "1e", "1e+", "-", ".", "?", "' a'", "'a '",
             "'a'b'", "\"\"", " 1.5", "1.5 ", "0.1(1)", "-.5(1)", "7.(3)", "3(0)", "003", "00.50", "nan", "inf", "1_000",
             "0x10", "1.e3", "1.e", ".e3", "+.5", "-.5e1(2)", "1e5(1)", "1E-2", "2.50(10)", "0.0(1)", "10.(1)"]
    out = [{"kind": "pv", "s": s} for s in fixed]
    while len(out) < n:
        r = rng.random()
        if r < 0.55:
            sign = rng.choice(["", "", "-", "+"])
            ip = str(rng.randrange(0, 10 ** rng.randrange(1, 6))) if rng.random() < 0.9 else ""
            fp = ""
            if rng.random() < 0.75 or not ip:
                fp = "." + "".join(rng.choice("0123456789") for _ in range(rng.randrange(0 if ip else 1, 8)))
            ex = ""
            if rng.random() < 0.2:
                ex = rng.choice("eE") + rng.choice(["", "-", "+"]) + str(rng.randrange(0, 13))
            su = "(%d)" % rng.randrange(0, 200) if rng.random() < 0.7 else ""
            s = sign + ip + fp + ex + su
        elif r < 0.8:
            q = rng.choice("'\"")
            s = q + g_str(rng, 0.7)[1] + q
        else:
            s = g_str(rng, 0.0)[1]
        out.append({"kind": "pv", "s": s})
    return out


def build_recipes(ctx):
    q = ctx.quick
    plan = [  # (family, shape, quick count, thorough count)
        ("mixed", "single", 320, 12000), ("mixed", "multi-scalars-first", 160, 6000), ("mixed", "multi", 160, 6000),
        ("numeric", "single", 200, 8000), ("strings", "single", 200, 8000), ("strings", "multi", 60, 3000),
        ("whole", "single", 60, 2000), ("bigint", "single", 50, 2000), ("multiblank", "single", 40, 1500),
        ("outside", "single", 100, 3000),
        ("tables", "wide", 1, 24), ("tables", "longtext", 0, 8), ("tables", "reserved-inside", 40, 800),
    ]
    recipes = []
    k = 0
    for fam, shape, nq, nt in plan:
        for _ in range(nq if q else nt):
            recipes.append(g_recipe(ctx.seed * 1000003 + k, fam, shape))
            k += 1
    for f in repo_files():
        rel = os.path.relpath(f, REPO)
        for var in ["full", "columns", "no-string-scalars", "twice"]:
            recipes.append({"kind": "repo", "source": "repo-file", "file": rel, "variant": var})
        try:
            from chmpy.fmt.cif import Cif
            d = Cif.from_file(f).data
            for blk in d.values():
                for name, v in blk.items():
                    if isinstance(v, str):
                        recipes.append({"kind": "repo", "source": "repo-file", "file": rel, "variant": "drop:" + name})
        except Exception:
            pass                       # the "full" recipe records what the library does with this file
    # dictionaries written by real Crystal objects (all crystal systems, special positions, partial occupancies)
    import math as _m
    from harness import xtal
    from harness.c02 import table_rows
    rows = table_rows()
    rng = random.Random(ctx.seed * 7907 + 3)
    for r in (rng.sample(rows, 50) if q else rows):
        n = rng.choice([12, 24, 48])
        asym = xtal.gen_asym(rng, r["ops"], n, rng.randint(1, 3))
        if not asym:
            continue
        for a in asym:
            a["p"] = [x % n for x in a["p"]]
        gram = xtal.sym_gram(r["ops"], rng)
        vol = max(len(r["ops"]) * len(asym) * 15.0, 80.0)
        recipes.append({"kind": "crystal", "source": "real-crystal", "block": "xtal_%d" % r["number"],
                        "rec": {"number": r["number"], "choice": r["choice"], "n": n, "gram": gram,
                                "u": (vol / _m.sqrt(xtal.det3(gram))) ** (1 / 3.0), "asym": asym, "route": "params"}})
    recipes += pv_recipes(ctx.rng, 300 if q else 6000)
    return recipes


def last_state(stdout):
    """The final state of TLC's counterexample, with byte sequences shown as text."""
    import re
    i = stdout.rfind("\nState ")
    j = stdout.find("\n\n", i + 1)
    if i < 0:
        return "(no counterexample)"
    txt = stdout[i + 1:j if j > 0 else None]

    def show(m):
        nums = [int(x) for x in m.group(1).split(",")]
        if nums and all(32 <= n < 127 for n in nums) and (len(nums) > 1 or nums[0] > 57):
            return '"%s"' % "".join(map(chr, nums))
        return m.group(0)
    return re.sub(r"<<\s*((?:\d+\s*,\s*)*\d+)\s*>>", show, txt)


# ------------------------------------------------------------------ the check
def run(ctx, explain=False):
    # (M) design-level model checking: Parse(Ser(d)) = d, parser actions taken step by step
    if ctx.quick:
        models = [("1 block, <=3 items, <=3 cells, 10 values", mc_cfg(1, 3, 2, 3)),
                  ("2 blocks, <=3 items, <=3 cells, values {2.0, 'a b'}, names a_1 b_2 a_3, decorated",
                   mc_cfg(2, 3, 2, 3, alpha="3,7", pat=2, decor=True))]
    else:
        models = [("1 block, <=3 items, <=4 cells, 10 values", mc_cfg(1, 3, 2, 4)),
                  ("1 block, <=3 items, <=4 cells, 10 values, names a_1 b_2 a_3, decorated",
                   mc_cfg(1, 3, 2, 4, pat=2, decor=True)),
                  ("2 blocks, <=3 items, <=3 cells, values {-12, 2.0, 1.50(3), 'a b', 'a  b'}",
                   mc_cfg(2, 3, 2, 3, alpha="2,3,5,7,10")),
                  ("2 blocks, <=3 items, <=5 cells, values {2.0, 'a b'}, names a_1 b_2 a_3",
                   mc_cfg(2, 3, 2, 5, alpha="3,7", pat=2)),
                  ("2 blocks, <=2 items, <=3 cells, 10 values, decorated", mc_cfg(2, 2, 2, 3, decor=True))]
    for name, cfg in models:
        ctx.model_check(MC, cfg, name="MC_Cif(%s)" % name, timeout=ctx.pick(300, 3000))
    if explain:
        for variant in ["asbuilt-dataline", "asbuilt-typing", "asbuilt-itemtext"]:
            res = tlc.run(MC, mc_cfg(2, 2, 1, 2, variant=variant), timeout=300)
            print("---- deviation %s: violated %s" % (variant, res.violated or "nothing"))
            print(last_state(res.stdout))
    # (T) executions of the real code
    recipes = build_recipes(ctx)
    traces = pool_map(safe_drive(drive), recipes)
    ctx.validate(TRACE, traces, batch=6000, timeout=ctx.pick(600, 3000))
    nrt = sum(1 for r in recipes if r["kind"] == "rt")
    ctx.exhaustive = False
    ctx.rule = ("%d seeded random dictionaries (1-3 blocks, 1-6 items, scalars and columns of 0-5 rows; ints to 19 "
                "digits, floats built from decimals with up to 15 significant digits, plain / blank-holding / "
                "punctuated strings) + the repository's %d CIF files and sub-dictionaries of them, each through "
                "Cif(d).to_string() and Cif.from_string(); %d parse_value forms (uncertainties, quotes). "
                "non-trivial = holds a non-empty loop and a float or string" % (
                    nrt, len(repo_files()), sum(1 for r in recipes if r["kind"] == "pv")))
    ctx.explanation = ("MC_Cif is exhaustive over its bounded domain (all shapes x all value assignments named in "
                       "tlc_runs); the executions of the real code are sampled. Strings spelled like numbers or "
                       "reserved words, strings needing nested quotes, empty strings and empty blocks are judged "
                       "out of domain by the guard Outside() in specs/Cif.tla.")
    ctx.assumptions = [
        "a float is identified by the digits of repr(float) (shortest round-trip decimal); equality of a loop "
        "value is |read - given| <= 5e-13 + 1e-15*|given| (half a unit of the 12th decimal plus one ulp), of a "
        "scalar 1e-15 relative",
        "dictionaries are compared as Python compares them: by key, not by insertion order"]


def replay(ctx, rec):
    t = drive(rec["record"]["meta"]["recipe"])
    ctx.validate(TRACE, [t])


if __name__ == "__main__":
    raise SystemExit(main("C15", run, replay))
