"""C01 - unit-cell contents are exactly the symmetry orbit of the asymmetric unit.

(M) MC_Crystal: ApplyOps -> Wrap -> Merge == Orbit for every tabulated setting x listed sites.
(T) real Crystal objects on exact grids (all 530 settings), unit_cell_atoms() and slab()
    projected to the grid and validated by TLC against Crystal.tla.
"""
import os

from harness.common import main, pool_map
from harness import tlc, xtal
from harness.c02 import table_rows
from harness.project import to_grid

MC_CFG = """SPECIFICATION Spec
CHECK_DEADLOCK FALSE
CONSTANTS
  NBlocks = 64
  N = 12
  TwoStride = %d
INVARIANT OneSite
INVARIANT TwoSites
INVARIANT OrbitStabiliser
"""


def drive(rec):
    import numpy as np
    t = {"n": rec["n"], "gram": rec["gram"], "asym": rec["asym"], "ops": [], "decimals": int(rec.get("decimals") or 0),
         "switched": bool(rec.get("via_switch")), "pre": rec.get("pre", {}), "choice": rec["choice"],
         "applied": {"exc": "", "off": False, "codes": [], "raw": []},
         "uc": {"exc": "", "off": False, "rows": [], "cc": [], "again": "same"},
         "slab": {"exc": "", "off": False, "rows": [], "lo": rec["slab"][0], "hi": rec["slab"][1], "n_uc": 0, "n_cells": 0},
         "meta": {"recipe": rec, "source": rec.get("src", "random"),
                  "impl_call": "Crystal(UnitCell, SpaceGroup(%d,%r), AsymmetricUnit).unit_cell_atoms(); slab(%s)" % (
                      rec["number"], rec["choice"], rec["slab"])}}
    try:
        cr = xtal.build_crystal(rec)
    except Exception as e:
        if not rec.get("via_switch"):
            raise                                  # constructing a plain crystal from a recipe cannot fail: harness error
        t["uc"]["exc"] = "switch:" + type(e).__name__
        t["table_ops"] = rec["table_ops"]
        return t
    sg = cr.space_group
    # coordinates given to d <= 5 decimals (0.333, 0.6667) sit within 10^-d of their grid point, and so do their images
    dec = int(rec.get("decimals") or 0)
    tol = 1e-6 if not (0 < dec <= 5) else 4.0 * 10.0 ** (-dec)
    t["ops"] = [int(s.integer_code) for s in sg.symmetry_operations]
    t["table_ops"] = rec["table_ops"]
    n = rec["n"]
    cap = {}
    orig = sg.apply_all_symops

    def wrapped(coords):
        res = orig(coords)
        cap["res"] = res
        return res
    sg.apply_all_symops = wrapped
    try:
        uc = cr.unit_cell_atoms()
    except Exception as e:
        t["uc"]["exc"] = type(e).__name__
        return t
    finally:
        try:
            del sg.apply_all_symops
        except AttributeError:
            pass
    if "res" in cap:
        codes, raw = cap["res"]
        off = False
        rows = []
        for r in np.asarray(raw, dtype=float):
            p = []
            for x in r:
                k, o = to_grid(float(x), n, tol)
                p.append(k)
                off |= o
            rows.append(p)
        t["applied"].update(codes=[int(c) for c in codes], raw=rows, off=bool(off))
    else:
        t["applied"]["exc"] = "not-called"
    rows, cc, off = xtal.project_rows(uc, n, rec["gram"] if tol == 1e-6 else None, rec["u"], tol=tol)
    t["uc"].update(rows=rows, cc=cc, off=bool(off))
    snapshot = {k: np.array(v, copy=True) for k, v in uc.items()}
    try:
        sl = cr.slab(bounds=(tuple(rec["slab"][0]), tuple(rec["slab"][1])))
        srows, _, soff = xtal.project_rows(sl, n, None, rec["u"], with_cell=True, tol=tol)
        t["slab"].update(rows=srows, off=bool(soff), n_uc=int(sl["n_uc"]), n_cells=int(sl["n_cells"]))
    except Exception as e:
        t["slab"]["exc"] = type(e).__name__
    # the same question asked again after the crystal has been exported and queried must get the same answer
    for use in (lambda: cr.to_poscar_string(), lambda: cr.to_cif_string(), lambda: cr.to_shelx_string(), lambda: cr.density,
                lambda: cr.atoms_in_radius(3.0), lambda: cr.asymmetric_unit.formula,
                # the diffraction side of the library reads the unit-cell contents too (small cells only: the cost grows with
                # the number of reflections)
                lambda: cr.unique_reflections() if cr.unit_cell.volume() < 400 else None,
                lambda: cr.structure_factors() if cr.unit_cell.volume() < 250 and len(rows) <= 48 else None):
        try:
            use()
        except Exception:
            pass                                   # exports and other queries are judged elsewhere (C10, C03)
    try:
        uc2 = cr.unit_cell_atoms()
        same = set(uc2.keys()) == set(snapshot.keys()) and all(
            np.asarray(uc2[k]).shape == snapshot[k].shape and np.array_equal(np.asarray(uc2[k]), snapshot[k]) for k in snapshot)
        t["uc"]["again"] = "same" if same else "differs"
    except Exception as e:
        t["uc"]["again"] = "exc:" + type(e).__name__
    mult = len(t["ops"]) * len(rec["asym"]) != len(rows)
    t["meta"]["nontrivial"] = bool(len(t["ops"]) > 1 and mult)
    return t


def recipes_for(ctx, rows, per_setting):
    rng = ctx.rng
    out = []
    for r in rows:
        for k in range(per_setting):
            n = rng.choice([12, 24, 48]) if k else 24
            nsites = rng.randint(1, 4 if len(r["ops"]) <= 48 else 2)
            asym = xtal.gen_asym(rng, r["ops"], n, nsites, want_special=(k % 2 == 0))
            if not asym:
                continue
            gram = xtal.sym_gram(r["ops"], rng)
            lo = [rng.randint(-2, 0) for _ in range(3)]
            hi = [rng.randint(0, 1) for _ in range(3)]
            out.append({"number": r["number"], "choice": r["choice"], "table_ops": r["ops"], "n": n, "gram": gram,
                        "u": rng.uniform(3.0, 12.0) / (max(gram[i][i] for i in range(3)) ** 0.5),
                        "asym": asym, "slab": [lo, hi], "route": rng.choice(["params", "vectors", "respec"]),
                        "decimals": rng.choice([0, 0, 12, 9])})
    # special positions with coordinates in thirds / sixths / twelfths, given to file precision: their symmetry images
    # carry different rounding noise and may coincide across a cell face (0.0 vs 0.99999...)
    for r in rows:
        if r["number"] < 143:
            continue
        for k in range(per_setting):
            asym = xtal.gen_asym(rng, r["ops"], 12, rng.randint(1, 2), want_special=True)
            if not asym:
                continue
            gram = xtal.sym_gram(r["ops"], rng)
            out.append({"number": r["number"], "choice": r["choice"], "table_ops": r["ops"], "n": 12, "gram": gram,
                        "u": rng.uniform(3.0, 12.0) / (max(gram[i][i] for i in range(3)) ** 0.5),
                        "asym": asym, "slab": [[-1, 0, 0], [0, 0, 1]], "route": "params", "decimals": rng.choice([12, 9, 5, 4, 3, 3]),
                        "src": "file-precision special positions"})
    # objects that were used in hexagonal axes and then switched in place to rhombohedral axes (the unit cell must be that of
    # the new setting, whatever was computed before)
    for r in rows:
        if r["number"] in (146, 148, 155, 160, 161, 166, 167) and r["choice"] == "H":
            for k in range(ctx.pick(2, 12)):
                asym = xtal.gen_asym(rng, r["ops"], 12, rng.randint(1, 3), want_special=(k % 2 == 0))
                if not asym:
                    continue
                pq = (rng.randint(1, 5), rng.randint(1, 9))
                gram = [[18 * pq[0], -9 * pq[0], 0], [-9 * pq[0], 18 * pq[0], 0], [0, 0, 9 * pq[1]]]
                rec_h = {"number": r["number"], "choice": "H", "n": 12, "gram": gram,
                         "u": rng.uniform(4.0, 10.0) / (18 * pq[0]) ** 0.5, "asym": asym}
                rec_r = xtal.switched_recipe(rec_h, rows)
                if rec_r is None:
                    continue
                rec_r.update(slab=[[-1, 0, -1], [0, 1, 0]], route="params", decimals=0, src="switched in place H->R after use")
                out.append(rec_r)
    # a large asymmetric unit (more than 256 sites: large Z', P1 supercells): parent-site indices beyond one byte
    for r in rows:
        if r["number"] in (1, 2) and (r["number"] == 2 or not ctx.quick):
            nsites = rng.randint(258, 300)
            used, asym = set(), []
            while len(asym) < nsites:
                p = [rng.randrange(48) for _ in range(3)]
                orb = xtal.orbit(r["ops"], p, 48)
                if len(orb) != len(r["ops"]) or orb & used:
                    continue
                used |= orb
                z = rng.choice(xtal.ELEMENTS)
                asym.append({"z": z, "p": p, "occ": 12, "label": "%s%d" % (xtal.SYMBOLS[z], len(asym) + 1)})
            gram = xtal.sym_gram(r["ops"], rng)
            out.append({"number": r["number"], "choice": r["choice"], "table_ops": r["ops"], "n": 48, "gram": gram,
                        "u": rng.uniform(20.0, 30.0) / (max(gram[i][i] for i in range(3)) ** 0.5),
                        "asym": asym, "slab": [[0, 0, 0], [0, 0, 0]], "route": "params", "decimals": 0, "src": "large asymmetric unit"})
    # sites at lattice points written as integers ([[0, 0, 0]], [[1, 0, -1]]): every operation with a translation part must
    # still move them by that fraction
    for i, r in enumerate(rows):
        if i % ctx.pick(4, 1):
            continue
        gram = xtal.sym_gram(r["ops"], rng)
        z = rng.choice(xtal.ELEMENTS)
        out.append({"number": r["number"], "choice": r["choice"], "table_ops": r["ops"], "n": 12, "gram": gram,
                    "u": rng.uniform(3.0, 12.0) / (max(gram[i2][i2] for i2 in range(3)) ** 0.5),
                    "asym": [{"z": z, "p": [12 * rng.randint(-1, 1) for _ in range(3)], "occ": 12, "label": "%s1" % xtal.SYMBOLS[z]}],
                    "slab": [[0, 0, 0], [0, 1, 0]], "route": "params", "decimals": 0, "int_positions": True,
                    "src": "integer coordinates"})
    return out


def run(ctx):
    rows = table_rows()
    d = tlc.scratch_dir("c01")
    try:
        f = os.path.join(d, "sg.json")
        if ctx.quick:
            sites = [[ctx.rng.randrange(12) for _ in range(3)] for _ in range(3)] + [[0, 0, 0], [6, 6, 6], [4, 8, 0], [3, 3, 9]]
        else:
            sites = [[a, b, c] for a in range(12) for b in range(12) for c in range(12)]
        tlc.write_json(f, {"rows": rows, "sites": sites})
        ctx.model_check("mc/MC_Crystal.tla", MC_CFG % ctx.pick(1, 8), name="MC_Crystal(%d sites)" % len(sites), data_driven=True,
                        env={"SG_FILE": f}, timeout=ctx.pick(600, 6000))
    finally:
        tlc.cleanup(d)
    recs = recipes_for(ctx, rows, ctx.pick(1, 8))
    traces = pool_map(drive, recs)
    ctx.validate("trace/Trace_Crystal.tla", traces, batch=2000, timeout=1500)
    ctx.rule = ("every one of the %d tabulated settings x %d seeded asymmetric units (1-4 sites mixing general and special "
                "positions on grids N in {12,24,48}, occupancies 1, 1/2, 1/3, 1/4, cells from a symmetrised integer Gram "
                "matrix, built from parameters or lattice vectors); non-trivial = at least one site on a special position "
                "(merged images) in a group of order > 1; the trigonal/hexagonal/cubic settings additionally get special positions in "
                "thirds/sixths/twelfths given to file precision (12, 9, 5, 4 or 3 decimals: 0.333333333 ... 0.333)" % (len(rows), ctx.pick(1, 8)))
    ctx.explanation = ("settings enumerated completely; MC_Crystal enumerates %s sites of the N=12 grid for every setting; "
                       "asymmetric units and cells are sampled" % ("all 1728" if not ctx.quick else "7"))
    ctx.exhaustive = False
    ctx.assumptions = ["fractional outputs are projected to the 1/N grid (residual > 1e-6 is rejected as OnGrid)",
                       "operation identity by packed code (C11)"]


def replay(ctx, rec):
    ctx.validate("trace/Trace_Crystal.tla", [drive(rec["record"]["meta"]["recipe"])])


if __name__ == "__main__":
    raise SystemExit(main("C01", run, replay))
