"""C16 - saving a molecule to XYZ or SDF and loading it back reproduces it.

(M) MC_MolFormats: Read(Write(m)) = m, V2000 layout, record splitting and the spelling grammar at the
    level of the specification (molecules of 1-3 atoms over a 7-value coordinate alphabet).
(T) traces recorded from the real chmpy code -> Trace_MolFormats (all verdicts by TLC):
      sdf_rt     Molecule.to_sdf_string / save(.sdf) -> bytes -> parse_sdf_contents / Molecule.load,
                 one or several records joined by "$$$$" lines, with and without guess_bonds
      sdf_read   the specification's own SDF text (proposed here, certified by TLC) -> chmpy reader
      sdf_file   the repository's DB09563.sdf -> reader -> writer -> reader
      xyz_rt     Molecule.to_xyz_string / save(.xyz) -> bytes -> from_xyz_string / load
      xyz_spell  spellings of an XYZ file (case, blanks/tabs, number forms; certified by TLC) -> reader
Inputs are decimals built from integers; this file never compares anything: it drives the API,
projects floats to exact decimals and ships bytes.
"""
import math
import os
import random
import shutil
import tempfile
from fractions import Fraction

from harness.common import REPO, VERIF, main, pool_map
from harness import tlc

TRACE = "trace/Trace_MolFormats.tla"

MC_CFG = """SPECIFICATION Spec
CHECK_DEADLOCK FALSE
CONSTANTS
  AsBuiltReader = %s
  AsBuiltWriter = %s
  Wide = %s
INVARIANT StyleOK
INVARIANT WriterLayout
INVARIANT DeclarativeRead
INVARIANT NoRaise
INVARIANT StepwiseRead
INVARIANT FileRecords
"""

SYMBOLS = ("H He Li Be B C N O F Ne Na Mg Al Si P S Cl Ar K Ca Sc Ti V Cr Mn Fe Co Ni Cu Zn Ga Ge As Se Br Kr "
           "Rb Sr Y Zr Nb Mo Tc Ru Rh Pd Ag Cd In Sn Sb Te I Xe Cs Ba La Ce Pr Nd Pm Sm Eu Gd Tb Dy Ho Er Tm "
           "Yb Lu Hf Ta W Re Os Ir Pt Au Hg Tl Pb Bi Po At Rn Fr Ra Ac Th Pa U Np Pu Am Cm Bk Cf Es Fm Md No "
           "Lr").split()


# ------------------------------------------------------------------ exact decimals <-> floats
def dec(n, nl):
    """integer n in units of 10^-(4 nl) -> the Dec record of MolFormats.tla"""
    a = abs(int(n))
    scale = 10 ** (4 * nl)
    f = a % scale
    return {"neg": n < 0, "ip": a // scale, "fr": [(f // 10 ** (4 * (nl - 1 - k))) % 10000 for k in range(nl)]}


def to_float(n, nl):
    if n == "-0":
        return -0.0
    return float(Fraction(int(n), 10 ** (4 * nl)))      # correctly rounded


def project(x, nl):
    """float -> (Dec on the 10^-(4 nl) grid, offgrid). SDF grid: residual > 0.01 unit is off grid; at 12
    decimals a double is not finer than the grid, only non-finite values are off grid."""
    x = float(x)
    if not math.isfinite(x) or abs(x) >= 1e9:
        return dec(0, nl), True
    v = Fraction(x) * 10 ** (4 * nl)
    q = round(v)
    off = nl == 1 and abs(v - q) > Fraction(1, 100)
    return dec(q, nl), off


def lines_of(data):
    if isinstance(data, str):
        data = data.encode("latin-1", "replace")
    return [list(b) for b in data.split(b"\n")]


def atoms_in(atoms, nl):
    return [{"z": int(z), "c": [dec(0 if n == "-0" else n, nl) for n in c]} for z, c in atoms]


def project_mol(m, nl):
    off = False
    atoms = []
    pos = m.positions
    for i, el in enumerate(m.elements):
        c = []
        for k in range(3):
            d, o = project(pos[i][k], nl)
            off = off or o
            c.append(d)
        atoms.append({"z": int(el.atomic_number), "c": c})
    return {"atoms": atoms}, off


def build(atoms, nl, gb, prov=""):
    import numpy as np
    from chmpy import Molecule
    from chmpy.core.element import Element
    pos = np.array([[to_float(n, nl) for n in c] for _, c in atoms], dtype=float).reshape(-1, 3)
    els = [Element[int(z)] for z, _ in atoms]
    if prov == "loaded-edited":
        # the molecule to be written was itself loaded from an SDF record (keeping the record text, as the reader can)
        # and then moved: what is written must be the molecule as it is now
        from chmpy.fmt.sdf import parse_sdf_contents
        shift = np.array([2.0, -1.0, 3.0])
        m0 = Molecule(els, pos - shift)
        m = Molecule.from_sdf_dict(parse_sdf_contents(m0.to_sdf_string(), keep_sdf_text=True)[0])
        m.translate(shift)
    else:
        m = Molecule(els, pos)
    if gb:
        m.guess_bonds()
    nb = len(list(m.bonds.keys())) if m.bonds is not None else 0
    return m, nb


def scratch():
    os.makedirs(os.path.join(VERIF, "out"), exist_ok=True)
    return tempfile.mkdtemp(prefix="c16-", dir=os.path.join(VERIF, "out"))


def read_back(fn, nl):
    """run a reader of the implementation; its exception is an observation"""
    back = {"exc": "", "offgrid": False, "mols": []}
    try:
        mols = fn()
        if not isinstance(mols, (list, tuple)):
            mols = [mols]
        for m in mols:
            pm, off = project_mol(m, nl)
            back["mols"].append(pm)
            back["offgrid"] = back["offgrid"] or off
    except Exception as e:  # noqa: BLE001 - observation
        back = {"exc": type(e).__name__, "offgrid": False, "mols": []}
    return back


# ------------------------------------------------------------------ drivers
def _decoy_at(p, ext, fmt):
    """Write another molecule to the path and load it: what is read later from the same path is the file as it is then."""
    import numpy as np
    from chmpy import Molecule
    try:
        m = Molecule.from_arrays(np.array([2, 10]), np.array([[0.25, 0.5, 0.75], [3.0, 3.5, 4.0]]))
        if ext.startswith("."):
            m.save(p)
            Molecule.load(p)
        else:
            m.save(p, fmt=ext)
            Molecule.load(p, fmt=ext)
    except Exception:  # noqa: BLE001
        pass
    finally:
        try:
            os.remove(p)
        except OSError:
            pass


def join_records(texts):
    """Records are joined by the delimiter line; a writer that already closes its record with one is taken at its word."""
    return b"".join((t if t.endswith(b"\n") else t + b"\n") if t.rstrip(b"\r\n").endswith(b"$$$$") else t + b"\n$$$$\n" for t in texts)


def sdf_write_read(mol_specs, nl, route, ext, d):
    """mol_specs: [(atoms, gb)] -> (mols-in, wexc, lines, back)"""
    from chmpy import Molecule
    from chmpy.fmt.sdf import parse_sdf_contents
    mols_in, texts, wexc = [], [], ""
    for j, spec in enumerate(mol_specs):
        atoms, gb = spec[0], spec[1]
        try:
            m, nb = build(atoms, nl, gb, spec[2] if len(spec) > 2 else "")
            if (len(atoms) + j) % 3 == 0:
                # the molecule carries a title: empty, blank, or text
                m.properties["name"] = ("", "   ", "water 1", "x")[(len(atoms) + 2 * j) % 4]
            if route == "string":
                texts.append(m.to_sdf_string().encode("latin-1", "replace"))
            else:
                p = os.path.join(d, "w%d%s" % (j, ext if ext.startswith(".") else ".dat"))
                if ext.startswith("."):
                    m.save(p)
                else:
                    m.save(p, fmt=ext)
                with open(p, "rb") as fh:
                    texts.append(fh.read())
        except Exception as e:  # noqa: BLE001
            wexc = type(e).__name__
            nb = 0
        mols_in.append({"atoms": atoms_in(atoms, nl), "nb": int(nb)})
    if wexc:
        return mols_in, wexc, [], {"exc": "", "offgrid": False, "mols": []}
    if len(texts) == 1:
        data = texts[0]
    else:
        data = join_records(texts)
    if route == "string":
        back = read_back(lambda: [Molecule.from_sdf_dict(x) for x in parse_sdf_contents(data.decode("latin-1"))], 1)
    else:
        p = os.path.join(d, "joined" + (ext if ext.startswith(".") else ".dat"))
        _decoy_at(p, ext, "sdf")                 # the path held another molecule a moment ago and was read then
        with open(p, "wb") as fh:
            fh.write(data)
        if ext.startswith("."):
            back = read_back(lambda: Molecule.load(p), 1)
        else:
            back = read_back(lambda: Molecule.load(p, fmt=ext), 1)
    return mols_in, wexc, lines_of(data), back


# ---------------------------------------------------------------- .mol2 files (extension: Mol2File.tla)
def _f4(v):
    a = abs(v)
    return ("-" if v < 0 else "") + "%d.%04d" % (a // 10000, a % 10000)


def drive_mol2(rec):
    import numpy as np
    from chmpy import Molecule
    atoms, bonds, name = rec["atoms"], rec["bonds"], rec["name"]
    lines = ["@<TRIPOS>MOLECULE", name, " %d %d 1 0 0" % (len(atoms), len(bonds)), "SMALL", "NO_CHARGES", "", "@<TRIPOS>ATOM"]
    for k, a in enumerate(atoms):
        lines.append(str(k + 1).rjust(7) + " " + a["name"].ljust(8) + _f4(a["x"]).rjust(10) + _f4(a["y"]).rjust(10) + _f4(a["z"]).rjust(10)
                     + " " + (SYMBOLS[a["zel"] - 1] + a["suffix"]).ljust(6) + "  1  LIG1" + _f4(0).rjust(10))
    lines.append("@<TRIPOS>BOND")
    for k, b in enumerate(bonds):
        lines.append(str(k + 1).rjust(6) + str(b["a"]).rjust(6) + str(b["b"]).rjust(6) + "   " + b["type"])
    enc = lambda s_: [ord(c) for c in s_]  # noqa: E731
    t = {"name": enc(name), "atoms": [dict(a, name=enc(a["name"]), suffix=enc(a["suffix"])) for a in atoms],
         "bonds": [dict(b, type=enc(b["type"])) for b in bonds], "lines": [enc(ln) for ln in lines], "exc": "", "off": False,
         "loaded": {"atoms": [], "bonds": []},
         "meta": {"recipe": rec, "source": "spec-written-mol2", "nontrivial": True,
                  "impl_call": "Molecule.%s(<mol2: %d atoms, %d bonds>)" % ("load" if rec["via"] == "file" else "from_mol2_string", len(atoms), len(bonds))}}
    text = "\n".join(lines) + "\n"
    d = scratch()
    try:
        if rec["via"] == "file":
            p_ = os.path.join(d, "lig.mol2")
            with open(p_, "w") as fh:
                fh.write(text)
            m = Molecule.load(p_)
        else:
            m = Molecule.from_mol2_string(text)
        pos = np.asarray(m.positions, dtype=float) * 10000.0
        t["off"] = bool(np.any(np.abs(pos - np.rint(pos)) > 1e-6))
        labels = m.labels if m.labels is not None else [""] * len(m)
        t["loaded"]["atoms"] = [{"zel": int(z), "name": enc(str(lab)), "x": int(round(p[0])), "y": int(round(p[1])), "z": int(round(p[2]))}
                                for z, lab, p in zip(m.atomic_numbers, labels, pos)]
        if m.bonds is not None:
            bm = m.bonds
            pairs = set()
            if hasattr(bm, "keys"):
                pairs = {(int(min(i, j)) + 1, int(max(i, j)) + 1) for (i, j) in bm.keys()}
            else:
                ii, jj = np.nonzero(np.asarray(bm.todense() if hasattr(bm, "todense") else bm))
                pairs = {(int(min(i, j)) + 1, int(max(i, j)) + 1) for i, j in zip(ii, jj)}
            t["loaded"]["bonds"] = [list(x) for x in sorted(pairs)]
    except Exception as e:  # noqa: BLE001
        t["exc"] = type(e).__name__
    finally:
        shutil.rmtree(d, ignore_errors=True)
    return t


MOL2_SUFFIXES = {6: ["", ".3", ".2", ".1", ".ar", ".cat"], 7: ["", ".3", ".2", ".ar", ".am", ".pl3", ".4"], 8: ["", ".3", ".2", ".co2"],
                 16: ["", ".3", ".2", ".O2"], 15: ["", ".3"], 1: [""], 9: [""], 17: [""], 35: [""], 26: [""], 11: [""]}


def mol2_recipes(rng, count):
    out = []
    for _ in range(count):
        n = rng.randint(1, 9)
        atoms = []
        for k in range(n):
            zel = rng.choice(sorted(MOL2_SUFFIXES))
            atoms.append({"name": (SYMBOLS[zel - 1] + str(k + 1)) if rng.random() < 0.8 else SYMBOLS[zel - 1].upper() + "X" + str(k),
                          "x": rng.randint(-999999, 9999999), "y": rng.randint(-99999, 99999), "z": rng.randint(-99999, 99999),
                          "zel": zel, "suffix": rng.choice(MOL2_SUFFIXES[zel])})
        bonds, seen = [], set()
        for _ in range(rng.randint(0, min(10, n * (n - 1) // 2))):
            a, b = rng.sample(range(1, n + 1), 2)
            if (min(a, b), max(a, b)) in seen:
                continue
            seen.add((min(a, b), max(a, b)))
            bonds.append({"a": a, "b": b, "type": rng.choice(["1", "1", "2", "3", "ar", "ar", "am", "du", "un", "nc"])})
        out.append({"name": rng.choice(["ligand", "benzene-ish", "m1", "X"]), "atoms": atoms, "bonds": bonds, "via": rng.choice(["string", "file"])})
    return out


# ---------------------------------------------------------------- SMILES strings (extension: Smiles.tla)
SMILES_MC_CFG = """SPECIFICATION Spec
CONSTANTS AsBuilt = %s Depth = %d Emit = %s
INVARIANT StepIsRun
INVARIANT InvBondsSound
INVARIANT InvRegisters
INVARIANT InvBondCount
INVARIANT InvConnected
INVARIANT EmitWord
CHECK_DEADLOCK FALSE
"""
SMILES_ATOMS = ["B", "C", "N", "O", "P", "S", "F", "Cl", "Br", "I", "b", "c", "n", "o", "p", "s"]


def smiles_tokens(text):
    """The harness's split of a string into tokens (TLC certifies it: every token is one, and they spell the text)."""
    toks, i = [], 0
    while i < len(text):
        if text[i] == "%":
            toks.append(text[i:i + 3]); i += 3
        elif text[i:i + 2] in ("Cl", "Br"):
            toks.append(text[i:i + 2]); i += 2
        else:
            toks.append(text[i]); i += 1
    return toks


def random_smiles(rng, size):
    """Longer strings than TLC enumerates: nested branches, ring numbers used again after they were closed, %nn, halogens."""
    out, natoms, open_rings, last_atom_bonded = [], [0], {}, {}
    free = [str(d) for d in range(10)] * 4 + ["%10", "%12", "%37", "%99"]

    def atom():
        natoms[0] += 1
        out.append(rng.choice(SMILES_ATOMS if rng.random() < 0.5 else ["C", "C", "c", "N", "O"]))
        # ring closures directly after the atom
        for _ in range(rng.choice([0, 0, 0, 1, 1, 2])):
            closable = [r for r, a in open_rings.items() if natoms[0] - a >= 2]
            if closable and rng.random() < 0.6:
                r = rng.choice(closable)
                del open_rings[r]
                out.append(r)
            elif len(open_rings) < 3:
                r = rng.choice([x for x in free if x not in open_rings])
                open_rings[r] = natoms[0]
                out.append(r)

    def line(depth, budget):
        atom()
        n = rng.randint(0, budget)
        for _ in range(n):
            x = rng.random()
            if x < 0.25 and depth < 4 and natoms[0] < size:
                out.append("(")
                if rng.random() < 0.3:
                    out.append(rng.choice(["=", "#", "-"]))
                line(depth + 1, max(0, budget // 2))
                out.append(")")
            elif x < 0.3 and depth == 0:
                out.append(".")
                atom()
            else:
                if rng.random() < 0.25:
                    out.append(rng.choice(["=", "#", "-"]))
                atom()
            if natoms[0] >= size:
                break

    line(0, size)
    # close what is still open on fresh atoms at the end of the main chain
    for r in list(open_rings):
        if natoms[0] - open_rings[r] < 2:
            natoms[0] += 1
            out.append("C")
        natoms[0] += 1
        out.append("C")
        out.append(r)
        del open_rings[r]
    return "".join(out)


def drive_smiles(text):
    from chmpy.fmt.smiles import parse
    t = {"text": text, "toks": smiles_tokens(text), "exc": "", "atoms": [], "bonds": [],
         "meta": {"recipe": text, "source": "smiles", "nontrivial": True, "impl_call": "chmpy.fmt.smiles.parse(%r)" % text}}
    try:
        atoms, bonds = parse(text)
        t["atoms"] = [str(a) for a in atoms]
        t["bonds"] = [[int(a), int(b), str(k)] for a, b, k in bonds]
    except Exception as e:  # noqa: BLE001
        t["exc"] = type(e).__name__
    return t


# ---------------------------------------------------------------- cube files (extension: CubeFile.tla)
CUBE_MC_CFG = """SPECIFICATION Spec
CONSTANTS AsBuiltShift = %s Depth = 4
INVARIANT InvRelGeometry
INVARIANT InvGridKept
INVARIANT InvReturn
INVARIANT InvGridPoint
CHECK_DEADLOCK FALSE
"""
BOHR = 0.52917749


def _fix(v, dec):
    a = abs(v)
    return ("-" if v < 0 else "") + "%d.%0*d" % (a // 10 ** dec, dec, a % 10 ** dec)


def cube_recipes(rng, count):
    out = []
    for _ in range(count):
        n = [rng.randint(1, 4), rng.randint(1, 4), rng.randint(1, 8)]
        axes = []
        for k in range(3):
            v = [0, 0, 0]
            v[k] = rng.randint(100000, 900000)
            if rng.random() < 0.3:
                v[(k + 1) % 3] = rng.randint(-200000, 200000)
            axes.append({"n": n[k], "v": v})
        atoms = [{"zel": rng.choice([1, 6, 7, 8, 9, 16, 17, 26, 35]), "p": [rng.randint(-9000000, 9000000) for _ in range(3)]}
                 for _ in range(rng.randint(1, 6))]
        out.append({"title": rng.choice(["water density", "t", "Cube file generated by verif", "a  b"]),
                    "subtitle": rng.choice(["OUTER LOOP: X, MIDDLE LOOP: Y, INNER LOOP: Z", "second line", "rho"]),
                    "origin": [rng.randint(-5000000, 5000000) for _ in range(3)], "axes": axes, "atoms": atoms,
                    "data": [rng.randint(-99999999, 99999999) for _ in range(n[0] * n[1] * n[2])],
                    "shifts": [[rng.randint(-5000000, 5000000) for _ in range(3)] for _ in range(rng.randint(0, 3))],
                    "via": rng.choice(["string", "file"])})
        if rng.random() < 0.2 and out[-1]["shifts"]:
            out[-1]["shifts"].append(list(out[-1]["origin"]))           # and back to where it was
    return out


def drive_cube(rec):
    import numpy as np
    from chmpy.fmt.cube import CubeData
    enc = lambda s_: [ord(c) for c in s_]  # noqa: E731
    f6 = lambda v: _fix(v, 6).rjust(12)  # noqa: E731
    lines = [rec["title"], rec["subtitle"], str(len(rec["atoms"])).rjust(5) + "".join(f6(x) for x in rec["origin"])]
    for ax in rec["axes"]:
        lines.append(str(ax["n"]).rjust(5) + "".join(f6(x) for x in ax["v"]))
    for a in rec["atoms"]:
        lines.append(str(a["zel"]).rjust(5) + f6(a["zel"] * 1000000) + "".join(f6(x) for x in a["p"]))
    nz = rec["axes"][2]["n"]
    for run in range(rec["axes"][0]["n"] * rec["axes"][1]["n"]):
        vals = rec["data"][run * nz:(run + 1) * nz]
        for q in range(0, nz, 6):
            lines.append("".join(_fix(v, 5).rjust(13) for v in vals[q:q + 6]))
    cube = {"title": enc(rec["title"]), "subtitle": enc(rec["subtitle"]), "origin": rec["origin"], "axes": rec["axes"],
            "atoms": rec["atoms"], "data": rec["data"]}
    def fresh():
        return {"exc": "", "off": False, "origin": [0, 0, 0], "axes": [], "atoms": [], "molecule": [], "data": [], "grid": []}
    t = {"cube": cube, "lines": [enc(ln) for ln in lines], "loaded": fresh(), "titles": [[], []], "events": [],
         "meta": {"recipe": rec, "source": "spec-written-cube", "nontrivial": True,
                  "impl_call": "CubeData(%s) %dx%dx%d, %d atoms, %d origin shifts" % (rec["via"], rec["axes"][0]["n"], rec["axes"][1]["n"], nz, len(rec["atoms"]), len(rec["shifts"]))}}
    grng = random.Random(len(lines) * 7919 + rec["data"][0])
    state = {"off": False}

    def to_int(x, unit):
        v = float(x) / unit
        r = int(round(v))
        if abs(v - r) > 1e-3:
            state["off"] = True
        return r

    def observe(c):
        o = fresh()
        state["off"] = False
        try:
            o["origin"] = [to_int(x, BOHR * 1e-6) for x in c.volume_origin]
            o["axes"] = [{"n": int(getattr(c, "n" + ax)), "v": [to_int(x, BOHR * 1e-6) for x in getattr(c, ax + "_basis")]} for ax in "xyz"]
            o["atoms"] = [{"zel": int(z), "p": [to_int(x, BOHR * 1e-6) for x in p]} for z, p in zip(c.elements, c.positions)]
            m = c.molecule()
            o["molecule"] = [{"zel": int(z), "p": [to_int(x, BOHR * 1e-6) for x in p]} for z, p in zip(m.atomic_numbers, m.positions)]
            o["data"] = [to_int(x, 1e-5) for x in c.data]
            xyz = np.asarray(c.xyz)
            for _ in range(4):
                i, j, k = (grng.randrange(int(c.nx)), grng.randrange(int(c.ny)), grng.randrange(int(c.nz)))
                flat = (i * int(c.ny) + j) * int(c.nz) + k
                o["grid"].append({"i": i, "j": j, "k": k, "flat": flat + 1, "p": [to_int(x, BOHR * 1e-6) for x in xyz[flat]]})
            o["off"] = state["off"]
        except Exception as e:  # noqa: BLE001
            o["exc"] = type(e).__name__
        return o

    d = scratch()
    try:
        text = "\n".join(lines) + "\n"
        try:
            if rec["via"] == "file":
                p_ = os.path.join(d, "rho.cube")
                with open(p_, "w") as fh:
                    fh.write(text)
                c = CubeData(p_)
            else:
                c = CubeData.from_string(text)
        except Exception as e:  # noqa: BLE001
            t["loaded"]["exc"] = type(e).__name__
            return t
        t["loaded"] = observe(c)
        t["titles"] = [enc(c.title) if isinstance(c.title, str) else enc("<not a string>"),
                       enc(c.subtitle) if isinstance(c.subtitle, str) else enc("<not a string>")]
        for to in rec["shifts"]:
            ev = {"to": to, "obs": fresh()}
            try:
                c.shift_origin_to(np.array([x * 1e-6 * BOHR for x in to]))
                ev["obs"] = observe(c)
            except Exception as e:  # noqa: BLE001
                ev["obs"]["exc"] = type(e).__name__
            t["events"].append(ev)
    finally:
        shutil.rmtree(d, ignore_errors=True)
    return t


def drive(recipe):
    k = recipe["k"]
    d = scratch()
    try:
        if k == "sdf_rt":
            return drive_sdf_rt(recipe, d)
        if k == "sdf_read":
            return drive_sdf_read(recipe, d)
        if k == "sdf_file":
            return drive_sdf_file(recipe, d)
        if k == "xyz_rt":
            return drive_xyz_rt(recipe, d)
        if k == "xyz_spell":
            return drive_xyz_spell(recipe, d)
        raise ValueError("unknown recipe kind %r" % k)
    finally:
        shutil.rmtree(d, ignore_errors=True)


def drive_sdf_rt(r, d):
    specs = [(m["atoms"], m["gb"], m.get("prov", "")) for m in r["mols"]]
    mols_in, wexc, lines, back = sdf_write_read(specs, r["nl"], r["route"], r["ext"], d)
    return {"k": "sdf_rt", "mols": mols_in, "wexc": wexc, "lines": lines, "back": back,
            "meta": {"recipe": r, "source": r.get("source", "seeded"),
                     "impl_call": ("Molecule.to_sdf_string -> parse_sdf_contents + from_sdf_dict" if r["route"] == "string"
                                   else "Molecule.save(%r) -> Molecule.load" % r["ext"]),
                     "nontrivial": len(specs) > 1 or len(specs[0][0]) > 1}}


def sdf_atom_line(z, c):
    s = "".join("%10s" % dec_text(dec(n, 1), "") for n in c)
    return s + " " + SYMBOLS[z - 1].ljust(3) + " 0" + "  0" * 11


def dec_text(d, pos):
    return ("-" if d["neg"] else pos) + str(d["ip"]) + "." + "".join("%04d" % f for f in d["fr"])


def sdf_record(name, atoms, bonds, chg=False):
    out = [name, "  spec", "", "%3d%3d%3d   " % (len(atoms), len(bonds), 0) + "  0" * 6 + "999 V2000"]
    out += [sdf_atom_line(z, c) for z, c in atoms]
    out += ["%3d%3d%3d" % tuple(b) + "  0" * 4 for b in bonds]
    if chg:
        out.append("M  CHG%3d %3d %3d" % (1, len(atoms), -1))
    out.append("M  END")
    return out


def propose_sdf_file(names, mols, style):
    """the harness's proposal of SdfFile(names, mols, style); TLC certifies it"""
    out = []
    if not style["term"]:
        out = sdf_record(names[0], mols[0]["atoms"], mols[0]["bonds"], style.get("chg", False))
        if style["data"]:
            out += ["> <ID>", "1", ""]
        return "\n".join(out)
    for i, m in enumerate(mols):
        out += sdf_record(names[i], m["atoms"], m["bonds"], style.get("chg", False))
        if style["data"]:
            out += ["> <ID>", str(i + 1), ""]
        out.append("$$$$")
    out.append("")
    return "\n".join(out)


def drive_sdf_read(r, d):
    from chmpy import Molecule
    from chmpy.fmt.sdf import parse_sdf_contents
    text = propose_sdf_file(r["names"], r["mols"], r["style"])
    lim = int(r.get("limit", 0))
    kwl = {"limit": lim} if lim else {}
    if r["route"] == "string":
        back = read_back(lambda: [Molecule.from_sdf_dict(x) for x in parse_sdf_contents(text, **kwl)], 1)
    else:
        p = os.path.join(d, "spec" + r["ext"])
        with open(p, "wb") as fh:
            # the same lines with the line terminator of another platform for every second file
            fh.write((text.replace("\n", "\r\n") if r.get("crlf") else text).encode("latin-1"))
        back = read_back(lambda: Molecule.load(p, **kwl), 1)
    return {"k": "sdf_read", "limit": lim, "names": [list(n.encode("latin-1")) for n in r["names"]],
            "mols": [{"atoms": atoms_in(m["atoms"], 1), "bonds": [list(b) for b in m["bonds"]]} for m in r["mols"]],
            "style": r["style"], "lines": lines_of(text), "back": back,
            "meta": {"recipe": r, "source": "spec-writer",
                     "impl_call": ("parse_sdf_contents + from_sdf_dict" if r["route"] == "string" else "Molecule.load(%r)" % r["ext"]),
                     "nontrivial": True}}


def drive_sdf_file(r, d):
    from chmpy import Molecule
    from chmpy.fmt.sdf import parse_sdf_contents
    path = os.path.join(REPO, r["path"])
    with open(path, "rb") as fh:
        data0 = fh.read()
    loaded = []

    def first():
        if r["route"] == "string":
            ms = [Molecule.from_sdf_dict(x) for x in parse_sdf_contents(data0.decode("latin-1"))]
        else:
            ms = Molecule.load(path)
            ms = ms if isinstance(ms, list) else [ms]
        loaded.extend(ms)
        return ms
    back0 = read_back(first, 1)
    wexc, texts = "", []
    for j, m in enumerate(loaded):
        try:
            if r["gb"]:
                m.guess_bonds()
            if r["route"] == "string":
                texts.append(m.to_sdf_string().encode("latin-1", "replace"))
            else:
                p = os.path.join(d, "w%d.sdf" % j)
                m.save(p)
                with open(p, "rb") as fh:
                    texts.append(fh.read())
        except Exception as e:  # noqa: BLE001
            wexc = type(e).__name__
    lines, back = [], {"exc": "", "offgrid": False, "mols": []}
    if loaded and not wexc:
        data = texts[0] if len(texts) == 1 else join_records(texts)
        lines = lines_of(data)
        if r["route"] == "string":
            back = read_back(lambda: [Molecule.from_sdf_dict(x) for x in parse_sdf_contents(data.decode("latin-1"))], 1)
        else:
            p = os.path.join(d, "joined.sdf")
            with open(p, "wb") as fh:
                fh.write(data)
            back = read_back(lambda: Molecule.load(p), 1)
    return {"k": "sdf_file", "lines0": lines_of(data0), "back0": back0, "wexc": wexc, "lines": lines, "back": back,
            "meta": {"recipe": r, "source": "repo-file " + r["path"],
                     "impl_call": "read -> write -> read (%s route)" % r["route"], "nontrivial": True}}


def drive_xyz_rt(r, d):
    from chmpy import Molecule
    nl = r["nl"]
    wexc, data = "", b""
    try:
        m, _ = build(r["atoms"], nl, r["gb"])
        if "comment" in r:
            m.properties["comment"] = r["comment"]
        if r.get("sdf_first"):
            # the same molecule object has been written in the other format before (writing must not change the molecule)
            try:
                m.to_sdf_string()
            except Exception:  # noqa: BLE001
                pass
        if r["route"] == "string":
            data = m.to_xyz_string().encode("latin-1", "replace")
        else:
            ext = r["ext"]
            p = os.path.join(d, "w" + (ext if ext.startswith(".") else ".dat"))
            _decoy_at(p, ext, "xyz")
            if ext.startswith("."):
                m.save(p)
            else:
                m.save(p, fmt=ext)
            with open(p, "rb") as fh:
                data = fh.read()
    except Exception as e:  # noqa: BLE001
        wexc = type(e).__name__
    back = {"exc": "", "offgrid": False, "mols": []}
    if not wexc:
        if r["route"] == "string":
            back = read_back(lambda: Molecule.from_xyz_string(data.decode("latin-1")), 3)
        elif r["ext"].startswith("."):
            back = read_back(lambda: Molecule.load(p), 3)
        else:
            back = read_back(lambda: Molecule.load(p, fmt=r["ext"]), 3)
    return {"k": "xyz_rt", "mols": [{"atoms": atoms_in(r["atoms"], nl)}], "wexc": wexc,
            "lines": lines_of(data) if not wexc else [], "back": back,
            "meta": {"recipe": r, "source": r.get("source", "seeded"),
                     "impl_call": ("Molecule.to_xyz_string -> from_xyz_string" if r["route"] == "string"
                                   else "Molecule.save(%r) -> Molecule.load" % r["ext"]),
                     "nontrivial": len(r["atoms"]) > 1}}


def case_style(sym, cs):
    return {1: sym, 2: sym.upper(), 3: sym.lower(), 4: sym.swapcase()}[cs]


def num_spell(n, plus, nd):
    d = dec(n, 3)
    frac = "".join("%04d" % f for f in d["fr"])
    s = ("-" if d["neg"] else "+" if plus else "") + str(d["ip"])
    return s if nd == 0 else s + "." + frac[:nd]


def propose_xyz_spelling(atoms, comment, st):
    out = [st["clead"] + str(len(atoms)) + st["ctrail"], comment]
    for (z, c), ls in zip(atoms, st["lines"]):
        out.append(ls["lead"] + case_style(SYMBOLS[z - 1], ls["cs"])
                   + "".join(ls["sep"][k] + num_spell(c[k], ls["plus"][k], ls["nd"][k]) for k in range(3))
                   + ls["trail"])
    if st["finalnl"]:
        out.append("")
    return "\n".join(out)


def bytes_style(st):
    b = lambda s: list(s.encode("latin-1"))  # noqa: E731
    return {"clead": b(st["clead"]), "ctrail": b(st["ctrail"]), "finalnl": bool(st["finalnl"]),
            "lines": [{"cs": ls["cs"], "lead": b(ls["lead"]), "trail": b(ls["trail"]),
                       "sep": [b(s) for s in ls["sep"]], "plus": [bool(x) for x in ls["plus"]],
                       "nd": list(ls["nd"])} for ls in st["lines"]]}


def drive_xyz_spell(r, d):
    from chmpy import Molecule
    text = propose_xyz_spelling(r["atoms"], r["comment"], r["style"])
    if r["route"] == "string":
        back = read_back(lambda: Molecule.from_xyz_string(text), 3)
    else:
        p = os.path.join(d, "spell" + r["ext"])
        with open(p, "wb") as fh:
            fh.write(text.encode("latin-1"))
        back = read_back(lambda: Molecule.load(p), 3)
    return {"k": "xyz_spell", "mols": [{"atoms": atoms_in(r["atoms"], 3)}],
            "comment": list(r["comment"].encode("latin-1")), "style": bytes_style(r["style"]),
            "lines": lines_of(text), "back": back,
            "meta": {"recipe": r, "source": "spec-grammar",
                     "impl_call": ("Molecule.from_xyz_string" if r["route"] == "string" else "Molecule.load(%r)" % r["ext"]),
                     "nontrivial": True}}


# ------------------------------------------------------------------ input generators (integers only)
SDF_EDGE = [0, 1, -1, 5, -5, 9999, 10000, -10000, 15000, 99999, 100000, 999999, -999999, 12345678,
            99999999, -99999999, 100000000, 999999999, 999990000, -99990000, "-0"]
XYZ_EDGE = [0, 1, -1, 10 ** 12, -10 ** 12, 5 * 10 ** 11, 123456789012, -999999999999, 8191999999999999,
            -8191999999999999, 8192 * 10 ** 12, 9999999900000000, -9999999900000000, 999999999999999999,
            -999999999999999999, 123456123456789012, "-0"]


def sdf_coord(rng, cls, nl):
    if nl == 2:      # finer than the format: 8 decimals, many on or next to a rounding tie
        base = rng.randint(-200000, 200000) if cls != "wide" else rng.randint(-99980000, 999980000)
        low = rng.choice([5000, 4999, 5001, 0, 9999, rng.randint(0, 9999), rng.randint(0, 9999)])
        return base * 10000 + low
    if cls == "edge":
        return rng.choice(SDF_EDGE)
    if cls == "wide":
        return rng.randint(-99999999, 999999999)
    return rng.randint(-200000, 200000)


def xyz_coord(rng, cls, nl):
    if nl == 4:      # 16 decimals below 1
        return rng.choice([1, -1]) * (rng.randint(0, 10 ** 12 - 1) * 10000 + rng.choice([5000, 4999, 5001, 0, rng.randint(0, 9999)]))
    if cls == "edge":
        return rng.choice(XYZ_EDGE)
    if cls == "wide":
        return rng.randint(-10 ** 18 + 1, 10 ** 18 - 1)
    if cls == "mid":
        return rng.randint(-8192 * 10 ** 12 + 1, 8192 * 10 ** 12 - 1)
    return rng.randint(-20 * 10 ** 12, 20 * 10 ** 12)


def gen_atoms(rng, n, cls, nl, coord, chain=False, unit=None):
    """chain: atoms 1.3-1.5 A apart along x (perceived as bonded for most element pairs)"""
    atoms = []
    unit = unit or 10 ** (4 * nl)
    x = 0
    for i in range(n):
        z = rng.choice([6, 6, 6, 7, 8, 16, 17, 1]) if chain else rng.randint(1, 103)
        if chain:
            x += rng.randint(13000, 15000) * (unit // 10000)
            c = [x, rng.randint(-1000, 1000) * (unit // 10000), rng.randint(-1000, 1000) * (unit // 10000)]
        else:
            c = [coord(rng, cls, nl) for _ in range(3)]
        atoms.append([z, c])
    return atoms


def sizes(rng, big):
    r = rng.random()
    if r < 0.55:
        return rng.randint(1, 12)
    if r < 0.85:
        return rng.randint(13, 60)
    return rng.randint(100, big) if r > 0.93 else rng.randint(61, 99)


def make_recipes(ctx):
    rng = ctx.rng
    recipes = []
    n_sdf, n_sdfread, n_xyz, n_spell = ctx.pick((110, 40, 90, 90), (2500, 600, 2000, 2500))
    big = 200
    all_z = [[z, [z * 1000, -z * 1111, z * 7]] for z in range(1, 104)]
    # ---- SDF, library writer + library reader
    recipes.append({"k": "sdf_rt", "nl": 1, "route": "string", "ext": ".sdf", "source": "all-elements",
                    "mols": [{"atoms": all_z, "gb": False}]})
    recipes.append({"k": "sdf_rt", "nl": 1, "route": "file", "ext": ".sdf", "source": "edge-values",
                    "mols": [{"atoms": [[8, [a, b, c]] for a, b, c in zip(SDF_EDGE, SDF_EDGE[1:] + SDF_EDGE[:1], SDF_EDGE[2:] + SDF_EDGE[:2])],
                              "gb": False}]})
    recipes.append({"k": "sdf_rt", "nl": 1, "route": "file", "ext": ".sdf", "source": "chain-200",
                    "mols": [{"atoms": gen_atoms(rng, 200, "typical", 1, sdf_coord, chain=True), "gb": True}]})
    recipes.append({"k": "sdf_rt", "nl": 1, "route": "string", "ext": ".sdf", "source": "atoms-100",
                    "mols": [{"atoms": gen_atoms(rng, 100, "typical", 1, sdf_coord), "gb": False}]})
    for i in range(n_sdf):
        nl = 2 if i % 5 == 4 else 1
        nrec = 1 if i % 3 else rng.randint(2, 4)
        cls = rng.choice(["typical", "typical", "edge", "wide"])
        mols = []
        for _ in range(nrec):
            chain = rng.random() < 0.4
            n = sizes(rng, big) if nrec == 1 else rng.randint(1, 25)
            mols.append({"atoms": gen_atoms(rng, n, cls, nl, sdf_coord, chain=chain),
                         "gb": chain or rng.random() < 0.3,
                         "prov": "loaded-edited" if (cls == "typical" and nl == 1 and rng.random() < 0.3) else ""})
        route = rng.choice(["string", "file"])
        ext = ".sdf" if route == "string" else rng.choice([".sdf", ".sdf", ".SDF", "sdf", ".Sdf"])
        recipes.append({"k": "sdf_rt", "nl": nl, "route": route, "ext": ext, "mols": mols})
    # ---- SDF, specification writer + library reader
    for i in range(n_sdfread):
        nrec = rng.choice([1, 1, 2, 3])
        term = nrec > 1 or rng.random() < 0.6
        style = {"term": term, "data": rng.random() < 0.5, "chg": rng.random() < 0.35}
        mols, names = [], []
        for j in range(nrec):
            n = rng.choice([1, 2, 3, 5, 12, 40, 99, 100, 101, 150]) if i % 4 == 0 else rng.randint(1, 30)
            atoms = gen_atoms(rng, n, rng.choice(["typical", "edge", "wide"]), 1, sdf_coord)
            atoms = [[z, [0 if c == "-0" else c for c in cs]] for z, cs in atoms]
            nbonds = 0 if n < 2 or rng.random() < 0.3 else rng.randint(1, min(2 * n, 120))
            bonds = []
            for _ in range(nbonds):
                a = rng.randint(1, n)
                b = rng.choice([x for x in range(1, n + 1) if x != a])
                bonds.append([a, b, rng.randint(1, 3)])
            mols.append({"atoms": atoms, "bonds": bonds})
            names.append(rng.choice(["mol", "water 1", "", "C6H6", "name-%d" % j]))
        route = rng.choice(["string", "file"])
        recipes.append({"k": "sdf_read", "names": names, "mols": mols, "style": style, "route": route,
                        "ext": rng.choice([".sdf", ".SDF"]), "crlf": route == "file" and i % 2 == 1,
                        "limit": rng.randint(1, nrec + 1) if (style["term"] and i % 3 == 0) else 0})
    # ---- the repository's own SDF file
    for route in ("string", "file"):
        for gb in (False, True):
            recipes.append({"k": "sdf_file", "path": "src/chmpy/tests/test_files/DB09563.sdf", "route": route, "gb": gb})
    # ---- XYZ, library writer + library reader
    recipes.append({"k": "xyz_rt", "nl": 3, "route": "string", "ext": ".xyz", "gb": False, "source": "all-elements",
                    "atoms": [[z, [z * 10 ** 11 + 7, -z * 123456789012, z]] for z in range(1, 104)]})
    recipes.append({"k": "xyz_rt", "nl": 3, "route": "file", "ext": ".xyz", "gb": False, "source": "edge-values",
                    "atoms": [[26, [a, b, c]] for a, b, c in zip(XYZ_EDGE, XYZ_EDGE[1:] + XYZ_EDGE[:1], XYZ_EDGE[2:] + XYZ_EDGE[:2])]})
    for i in range(n_xyz):
        nl = 4 if i % 6 == 5 else 3
        cls = rng.choice(["typical", "typical", "mid", "edge", "wide", "planar"])
        chain = nl == 3 and rng.random() < 0.3
        n = sizes(rng, big)
        atoms = gen_atoms(rng, n, cls if cls != "planar" else "typical", nl, xyz_coord, chain=chain)
        if cls == "planar" and nl == 3:
            # a nearly planar molecule: z components between 1e-12 and 5e-5 A
            for a in atoms:
                a[1][2] = rng.choice([1, -1]) * rng.choice([1, rng.randint(1, 5 * 10 ** 7), rng.randint(10 ** 5, 5 * 10 ** 7)])
        route = rng.choice(["string", "file"])
        ext = ".xyz" if route == "string" else rng.choice([".xyz", ".xyz", ".XYZ", "xyz", ".Xyz"])
        recipes.append({"k": "xyz_rt", "nl": nl, "route": route, "ext": ext, "gb": chain, "atoms": atoms, "sdf_first": rng.random() < 0.5})
        if rng.random() < 0.35:
            # the molecule carries a comment for the title line: empty, blank, or text
            recipes[-1]["comment"] = rng.choice(["", "", "   ", "generated by a test", "0", "C1 H4"])
    # ---- XYZ spellings
    blanks = lambda lo, hi: "".join(rng.choice(" \t") if rng.random() < 0.5 else " " for _ in range(rng.randint(lo, hi)))  # noqa: E731
    for i in range(n_spell):
        n = rng.randint(1, 8) if i % 10 else rng.randint(20, 60)
        if i < 103:
            zs = [i + 1] + [rng.randint(1, 103) for _ in range(n - 1)]     # every element at least once
        else:
            zs = [rng.randint(1, 103) for _ in range(n)]
        atoms, lst = [], []
        extra_cols = (0, 0, 0, 1, 3)[i % 5]          # further per-atom columns after x y z (a charge, a force vector)
        for z in zs:
            c = []
            for _ in range(3):
                digits = rng.choice([0, 1, 3, 4, 6, 8, 12])
                v = rng.randint(-8191 * 10 ** digits, 8191 * 10 ** digits) * 10 ** (12 - digits)
                c.append(v)
            atoms.append([z, c])
            nd = []
            for v in c:
                f = abs(v) % 10 ** 12
                need = 12
                while need > 0 and f % 10 == 0:
                    f //= 10
                    need -= 1
                nd.append(rng.randint(need, 12) if need > 0 or rng.random() < 0.5 else 0)
            lst.append({"cs": rng.randint(1, 4), "lead": blanks(0, 3),
                        "trail": blanks(0, 3) if (extra_cols == 0 or rng.random() < 0.3) else
                                 "".join(blanks(1, 3) + rng.choice(["0.1250", "-3", "+0.5", "12.75", "-0.0031", "7"]) for _ in range(extra_cols)),
                        "sep": [blanks(1, 5) for _ in range(3)], "plus": [rng.random() < 0.3 for _ in range(3)], "nd": nd})
        style = {"clead": blanks(0, 2), "ctrail": blanks(0, 2), "finalnl": rng.random() < 0.5, "lines": lst}
        recipes.append({"k": "xyz_spell", "atoms": atoms, "comment": rng.choice(["", "comment line", "  12 Ab x", "H2O"]),
                        "style": style, "route": rng.choice(["string", "file"]), "ext": rng.choice([".xyz", ".XYZ"])})
    return recipes


def run(ctx, explain=False):
    ctx.model_check("mc/MC_MolFormats.tla", MC_CFG % ("FALSE", "FALSE", ctx.pick("FALSE", "TRUE")), name="MC_MolFormats(spec reader)", timeout=600)
    if explain:
        for what, cfg in (("reader: property-block loop of parse_sdf_contents without a bound on the line index", ("TRUE", "FALSE", "FALSE")),
                          ("writer: x in all three columns, blanks between the fields, blank-sign counts", ("FALSE", "TRUE", "FALSE"))):
            res = tlc.run("mc/MC_MolFormats.tla", MC_CFG % cfg, timeout=600)
            print("as-built %s: first invariant TLC finds violated: %s" % (what, res.violated))
    recipes = make_recipes(ctx)
    # a few hundred small molecules take ~1.5 s in-process; forking 16 workers costs more than that
    traces = pool_map(drive, recipes, procs=1 if ctx.quick else None)
    ctx.validate(TRACE, traces, batch=ctx.pick(None, 1500), timeout=1500)
    # beyond the listed property: .mol2 files as a source of molecules (Mol2File.tla: the specification writes the records)
    mtraces = pool_map(drive_mol2, mol2_recipes(random.Random(ctx.seed * 139 + 16), ctx.pick(150, 2000)), procs=1 if ctx.quick else None)
    ctx.validate("trace/Trace_Mol2File.tla", mtraces, name="Trace_Mol2File (extension)", extension=True, timeout=900)
    # beyond the listed property: the SMILES reader as a token machine (Smiles.tla).  TLC checks the machine on every token
    # string up to a depth and prints the well-formed ones; those and longer generated ones are read by the real parser
    depth = ctx.pick(7, 9)
    res = ctx.model_check("mc/MC_Smiles.tla", SMILES_MC_CFG % ("FALSE", depth, "TRUE"), name="MC_Smiles(depth %d)" % depth, timeout=1800, extension=True)
    if explain:
        r2 = tlc.run("mc/MC_Smiles.tla", SMILES_MC_CFG % ("TRUE", 8, "FALSE"), timeout=600)
        print("as-built SMILES reader (one branch register, ring numbers never released): first invariant TLC finds violated: %s" % r2.violated)
    words = sorted({w[2:] for w in (res.printed if res is not None else []) if w.startswith("W|")})
    srng = random.Random(ctx.seed * 613 + 5)
    if len(words) > ctx.pick(3000, 40000):
        words = srng.sample(words, ctx.pick(3000, 40000))
    words += ["C(C(C)C)C", "C1CC1C1CC1", "C%12CC%12", "c1ccccc1", "C12C3C4C1C5C4C3C25", "CC(=O)O", "ClC(Br)(I)F", "C(C(C(C(C)C)C)C)C", "N#CC#N"]
    words += [random_smiles(srng, srng.randint(3, 30)) for _ in range(ctx.pick(1500, 20000))]
    # strings no SMILES grammar reads (TLC decides which they are): a character dropped from, or a token dropped into, a good one
    good = sorted(set(words))
    for w in srng.sample(good, min(len(good), ctx.pick(600, 8000))):
        k = srng.randrange(len(w))
        words.append(w[:k] + w[k + 1:] if srng.random() < 0.5 else w[:k] + srng.choice(["(", ")", "=", ".", "1", "C"]) + w[k:])
    straces = pool_map(drive_smiles, sorted(set(x for x in words if x)), procs=1 if ctx.quick else None)
    ctx.validate("trace/Trace_Smiles.tla", straces, consts="  AsBuilt = FALSE", name="Trace_Smiles (extension)", extension=True, timeout=1800)
    # beyond the listed property: cube files and the CubeData object (CubeFile.tla; the specification writes the file, then a
    # history of origin shifts is stepped through on the real object)
    ctx.model_check("mc/MC_Cube.tla", CUBE_MC_CFG % "FALSE", name="MC_Cube", timeout=600, extension=True)
    if explain:
        r3 = tlc.run("mc/MC_Cube.tla", CUBE_MC_CFG % "TRUE", timeout=600)
        print("as-built CubeData.shift_origin_to (atoms moved the opposite way): first invariant TLC finds violated: %s" % r3.violated)
    ctraces = pool_map(drive_cube, cube_recipes(random.Random(ctx.seed * 211 + 3), ctx.pick(120, 2000)), procs=1 if ctx.quick else None)
    ctx.validate("trace/Trace_Cube.tla", ctraces, consts="  AsBuiltShift = FALSE", name="Trace_Cube (extension)", extension=True, timeout=1800)
    kinds = {}
    for t in traces:
        kinds[t["k"]] = kinds.get(t["k"], 0) + 1
    ctx.notes["traces_by_kind"] = kinds
    ctx.notes["slack"] = {"sdf": "none (4 decimals are exact in a double below 1e5)",
                          "xyz_12_decimals_below_8192": "none (measured noise 0)",
                          "xyz_above_8192": "1e-8 (double spacing up to 1.2e-10 at 1e6; >= 100x half of it)",
                          "xyz_16_decimal_inputs_below_1": "0.5e-12 + 1e-14"}
    ctx.exhaustive = False
    ctx.rule = ("seeded molecules (Z uniform in 1..103, 1..200 atoms, coordinates built from integers: typical +-20 A, "
                "field-edge values, the whole range of the field, inputs one digit group finer than the format incl. "
                "rounding ties; chains 1.3-1.5 A apart with guess_bonds) through to_sdf_string/parse_sdf_contents, "
                "save/load with .sdf/.SDF/fmt=, 1-4 records joined by $$$$; the spec's own SDF text (with/without "
                "terminator and data item, 0-120 bonds) through the reader; DB09563.sdf read-write-read; the same "
                "for XYZ plus spellings (4 letter cases, runs of blanks/tabs, +sign, 0-12 decimals) certified by "
                "TLC; every element 1..103 occurs in each format; non-trivial = more than one atom or record")
    ctx.explanation = ("MC_MolFormats is exhaustive for its bounds (1-3 atoms, 7-value alphabet, 384 spelling styles, "
                       "files of 1-2 records); the implementation is sampled")
    ctx.assumptions = ["text is split into lines at byte 10 by the harness (TLC checks that no other control byte occurs)",
                       "the float handed to chmpy is the correctly rounded double of the exact decimal input",
                       "XYZ precision = the 12 decimals Molecule.to_xyz_string prints; above 8192 a double carries fewer "
                       "and the comparison allows 1e-8",
                       "bond lines are only required to carry two 3-wide atom indices within range; bond order, "
                       "duplicate (i,j)/(j,i) entries and a blank line before M  END are not judged (reported as drift)"]


def replay(ctx, rec):
    t = drive(rec["record"]["meta"]["recipe"])
    ctx.validate(TRACE, [t])


if __name__ == "__main__":
    raise SystemExit(main("C16", run, replay))
