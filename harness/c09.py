"""C09 - shape descriptors of a molecule do not depend on its pose or atom ordering.

(M)+(G) MC_Descriptor: the pose group (translations, cube rotations, rational quaternion rotations, adjacent
        transpositions) is rigid and closed; it prints every word up to a depth, which the harness applies.
(T)     Trace_Descriptor: TLC certifies that the coordinates given to the real code are exactly the word applied
        to the base, then demands the descriptor of every pose to equal the identity-pose descriptor within
        Tol(word class, l_max); radial samples must solve the isovalue equation inside the bounds; probes whose
        bounds cannot contain the surface must raise.
"""
from harness.common import main, pool_map
from harness import tlc

UNIT = 16200.0
MC_CFG = """SPECIFICATION Spec
CHECK_DEADLOCK FALSE
CONSTANTS
  Depth = %d
  Emit = %s
INVARIANT Rigid
INVARIANT ReplayAgrees
INVARIANT GroupFacts
CONSTRAINT EmitWord
"""
TRANS = [[16200, 0, 0], [0, -48600, 0], [0, 0, 810000], [-405000, 243000, 81000], [8100, 8100, -8100], [-729, 6561, 59049]]


def quat(a, b, c, d):
    return [[a * a + b * b - c * c - d * d, 2 * (b * c - a * d), 2 * (b * d + a * c)],
            [2 * (b * c + a * d), a * a - b * b + c * c - d * d, 2 * (c * d - a * b)],
            [2 * (b * d - a * c), 2 * (c * d + a * b), a * a - b * b - c * c + d * d]]


R9 = [quat(1, 2, 2, 0), quat(2, 1, 0, 2), quat(0, 2, 1, 2), quat(2, 2, 0, 1), quat(2, 0, 2, 1), quat(1, 0, 2, 2)]


def matvec(m, p):
    return [sum(m[i][j] * p[j] for j in range(3)) for i in range(3)]


def apply_word(cfg, word):
    """The harness's application of a word (TLC certifies it against Descriptor!ApplyWord)."""
    inner = [dict(a, p=list(a["p"])) for a in cfg["inner"]]
    outer = [dict(a, p=list(a["p"])) for a in cfg["outer"]]
    for tag, arg in word:
        if tag == "T":
            f = lambda p: [p[c] + TRANS[arg - 1][c] for c in range(3)]
        elif tag == "C":
            f = lambda p: matvec(arg, p)
        elif tag == "Q":
            f = lambda p: [x // 9 for x in matvec(R9[arg - 1], p)]
        elif tag == "P":
            inner[arg - 1], inner[arg] = inner[arg], inner[arg - 1]
            continue
        else:
            outer[arg - 1], outer[arg] = outer[arg], outer[arg - 1]
            continue
        for a in inner:
            a["p"] = f(a["p"])
        for a in outer:
            a["p"] = f(a["p"])
    return {"inner": inner, "outer": outer}


def parse_word(text):
    w = []
    for tok in text.split(";"):
        tag, arg = tok.split(":")
        if tag == "C":
            v = [int(x) for x in arg.split(",")]
            w.append(["C", [v[0:3], v[3:6], v[6:9]]])
        else:
            w.append([tag, int(arg)])
    return w


def arrays(atoms):
    import numpy as np
    return (np.array([a["z"] for a in atoms], dtype=int),
            np.array([[x / UNIT for x in a["p"]] for a in atoms], dtype=float).reshape(-1, 3))


def describe(rec, cfg, sht=None):
    """`sht`: the transform object to use; callers of the library keep one SHT for many descriptions (the Crystal
    methods do), so within a trace the same object serves every pose."""
    from chmpy.shape import SHT, promolecule_density_descriptor, stockholder_weight_descriptor
    from chmpy import Molecule
    ch = None if rec["channel"] == "none" else rec["channel"]
    els, pos = arrays(cfg["inner"])
    sht = sht if sht is not None else SHT(rec["lmax"])
    if rec["kind"] == "promolecule":
        return promolecule_density_descriptor(sht, els, pos, with_property=ch)
    if rec["kind"] == "molecule":
        return Molecule.from_arrays(els, pos).shape_descriptors(l_max=rec["lmax"], with_property=ch)
    if rec["kind"] == "mol-atomic":
        return Molecule.from_arrays(els, pos).atomic_shape_descriptors(l_max=rec["lmax"])      # one row per atom
    ne, pe = arrays(cfg["outer"])
    return stockholder_weight_descriptor(sht, els, pos, ne, pe, with_property=ch, bounds=tuple(rec["bounds"]))


def radial_samples(rec, cfg, nsamp=24):
    """Radii from the public radial solvers with the arguments the entry points use, and the field at those points."""
    import numpy as np
    from chmpy.shape import SHT
    from chmpy import PromoleculeDensity, StockholderWeight
    from chmpy.interpolate._density import sphere_promolecule_radii, sphere_stockholder_radii
    sht = SHT(rec["lmax"])
    els, pos = arrays(cfg["inner"])
    x, y, z = sht.grid_cartesian
    g = np.empty((sht.grid[0].size, 3), dtype=np.float32)
    g[:, 0], g[:, 1], g[:, 2] = x.flatten(), y.flatten(), z.flatten()
    o = np.mean(pos, axis=0, dtype=np.float32)
    if rec["kind"] in ("promolecule", "molecule"):
        iso, (lo, hi) = 0.0002, (0.4, 20.0)
        pro = PromoleculeDensity((els, pos))
        r = np.asarray(sphere_promolecule_radii(pro.dens, o, g, lo, hi, 1e-12, 30, iso))
        field = lambda pts: np.asarray(pro.rho(pts.astype(np.float32)))
    else:
        iso, (lo, hi) = 0.5, tuple(rec["bounds"])
        ne, pe = arrays(cfg["outer"])
        s = StockholderWeight.from_arrays(els, pos, ne, pe)
        r = np.asarray(sphere_stockholder_radii(s.s, o, g, lo, hi, 1e-7, 30, iso))
        field = lambda pts: np.asarray(s.weights(pts.astype(np.float32)))
    idx = np.linspace(0, len(r) - 1, min(nsamp, len(r))).astype(int)
    pts = o[None, :] + r[idx, None] * g[idx]
    fv = field(pts)
    out = []
    for k, i in enumerate(idx):
        out.append({"r": int(round(float(r[i]) * 1e6)), "lo": int(round(lo * 1e6)) - 2, "hi": int(round(hi * 1e6)) + 2,
                    "fv": int(round(float(fv[k]) / iso * 1048576))})
    return out, field, o, g, iso


# ---------------------------------------------------------------- a molecule / atom in its crystal: listings of one P1 crystal
CUNIT = 200.0                  # coordinates of crystal listings in units of 0.005 A
CSHIFTS = [[37, -211, 94], [-640, 15, 333], [5, 5, -700], [1200, -900, 411]]       # = Descriptor!CShifts


def capply(c, word):
    """Mirror of Descriptor!CApplyWord (used to build the variant listings; TLC certifies them)."""
    cell = list(c["cell"])
    atoms = [{"z": a["z"], "p": list(a["p"])} for a in c["atoms"]]
    for tag, arg in word:
        if tag == "S":
            for a in atoms:
                a["p"] = [a["p"][k] + CSHIFTS[arg - 1][k] for k in range(3)]
        elif tag == "P":
            atoms[arg - 1], atoms[arg] = atoms[arg], atoms[arg - 1]
        elif tag == "X":
            ax = arg - 1
            atoms = atoms + [{"z": a["z"], "p": [a["p"][k] + (cell[k] if k == ax else 0) for k in range(3)]} for a in atoms]
            cell[ax] *= 2
    return {"cell": cell, "atoms": atoms}


def crystal_recipe(rng):
    """A bonded cluster of 3-5 atoms alone in an orthorhombic P1 cell of 4.5-7.5 A edges, every atom at least 2.4 A away from
    the atoms of the neighbouring cells."""
    import math
    for _ in range(400):
        n = rng.randint(3, 5)
        atoms = []
        while len(atoms) < n:
            if atoms:
                b = rng.choice(atoms)[1]
                v = [rng.gauss(0, 1) for _ in range(3)]
                s = math.sqrt(sum(x * x for x in v))
                dd = rng.uniform(0.95, 1.55)
                p = [b[c] + v[c] / s * dd for c in range(3)]
            else:
                p = [rng.uniform(0.5, 2.5) for _ in range(3)]
            if all(sum((p[c] - a[c]) ** 2 for c in range(3)) > 0.8 for _, a in atoms):
                atoms.append((rng.choice([1, 6, 7, 8]), p))
        ext = [max(a[1][c] for a in atoms) - min(a[1][c] for a in atoms) for c in range(3)]
        cell = [int(round((ext[c] + rng.uniform(2.9, 4.2)) * CUNIT)) for c in range(3)]
        if not all(900 <= x <= 1500 and x != 1200 for x in cell):
            continue                                   # (an edge of exactly 6.000 A puts every atom's translate on the 6 A sphere)
        lst = {"cell": cell, "atoms": [{"z": z, "p": [int(round(x * CUNIT)) for x in p]} for z, p in atoms]}
        ok = True
        for a in lst["atoms"]:
            for b in lst["atoms"]:
                for h in [(i, j, k) for i in (-1, 0, 1) for j in (-1, 0, 1) for k in (-1, 0, 1) if (i, j, k) != (0, 0, 0)]:
                    d2 = sum((a["p"][c] - b["p"][c] - h[c] * cell[c]) ** 2 for c in range(3))
                    if d2 < 480 ** 2:
                        ok = False
        if ok:
            return lst
    return None


def _rays_cross_once(w, margin=0.02):
    """w: (rays, radii) values of weight - 0.5 along each ray, radii increasing.  True when every ray reads
    inside ... inside, a single band of values within `margin` of the level through which w falls, outside ... outside.
    Anything else (a second band, a band re-entered, a rise inside the band) is a second crossing or a grazing ray."""
    import numpy as np
    for row in w:
        sgn = np.where(row > margin, 1, np.where(row < -margin, -1, 0))
        if sgn[0] != 1 or sgn[-1] != -1:
            return False
        first_not_in = int(np.argmax(sgn != 1))
        last_not_out = len(sgn) - 1 - int(np.argmax(sgn[::-1] != -1))
        band = slice(first_not_in, last_not_out + 1)
        if first_not_in <= last_not_out:
            if np.any(sgn[band] != 0):
                return False
            vals = row[max(first_not_in - 1, 0):last_not_out + 2]
            if np.any(np.diff(vals) > 1e-4):
                return False
    return True


def _star_shaped(cr, kind, lmax):
    """Is every surface the crystal entry point describes star-shaped about its centre - exactly one crossing of w = 0.5 along
    every direction of the transform grid within the search bounds?  Where a ray crosses the level more than once the radial
    description is not unique and which crossing the root-finder reports may depend on rounding (a domain limit, judged by TLC)."""
    import numpy as np
    from chmpy.shape import SHT
    from chmpy import StockholderWeight
    from chmpy.core.element import Element
    sht = SHT(lmax)
    x, y, z = sht.grid_cartesian
    g = np.c_[x.ravel(), y.ravel(), z.ravel()].astype(float)
    systems = []
    if kind == "crystal-mol":
        for mol, nel, npos in cr.molecule_environments(radius=6.0):
            c = np.array(mol.centroid, dtype=np.float32).astype(float)
            dists = np.linalg.norm(np.asarray(mol.positions) - c, axis=1)
            systems.append((np.asarray(mol.atomic_numbers), np.asarray(mol.positions, dtype=float), nel, npos, c, float(np.min(dists)) / 2, float(np.max(dists)) + 10.0))
    else:
        for sur in cr.atomic_surroundings(radius=6.0):
            n = int(sur["centre"]["element"])
            pos = np.asarray(sur["centre"]["cart_pos"], dtype=float)
            systems.append((np.array([n]), pos[None, :], sur["neighbours"]["element"], sur["neighbours"]["cart_pos"], pos, 0.15, Element[n].vdw_radius * 3 + 2.0))
    for (ie, ip, ne, npos, c, lo, hi) in systems:
        if len(ne) == 0:
            return False
        sw = StockholderWeight.from_arrays(ie, ip, np.asarray(ne), np.asarray(npos, dtype=float))
        rr = np.linspace(max(lo, 1e-3), hi, 192)
        pts = (c[None, None, :] + rr[None, :, None] * g[:, None, :]).reshape(-1, 3)
        w = np.asarray(sw.weights(pts.astype(np.float32)), dtype=float).reshape(len(g), len(rr)) - 0.5
        # a margin around the level: values within 0.02 of it count as touching (a grazing ray is as bad as a second crossing)
        if not _rays_cross_once(w):
            return False
    return True


def _surface_inside_bounds(cfg, bounds, ndir=6000, margin=0.05):
    """Stockholder weight of the inner set at both search bounds along a dense set of directions from the float32 centroid:
    clearly inside (> 0.5 + margin) at the lower and clearly outside (< 0.5 - margin) at the upper bound, everywhere?"""
    import numpy as np
    from chmpy import StockholderWeight
    els, pos = arrays(cfg["inner"])
    ne, pe = arrays(cfg["outer"])
    s = StockholderWeight.from_arrays(els, pos, ne, pe)
    o = np.mean(pos, axis=0, dtype=np.float32).astype(float)
    k = np.arange(ndir) + 0.5
    phi = np.arccos(1 - 2 * k / ndir)
    th = np.pi * (1 + 5 ** 0.5) * k
    g = np.c_[np.cos(th) * np.sin(phi), np.sin(th) * np.sin(phi), np.cos(phi)]
    lo, hi = bounds
    wlo = np.asarray(s.weights((o[None, :] + lo * g).astype(np.float32)), dtype=float)
    whi = np.asarray(s.weights((o[None, :] + hi * g).astype(np.float32)), dtype=float)
    # and a little inside the upper bound (a surface that only just makes it is found or not by rounding)
    whi2 = np.asarray(s.weights((o[None, :] + 0.97 * hi * g).astype(np.float32)), dtype=float)
    return bool(np.all(wlo > 0.5 + margin) and np.all(whi < 0.5 - margin) and np.all(whi2 < 0.5 - margin))


def _atoms_star_shaped(els, pos, lmax, radius=6.0, background=1e-5):
    """The same question for the atoms of an isolated molecule (Molecule.atomic_shape_descriptors: bounds 0.2 .. 3 vdW radii)."""
    import numpy as np
    from chmpy.shape import SHT
    from chmpy import StockholderWeight
    from chmpy.core.element import Element
    x, y, z = SHT(lmax).grid_cartesian
    g = np.c_[x.ravel(), y.ravel(), z.ravel()].astype(float)
    dist = np.linalg.norm(pos[:, None, :] - pos[None, :, :], axis=2)
    for n in range(len(els)):
        idx = np.where((dist[n] < radius) & (dist[n] > 1e-3))[0]
        if len(idx) == 0:
            continue
        sw = StockholderWeight.from_arrays(els[n:n + 1], pos[n:n + 1], els[idx], pos[idx], background=background)
        rr = np.linspace(0.2, Element[int(els[n])].vdw_radius * 3, 256)
        pts = (pos[n][None, None, :] + rr[None, :, None] * g[:, None, :]).reshape(-1, 3)
        w = np.asarray(sw.weights(pts.astype(np.float32)), dtype=float).reshape(len(g), len(rr)) - 0.5
        if not _rays_cross_once(w):
            return False
    return True


def drive_crystal(rec):
    import numpy as np
    from chmpy.crystal import Crystal, UnitCell, SpaceGroup, AsymmetricUnit
    from chmpy.core.element import Element
    t = {"lmax": rec["lmax"], "kind": rec["kind"], "channel": rec["channel"], "base": rec["base"], "poses": [], "radial": [], "oob": [],
         "meta": {"recipe": rec, "source": "crystal-listings", "nontrivial": True,
                  "impl_call": "Crystal(P1, %d atoms).%s(l_max=%d, with_property=%r) on %d listings" % (
                      len(rec["base"]["atoms"]), "molecular_shape_descriptors" if rec["kind"] == "crystal-mol" else "atomic_shape_descriptors",
                      rec["lmax"], None if rec["channel"] == "none" else rec["channel"], len(rec["words"]) + 1)}}
    ref = None
    t["star"] = True
    for w in [[]] + rec["words"]:
        lst = capply(rec["base"], w)
        ps = {"word": w, "cell": lst["cell"], "atoms": lst["atoms"], "exc": "", "rows": []}
        try:
            cell = np.array(lst["cell"], dtype=float) / CUNIT
            uc = UnitCell.orthorhombic(*cell)
            frac = np.array([a["p"] for a in lst["atoms"]], dtype=float) / CUNIT / cell[None, :]
            cr = Crystal(uc, SpaceGroup(1), AsymmetricUnit([Element.from_atomic_number(a["z"]) for a in lst["atoms"]], frac))
            kw = {} if rec["channel"] == "none" else {"with_property": rec["channel"]}
            fn = cr.molecular_shape_descriptors if rec["kind"] == "crystal-mol" else cr.atomic_shape_descriptors
            if w and len(w) % 2 == 1:
                # an object that has been used before: bonded neighbours listed, a short-range description attempted
                for warm in (lambda: cr.atomic_surroundings(radius=1.5), lambda: cr.atom_group_surroundings([0], radius=1.2),
                             lambda: cr.atomic_shape_descriptors(l_max=2, radius=1.4), lambda: cr.unit_cell_molecules()):
                    try:
                        warm()
                    except Exception:
                        pass
            d = np.asarray(fn(l_max=rec["lmax"], **kw), dtype=float)
            if d.ndim != 2 or not np.all(np.isfinite(d)):
                raise FloatingPointError("descriptor table")
            if ref is None:
                ref = float(np.max(np.abs(d)))
                try:
                    t["star"] = bool(_star_shaped(cr, rec["kind"], rec["lmax"]))
                except Exception:
                    t["star"] = False
            ps["rows"] = [[int(round(float(x) / ref * 1048576)) if abs(x) / ref < 1000 else 2 ** 30 for x in row] for row in d]
        except Exception as e:
            # "surface not found inside the bounds" is a legitimate outcome for a loosely packed listing; what matters is that
            # every listing of the same arrangement has the same outcome, so the other listings are still evaluated
            ps["exc"] = type(e).__name__ + (":isovalue" if "Unable to find isovalue" in str(e) else "")
        t["poses"].append(ps)
        if ref is None and not ps["exc"].endswith(":isovalue"):
            break
    return t


def drive(rec):
    import numpy as np
    if rec["kind"] in ("crystal-mol", "crystal-atom"):
        return drive_crystal(rec)
    base = rec["base"]
    t = {"lmax": rec["lmax"], "kind": rec["kind"], "channel": rec["channel"], "base": base, "poses": [], "radial": [], "oob": [],
         "meta": {"recipe": rec, "source": rec.get("src", "tlc-words"), "nontrivial": True,
                  "impl_call": "%s descriptor l_max=%d channel=%s, %d poses" % (rec["kind"], rec["lmax"], rec["channel"], len(rec["words"]) + 1)}}
    ref = None
    from chmpy.shape import SHT as _SHT
    shared = _SHT(rec["lmax"]) if rec.get("share_sht", True) else None
    for w in [[]] + rec["words"]:
        cfg = apply_word(base, w)
        ps = {"word": w, "inner": cfg["inner"], "outer": cfg["outer"], "exc": "", "d": [], "rows": []}
        try:
            d = np.asarray(describe(rec, cfg, shared), dtype=float)
            if ref is None:
                ref = float(np.max(np.abs(d)))
            if d.ndim == 2:
                ps["rows"] = [[int(round(float(x) / ref * 1048576)) if abs(x) / ref < 1000 else 2 ** 30 for x in row] for row in d]
                ps["d"] = ps["rows"][0]
            else:
                ps["d"] = [int(round(float(x) / ref * 1048576)) if abs(x) / ref < 1000 else 2 ** 30 for x in d]
        except Exception as e:
            ps["exc"] = type(e).__name__
        t["poses"].append(ps)
        if ref is None:
            break
    # an observation for TLC's domain guard: does the surface lie inside the search bounds in EVERY direction (with a margin)?
    # Where it leaves them in a narrow cone only, whether a pose notices depends on where its grid rays point.
    t["inside"] = True
    if rec["kind"] == "stockholder" and any(ps["exc"] == "ValueError" for ps in t["poses"]):
        try:
            t["inside"] = bool(_surface_inside_bounds(base, tuple(rec["bounds"])))
        except Exception:
            t["inside"] = False
    t["star"] = True
    if rec["kind"] == "mol-atomic" and ref is not None and any(ps["exc"] == "" and ps["rows"] != t["poses"][0]["rows"] for ps in t["poses"][1:]):
        # an observation for TLC's domain guard: is every atom's surface met exactly once by every ray of the transform grid?
        try:
            t["star"] = bool(_atoms_star_shaped(*arrays(base["inner"]), rec["lmax"]))
        except Exception:
            t["star"] = False
    if ref is not None and rec["kind"] != "mol-atomic":
        try:
            t["radial"], field, o, g, iso = radial_samples(rec, base)
            # probes whose bounds cannot contain the surface
            from chmpy.shape import SHT, promolecule_density_descriptor, stockholder_weight_descriptor
            els, pos = arrays(base["inner"])
            # a probe whose upper bound cuts the surface: in the direction of the largest radius the surface lies beyond the
            # bound, so it cannot be found there and the descriptor must not be returned
            import numpy as _np
            rr = _np.array([s["r"] for s in t["radial"]], dtype=float) / 1e6
            partial = []
            if len(rr) and rr.max() > 1.25 * max(rr.min(), 0.3):
                partial.append((0.15 if rec["kind"] == "stockholder" else 0.4, 0.9 * float(rr.max()), int(_np.argmax(rr))))
            for lo, hi, di in [(a, b, 0) for a, b in rec["probes"]] + partial:
                idx = _np.linspace(0, len(g) - 1, min(24, len(g))).astype(int)
                d0 = g[idx[di]] if (lo, hi, di) in partial else g[0]
                vals = [float(field((o + r * d0)[None, :])[0]) / iso for r in (lo, 0.5 * (lo + hi), hi)]
                pr = {"flo": int(round(min(vals[0], 1000.0) * 1048576)), "fmid": int(round(min(vals[1], 1000.0) * 1048576)),
                      "fhi": int(round(min(vals[2], 1000.0) * 1048576)), "exc": ""}
                try:
                    chp = None if rec["channel"] == "none" else rec["channel"]
                    if rec["kind"] == "stockholder":
                        ne, pe = arrays(base["outer"])
                        stockholder_weight_descriptor(SHT(rec["lmax"]), els, pos, ne, pe, bounds=(lo, hi), with_property=chp)
                    else:
                        promolecule_density_descriptor(SHT(rec["lmax"]), els, pos, bounds=(lo, hi), with_property=chp)
                except Exception as e:
                    pr["exc"] = type(e).__name__
                t["oob"].append(pr)
        except Exception as e:
            t["poses"][0]["exc"] = "radial:" + type(e).__name__
    return t


def molecules(rng, nrand=3):
    """Base configurations on the integer grid (multiples of 81 units of 1/16200 A = 0.005 A)."""
    def q(x):
        return int(round(x * UNIT / 81.0)) * 81
    out = []
    water = [(8, (0, 0, 0.117)), (1, (0, 0.757, -0.469)), (1, (0, -0.757, -0.469))]
    acetic = [(6, (0, 0, 0)), (6, (1.5, 0, 0)), (8, (2.1, 1.1, 0)), (8, (2.2, -1.1, 0.2)), (1, (-0.4, 1.0, 0)), (1, (-0.4, -0.5, 0.9)),
              (1, (-0.4, -0.5, -0.9)), (1, (3.1, -0.9, 0.3))]
    out.append([{"z": z, "p": [q(v) for v in p]} for z, p in water])
    out.append([{"z": z, "p": [q(v) for v in p]} for z, p in acetic])
    # a single atom away from the origin (a one-atom density), and a rod 11 A long (the surface reaches 8-9 A from the centroid
    # along the rod: any pose-dependent shortcut in the search bounds shows when the rod points along a body diagonal)
    out.append([{"z": 8, "p": [q(1.3), q(-0.7), q(2.1)]}])
    out.append([{"z": 6 if i % 4 else 7, "p": [q(1.22 * i - 5.0), q(0.31 * (i % 2)), q(0.2)]} for i in range(10)])
    # ... and one 22 A long: its surface lies more than 10.6 A (where the tabulated atomic densities end) from the centroid
    out.append([{"z": 6, "p": [q(1.25 * i - 11.0), q(0.3 * (i % 2)), q(-0.1)]} for i in range(18)])
    for _ in range(nrand):
        n = rng.randint(3, 8)
        atoms = []
        import math
        while len(atoms) < n:
            # a bonded cluster: every new atom 0.95-1.6 A from an earlier one (scattered atoms are not a molecule: the radial
            # search from their centroid need not find a single surface)
            if atoms:
                b = rng.choice(atoms)[1]
                v = [rng.gauss(0, 1) for _ in range(3)]
                s = math.sqrt(sum(x * x for x in v))
                dd = rng.uniform(0.95, 1.6)
                p = [b[c] + v[c] / s * dd for c in range(3)]
            else:
                p = [rng.gauss(0, 0.5) for _ in range(3)]
            if all(sum((p[c] - a[c]) ** 2 for c in range(3)) > 0.8 for _, a in atoms):
                atoms.append((rng.choice([1, 6, 7, 8]), p))
        out.append([{"z": z, "p": [q(v) for v in p]} for z, p in atoms])
    return out


def hydrogens_first():
    """Methyl compounds listed with a hydrogen first (as many files list them): the order is the caller's, the rows are not."""
    def q(x):
        return int(round(x * UNIT / 81.0)) * 81
    methanol = [(1, (-1.08, 0.0, -0.64)), (6, (-0.05, 0.0, -0.66)), (8, (0.0, 0.0, 0.76)), (1, (0.44, 0.89, -1.04)),
                (1, (0.44, -0.89, -1.04)), (1, (0.9, 0.0, 1.06))]
    fluoromethane = [(1, (1.03, 0.0, -0.36)), (6, (0.0, 0.0, 0.0)), (9, (0.0, 0.0, 1.38)), (1, (-0.51, 0.89, -0.36)), (1, (-0.51, -0.89, -0.36))]
    thiol = [(1, (0.96, 0.0, -0.92)), (16, (0.0, 0.0, 0.0)), (1, (-0.96, 0.0, -0.92))]          # hydrogen sulfide
    return [[{"z": z, "p": [q(v) for v in p]} for z, p in m] for m in (methanol, fluoromethane, thiol)]


def environment(rng, inner, n=160):
    import math
    def q(x):
        return int(round(x * UNIT / 81.0)) * 81
    c = [sum(a["p"][k] for a in inner) / len(inner) / UNIT for k in range(3)]
    rad = max(math.sqrt(sum((a["p"][k] / UNIT - c[k]) ** 2 for k in range(3))) for a in inner)
    out = []
    while len(out) < n:
        v = [rng.gauss(0, 1) for _ in range(3)]
        s = math.sqrt(sum(x * x for x in v))
        r = rad + rng.uniform(2.6, 5.0)
        out.append({"z": rng.choice([1, 6, 8]), "p": [q(c[k] + v[k] / s * r) for k in range(3)]})
    return out


def run(ctx):
    depth = ctx.pick(2, 3)
    res = tlc.run("mc/MC_Descriptor.tla", MC_CFG % (depth, "TRUE"), timeout=900)
    ctx._account(res, "MC_Descriptor(depth %d, emit)" % depth)
    if not res.ok:
        raise tlc.TLCFailure("MC_Descriptor failed: %s %s" % (res.violated, res.errors))
    words = sorted({s[2:] for s in res.printed if s.startswith("W|")})
    ctx.notes["tlc_words"] = len(words)
    rng = ctx.rng
    mols = molecules(rng, ctx.pick(3, 10))
    recs = []
    lmaxes = ctx.pick([4, 6, 9, 12], [4, 5, 6, 7, 8, 9, 10, 11, 12])
    for mi, inner in enumerate(mols):
        outer = environment(rng, inner)
        for kind in ("promolecule", "molecule", "stockholder"):
            for channel in ("none", "d_norm", "esp"):
                if kind == "molecule" and channel == "esp" and ctx.quick:
                    continue
                if kind == "stockholder" and len(inner) >= 18:
                    continue                       # the 22 A rod reaches beyond the 9 A search bound used for stockholder surfaces
                for lmax in lmaxes:
                    if ctx.quick and (mi + lmax + len(kind) + len(channel)) % 3 and not (len(inner) == 1 and lmax == lmaxes[0]):
                        continue
                    pool = [w for w in words if (kind == "stockholder" or "E:" not in w)]
                    if len(inner) >= 18:
                        # the 22 A rod is there for its search bounds; at low l_max its descriptor is far from band-limited and the
                        # rotation tolerance does not apply to it: rigid translations and relistings only
                        pool = [w for w in pool if "C:" not in w and "Q:" not in w] or pool[:1]
                    # exterior swaps / translations need an environment
                    sel = rng.sample(pool, min(len(pool), ctx.pick(8, 60)))
                    ws = [parse_word(w) for w in sel]
                    ws = [w for w in ws if all(not (tag == "P" and arg >= len(inner)) for tag, arg in w)]
                    recs.append({"lmax": lmax, "kind": kind, "channel": channel, "words": ws,
                                 "base": {"inner": inner, "outer": outer if kind == "stockholder" else []},
                                 "bounds": [0.15, 9.0], "probes": [[0.02, 0.12], [14.0, 19.0]] if kind != "stockholder" else []})
    # the atoms of an isolated molecule (Molecule.atomic_shape_descriptors: one row per atom, rows follow the atom order)
    for mi, inner in enumerate(mols):
        for lmax in ctx.pick([4, 6], [4, 5, 6, 8]):
            pool = [w for w in words if "E:" not in w]
            ws = [parse_word(w) for w in rng.sample(pool, min(len(pool), ctx.pick(4, 20)))]
            ws = [w for w in ws if all(not (tag == "P" and arg >= len(inner)) for tag, arg in w)]
            recs.append({"lmax": lmax, "kind": "mol-atomic", "channel": "none", "words": ws, "base": {"inner": inner, "outer": []},
                         "bounds": [0.2, 6.0], "probes": []})
    for inner in hydrogens_first():
        for lmax in ctx.pick([4], [4, 6, 8]):
            # the first two listed atoms exchanged (a heavy atom first), alone and after a rigid motion
            ws = [[["P", 1]], [["P", 2], ["P", 1]]] + [parse_word(w) for w in rng.sample([w for w in words if "E:" not in w and "P:" not in w], 2)]
            recs.append({"lmax": lmax, "kind": "mol-atomic", "channel": "none", "words": ws, "base": {"inner": inner, "outer": []},
                         "bounds": [0.2, 6.0], "probes": []})
    # molecules and atoms in their crystal: the descriptors belong to the arrangement, not to how the cell is listed
    cwords = [[["S", 1]], [["S", 3]], [["P", 1]], [["X", 1]], [["X", 3]], [["S", 2], ["P", 2]], [["X", 2], ["S", 4]], [["P", 1], ["X", 1]]]
    for i in range(ctx.pick(6, 60)):
        lst = crystal_recipe(rng)
        if lst is None:
            continue
        for kind in ("crystal-mol", "crystal-atom"):
            ch = ("none", "d_norm")[(i + len(kind)) % 2]
            ws = [w for w in rng.sample(cwords, ctx.pick(3, 6)) if all(not (tag == "P" and arg >= len(lst["atoms"])) for tag, arg in w)]
            recs.append({"lmax": rng.choice([4, 6, 9]), "kind": kind, "channel": ch, "words": ws, "base": lst})
    # a monatomic crystal with its atom exactly on the cell origin (coordinates exact in single precision: the centre of the
    # search coincides with the nucleus), and the same crystal listed elsewhere
    for i, (z, edge) in enumerate(((18, 1060), (10, 900), (36, 1140))):
        lst = {"cell": [edge, edge + 20, edge + 40], "atoms": [{"z": z, "p": [0, 0, 0]}]}
        recs.append({"lmax": 4, "kind": "crystal-mol", "channel": ("none", "d_norm", "none")[i], "words": [[["S", 1]], [["S", 4]], [["X", 1]]], "base": lst})
        recs.append({"lmax": 4, "kind": "crystal-atom", "channel": "none", "words": [[["S", 2]], [["X", 2]]], "base": lst})
    traces = pool_map(drive, recs, chunksize=1)
    ctx.notes["descriptor_evaluations"] = sum(len(t["poses"]) for t in traces)
    ctx.validate("trace/Trace_Descriptor.tla", traces, timeout=1800)
    ctx.rule = ("water, an acetic-acid-like 8-atom molecule and 3 (thorough: 10) seeded 3-8 atom molecules, with and without a dense 160-atom environment shell x "
                "{promolecule_density_descriptor, Molecule.shape_descriptors, stockholder_weight_descriptor} x {none, d_norm, esp} x l_max in %s; each "
                "trace applies %d pose words printed by TLC (depth <= %d over 6 translations up to 50 A, 3 cube-rotation generators, 6 rational "
                "quaternion rotations, adjacent transpositions of interior and exterior atoms); every trace is non-trivial" % (lmaxes, ctx.pick(8, 60), depth))
    ctx.explanation = ("relational oracle: the descriptor at every pose equals the identity-pose descriptor within Tol(word class, l_max); the pose itself, the "
                       "radial equation and the out-of-bounds outcome are checked exactly / with explicit slack; pose words are enumerated by TLC, molecules sampled")
    ctx.assumptions = ["TolExact = 5e-3 for translation/permutation words (measured <= 2.5e-4), TolRot = 0.15 / 0.10 / 0.08 for l_max <= 6 / <= 9 / > 9 "
                       "(measured <= 0.042 / 0.026 / 0.026), relative to the largest descriptor component",
                       "compiled radial solvers and invariants used as found; Crystal.*_shape_descriptors are not driven (they reduce to stockholder_weight_descriptor "
                       "on environments checked in C03)"]


def replay(ctx, rec):
    ctx.validate("trace/Trace_Descriptor.tla", [drive(rec["record"]["meta"]["recipe"])])


if __name__ == "__main__":
    raise SystemExit(main("C09", run, replay))
