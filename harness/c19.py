"""C19 - the Wulff construction is the intersection of the facet half-spaces.

(M) MC_Wulff: named polyhedra (cube, box, rational octahedron, hexagonal / octagonal prism,
    truncated cubes, rotated cube) stepped through the code's pipeline (polar duals -> supporting
    simplices -> vertices -> facet lists -> CCW fan -> triangles) against the declarative half-space
    intersection and hand values; scaling law for rational s.
(T) WulffConstruction driven on facet sets built from integers (Pythagorean quadruples v/w, energies
    p/Q); every float vertex is projected to the unique rational of bounded denominator next to it
    (residual logged, `offgrid` when there is none); Trace_Wulff recomputes the exact half-space
    intersection in TLC and judges vertex set, facet lists, triangles, to_trimesh() and volume.

Positions are shipped in units of 1/Q as reduced homogeneous integer 4-tuples <<n1, n2, n3, d>>.
"""
import json
import math
from fractions import Fraction

from harness.common import main, pool_map
from harness import tlc
from harness.project import big

MAXW = 15            # |v| = w <= MAXW  (spec constant MaxW)
MAXP = 64            # energy numerators p <= MAXP (spec constant MaxP)
VOLS = 10 ** 8       # resolution of the volume enclosure (spec constant VolS)
TOL = 1e-8           # residual bound of the projection (units of 1/Q): > 100x the measured noise (2e-11)
                     # and < 1/(2 M^2) = 4.4e-8, the uniqueness radius for denominators <= M = 15^3
RESUNIT = 1e-15

CONSTS = "  MaxW = %d\n  MaxP = %d\n  VolS = %d\n" % (MAXW, MAXP, VOLS)


# ------------------------------------------------------------------ exact input domain
def quadruples(wmax=MAXW):
    """Primitive Pythagorean quadruples (x, y, z, w), x^2+y^2+z^2 = w^2, one per direction pair."""
    out = []
    for x in range(-wmax, wmax + 1):
        for y in range(-wmax, wmax + 1):
            for z in range(-wmax, wmax + 1):
                n2 = x * x + y * y + z * z
                w = math.isqrt(n2)
                if w == 0 or w > wmax or w * w != n2:
                    continue
                if math.gcd(math.gcd(abs(x), abs(y)), abs(z)) != 1:
                    continue
                if (x, y, z) > (-x, -y, -z):          # one representative of {v, -v}
                    out.append((x, y, z, w))
    return out


_QUADS = None


def quads():
    global _QUADS
    if _QUADS is None:
        _QUADS = quadruples()
    return _QUADS


def centro(dirs, ps, ps_neg=None):
    """[(x,y,z,w)], [p] -> facets [x,y,z,w,p] with centrosymmetric completion."""
    ps_neg = ps if ps_neg is None else ps_neg
    f = [[x, y, z, w, p] for (x, y, z, w), p in zip(dirs, ps)]
    f += [[-x, -y, -z, w, p] for (x, y, z, w), p in zip(dirs, ps_neg)]
    return f


AX = [(1, 0, 0, 1), (0, 1, 0, 1), (0, 0, 1, 1)]
OCT = [(1, 2, 2, 3), (1, 2, -2, 3), (1, -2, 2, 3), (1, -2, -2, 3)]
OCT2 = [(2, 1, 2, 3), (2, 1, -2, 3), (2, -1, 2, 3), (2, -1, -2, 3)]
OCT3 = [(2, 2, 1, 3), (2, 2, -1, 3), (2, -2, 1, 3), (2, -2, -1, 3)]
HEX = [(1, 0, 0, 1), (3, 4, 0, 5), (3, -4, 0, 5)]
OCTAGON = [(1, 0, 0, 1), (0, 1, 0, 1), (3, 4, 0, 5), (3, -4, 0, 5)]
DODECAGON = OCTAGON + [(4, 3, 0, 5), (4, -3, 0, 5)]
ROT = [(1, 2, 2, 3), (2, 1, -2, 3), (2, -2, 1, 3)]       # an orthonormal rational frame


def rot(v):
    """Apply the rational orthogonal matrix ROT/3 to an integer direction (x,y,z,w) -> (.., 3w) reduced."""
    x, y, z, w = v
    r = [ROT[k][0] * x + ROT[k][1] * y + ROT[k][2] * z for k in range(3)]
    g = math.gcd(math.gcd(abs(r[0]), abs(r[1])), math.gcd(abs(r[2]), 3 * w))
    return (r[0] // g, r[1] // g, r[2] // g, 3 * w // g)


def named_recipes(rng, count):
    """Degenerate / axis-aligned families with seeded energies; returns `count` recipes."""
    fams = []

    def add(kind, dirs, lo, hi, q=8, sym=None):
        fams.append((kind, dirs, lo, hi, q, sym))

    add("cube", AX, 8, 8)
    add("box", AX, 4, 16)
    add("octahedron", OCT, 8, 8)
    add("octahedron-skew", OCT, 8, 11)
    add("octahedron2", OCT2, 8, 8)
    add("hexagonal-prism", HEX + [(0, 0, 1, 1)], 8, 8)
    add("hexagonal-prism-var", HEX + [(0, 0, 1, 1)], 8, 12)
    add("octagonal-prism", OCTAGON + [(0, 0, 1, 1)], 8, 10)
    add("dodecagonal-prism", DODECAGON + [(0, 0, 1, 1)], 8, 9)
    add("cube+octahedron", AX + OCT, 8, 16)
    add("cube+3octahedra", AX + OCT + OCT2 + OCT3, 8, 14)
    add("truncated-cube", AX + OCT3, 24, 40, 24)
    add("rotated-cube", [rot(v) for v in AX], 8, 8)
    add("rotated-box", [rot(v) for v in AX], 6, 12)
    add("rotated-octahedron", [rot(v) for v in OCT], 8, 8)
    add("rotated-cube+octahedron", [rot(v) for v in AX + OCT], 8, 14)
    add("cube+touching-edge-plane", None, 0, 0, 40, "touch-edge")
    add("cube+touching-vertex-plane", None, 0, 0, 24, "touch-vertex")
    add("truncated-cube-touching", None, 0, 0, 24, "trunc-touch")
    out = []
    k = 0
    while len(out) < count:
        kind, dirs, lo, hi, q, special = fams[k % len(fams)]
        first_round = k < len(fams)
        k += 1
        if special == "touch-edge":          # 3x + 4y <= 7 touches the cube edge x = y = 1
            facets = centro(AX, [40] * 3) + centro([(3, 4, 0, 5)], [56])
        elif special == "touch-vertex":      # 2x + 2y + z <= 5 touches the cube corner (1,1,1)
            facets = centro(AX, [24] * 3) + centro([(2, 2, 1, 3)], [40])
        elif special == "trunc-touch":       # 2x + 2y + z <= 4: the cuts meet at the edge midpoints
            facets = centro(AX, [24] * 3) + centro(OCT3, [32] * 4)
        else:
            ps = [rng.randint(lo, hi) for _ in dirs]
            if first_round:
                ps = [lo if kind in ("cube", "octahedron", "octahedron2", "hexagonal-prism",
                                     "rotated-cube", "rotated-octahedron") else p for p in ps]
            psn = ps if rng.random() < 0.6 else [rng.randint(lo, hi) for _ in dirs]
            facets = centro(dirs, ps, psn)
        rng.shuffle(facets)
        out.append({"kind": kind, "Q": q, "facets": facets, "scale": pick_scale(rng)})
    return out


def pick_scale(rng):
    # mostly modest factors; now and then a change of units by three to four orders of magnitude
    return rng.choice([[1, 2], [3, 2], [2, 1], [3, 1], [5, 4], [3, 4], [1, 3], [4, 1], [7, 8], [1000, 1], [2500, 1], [10000, 1]])


def generic_recipes(rng, count, fmin, fmax):
    out = []
    qs = quads()
    for _ in range(count):
        nf = rng.randrange(fmin // 2, fmax // 2 + 1)
        while True:
            dirs = rng.sample(qs, nf)
            # must span space (bounded region); TLC re-checks with its own guard
            if any(abs(_det(a, b, c)) > 0 for a in dirs[:6] for b in dirs[:6] for c in dirs[:6]):
                break
        dirs = [d if rng.random() < 0.5 else (-d[0], -d[1], -d[2], d[3]) for d in dirs]
        ps = [rng.randint(8, 16) for _ in dirs]          # energies p/8 within a factor of two
        psn = ps if rng.random() < 0.5 else [rng.randint(8, 16) for _ in dirs]
        facets = centro(dirs, ps, psn)
        rng.shuffle(facets)
        out.append({"kind": "generic", "Q": 8, "facets": facets, "scale": pick_scale(rng)})
    return out


def noncentro_recipes(rng, count, fmin, fmax):
    """Facet sets without centrosymmetric completion; TLC decides whether they bound a finite region
    (OOD unbounded otherwise)."""
    out = []
    qs = quads()
    for _ in range(count):
        nf = rng.randrange(fmin, fmax + 1)
        dirs = [d if rng.random() < 0.5 else (-d[0], -d[1], -d[2], d[3]) for d in rng.sample(qs, nf)]
        facets = [[x, y, z, w, rng.randint(8, 16)] for (x, y, z, w) in dirs]
        out.append({"kind": "generic-noncentro", "Q": 8, "facets": facets, "scale": pick_scale(rng)})
    return out


def _det(a, b, c):
    return (a[0] * (b[1] * c[2] - b[2] * c[1]) - a[1] * (b[0] * c[2] - b[2] * c[0])
            + a[2] * (b[0] * c[1] - b[1] * c[0]))


# ------------------------------------------------------------------ projection
class Projector:
    """float position (in units of 1/Q) -> reduced homogeneous integers <<n1,n2,n3,d>>.

    A vertex of the half-space intersection of planes v.y <= p*w (integers) is N/D with
    |D| <= w_i w_j w_k <= wmax^3 (Hadamard), so every true coordinate is a rational of denominator
    <= M = wmax^3; two such rationals differ by >= 1/M^2 >> TOL, hence there is at most one within
    TOL of a float and `limit_denominator` finds it. No knowledge of the expected answer is used.
    """

    def __init__(self, wmax):
        self.M = wmax ** 3
        self.offgrid = False
        self.resid = 0.0

    def point(self, y):
        fr = []
        for c in y:
            c = float(c)
            if not math.isfinite(c) or abs(c) > 6e5:      # beyond any Cramer numerator of the domain
                self.offgrid = True
                return [0, 0, 0, 1]
            f = Fraction(c).limit_denominator(self.M)
            r = abs(float(f) - c)
            self.resid = max(self.resid, r)
            if r > TOL:
                self.offgrid = True
            fr.append(f)
        d = 1
        for f in fr:
            d = d * f.denominator // math.gcd(d, f.denominator)
        if d > self.M:
            self.offgrid = True
            return [0, 0, 0, 1]
        return [int(f * d) for f in fr] + [d]


def _ints(a):
    return [int(x) + 1 for x in a]


# ------------------------------------------------------------------ the route from a list of Miller planes (GMF) and a crystal
GMF_GROUPS = [(1, ""), (2, ""), (3, "b"), (6, "b"), (10, "b"), (16, ""), (25, ""), (47, ""), (75, ""), (81, ""), (89, ""), (123, ""),
              (195, ""), (200, ""), (207, ""), (221, ""),
              # centred lattices, with and without glide / screw translations between the centring translates in the table order
              (40, ""), (41, "-cba"), (43, ""), (70, "2"), (70, "1"), (63, ""), (64, "cab"), (9, "b2"), (15, "-b1"), (15, "b3"),
              (203, "2"), (210, ""), (227, "2"), (227, "1"), (228, "2"), (225, ""), (229, ""), (216, ""),
              # other settings of types listed above (unique axis c / a, other cell choices): same symbol, other rotations
              (3, "c"), (3, "a"), (6, "c"), (10, "a"), (14, "c1"), (14, "a2"), (14, "b1"), (5, "c1"), (5, "a2"), (5, "b1"), (9, "c1")]


def _rot_of(code):
    r = code % 19683
    rot, sh = [], 6561
    for _ in range(9):
        rot.append((r // sh) % 3 - 1)
        sh //= 3
    return [rot[0:3], rot[3:6], rot[6:9]]


def gmf_expand(records, rots):
    """Mirror of Wulff!ExpandPlanes (used only to propose inputs whose expansion stays in the exact domain)."""
    best = {}
    for h, k, l, p in records:
        for R in rots:
            v = [R[i][0] * h + R[i][1] * k + R[i][2] * l for i in range(3)]
            g = math.gcd(math.gcd(abs(v[0]), abs(v[1])), abs(v[2])) or 1
            d = tuple(x // g for x in v)
            for dd in (d, tuple(-x for x in d)):
                best[dd] = min(best.get(dd, 10 ** 9), p)
    return best


def gmf_recipes(rng, count):
    from harness.c02 import table_rows
    rows = {(r["number"], r["choice"]): r for r in table_rows()}
    qs = [q for q in quads() if q[3] <= 7]
    out = []
    while len(out) < count:
        num, ch = rng.choice(GMF_GROUPS)
        rots = []
        for c in rows[(num, ch)]["ops"]:
            R = _rot_of(c)
            if R not in rots:
                rots.append(R)
        dirs = [(1, 0, 0), (0, 1, 0), (0, 0, 1)] + [tuple(q[:3]) for q in rng.sample(qs, rng.randint(0, 3))]
        records = []
        for d in dirs:
            m = rng.choice([1, 1, 2, 3])                     # a plane listed with several terminations
            for p in sorted([rng.randint(32, 64) for _ in range(m)], reverse=rng.random() < 0.7):
                s = rng.choice([1, 1, -1])
                records.append([s * d[0] * 1, s * d[1], s * d[2], p])
        if rng.random() < 0.5:
            # the opposite face listed on its own, cheaper or dearer
            d = rng.choice(dirs)
            records.insert(rng.randrange(len(records) + 1), [-d[0], -d[1], -d[2], rng.randint(32, 64)])
        recip = [[1, 0, 0], [0, 1, 0], [0, 0, 1]]
        if num <= 2 and rng.random() < 0.7:
            # an oblique cell: integer unimodular reciprocal lattice M (rows a*, b*, c*); the listed planes are q . M^-1 for
            # Pythagorean directions q, so that the facet normals hkl . M stay in the exact domain
            import numpy as np
            while True:
                M = np.eye(3, dtype=int)
                for _ in range(rng.randint(1, 3)):
                    i, j = rng.sample(range(3), 2)
                    S = np.eye(3, dtype=int)
                    S[i, j] = rng.choice([-1, 1])
                    M = M @ S
                if not np.array_equal(M, M.T):
                    break
            Minv = np.round(np.linalg.inv(M)).astype(int)
            records = [[int(x) for x in (np.array(r[:3]) @ Minv)] + [r[3]] for r in records]
            recip = [[int(x) for x in row] for row in M]
        exp = gmf_expand(records, rots)
        nrm = [[sum(d[i] * recip[i][j] for i in range(3)) for j in range(3)] for d in exp]
        if not all(math.isqrt(sum(x * x for x in v)) ** 2 == sum(x * x for x in v) and 0 < math.isqrt(sum(x * x for x in v)) <= MAXW for v in nrm):
            continue
        if len(exp) > 40:
            continue
        others = [c2 for (n2, c2) in rows if n2 == num and c2 != ch]
        out.append({"kind": "gmf", "Q": 32, "facets": [], "scale": pick_scale(rng),
                    "gmf": {"number": num, "choice": ch, "records": records, "rots": rots, "recip": recip,
                            "prior": rng.choice(others) if others and rng.random() < 0.7 else "none"}})
    return out


def drive(recipe):
    import warnings
    import numpy as np
    warnings.simplefilter("ignore")      # unbounded inputs (judged OOD by TLC) make trimesh warn about NaN
    from chmpy.crystal.wulff import WulffConstruction
    if recipe["kind"] == "gmf":
        return drive_gmf(recipe)
    return drive_facets(recipe)


def drive_gmf(recipe):
    """WulffConstruction.from_gmf_and_crystal on a cubic-metric cell of edge 1 (reciprocal lattice = identity: the normal of
    (hkl) is hkl/|hkl|); the facets the object holds are read back from it, in its own order."""
    import types
    import numpy as np
    from chmpy.crystal import Crystal, UnitCell, SpaceGroup, AsymmetricUnit
    from chmpy.core.element import Element
    from chmpy.crystal.wulff import WulffConstruction
    g = recipe["gmf"]
    q = recipe["Q"]
    sn, sd = recipe["scale"]
    sg = SpaceGroup(g["number"], choice=g["choice"]) if g["choice"] else SpaceGroup(g["number"])
    M = np.array(g.get("recip", [[1, 0, 0], [0, 1, 0], [0, 0, 1]]), dtype=float)
    # reciprocal_lattice = inverse^T = M  =>  direct = (M^T)^-1
    cr = Crystal(UnitCell(np.linalg.inv(M.T)), sg, AsymmetricUnit([Element["C"]], np.array([[0.1, 0.2, 0.3]])))
    hkl = np.array([r[:3] for r in g["records"]], dtype=int)

    def build(factor):
        gm = types.SimpleNamespace(hkl=hkl.copy(), energies=np.array([r[3] / q * factor for r in g["records"]], dtype=float))
        return WulffConstruction.from_gmf_and_crystal(gm, cr)
    try:
        if g.get("prior", "none") != "none":
            # what the process did before: the same planes expanded for another setting of the same space-group type
            try:
                sg0 = SpaceGroup(g["number"], choice=g["prior"]) if g["prior"] else SpaceGroup(g["number"])
                cr0 = Crystal(UnitCell(np.linalg.inv(M.T)), sg0, AsymmetricUnit([Element["C"]], np.array([[0.1, 0.2, 0.3]])))
                WulffConstruction.from_gmf_and_crystal(types.SimpleNamespace(hkl=hkl.copy(), energies=np.array([r[3] / q for r in g["records"]], dtype=float)), cr0)
            except Exception:
                pass
        w = build(1.0)
        try:
            w.sht(l_max=3, scale=2.5)
        except Exception:
            pass
        facets = []
        for nrm, e in zip(np.asarray(w.facet_normals, dtype=float), np.asarray(w.facet_energies, dtype=float)):
            hit = None
            for wq in range(1, MAXW + 1):
                v = nrm * wq
                if np.all(np.abs(v - np.round(v)) < 1e-9) and math.gcd(math.gcd(abs(int(round(v[0]))), abs(int(round(v[1])))), abs(int(round(v[2])))) == 1:
                    hit = [int(round(x)) for x in v] + [wq]
                    break
            p = e * q
            if hit is None or abs(p - round(p)) > 1e-9:
                return dict(_empty_trace(recipe), exc="FacetOffDomain")
            facets.append(hit + [int(round(p))])
    except Exception as e:      # an exception of the implementation is an observation
        return dict(_empty_trace(recipe), exc=type(e).__name__)
    rec2 = dict(recipe, facets=facets)
    return drive_facets(rec2, prebuilt=(w, lambda: build(sn / sd)))


def _empty_trace(recipe):
    sn, sd = recipe["scale"]
    return {"kind": recipe["kind"], "Q": recipe["Q"], "facets": recipe.get("facets", []), "exc": "", "offgrid": False, "resid": 0,
            "verts": [], "lists": [], "tris": [], "trifacet": [],
            "gmf": dict({"records": [], "rots": [], "recip": [[1, 0, 0], [0, 1, 0], [0, 0, 1]]}, **recipe.get("gmf", {})),
            "mesh": {"exc": "skipped", "tie": True, "verts": [], "faces": [], "vol6s": big(0)},
            "scale": {"sn": sn, "sd": sd, "exc": "skipped", "verts": [], "tris": [], "offgrid": False},
            "meta": {"recipe": recipe, "source": "seeded-" + recipe["kind"], "impl_call": "WulffConstruction.from_gmf_and_crystal",
                     "nontrivial": True}}


def drive_facets(recipe, prebuilt=None):
    import numpy as np
    from chmpy.crystal.wulff import WulffConstruction
    facets = recipe["facets"]
    q = recipe["Q"]
    sn, sd = recipe["scale"]
    wmax = max([1] + [abs(f[3]) for f in facets])
    nf = len(facets)
    empty_mesh = {"exc": "skipped", "tie": True, "verts": [], "faces": [], "vol6s": big(0)}
    t = {"kind": recipe["kind"], "Q": q, "facets": facets, "exc": "", "offgrid": False, "resid": 0,
         "gmf": dict({"records": [], "rots": [], "recip": [[1, 0, 0], [0, 1, 0], [0, 0, 1]]}, **recipe.get("gmf", {})),
         "verts": [], "lists": [[] for _ in facets], "tris": [], "trifacet": [],
         "mesh": empty_mesh,
         "scale": {"sn": sn, "sd": sd, "exc": "skipped", "verts": [], "tris": [], "offgrid": False},
         "meta": {"recipe": recipe, "source": "seeded-" + recipe["kind"],
                  "impl_call": "WulffConstruction(v/w, p/%d) [%d facets]; .wulff_vertices/.wulff_facets/"
                               ".wulff_triangles/.to_trimesh(); again with energies * %d/%d"
                               % (q, nf, sn, sd),
                  "nontrivial": False}}
    normals = np.array([[f[0] / f[3], f[1] / f[3], f[2] / f[3]] for f in facets], dtype=float)
    energies = np.array([f[4] / q for f in facets], dtype=float)
    if all(f[3] == 1 for f in facets) and recipe.get("int_normals", True):
        # axis-aligned shapes typed the natural way: tuples of Python ints for the normals, a list of floats for the energies
        normals = tuple((int(f[0]), int(f[1]), int(f[2])) for f in facets)
        energies = [float(e) for e in energies]
    proj = Projector(wmax)
    try:
        n0, e0 = np.array(normals, dtype=float), np.array(energies, dtype=float)
        w = prebuilt[0] if prebuilt else WulffConstruction(normals, energies)
        if not (np.array_equal(np.array(normals, dtype=float), n0) and np.array_equal(np.array(energies, dtype=float), e0)):
            t["exc"] = "ArgumentMutated"              # the caller's arrays must come back untouched
            return t
        if not prebuilt:
            # the shape is also asked for its spherical-harmonic form at another scale: the construction keeps its facets
            try:
                w.sht(l_max=3, scale=2.5)
            except Exception:
                pass
            if not (np.array_equal(np.asarray(w.facet_energies, dtype=float), e0) and np.array_equal(np.asarray(w.facet_normals, dtype=float), n0)):
                t["exc"] = "ObjectChangedByOtherUse"
                return t
        verts = np.asarray(w.wulff_vertices, dtype=float)
        t["verts"] = [proj.point(v * q) for v in verts]
        t["lists"] = [_ints(lst) for lst in w.wulff_facets]
        t["tris"] = [_ints(tr) for tr in np.asarray(w.wulff_triangles)]
        t["trifacet"] = _ints(np.asarray(w.wulff_triangle_indices))
    except Exception as e:      # an exception of the implementation is an observation
        t["exc"] = type(e).__name__
        return t
    try:
        m = w.to_trimesh()
        vol = float(m.volume)
        if not math.isfinite(vol) or abs(vol) > 1e6:
            proj.offgrid = True
            vol = 0.0
        mvf = np.asarray(m.vertices, dtype=float)
        mvp = [proj.point(v * q) for v in mvf]
        # copies of one corner that survive in the mesh: explained only when the two floats fall on different sides of a rounding
        # tie of the mesh library's 1e-8 merge grid (coordinates that are exact binary fractions such as 727/512 sit on ties)
        tie = True
        seen = {}
        for k, pp in enumerate(mvp):
            key = json.dumps(pp)
            if key in seen:
                i0 = seen[key]
                if np.array_equal(np.round(mvf[i0] * 1e8), np.round(mvf[k] * 1e8)):
                    tie = False
            else:
                seen[key] = k
        t["mesh"] = {"exc": "", "tie": bool(tie), "verts": mvp,
                     "faces": [_ints(f) for f in np.asarray(m.faces)],
                     "vol6s": big(round(Fraction(vol) * 6 * q ** 3 * VOLS))}
    except Exception as e:
        t["mesh"] = dict(empty_mesh, exc=type(e).__name__)
    t["offgrid"] = proj.offgrid
    t["resid"] = min(int(proj.resid / RESUNIT), 10 ** 9)
    # scaling law: the same facets with every energy multiplied by s = sn/sd, positions in units 1/(Q*sd)
    sproj = Projector(wmax)
    try:
        w2 = prebuilt[1]() if prebuilt else WulffConstruction(normals, np.asarray(energies, dtype=float) * (sn / sd))
        # projected at the scale of the unscaled shape (relative float noise does not grow with the factor), then
        # multiplied back by sn exactly
        def rescaled(v):
            h = sproj.point(v * (q * sd) / sn)
            g = math.gcd(math.gcd(abs(sn * h[0]), abs(sn * h[1])), math.gcd(abs(sn * h[2]), h[3])) or 1
            return [sn * h[0] // g, sn * h[1] // g, sn * h[2] // g, h[3] // g]
        t["scale"].update(exc="", verts=[rescaled(v) for v in np.asarray(w2.wulff_vertices)],
                          tris=[_ints(tr) for tr in np.asarray(w2.wulff_triangles)])
    except Exception as e:
        t["scale"]["exc"] = type(e).__name__
    t["scale"]["offgrid"] = sproj.offgrid
    t["resid"] = max(t["resid"], min(int(sproj.resid / RESUNIT), 10 ** 9))
    npos = len({tuple(v) for v in t["verts"]})
    cut = sum(1 for lst in t["lists"] if not lst)
    t["meta"]["nontrivial"] = bool(cut > 0 or npos < len(t["verts"]))
    t["meta"]["stats"] = {"facets": nf, "emitted": len(t["verts"]), "positions": npos, "cut_off": cut}
    return t


# ------------------------------------------------------------------ model checking (M)
MC_CFG = """SPECIFICATION Spec
CHECK_DEADLOCK FALSE
CONSTANTS
  MaxW = 15
  MaxP = 64
  VolS = 207360000
  VertexFormula = "%s"
INVARIANT TypeOK
INVARIANT DualIsCramer
INVARIANT VerticesAreIntersection
INVARIANT HandVertices
INVARIANT FacetListsExact
INVARIANT FanIsCCW
INVARIANT MeshClosedOutward
INVARIANT EdgesAreMeshEdges
INVARIANT VolumeByHand
INVARIANT ScalingLaw
"""


def mc_recipes(res):
    """(G) spec -> code: the instances enumerated by MC_Wulff (printed by the model as JSON)."""
    import json
    out = []
    for line in res.printed:
        if line.startswith("SHAPES|"):
            d = json.loads(line[len("SHAPES|"):])
            for sh in d["shapes"]:
                for sc in d["scales"]:
                    out.append({"kind": "mc:" + sh["name"], "Q": sh["Q"],
                                "facets": [list(f) for f in sh["facets"]], "scale": list(sc)})
    if not out:
        raise tlc.TLCFailure("MC_Wulff did not print its instances")
    return out


def run(ctx, explain=False):
    res = ctx.model_check("mc/MC_Wulff.tla", MC_CFG % "code", name="MC_Wulff(named polyhedra, pipeline, scaling)",
                          timeout=900, coverage=not ctx.quick)
    from_model = mc_recipes(res)
    if explain:
        bad = tlc.run("mc/MC_Wulff.tla", MC_CFG % "wrong-column", timeout=900)
        print("deviation 'energy taken from another corner of the dual simplex': MC_Wulff violates",
              bad.violated)
        last = [ln for ln in bad.stdout.splitlines()
                if ln.startswith(("/\\ sh =", "/\\ sc =", "/\\ phase ="))][-3:]
        print("    last state of TLC's counterexample:", " ".join(last))
    n_named = ctx.pick(76, 760)
    n_small = ctx.pick(240, 3000)
    recipes = from_model + named_recipes(ctx.rng, n_named) + generic_recipes(ctx.rng, n_small, 6, 20)
    recipes += noncentro_recipes(ctx.rng, ctx.pick(24, 400), 8, 24)
    recipes += gmf_recipes(ctx.rng, ctx.pick(40, 800))
    if not ctx.quick:
        recipes += generic_recipes(ctx.rng, 1200, 22, 40) + generic_recipes(ctx.rng, 800, 42, 60)
    traces = pool_map(drive, recipes)
    verdicts = ctx.validate("trace/Trace_Wulff.tla", traces, consts=CONSTS, nblocks=64,
                            timeout=ctx.pick(600, 3000))
    judged = [t for i, t in enumerate(traces) if not verdicts[i].startswith("OOD")]
    ood = {}
    for v in verdicts.values():
        if v.startswith("OOD"):
            ood[v[4:]] = ood.get(v[4:], 0) + 1
    ctx.notes["out_of_domain_reasons"] = ood
    stats = [t["meta"].get("stats") for t in traces if t["meta"].get("stats")]
    ctx.notes["facets_max"] = max(s["facets"] for s in stats) if stats else 0
    ctx.notes["traces_with_cut_off_facets"] = sum(1 for s in stats if s["cut_off"])
    ctx.notes["traces_with_degenerate_vertices"] = sum(1 for s in stats if s["positions"] < s["emitted"])
    ctx.notes["max_projection_residual"] = "%.3g (units of 1/Q; bound %g)" % (
        max([t["resid"] for t in judged] + [0]) * RESUNIT, TOL)
    ctx.notes["slack"] = ("vertices: exact after projection (residual <= %g); float mesh volume vs exact "
                          "enclosure: relative 1e-9 + enclosure width at resolution 1/%d" % (TOL, VOLS))
    ctx.rule = ("facet sets built from Pythagorean quadruples (w <= %d) with centrosymmetric completion and "
                "energies p/Q; named/degenerate families (cube, box, rational octahedra, hexagonal/octagonal/"
                "dodecagonal prisms, truncated cubes, rotated copies, planes touching an edge or a vertex) and "
                "generic sets of 6..%d facets with energies in [1, 2]; facet sets of 8..24 facets without centrosymmetric "
                "completion (TLC judges the bounded ones); lists of Miller planes (several terminations per plane, opposite faces listed on their own) "
                "expanded by the point group of 16 space groups through from_gmf_and_crystal; the (shape, scale) instances of MC_Wulff replayed through "
                "the real code; non-trivial = at least one facet cut off "
                "entirely or a vertex emitted more than once (more than three facets meet)"
                % (MAXW, ctx.pick(20, 60)))
    ctx.explanation = ("seeded sample of the infinite input domain; the expected polyhedron is recomputed exactly "
                       "by TLC for every trace (all plane triples by Cramer's rule)")
    ctx.assumptions = [
        "judged only when the exact shape stays within 32 length units of the origin (OOD elongated) and its "
        "distinct vertices are >= 1e-4 apart (OOD near-coincident-vertices; the code merges points below fixed "
        "absolute tolerances 1e-5 / 1e-8); both guards are evaluated by TLC on the exact vertex set",
        "float vertices are identified with the unique rational of denominator <= wmax^3 within %g "
        "(no such rational -> OnGrid rejection)" % TOL,
        "a plane that only touches the shape in a vertex or an edge may list any subset of the touched "
        "vertices (the statement does not say which)",
    ]


def replay(ctx, rec):
    t = drive(rec["record"]["meta"]["recipe"])
    ctx.validate("trace/Trace_Wulff.tla", [t], consts=CONSTS)


if __name__ == "__main__":
    raise SystemExit(main("C19", run, replay))
