"""TLAPS (tlapm) runner: proofs about the specification itself (unbounded facts that TLC checks only within bounds).
A proof run never decides a property of the implementation; its outcome is recorded in the evidence notes."""
import os
import re
import shutil
import subprocess
import tempfile

from harness.tlc import SPECS, VERIF


def prove(module_rel, timeout=300):
    """Run tlapm on specs/<module_rel> in a scratch directory. Returns {"module", "obligations", "proved", "detail"}."""
    src = os.path.join(SPECS, module_rel)
    os.makedirs(os.path.join(VERIF, "out"), exist_ok=True)
    d = tempfile.mkdtemp(prefix="tlaps-", dir=os.path.join(VERIF, "out"))
    try:
        shutil.copy(src, d)
        name = os.path.basename(src)
        for attempt in (1, 2):
            try:
                r = subprocess.run(["tlapm", "--threads", "4", name], cwd=d, text=True, stdout=subprocess.PIPE,
                                   stderr=subprocess.STDOUT, timeout=timeout)
                out = r.stdout
            except (subprocess.TimeoutExpired, FileNotFoundError) as e:
                out = "tlapm: %s" % type(e).__name__
            m = re.search(r"All (\d+) obligations? proved", out)
            if m:
                return {"module": module_rel, "obligations": int(m.group(1)), "proved": True, "detail": ""}
        return {"module": module_rel, "obligations": 0, "proved": False, "detail": out[-600:]}
    finally:
        shutil.rmtree(d, ignore_errors=True)
