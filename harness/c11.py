"""C11 - symmetry-operation forms are interchangeable; equality is modulo the lattice.

(M) MC_Symop: exhaustive design-level model of the packing, algebra and text forms.
(T) codec / spelling / shift / apply events recorded from the real SymmetryOperation class,
    validated by TLC against Trace_Symop. The thorough tier walks all 34,012,224 packed codes in
    chunks for as long as its time budget allows (evidence says how many).
"""
import os
import time

from harness.common import main, pool_map
from harness import tlc
from harness.project import grid_vec
from harness.c02 import table_rows

NCODES = 34012224
FRAC = ["", "1/12", "1/6", "1/4", "1/3", "5/12", "1/2", "7/12", "2/3", "3/4", "5/6", "11/12"]
NUMT = [
    FRAC,
    ["", "", "", "0.25", "", "", "0.5", "", "", "0.75", "", ""],
    ["", "", "", ".25", "", "", ".5", "", "", ".75", "", ""],
    ["", "", "0.1667", "", "0.3333", "", "", "", "0.6667", "", "0.8333", ""],
    ["", "0.08333", "0.16667", "0.250", "0.33333", "0.41667", "0.500", "0.58333", "0.66667", "0.750",
     "0.83333", "0.91667"],
]
PERMS = [(1, 2, 3), (1, 3, 2), (2, 1, 3), (2, 3, 1), (3, 1, 2), (3, 2, 1)]
NOISE = {0: (0, 0, 0), 1: (1e-12,) * 3, 2: (-1e-12,) * 3, 3: (1e-17,) * 3, 4: (-1e-17,) * 3,
         5: (1e-12, -1e-12, 0.0), 6: (-1e-13, 0.0, 1e-13), 7: (-1e-10, -1e-10, -1e-10)}


# ---- the harness's proposal of a spelling; TLC certifies it against Symop!Spelling ----------
def _terms(row, st, keep):
    pi = PERMS[st["pi"] - 1]
    lead = next((k for k in range(3) if row[pi[k] - 1] != 0), 3)
    out = ""
    for k in range(3):
        c = row[pi[k] - 1]
        if c == 0:
            continue
        letter = "xyz"[pi[k] - 1]
        if st["up"]:
            letter = letter.upper()
        if k == lead and st["dp"] and not keep and c > 0:
            out += letter
        else:
            out += ("-" if c < 0 else "+") + letter
    return out


def _row_spelling(row, k, st):
    if k == 0:
        t = _terms(row, st, False)
        return " " + t + " " if st["layout"] >= 3 else t
    neg = st["num"] == 6
    n = ("-" + FRAC[12 - k]) if neg else (NUMT[st["num"] - 1][k] or FRAC[k])
    lay = st["layout"]
    if lay == 1:
        return n + _terms(row, st, True)
    if lay == 2:
        return _terms(row, st, False) + ("" if neg else "+") + n
    if lay == 3:
        return n + " " + _terms(row, st, True)
    return _terms(row, st, False) + ((" - " + FRAC[12 - k]) if neg else (" + " + n))


def decode(c):
    r = c % 19683
    rot = []
    shift = 6561
    for _ in range(9):
        rot.append((r // shift) % 3 - 1)
        shift //= 3
    t = c // 19683
    return [rot[0:3], rot[3:6], rot[6:9]], [(t // 144) % 12, (t // 12) % 12, t % 12]


def propose_spelling(c, styles, sep):
    rot, tr = decode(c)
    return sep.join(_row_spelling(rot[i], tr[i], styles[i]) for i in range(3))


# ---- drivers ----------------------------------------------------------------------------------
def drive_codec(c):
    import numpy as np
    from chmpy.crystal.symmetry_operation import SymmetryOperation
    t = {"k": "codec", "c": c, "exc": "", "off": False, "rot": [0] * 9, "tr": [0, 0, 0], "rt": -1,
         "text": "", "tc": -1, "eq": False, "hasheq": False}
    try:
        op = SymmetryOperation.from_integer_code(c)
        rot = np.asarray(op.rotation, dtype=float)
        t["rot"] = [int(round(x)) for x in rot.ravel()]
        off = bool(np.any(np.abs(rot.ravel() - np.round(rot.ravel())) > 1e-9))
        tr, off2 = grid_vec(op.translation, 12, tol=1e-9)
        t["tr"], t["off"] = tr, bool(off or off2)
        op2 = SymmetryOperation(np.array(op.rotation), np.array(op.translation))
        t["rt"] = int(op2.integer_code)
        t["text"] = str(op2)
        op3 = SymmetryOperation.from_string_code(t["text"])
        t["tc"] = int(op3.integer_code)
        t["eq"] = bool(op == op2 and op2 == op3 and op == op3)
        t["hasheq"] = bool(hash(op) == hash(op2) == hash(op3))
    except Exception as e:
        t["exc"] = type(e).__name__
    return t


def drive_codec_chunk(rng_):
    lo, hi = rng_
    return [drive_codec(c) for c in range(lo, hi)]


def _read(t, text):
    """Read a text with the implementation; record the code, and how the result compares, hashes and prints against the
    same operation built from the packed integer and from the matrix."""
    import numpy as np
    from chmpy.crystal.symmetry_operation import SymmetryOperation
    t.update(code=-1, printed="", eq=False, hasheq=False)
    try:
        op = SymmetryOperation.from_string_code(text)
        t["code"] = int(op.integer_code)
        tw1 = SymmetryOperation.from_integer_code(t["code"])
        tw2 = SymmetryOperation(np.array(op.rotation), np.array(op.translation))
        t["eq"] = bool(op == tw1 and tw1 == op and op == tw2 and not (op != tw1))
        t["hasheq"] = bool(hash(op) == hash(tw1) == hash(tw2) and op in {tw1} and tw1 in {op: 1})
        t["printed"] = str(op)
        if not (str(tw1) == str(tw2) == op.cif_form == t["printed"]):
            t["printed"] = "<differs>" + t["printed"]
    except Exception as e:
        t["exc"] = type(e).__name__


def drive(recipe):
    import numpy as np
    from chmpy.crystal.symmetry_operation import SymmetryOperation
    k = recipe["k"]
    if k == "codec":
        t = drive_codec(recipe["c"])
    elif k == "spelling":
        c, styles, sep = recipe["c"], recipe["styles"], recipe["sep"]
        text = propose_spelling(c, styles, sep)
        t = {"k": k, "c": c, "styles": styles, "sep": sep, "text": text, "bytes": [ord(ch) for ch in text], "exc": "", "code": -1}
        _read(t, text)
    elif k == "text":
        text = recipe["text"]
        t = {"k": k, "bytes": [ord(ch) if ord(ch) < 256 else 63 for ch in text], "exc": "", "code": -1}
        _read(t, text)
    elif k == "shift":
        c, kv, noise, route = recipe["c"], recipe["kv"], recipe["noise"], recipe["route"]
        t = {"k": k, "c": c, "kv": kv, "kv12": recipe.get("kv12", [0, 0, 0]), "noise": noise, "route": route, "exc": "", "code": -1, "text": "",
             "eq": False, "hasheq": False, "isid": False}
        try:
            base = SymmetryOperation.from_integer_code(c)
            # besides whole lattice vectors (and noise) the shift may contain twelfths (a centring vector, an origin shift): the
            # result is then another operation, the one the specification computes (Shift)
            kv12 = recipe.get("kv12", [0, 0, 0])
            sign = -1 if route in ("sub", "isub") else 1
            from harness.c02 import _shift as _shift_code
            base_shifted = SymmetryOperation.from_integer_code(_shift_code(c, [sign * x for x in kv12]))
            delta = np.array(kv, dtype=float) + np.array(NOISE[noise], dtype=float) + np.array(kv12, dtype=float) / 12.0
            if route == "func":
                # the module-level encoders on the raw matrix form (translation outside [0, 1), e.g. x-1/2 or t - n)
                from chmpy.crystal.symmetry_operation import encode_symm_int, encode_symm_str, decode_symm_int, decode_symm_str
                rot = np.array(base.rotation)
                tr = np.array(base.translation) + delta
                code = int(encode_symm_int(rot, tr))
                text = str(encode_symm_str(rot, tr % 1))
                r2, t2 = decode_symm_int(code)
                r3, t3 = decode_symm_str(encode_symm_str(rot, tr))
                op = SymmetryOperation(np.array(r2), np.array(t2))
                op3 = SymmetryOperation(np.array(r3), np.array(t3))
                ref = base_shifted
                t["code"], t["text"] = code, text
                t["eq"] = bool(op == ref and op3 == ref and int(op.integer_code) == code == int(op3.integer_code))
                t["hasheq"] = bool(hash(op) == hash(ref) == hash(op3))
                t["isid"] = bool(op.is_identity()) and bool(op3.is_identity()) if c == 16484 else bool(op.is_identity() or op3.is_identity())
                raise StopIteration
            delta0 = delta.copy()
            if route == "ctor":
                op = SymmetryOperation(np.array(base.rotation), np.array(base.translation) + delta)
                ref = base_shifted
            elif route == "add":
                op, ref = base + delta, base_shifted
            elif route == "sub":
                op, ref = base - delta, base_shifted
            elif route in ("iadd", "isub"):
                # the augmented forms, on an operation whose packed integer, text and hash have been asked for already
                op = SymmetryOperation.from_integer_code(c)
                _ = (int(op.integer_code), str(op), hash(op), op == base, op.is_identity())
                if route == "iadd":
                    op += delta
                else:
                    op -= delta
                ref = base_shifted
            else:
                op = SymmetryOperation(np.array(base.rotation), np.array(base.translation) + delta).inverted()
                ref = base_shifted.inverted()
            t["code"] = int(op.integer_code)
            t["text"] = str(op)
            t["eq"] = bool(op == ref)
            t["hasheq"] = bool(hash(op) == hash(ref))
            t["isid"] = bool(op.is_identity())
            if not np.array_equal(delta, delta0):
                t["exc"] = "ArgumentMutated"              # the caller's shift vector comes back untouched
        except StopIteration:
            pass
        except Exception as e:
            t["exc"] = type(e).__name__
    elif k == "apply":
        c, n, pts = recipe["c"], recipe["n"], recipe["pts"]
        t = {"k": k, "c": c, "n": n, "pts": pts, "exc": "", "off": False, "out3": [], "out4": [], "call": [], "out4w2": [], "out4w3": [], "out4d": [],
             "hascart": False, "cart": []}
        try:
            op = SymmetryOperation.from_integer_code(c)
            if recipe.get("introt"):
                # the same operation built by a caller from an integer rotation matrix (and a float translation)
                op = SymmetryOperation(np.array(np.round(op.rotation), dtype=int), np.array(op.translation, dtype=float))
            x = np.array(pts, dtype=float) / n
            off = False
            o3 = op.apply(x)
            t["out3"] = []
            for row in o3:
                g, o = grid_vec(row, n, 1e-9)
                t["out3"].append(g)
                off |= o
            # a caller may edit the matrix it is handed (core/dimer.py adds a lattice shift to one): the operation is not affected
            try:
                m = op.seitz_matrix
                m *= -1.0
                m[:3, 3] += 0.25
            except Exception:
                pass
            o4 = op.apply(np.c_[x, np.ones(len(x))])
            for row in o4:
                g, o = grid_vec(row, n, 1e-9)
                t["out4"].append(g)
                off |= o
            for row in op(x):
                g, o = grid_vec(row, n, 1e-9)
                t["call"].append(g)
                off |= o
            # homogeneous coordinates need not be normalised: (w x, w) is the point x for any weight, (x, 0) is a direction
            for key, arr in (("out4w2", np.c_[2 * x, 2 * np.ones(len(x))]), ("out4w3", np.c_[3 * x, 3 * np.ones(len(x))]),
                             ("out4d", np.c_[x, np.zeros(len(x))])):
                t[key] = []
                for row in op.apply(arr):
                    g, o = grid_vec(row, n, 1e-9)
                    t[key].append(g)
                    off |= o
            if recipe.get("sg"):
                from chmpy.crystal import Crystal, UnitCell, SpaceGroup, AsymmetricUnit
                from chmpy.core.element import Element
                num, choice, idx, cell = recipe["sg"]
                sg = SpaceGroup(num, choice=choice) if choice else SpaceGroup(num)
                uc = UnitCell.from_lengths_and_angles(cell[:3], cell[3:], unit="degrees")
                cr = Crystal(uc, sg, AsymmetricUnit([Element["C"]], np.array([[0.1, 0.2, 0.3]])))
                if recipe.get("warm"):
                    # the crystal object was first used in the other trigonal setting and switched in place: the Cartesian
                    # form asked for afterwards is that of the operations of the setting it is in now
                    cr = Crystal(uc, SpaceGroup(num, choice=recipe["warm"]), AsymmetricUnit([Element["C"]], np.array([[0.1, 0.2, 0.3]])))
                    cr.cartesian_symmetry_operations()
                    cr.unit_cell_atoms()
                    cr.choose_trigonal_lattice(choice)
                    uc, sg = cr.unit_cell, cr.space_group
                if recipe.get("listed"):
                    # the operations as a file in an untabulated setting lists them (origin moved by 1/4,0,0; last first): the
                    # crystal takes the list over as given, and the k-th Cartesian operation belongs to the k-th listed one
                    ops12 = []
                    for o_ in reversed(sg.symmetry_operations):
                        Rm = np.rint(np.asarray(o_.rotation)).astype(int)
                        t12 = np.rint(np.asarray(o_.translation, dtype=float) * 12).astype(int)
                        s12 = np.array([3, 0, 0])
                        ops12.append(SymmetryOperation(Rm.astype(float), ((t12 + s12 - Rm @ s12) % 12) / 12.0))
                    cif = ["data_listed", "_cell_length_a %r" % cell[0], "_cell_length_b %r" % cell[1], "_cell_length_c %r" % cell[2],
                           "_cell_angle_alpha %r" % cell[3], "_cell_angle_beta %r" % cell[4], "_cell_angle_gamma %r" % cell[5],
                           "loop_", "_symmetry_equiv_pos_as_xyz"] + ["'%s'" % str(o_) for o_ in ops12] + [
                           "loop_", "_atom_site_label", "_atom_site_type_symbol", "_atom_site_fract_x", "_atom_site_fract_y",
                           "_atom_site_fract_z", "C1 C 0.1 0.2 0.3", ""]
                    cr = Crystal.from_cif_string("\n".join(cif))
                    uc, sg = cr.unit_cell, cr.space_group
                    if len(sg.symmetry_operations) != len(ops12):
                        raise ValueError("OperationListNotTakenOver")
                    # (the moved origin may happen to be another tabulated setting: then the crystal lists that setting's operations)
                    idx = idx % len(ops12)
                    c = int(sg.symmetry_operations[idx].integer_code)
                    t["c"] = c
                    op = SymmetryOperation.from_integer_code(c)
                    t["out3"] = [grid_vec(row, n, 1e-9)[0] for row in op.apply(x)]
                    t["out4"] = [grid_vec(row, n, 1e-9)[0] for row in op.apply(np.c_[x, np.ones(len(x))])]
                    t["call"] = [grid_vec(row, n, 1e-9)[0] for row in op(x)]
                    for key, arr in (("out4w2", np.c_[2 * x, 2 * np.ones(len(x))]), ("out4w3", np.c_[3 * x, 3 * np.ones(len(x))]),
                                     ("out4d", np.c_[x, np.zeros(len(x))])):
                        t[key] = [grid_vec(row, n, 1e-9)[0] for row in op.apply(arr)]
                rc, tc = cr.cartesian_symmetry_operations()[idx]
                assert int(sg.symmetry_operations[idx].integer_code) == c
                cart = uc.to_cartesian(x)
                back = uc.to_fractional(np.dot(cart, rc) + tc)
                t["hascart"] = True
                for row in back:
                    g, o = grid_vec(row, n, 1e-7)
                    t["cart"].append(g)
                    off |= o
            t["off"] = bool(off)
        except Exception as e:
            t["exc"] = type(e).__name__
    else:
        raise ValueError(k)
    t["meta"] = {"recipe": recipe, "source": recipe.get("src", "random"), "nontrivial": True,
                 "impl_call": "SymmetryOperation %s" % k}
    return t


MC_CFG = """SPECIFICATION Spec
CHECK_DEADLOCK FALSE
CONSTANTS
  NBlocks = 64
  Full = %s
INVARIANT PackRot
INVARIANT PackTr
INVARIANT RowTextInjective
INVARIANT ComposeCongruence
INVARIANT InverseIsInverse
INVARIANT InvertedInvolution
INVARIANT ApplyHomomorphism
INVARIANT FullPairs
"""


def rand_style(rng):
    return {"pi": rng.randint(1, 6), "up": rng.random() < 0.3, "dp": rng.random() < 0.5,
            "num": rng.randint(1, 6), "layout": rng.randint(1, 4)}


def run(ctx):
    rng = ctx.rng
    ctx.model_check("mc/MC_Symop.tla", MC_CFG % ctx.pick("FALSE", "TRUE"), name="MC_Symop", timeout=1200)
    # unbounded facts about the translation arithmetic (equality modulo the lattice, shifts, inversion), proved by TLAPS
    from harness import tlaps
    ctx.notes["tlaps"] = tlaps.prove("proofs/SymopProofs.tla")
    rows = table_rows()
    tab_codes = sorted({c for r in rows for c in r["ops"]})
    recipes = [{"k": "codec", "c": c, "src": "table"} for c in tab_codes]
    recipes += [{"k": "codec", "c": rng.randrange(NCODES)} for _ in range(ctx.pick(20000, 100000))]
    nz = [c for c in tab_codes]
    for _ in range(ctx.pick(3000, 60000)):
        recipes.append({"k": "spelling", "c": rng.choice(nz), "styles": [rand_style(rng) for _ in range(3)],
                        "sep": rng.choice([",", ", "])})
    for _ in range(ctx.pick(3000, 60000)):
        c = rng.choice(nz) if rng.random() < 0.7 else rng.randrange(NCODES)
        recipes.append({"k": "shift", "c": c, "kv": [rng.randint(-3, 3) for _ in range(3)],
                        "noise": rng.choice(list(NOISE)), "route": rng.choice(["ctor", "add", "sub", "inv", "func", "iadd", "isub"]),
                        "kv12": rng.choice([[0, 0, 0], [0, 0, 0], [6, 6, 0], [0, 6, 6], [6, 6, 6], [8, 4, 4], [3, 0, 0], [rng.randint(0, 11) for _ in range(3)]])})
    # the identity and the pure centring translations, with every kind of noise and by every route
    for c in (16484, 16484 + 19683 * (6 * 144 + 6 * 12 + 6), 16484 + 19683 * (6 * 12 + 6), 16484 + 19683 * (8 * 144 + 4 * 12 + 4), 3198):
        for noise in NOISE:
            for route in ("ctor", "add", "sub", "inv", "func", "iadd", "isub"):
                recipes.append({"k": "shift", "c": c, "kv": [rng.randint(-2, 2) for _ in range(3)], "noise": noise, "route": route})
    for _ in range(ctx.pick(600, 6000)):
        n = rng.choice([12, 24, 48])
        pts = [[rng.randint(-2 * n, 2 * n) for _ in range(3)] for _ in range(rng.randint(1, 6))]
        if rng.random() < 0.6:
            r = rng.choice(rows)
            idx = rng.randrange(len(r["ops"]))
            cell = [rng.uniform(3, 20), rng.uniform(3, 20), rng.uniform(3, 20), rng.uniform(70, 110),
                    rng.uniform(70, 110), rng.uniform(70, 110)]
            shape = rng.random()
            if shape < 0.3:
                # cells with special shapes (exact right angles, equal edges, 120 degrees): any shape-specific shortcut in the
                # Cartesian form of the operations is taken here
                cell[3:] = [90.0, 90.0, 90.0]
                if shape < 0.1:
                    cell[1] = cell[0]
                if shape < 0.05:
                    cell[2] = cell[0]
                if 0.1 <= shape < 0.2:
                    # pseudo-cubic / pseudo-tetragonal: edges that agree to a few parts per million
                    cell[1] = cell[0]
                    cell[2] = cell[0] * (1.0 + rng.choice([3e-6, 7e-6, 2e-5]))
            elif shape < 0.4:
                cell[3:] = [90.0, rng.uniform(91, 120), 90.0]
            elif shape < 0.5:
                cell[1] = cell[0]
                cell[3:] = [90.0, 90.0, 120.0]
            recipes.append({"k": "apply", "c": r["ops"][idx], "n": n, "pts": pts,
                            "sg": [r["number"], r["choice"], idx, cell]})
            if len(r["ops"]) > 1 and rng.random() < 0.25:
                recipes.append({"k": "apply", "c": r["ops"][idx], "n": n, "pts": pts, "listed": True,
                                "sg": [r["number"], r["choice"], idx, cell], "src": "operation list of an untabulated setting"})
            if r["number"] in (146, 148, 155, 160, 161, 166, 167) or rng.random() < 0.02:
                rr = r if r["choice"] in ("H", "R") else rng.choice([q for q in rows if q["choice"] in ("H", "R")])
                idx = rng.randrange(len(rr["ops"]))
                recipes.append({"k": "apply", "c": rr["ops"][idx], "n": n, "pts": pts, "warm": "R" if rr["choice"] == "H" else "H",
                                "sg": [rr["number"], rr["choice"], idx, cell], "src": "crystal switched in place"})
        else:
            recipes.append({"k": "apply", "c": rng.randrange(NCODES), "n": n, "pts": pts, "introt": rng.random() < 0.4})
    # free texts, judged by the specification's own reader (SymopText.tla): the operation strings of the repository's
    # CIF files, and rows composed term by term (any order, negative numbers, decimals of 3-5 digits, integer translations)
    import glob, re as _re
    from harness.common import REPO
    texts = set()
    for f in glob.glob(os.path.join(REPO, "src/chmpy/tests/**/*.cif"), recursive=True):
        for line in open(f, errors="replace"):
            m = _re.search(r"['\"]?\s*([-+0-9/. xyzXYZ]+,[-+0-9/. xyzXYZ]+,[-+0-9/. xyzXYZ]+)\s*['\"]?\s*$", line.strip())
            if m and _re.search(r"[xyzXYZ]", m.group(1)):
                texts.add(m.group(1).strip())
    decs = {1: ["0.0833", "0.08333"], 2: ["0.1667", "0.16667", ".1667"], 3: ["0.25", ".25", "0.250"], 4: ["0.333", "0.3333", "0.33333"],
            5: ["0.4167"], 6: ["0.5", ".5", "0.50"], 7: ["0.5833"], 8: ["0.667", "0.6667", "0.66667"], 9: ["0.75", ".75"],
            10: ["0.8333", "0.83333"], 11: ["0.9167"]}
    for _ in range(ctx.pick(1500, 30000)):
        rows_ = []
        for _r in range(3):
            axes = rng.sample([0, 1, 2], rng.choice([1, 1, 1, 2, 2, 3]))
            terms = [rng.choice(["+", "-", ""]) + "xyz"[a] for a in axes]
            if rng.random() < 0.6:
                k12 = rng.randint(1, 11)
                u = rng.random()
                if u < 0.45:
                    import math as _m
                    g = _m.gcd(k12, 12)
                    num = "%d/%d" % (k12 // g, 12 // g)
                elif u < 0.85:
                    num = rng.choice(decs[k12])
                else:
                    num = rng.choice(["1", "2", "0"])
                terms.append(rng.choice(["+", "-", ""]) + num)
            rng.shuffle(terms)
            row = ""
            for i, tm in enumerate(terms):
                if i > 0 and tm[0] not in "+-":
                    tm = "+" + tm
                row += tm
            if rng.random() < 0.2:
                row = row.upper()
            if rng.random() < 0.3:
                row = " " + row.replace("+", " + ") + " "
            rows_.append(row)
        texts.add(",".join(rows_))
    ctx.notes["free_texts"] = len(texts)
    recipes += [{"k": "text", "text": tx, "src": "free-text"} for tx in sorted(texts)]
    traces = pool_map(drive, recipes)
    ctx.validate("trace/Trace_Symop.tla", traces, batch=60000, timeout=1200)
    if any("spec-reader" in k for k in ctx.ood_reasons):
        raise tlc.TLCFailure("SymopText reader disagrees with the Symop spelling grammar: %s" % ctx.ood_reasons)
    enumerated = 0
    if not ctx.quick:
        # walk the complete code space in chunks while the budget lasts
        budget = float(os.environ.get("VERIF_C11_BUDGET_S", "1200"))
        t0 = time.time()
        chunk = 200000
        lo = 0
        while lo < NCODES and time.time() - t0 < budget:
            hi = min(NCODES, lo + chunk)
            step = max(1, (hi - lo) // 64)
            parts = [(a, min(hi, a + step)) for a in range(lo, hi, step)]
            res = pool_map(drive_codec_chunk, parts, chunksize=1)
            tr = [t for part in res for t in part]
            for t in tr:
                t["meta"] = {"recipe": {"k": "codec", "c": t["c"]}, "source": "enumeration", "nontrivial": True}
            ctx.validate("trace/Trace_Symop.tla", tr, timeout=1200, name="codec[%d,%d)" % (lo, hi))
            enumerated = hi
            lo = hi
        ctx.notes["codes_enumerated_prefix"] = enumerated
        ctx.exhaustive = enumerated >= NCODES
    ctx.rule = ("codec events for every operation code of the 530 tabulated settings (%d distinct) plus seeded random "
                "codes; spelling events = (tabulated op, random style per row) with the text certified by "
                "Symop!Spelling; shift events = integer offsets -3..3 x 8 noise patterns x 4 routes; apply events on "
                "grid points incl. Cartesian form through Crystal.cartesian_symmetry_operations; every event is "
                "non-trivial; thorough additionally enumerates the packed-code space [0, %d) as a prefix of length "
                "%d" % (len(tab_codes), NCODES, enumerated))
    ctx.explanation = "design-level MC of Symop exhaustive; implementation events sampled except where noted"
    ctx.assumptions = ["float outputs are projected to the 1/12 (translations) or 1/N (points) grid with residual <= 1e-9 "
                       "(1e-7 for the Cartesian pull-back); a larger residual is shipped as offgrid and rejected"]


def replay(ctx, rec):
    ctx.validate("trace/Trace_Symop.tla", [drive(rec["record"]["meta"]["recipe"])])


if __name__ == "__main__":
    raise SystemExit(main("C11", run, replay))
