"""C04 - unit-cell molecules partition the cell into whole, symmetry-related molecules.

(M) MC_Molecules: the BFS shift accumulation of unit_cell_molecules on small periodic graphs.
(T) real molecular crystals on exact grids in all 530 settings -> Trace_Molecules.
"""
from harness.common import main, pool_map
from harness import xtal
from harness.c02 import table_rows
from harness.project import to_grid

MC_CFG = """SPECIFICATION Spec
CHECK_DEADLOCK FALSE
CONSTANTS
  NNodes = %d
  MaxShift = 1
INVARIANT TypeOK
INVARIANT UnwrapCorrect
INVARIANT RecentreInside
PROPERTY Terminates
"""


def project_mol(cr, mol, n):
    import numpy as np
    off = False
    frac = np.asarray(cr.to_fractional(mol.positions), dtype=float)
    atoms = []
    asym = mol.properties.get("asymmetric_unit_atoms")
    gen = mol.properties.get("generator_symop")
    for i in range(len(frac)):
        p = []
        for x in frac[i]:
            k, o = to_grid(float(x), n, 1e-6)
            p.append(k)
            off |= o
        atoms.append({"p": p, "z": int(mol.atomic_numbers[i]),
                      "asym": int(asym[i]) + 1 if asym is not None else 0,
                      "op": int(gen[i]) if gen is not None else -1})
    return atoms, off


def drive(rec):
    n = rec["n"]
    t = {"n": n, "gram": rec["gram"], "asym": rec["asym"], "mols": rec["mols"], "bonds": rec["bonds"], "ops": [],
         "switched": bool(rec.get("via_switch")), "pre": rec.get("pre", {}), "choice": rec["choice"],
         "thr": xtal.bond_table(rec), "mass": xtal.mass_table(rec), "u2m": int(rec.get("u2m", 0)), "tol100": int(round(100 * rec.get("bond_tolerance", 0.4))), "exc_conn": "", "exc_mols": "",
         "exc_unique": "", "off": False, "ucpts": [], "edges": [], "ucmols": [], "unique": [], "bfs": [],
         "meta": {"recipe": rec, "source": rec.get("src", "random"),
                  "impl_call": "Crystal(...%d %r).unit_cell_connectivity/unit_cell_molecules/symmetry_unique_molecules" % (
                      rec["number"], rec["choice"]),
                  "nontrivial": True}}
    try:
        cr = xtal.build_crystal(rec)
    except Exception as e:
        if not rec.get("via_switch"):
            raise
        t["ops"] = list(rec.get("table_ops", []))
        t["exc_conn"] = "switch:" + type(e).__name__
        return t
    t["ops"] = [int(s.integer_code) for s in cr.space_group.symmetry_operations]
    off = False
    if len(rec["asym"]) % 3 == 0:
        # a crystal that was exported (POSCAR, CIF) before anybody asked for its molecules
        for use in (cr.to_poscar_string, cr.to_cif_string):
            try:
                use()
            except Exception:
                pass
    if rec.get("bond_tolerance", 0.4) != 0.4 and len(rec["asym"]) % 2 == 0:
        # a caller who asks for the molecules straight away (the connectivity is then computed on their behalf)
        try:
            if rec.get("bond_via") == "radii":
                extra = (rec["bond_tolerance"] - 0.4) / 2.0
                cr.symmetry_unique_molecules(covalent_radii={int(s["z"]): xtal.COV[s["z"]] + extra for s in rec["asym"]})
            else:
                cr.symmetry_unique_molecules(bond_tolerance=rec["bond_tolerance"])
        except Exception:
            pass
    try:
        uc = cr.unit_cell_atoms()
        import numpy as _np
        uc_first = {k: _np.array(uc[k], copy=True) for k in ("frac_pos", "cart_pos", "element", "asym_atom")}
        rows, _, o = xtal.project_rows(uc, n, None, rec["u"])
        off |= o
        t["ucpts"] = [{"p": r["p"], "z": r["z"]} for r in rows]
        kw = {} if rec.get("bond_tolerance", 0.4) == 0.4 else {"bond_tolerance": rec["bond_tolerance"]}
        ckw = {"tolerance": rec["bond_tolerance"]} if kw else {}
        if kw and rec.get("bond_via") == "radii":
            # the same bonding rule asked for through enlarged covalent radii (every radius + (tolerance - 0.4) / 2) instead
            # of through the tolerance
            extra = (rec["bond_tolerance"] - 0.4) / 2.0
            radii = {int(s["z"]): xtal.COV[s["z"]] + extra for s in rec["asym"]}
            kw = {"covalent_radii": radii}
            ckw = {"covalent_radii": radii}
        graph, props = cr.unit_cell_connectivity(**ckw)
        # a bond is the unordered pair: an implementation may list it once (lower index first, as documented) or in both
        # directions with opposite translations - the same edge; two listings that disagree stay two (and fail the count)
        seen = set()
        for (i, j), cell in props.items():
            c = [int(round(float(x))) for x in cell]
            i, j = int(i), int(j)
            if i > j:
                i, j, c = j, i, [-x for x in c]
            if (i, j, tuple(c)) in seen:
                continue
            seen.add((i, j, tuple(c)))
            t["edges"].append([i + 1, j + 1, c])
    except Exception as e:
        t["exc_conn"] = type(e).__name__
        return t
    try:
        try:
            from chmpy.util import _verif          # step events (hook commit in /repo, guard CHMPY_VERIF=1)
            _verif.install(lambda ev: t["bfs"].append({"root": ev[1] + 1, "i": ev[2] + 1, "j": ev[3] + 1,
                                                       "shift": [int(round(x)) for x in ev[4]]}) if ev[0] == "bfs_edge" else None)
        except ImportError:
            _verif = None
        try:
            mols = cr.unit_cell_molecules(**kw)
        finally:
            if _verif is not None:
                _verif.install(None)
        for m in mols:
            atoms, o = project_mol(cr, m, n)
            off |= o
            t["ucmols"].append({"atoms": atoms, "idx": 0})
    except Exception as e:
        t["exc_mols"] = type(e).__name__
        t["off"] = bool(off)
        return t
    try:
        uniq = cr.symmetry_unique_molecules(**kw)
        for m in uniq:
            atoms, o = project_mol(cr, m, n)
            off |= o
            t["unique"].append({"atoms": atoms})
        for k, m in enumerate(cr.unit_cell_molecules(**kw)):
            t["ucmols"][k]["idx"] = int(m.properties.get("asym_mol_idx", -1)) + 1
        # other questions asked of the crystal (neighbouring molecules, supercells, exports) leave its molecules where they are
        import numpy as np
        before = [np.array(m.positions, copy=True) for m in cr.unit_cell_molecules(**kw)]
        def shell_moved():
            # the neighbours handed out are the caller's to move (a dimer scan shifts them about)
            for m in cr.molecular_shell(mol_idx=0, radius=3.5):
                m.translate(np.array([3.0, -1.0, 2.0]))
                m.positions *= 1.5

        def dimers_moved():
            uniq, per = cr.symmetry_unique_dimers(radius=3.0)
            for dd in uniq:
                dd.b.translate(np.array([1.0, 2.0, -3.0]))        # (dd.a IS the crystal's unique molecule: left alone)
        for use in (shell_moved, dimers_moved, lambda: cr.molecular_shell(mol_idx=0, radius=3.0), lambda: cr.as_P1_supercell((2, 1, 1)),
                    lambda: cr.to_translational_symmetry((1, 2, 1)), lambda: cr.to_poscar_string(), lambda: cr.molecule_environments(radius=3.0)):
            try:
                use()
            except Exception:
                pass
        after = cr.unit_cell_molecules(**kw)
        if len(after) != len(before) or any(not np.array_equal(np.asarray(m.positions), b) for m, b in zip(after, before)):
            t["exc_unique"] = "MoleculesMovedByLaterCalls"
        # ... and the unit-cell atoms it hands out are still the ones it handed out before the molecules were asked for
        uc2 = cr.unit_cell_atoms()
        if any(not np.array_equal(np.asarray(uc2[k]), v) for k, v in uc_first.items()):
            t["exc_unique"] = "UnitCellAtomsChangedByLaterCalls"
    except Exception as e:
        t["exc_unique"] = type(e).__name__
    t["off"] = bool(off)
    t["meta"]["nontrivial"] = len(t["ops"]) > 1
    # how many molecules were unwrapped across a cell boundary (non-trivial unwrapping)
    return t


def gen_chain(rng, row):
    """A zig-zag carbon chain of 20-26 atoms in P1 / P-1, running at an angle to a short (5 A) cell edge so that it extends
    over several cell lengths along -a from its first-listed atom; neighbouring chains at least 2.6 A apart."""
    import math
    import numpy as np
    n = 48
    for _ in range(200):
        la, lb, lc = rng.uniform(4.8, 5.6), rng.uniform(11.0, 14.0), rng.uniform(32.0, 38.0)
        gram = [[int(round(la * la * 4)), 0, 0], [0, int(round(lb * lb * 4)), 0], [0, 0, int(round(lc * lc * 4))]]
        u, u2m = 0.5, 250000
        s2 = u * u / (n * n)
        cand = np.array([(a, 0, c) for a in range(-14, 0) for c in range(0, 4)], dtype=np.int64)
        d2 = xtal._gdot(gram, cand) * s2
        steps = cand[(d2 >= 1.25 ** 2) & (d2 <= 1.5 ** 2)]
        if len(steps) < 2:
            continue
        v1 = steps[rng.randrange(len(steps))]
        v2 = steps[rng.randrange(len(steps))]
        if tuple(v1) == tuple(v2) or float(xtal._gdot(gram, (v1 + v2)[None, :])[0]) * s2 < 2.3 ** 2:
            continue
        k = rng.randint(20, 26)
        p = np.array([n - 1 - rng.randint(0, 3), rng.randrange(n), rng.randint(0, 3)], dtype=np.int64)
        pts = [p]
        for i in range(1, k):
            pts.append(pts[-1] + (v1 if i % 2 else v2))
        asym = [{"z": 6, "p": [int(x) for x in q], "occ": 12, "label": "C%d" % (i + 1)} for i, q in enumerate(pts)]
        ops = row["ops"]
        allp = [xtal.apply_grid(c, s["p"], n) for s in asym for c in ops]
        if len(set(allp)) != len(allp):
            continue
        uc = np.array(allp, dtype=np.int64)
        cells = np.array([(a, b, c) for a in range(-8, 9) for b in (-1, 0, 1) for c in (-1, 0, 1)], dtype=np.int64) * n
        ok = True
        own = {tuple(int(x) for x in q): i for i, q in enumerate(pts)}
        for i, q in enumerate(pts):
            base = (q // n) * n
            img = uc[:, None, :] + cells[None, :, :] + base[None, None, :]
            dd = xtal._gdot(gram, img - q[None, None, :]) * s2
            for bi, ci in np.argwhere(dd < 2.6 ** 2):
                j = own.get(tuple(int(x) for x in img[bi, ci]))
                if j is None or abs(j - i) > 1:
                    ok = False
                    break
            if not ok:
                break
        if not ok:
            continue
        if rng.random() < 0.3:
            asym = list(reversed(asym))                 # listed from the other end
            bonds = [[k - i, k - i + 1] for i in range(1, k)]
        else:
            bonds = [[i, i + 1] for i in range(1, k)]
        for i, s in enumerate(asym):
            s["label"] = "C%d" % (i + 1)
        return {"number": row["number"], "choice": row["choice"], "n": n, "gram": gram, "u": u, "u2m": u2m, "asym": asym,
                "mols": [list(range(1, k + 1))], "bonds": bonds, "route": "params", "bond_tolerance": 0.4,
                "src": "chain over several cell lengths"}
    return None


def gen(args):
    import random
    row, seed, nmols, sizes = args
    rng = random.Random(seed)
    if nmols == "chain":
        rec = gen_chain(rng, row)
        return rec if rec is not None else {"__none__": True, "meta": {}}
    if nmols == "switched":
        # used in hexagonal axes, then switched in place to rhombohedral axes (see xtal.switched_recipe)
        pq = (rng.randint(1, 6), rng.randint(1, 12))
        gram = [[18 * pq[0], -9 * pq[0], 0], [-9 * pq[0], 18 * pq[0], 0], [0, 0, 9 * pq[1]]]
        rec_h = xtal.gen_molecular(rng, row, nmols=rng.choice([1, 1, 2]), sizes=sizes, gram_fn=lambda r: gram, max_tries=80)
        rec = xtal.switched_recipe(rec_h, table_rows()) if rec_h is not None else None
        if rec is not None:
            rec["src"] = "switched in place H->R after use"
        return rec if rec is not None else {"__none__": True, "meta": {}}
    if nmols == "stretched":
        # the caller asks for a generous bonding tolerance (0.9 A) and the molecules have bonds only that tolerance accepts
        rec = xtal.gen_molecular(rng, row, nmols=1, sizes=sizes, bond_tolerance=0.9, vol_per_atom=rng.choice([48.0, 60.0]), max_tries=150)
        if rec is not None:
            rec["src"] = "bond_tolerance=0.9"
            if rng.random() < 0.5:
                rec["bond_via"] = "radii"
                rec["src"] = "covalent_radii enlarged by 0.25"
        return rec if rec is not None else {"__none__": True, "meta": {}}
    if nmols == "oblique":
        # strongly oblique cells, molecules across faces: a bond may cross a face steeply
        rh = row["number"] in (146, 148, 155, 160, 161, 166, 167) and row["choice"] == "R"
        gf = (lambda r: xtal.oblique_gram(r, rhombohedral=rh)) if (rh or row["number"] <= 2) else (lambda r: xtal.sym_gram(row["ops"], r, oblique=True, maxentry=1500))
        rec = xtal.gen_molecular(rng, row, nmols=rng.choice([1, 2]), sizes=sizes, gram_fn=gf, boundary_prob=0.9, with_h=False,
                                 vol_per_atom=rng.choice([20.0, 26.0, 32.0]), min_vol=60.0, max_tries=200, face_bond=True)
        if rec is not None:
            rec["src"] = "oblique cell"
        return rec if rec is not None else {"__none__": True, "meta": {}}
    if nmols == "heavy":
        # molecules with terminal Cl / Br / I / S atoms at ordinary single-bond lengths (C-I 2.06-2.36 A ...)
        rec = xtal.gen_molecular(rng, row, nmols=1, sizes=sizes, halogens=0.6, vol_per_atom=rng.choice([44.0, 56.0]), max_tries=120)
        if rec is not None:
            rec["src"] = "heavy terminal atoms"
        return rec if rec is not None else {"__none__": True, "meta": {}}
    if nmols == 1 and rng.random() < 0.08 and len(row["ops"]) <= 16:
        # solid dihydrogen: the only bond is between two hydrogens
        rec = xtal.gen_molecular(rng, row, nmols=rng.choice([1, 2]), sizes=(2,), n=48, h2=True, vol_per_atom=rng.choice([14.0, 18.0]), max_tries=120)
        if rec is not None:
            rec["src"] = "dihydrogen"
            return rec
    if nmols == 2 and rng.random() < 0.5:
        sizes = (sizes[0],) if isinstance(sizes, tuple) and len(sizes) else sizes       # two molecules of one size
    rec = xtal.gen_molecular(rng, row, nmols=nmols, sizes=sizes)
    if rec is not None and len(rec["mols"]) >= 2 and rng.random() < 0.7:
        # atom names as macromolecular files give them: the same names in every molecule (O1 H2 H3 | O1 H2 H3)
        for mol in rec["mols"]:
            for k, i in enumerate(mol):
                rec["asym"][i - 1]["label"] = "A%d" % (k + 1)
        rec["src"] = "atom names repeated in every molecule"
    return rec if rec is not None else {"__none__": True, "meta": {}}


def make_recipes(ctx, rows, per_setting):
    jobs = []
    for i, r in enumerate(rows):
        for k in range(per_setting):
            big = len(r["ops"]) > 48
            nm = 1 if (k == 0 or big) else ctx.rng.choice([1, 2, 2, 3])
            if k == 0 and i % 3 == 0 and not big:
                nm = 2
            sizes = (2, 3) if big else ctx.rng.choice([(2, 3, 4), (2, 3, 4, 5), (2, 4), (3,)])
            jobs.append((r, ctx.seed * 1000003 + i * 31 + k, nm, sizes))
    small = [r for r in rows if len(r["ops"]) <= 16]
    for j in range(ctx.pick(48, 1500)):
        jobs.append((small[(j * 37 + ctx.seed) % len(small)], ctx.seed * 19 + 6000 + j, "heavy", (2, 3) if j % 3 else (2, 3, 4)))
    for j in range(ctx.pick(40, 1200)):
        jobs.append((small[(j * 41 + ctx.seed) % len(small)], ctx.seed * 29 + 8000 + j, "stretched", (2, 3) if j % 2 else (2, 3, 4)))
    tri = [r for r in rows if r["number"] <= 2]
    for j in range(ctx.pick(16, 300)):
        jobs.append((tri[j % 2], ctx.seed * 37 + 11000 + j, "chain", ()))
    obl = [r for r in rows if r["number"] <= 15 or (r["number"] in (146, 148, 155, 160, 161, 166, 167) and r["choice"] == "R")]
    obl = obl + [r for r in obl if r["number"] <= 2] * 30 + [r for r in obl if r["number"] >= 146] * 4     # half of them triclinic
    for j in range(ctx.pick(120, 3000)):
        jobs.append((obl[(j * 43 + ctx.seed) % len(obl)], ctx.seed * 31 + 9000 + j, "oblique", (2, 3, 4) if j % 2 else (3, 4, 5)))
    hex_rows = [r for r in rows if r["number"] in (146, 148, 155, 160, 161, 166, 167) and r["choice"] == "H"]
    for j in range(max(7, 2 * per_setting * 7)):
        jobs.append((hex_rows[j % 7], ctx.seed * 17 + 4000 + j, "switched", (2, 3) if j % 2 else (2, 3, 4)))
    recs = pool_map(gen, jobs)
    return [r for r in recs if "__none__" not in r]


def run(ctx):
    rows = table_rows()
    ctx.model_check("mc/MC_Molecules.tla", MC_CFG % ctx.pick(3, 4), name="MC_Molecules", timeout=ctx.pick(300, 1500))
    recs = make_recipes(ctx, rows, ctx.pick(1, 16))
    ctx.notes["structures_generated"] = len(recs)
    traces = pool_map(drive, recs)
    ctx.validate("trace/Trace_Molecules.tla", traces, batch=2000, timeout=1800)
    ctx.rule = ("every tabulated setting x %d seeded molecular crystals: 1-3 rigid mini-molecules (2-5 atoms of C/N/O/F/H, equal "
                "or different sizes) on general grid positions (N=48), deliberately placed across cell faces/edges/corners, "
                "cell from a symmetrised integer Gram matrix scaled so that non-bonded contacts exceed 2.2 A; the domain guard "
                "(all contacts clear of the bonding threshold) is evaluated by TLC; non-trivial = group order > 1" % ctx.pick(1, 16))
    ctx.explanation = "settings enumerated completely; placements, compositions and cells sampled"
    ctx.assumptions = ["bonding thresholds are the library's covalent radii + 0.4 A with a +-0.08 A guard band evaluated by TLC",
                       "molecule coordinates are projected to the 1/48 grid (residual > 1e-6 rejected)"]


def replay(ctx, rec):
    ctx.validate("trace/Trace_Molecules.tla", [drive(rec["record"]["meta"]["recipe"])])


if __name__ == "__main__":
    raise SystemExit(main("C04", run, replay))
