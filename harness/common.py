"""Shared plumbing for all property checks: context, trace batching, verdict bookkeeping,
evidence, violations, known findings.

Exit codes: 0 = property held on everything explored (known findings are printed, not alarmed),
1 = at least one VIOLATION line, 2 = machinery failure (never converted into 0/1).
"""
import hashlib
import json
import os
import random
import sys
import time
import traceback

VERIF = os.path.dirname(os.path.dirname(os.path.abspath(__file__)))
REPO = os.environ.get("VERIF_REPO", "/repo")
sys.path.insert(0, os.path.join(REPO, "src"))
os.environ.setdefault("CHMPY_VERIF", "1")     # hook guard (MANIFEST.hooks.guard)

from harness import tlc  # noqa: E402


def stable_hash(obj):
    return hashlib.sha1(json.dumps(obj, sort_keys=True, default=str).encode()).hexdigest()[:12]


class Ctx:
    def __init__(self, pid, tier="quick", seed=0):
        self.pid = pid
        self.tier = tier
        self.seed = int(seed)
        self.rng = random.Random(self.seed * 1000003 + int(pid[1:]))
        self.t0 = time.time()
        self.states = 0
        self.transitions = 0
        self.tlc_runs = []
        self.accepted = 0
        self.rejected = 0
        self.ood = 0
        self.nontrivial = set()
        self.evaluations = 0
        self.samples = []
        self.violations = []       # (clause, record)
        self.known_hits = {}       # finding id -> count
        self.ood_reasons = {}
        self.accept_notes = {}
        self.notes = {}
        self.rule = ""
        self.assumptions = []
        self.exhaustive = False
        self.explanation = ""
        self.actions_never_taken = []
        self.findings = load_findings(pid)

    @property
    def quick(self):
        return self.tier == "quick"

    def pick(self, quick, thorough):
        return quick if self.quick else thorough

    # ---------------------------------------------------------------- model checking (M)
    def model_check(self, module, cfg, name=None, data_driven=False, env=None, extension=False, **kw):
        """Run a bounded exhaustive TLC instance. A violated invariant of a purely design-level
        model is a machinery failure (the committed spec must satisfy its own properties); of a
        data-driven model (constants exported from the tree) it is a property violation."""
        res = tlc.run(module, cfg, env=env, **kw)
        self._account(res, name or res.module)
        if not res.ok and extension and res.violated:
            # behaviour specified beyond the listed property: reported, recorded in the evidence, never a verdict on the property
            msg = "%s: %s" % (res.module, ",".join(res.violated))
            self.notes.setdefault("extension_violations", []).append(msg)
            print("EXTENSION-NOTE: property=%s (specified beyond the listed property; not a verdict on it) %s" % (self.pid, msg))
            return res
        if not res.ok:
            if data_driven:
                rec = {"kind": "model", "module": res.module, "violated": res.violated,
                       "errors": res.errors, "tail": res.stdout[-4000:]}
                self.violation("Model:" + ",".join(res.violated or ["error"]), rec)
            else:
                raise tlc.TLCFailure("design-level model %s violated %s / %s\n%s" % (
                    res.module, res.violated, res.errors, res.stdout[-3000:]))
        return res

    def _account(self, res, name):
        self.states += res.distinct
        self.transitions += res.generated
        self.tlc_runs.append({"name": name, "module": res.module, "generated": res.generated,
                              "distinct": res.distinct, "depth": res.depth,
                              "wall_s": round(res.wall_s, 2)})
        for k, (d, t) in res.coverage.items():
            if t == 0:
                self.actions_never_taken.append(k)

    # ---------------------------------------------------------------- trace validation (T)
    def validate(self, module, traces, consts="", name=None, batch=None, nblocks=64, env=None,
                 nontrivial=None, sample_every=None, extra_data=None, extension=False, **kw):
        """Ship `traces` (list of dicts with at least 'input'/'events' and 'meta') to the trace
        spec `module`; returns {index: verdict}. Verdict strings come from TLC."""
        if not traces:
            return {}
        out = {}
        batch = batch or len(traces)
        for b0 in range(0, len(traces), batch):
            chunk = traces[b0:b0 + batch]
            d = tlc.scratch_dir("batch")
            path = os.path.join(d, "traces.json")
            payload = {"traces": [strip_meta(t) for t in chunk]}
            if extra_data:
                payload.update(extra_data)
            tlc.write_json(path, payload)
            cfg = "SPECIFICATION TraceSpec\nCHECK_DEADLOCK FALSE\nCONSTANTS\n  NBlocks = %d\n%s\n" % (
                min(nblocks, len(chunk)), consts)
            e = {"TRACE_FILE": path}
            if env:
                e.update(env)
            try:
                # a TLC run that dies (no verdict for some trace, internal error) is a machinery failure, never a
                # verdict; it is retried once because it has been seen to happen intermittently under heavy machine load
                for attempt in (1, 2):
                    problem = None
                    try:
                        res = tlc.run(module, cfg, env=e, **kw)
                        v = tlc.verdicts(res)
                        if not res.ok:
                            problem = "trace spec %s failed: %s %s\n%s" % (res.module, res.violated, res.errors, res.stdout[-3000:])
                        elif len(v) != len(chunk):
                            problem = "trace spec %s returned %d verdicts for %d traces\n%s" % (
                                res.module, len(v), len(chunk), res.stdout[-3000:])
                    except tlc.TLCFailure as ex:
                        problem = str(ex)
                    if problem is None:
                        break
                    fdir = os.path.join(VERIF, "out", "tlc-failures")
                    os.makedirs(fdir, exist_ok=True)
                    with open(os.path.join(fdir, "%s-%d-%d.log" % (self.pid, os.getpid(), attempt)), "w") as fh:
                        fh.write(problem)
                    if attempt == 2:
                        raise tlc.TLCFailure(problem)
                    self.notes["tlc_retries"] = self.notes.get("tlc_retries", 0) + 1
            finally:
                tlc.cleanup(d)
            self._account(res, name or res.module)
            for k, text in v.items():
                out[b0 + k - 1] = text
        if extension:
            # behaviour specified beyond the listed property: tallied and reported apart, never a verdict on the property
            tally = {"module": module, "accepted": 0, "out_of_domain": 0, "rejected": {}}
            for i, t in enumerate(traces):
                v = out[i]
                if v.startswith("ACCEPT"):
                    tally["accepted"] += 1
                elif v.startswith("OOD"):
                    tally["out_of_domain"] += 1
                elif v.startswith("REJECT"):
                    c = v[len("REJECT"):].strip()
                    tally["rejected"][c] = tally["rejected"].get(c, 0) + 1
                else:
                    raise tlc.TLCFailure("unparseable verdict %r" % v)
            self.notes.setdefault("extension_traces", []).append(tally)
            for c, n in sorted(tally["rejected"].items()):
                msg = "%s: %s (%d traces)" % (module, c, n)
                self.notes.setdefault("extension_violations", []).append(msg)
                print("EXTENSION-NOTE: property=%s (specified beyond the listed property; not a verdict on it) %s" % (self.pid, msg))
            return out
        for i, t in enumerate(traces):
            self.record(t, out[i], nontrivial=nontrivial)
        # an accepted trace may carry a remark on behaviour specified beyond the listed property (ACCEPT ext=<clause>)
        beyond = {}
        for i in range(len(traces)):
            if out[i].startswith("ACCEPT") and " ext=" in out[i]:
                c = out[i].split(" ext=", 1)[1].strip()
                beyond[c] = beyond.get(c, 0) + 1
        for c, n in sorted(beyond.items()):
            msg = "%s: %s (%d traces)" % (module, c, n)
            self.notes.setdefault("extension_violations", []).append(msg)
            print("EXTENSION-NOTE: property=%s (specified beyond the listed property; not a verdict on it) %s" % (self.pid, msg))
        return out

    def record(self, trace, verdict, nontrivial=None):
        self.evaluations += 1
        if verdict.startswith("ACCEPT"):
            self.accepted += 1
            if verdict != "ACCEPT":
                self.accept_notes[verdict] = self.accept_notes.get(verdict, 0) + 1
            nt = trace.get("meta", {}).get("nontrivial", True) if nontrivial is None else nontrivial(trace)
            if nt:
                self.nontrivial.add(stable_hash(trace.get("input", trace)))
            if len(self.samples) < 4 and (nt or self.evaluations > 50):
                self.samples.append(compact(trace, verdict))
        elif verdict.startswith("OOD"):
            self.ood += 1
            self.ood_reasons[verdict] = self.ood_reasons.get(verdict, 0) + 1
        elif verdict.startswith("REJECT"):
            self.rejected += 1
            self.violation(verdict[len("REJECT"):].strip(), trace)
        else:
            raise tlc.TLCFailure("unparseable verdict %r" % verdict)

    # ---------------------------------------------------------------- violations / findings
    def violation(self, clause, record):
        """`clause` may end with ' KF=<tag>' when the spec's KnownFinding predicate matched."""
        tag = None
        if " KF=" in clause:
            clause, tag = clause.split(" KF=", 1)
            tag = tag.strip()
        if tag is None:
            tag = (record.get("meta", {}) or {}).get("kf")
        f = self.findings.get(tag) if tag else None
        if f and f.get("status") == "open":
            self.known_hits[tag] = self.known_hits.get(tag, 0) + 1
            return
        self.violations.append((clause, record))

    def finish(self, level="model_checking"):
        wall = time.time() - self.t0
        vdir = os.path.join(VERIF, "out", "violations")
        lines = []
        for tag, n in sorted(self.known_hits.items()):
            f = self.findings[tag]
            lines.append("KNOWN-FINDING: property=%s %s [%s, %d case(s) this run]" % (
                self.pid, f["what"], tag, n))
        seen = set()
        for clause, rec in self.violations:
            os.makedirs(vdir, exist_ok=True)
            h = stable_hash([clause, rec.get("meta", rec)])
            if h in seen:
                continue
            seen.add(h)
            path = os.path.join(vdir, "%s-%s.json" % (self.pid, h))
            with open(path, "w") as fh:
                json.dump({"property": self.pid, "clause": clause, "record": rec}, fh, indent=1,
                          default=str)
            if len(seen) <= 20:
                lines.append("VIOLATION property=%s replay=%s clause=%s" % (self.pid, path, clause))
        cov = {
            "states": self.states,
            "transitions": self.transitions,
            "traces_validated_against_impl": self.accepted,
            "evaluations": max(self.evaluations, 1) if self.evaluations else len(self.tlc_runs),
            "distinct_nontrivial": len(self.nontrivial),
            "rule": self.rule,
            "samples": self.samples[:5] or [{"note": "model-checking runs only", "runs": self.tlc_runs[:3]}],
            "rejected": self.rejected,
            "out_of_domain": self.ood,
            "out_of_domain_reasons": self.ood_reasons,
            "accept_notes": self.accept_notes,
            "known_finding_hits": self.known_hits,
            "tlc_runs": self.tlc_runs,
            "actions_never_taken": sorted(set(self.actions_never_taken)),
            "exhaustive": bool(self.exhaustive),
            "explanation": self.explanation,
            "checker_cmd": "tlc (tla2tools 1.8.0) via /verif/harness/tlc.py",
            "notes": self.notes,
        }
        ev = {
            "property_id": self.pid,
            "tier": self.tier,
            "seed": self.seed,
            "level": level,
            "coverage": cov,
            "assumptions": self.assumptions,
            "wall_s": round(wall, 2),
            "violations": len(seen),
        }
        evdir = os.environ.get("VERIF_EVIDENCE_DIR") or os.path.join(VERIF, "evidence")
        os.makedirs(evdir, exist_ok=True)
        with open(os.path.join(evdir, self.pid + ".json"), "w") as fh:
            json.dump(ev, fh, indent=1, default=str)
        for ln in lines:
            print(ln)
        print("%s tier=%s seed=%d: TLC states=%d transitions=%d traces accepted=%d rejected=%d ood=%d "
              "known=%d violations=%d wall=%.1fs" % (
                  self.pid, self.tier, self.seed, self.states, self.transitions, self.accepted,
                  self.rejected, self.ood, sum(self.known_hits.values()), len(seen), wall))
        return 1 if seen else 0


def strip_meta(t):
    return {k: v for k, v in t.items() if k != "meta"}


def compact(trace, verdict, limit=1500):
    s = json.dumps(strip_meta(trace), default=str)
    if len(s) > limit:
        s = s[:limit] + "...(truncated)"
    return {"verdict": verdict, "meta": trace.get("meta", {}), "trace": s}


def load_findings(pid):
    path = os.path.join(VERIF, "known_findings.json")
    out = {}
    if os.path.exists(path):
        with open(path) as fh:
            data = json.load(fh)
        for f in data.get("findings", []):
            if f.get("property") == pid:
                out[f["id"]] = f
    return out


_FN = None
POOL_TIMEOUT = 2400          # seconds for one pool_map (set from the tier by main)


class ImplementationCrash(Exception):
    """The process driving the implementation died (no Python exception): an observation about the implementation."""
    def __init__(self, recipe):
        Exception.__init__(self, "process died")
        self.recipe = recipe


def _call(x):
    """Top-level trampoline (picklable); harness exceptions are returned, not raised."""
    try:
        return _FN(x)
    except Exception as e:
        # an exception that escapes a driver: raised inside library code (innermost frame under the repository's source tree or
        # its compiled modules) it is an observation about the implementation that the driver failed to record as such - reported
        # as a violation, not as a failure of the machinery; raised in the harness itself it is a harness bug
        frames = traceback.extract_tb(e.__traceback__)
        inner = frames[-1].filename if frames else ""
        if "/chmpy/" in inner and "/verif/" not in inner:
            return {"__impl_error__": traceback.format_exc()[-1500:], "meta": {"recipe": x}}
        return {"__harness_error__": traceback.format_exc(), "meta": {"recipe": x}}


def pool_map(fn, items, procs=None, chunksize=None):
    """Drive the implementation in parallel forked processes, preserving order. An exception
    escaping `fn` is a harness bug (implementation exceptions are observations recorded by the
    drivers themselves) and is raised as a machinery failure."""
    import multiprocessing as mp
    global _FN
    items = list(items)
    if not items:
        return []
    _FN = fn
    procs = procs or min(16, os.cpu_count() or 1, len(items))
    if procs <= 1:
        out = [_call(x) for x in items]
    else:
        # a worker that dies while it drives the implementation (a crash of the interpreter inside library code: a segmentation
        # fault in a compiled routine handed memory it must not touch) would leave multiprocessing.Pool waiting for ever; the
        # executor reports it, the items are then driven one by one in processes of their own to find the one that kills, and
        # that is reported as a violation (ImplementationCrash) - never a hang
        from concurrent.futures import ProcessPoolExecutor
        from concurrent.futures.process import BrokenProcessPool
        ctx = mp.get_context("fork")
        try:
            with ProcessPoolExecutor(max_workers=procs, mp_context=ctx) as ex:
                try:
                    out = list(ex.map(_call, items, chunksize=chunksize or max(1, len(items) // (procs * 4)), timeout=POOL_TIMEOUT))
                except TimeoutError:
                    # library code that does not come back: the workers are killed, the run ends with a verdict
                    for pr in list(getattr(ex, "_processes", {}).values()):
                        try:
                            pr.kill()
                        except Exception:
                            pass
                    raise ImplementationCrash({"hang": "no answer within %d s" % POOL_TIMEOUT, "first_item": items[0]})
        except BrokenProcessPool:
            culprit = None
            for x in items[:4000]:
                try:
                    with ProcessPoolExecutor(max_workers=1, mp_context=ctx) as ex1:
                        ex1.submit(_call, x).result(timeout=600)
                except BrokenProcessPool:
                    culprit = x
                    break
                except Exception:
                    culprit = x
                    break
            raise ImplementationCrash(culprit)
    for t in out:
        if isinstance(t, dict) and "__impl_error__" in t:
            raise ImplementationCrash({"unrecorded_exception": t["__impl_error__"], "recipe": t["meta"]["recipe"]})
    for t in out:
        if isinstance(t, dict) and "__harness_error__" in t:
            raise tlc.TLCFailure("harness driver failed:\n" + t["__harness_error__"])
    return out


def safe_drive(fn):
    return fn


def main(pid, run_fn, replay_fn=None):
    import argparse
    ap = argparse.ArgumentParser()
    ap.add_argument("--tier", default=os.environ.get("VERIF_TIER", "quick"), choices=["quick", "thorough"])
    ap.add_argument("--seed", type=int, default=int(os.environ.get("VERIF_SEED", "0") or 0))
    ap.add_argument("--replay")
    ap.add_argument("--explain", action="store_true")
    a = ap.parse_args(sys.argv[2:] if len(sys.argv) > 1 and sys.argv[1] == pid else None)
    ctx = Ctx(pid, a.tier, a.seed)
    global POOL_TIMEOUT
    POOL_TIMEOUT = 2400 if a.tier == "quick" else 6 * 3600
    try:
        if a.replay:
            with open(a.replay) as fh:
                rec = json.load(fh)
            if replay_fn is None:
                print("replay not supported for", pid)
                return 2
            replay_fn(ctx, rec)
        else:
            run_fn(ctx, explain=a.explain) if a.explain else run_fn(ctx)
        return ctx.finish()
    except ImplementationCrash as e:
        # the interpreter died inside library code while this input was driven: a verdict on the implementation, with evidence
        ctx.violation("ImplementationCrash", {"meta": {"recipe": e.recipe, "nontrivial": True}})
        ctx.notes["implementation_crash"] = "a worker process died, or an exception raised inside library code escaped the driver; the remaining inputs of this run were not judged"
        return ctx.finish()
    except tlc.TLCFailure as e:
        print("MACHINERY-FAILURE %s: %s" % (pid, e))
        return 2
    except Exception:
        traceback.print_exc()
        print("MACHINERY-FAILURE %s: harness exception" % pid)
        return 2
